#!/bin/bash
# run_seeds.sh <tier> <seed>... : all checks for several VERIF_SEED values (shakes out generator artefacts); one line per check
tier=$1; shift
cd "$(dirname "$0")/.."
for s in "$@"; do
  echo "== seed $s"
  VERIF_SEED=$s bin/run_all.sh $tier
done
