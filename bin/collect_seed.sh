#!/bin/bash
# collect_seed.sh <ID>: copy a sub-agent's results out of its scratch worktree into /verif/seeded/_incoming and remove the worktree
set -e
id=$1
mkdir -p /verif/seeded/_incoming
for n in 1 2 3; do
  if [ -d /tmp/seed/$id/out/$n ]; then
    mkdir -p /verif/seeded/_incoming/$id-$n
    cp -r /tmp/seed/$id/out/$n/. /verif/seeded/_incoming/$id-$n/
  fi
done
git -C /repo worktree remove --force /tmp/seed/$id
ls /verif/seeded/_incoming
