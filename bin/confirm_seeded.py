#!/usr/bin/env python3
"""Confirms the seeded changes produced by the independent sub-agents (seeded/_incoming/<ID>-<n>/) in scratch worktrees
of /repo (under /tmp, removed afterwards) and files the confirmed ones as seeded/<ID>-<n>/ with a meta.json:
  1. the patch applies to /repo's HEAD, the library's whole test suite builds and passes with it;
  2. the demonstration fails with the patch;
  3. the demonstration passes without it.
usage: confirm_seeded.py [name ...]"""
import concurrent.futures
import json
import os
import re
import shutil
import subprocess
import sys

ROOT = '/verif'
INC = os.path.join(ROOT, 'seeded', '_incoming')
SCRATCH = '/tmp/seedchk'


def sh(cmd, cwd=None, timeout=1800):
    p = subprocess.run(cmd, cwd=cwd, stdout=subprocess.PIPE, stderr=subprocess.STDOUT, text=True, shell=isinstance(cmd, str), timeout=timeout)
    return p.returncode, p.stdout


def demo_cmds(d, wt):
    """how to build and run the demonstration (from notes.md when it says so)"""
    notes = open(os.path.join(d, 'notes.md')).read() if os.path.exists(os.path.join(d, 'notes.md')) else ''
    if os.path.exists(os.path.join(d, 'demo.sh')):
        return None, f'sh {d}/demo.sh {wt}'
    cxx = 'g++'
    flags = '-std=c++17 -O1 -g'
    if re.search(r'clang\+\+[^\n]*-fsanitize=thread', notes) or 'fsanitize=thread' in notes:
        cxx, flags = 'clang++', '-std=c++17 -O1 -g -fsanitize=thread -pthread'
    elif '-pthread' in notes:
        flags += ' -pthread'
    exe = os.path.join(wt, 'demo_bin')
    return f'{cxx} {flags} -I{wt}/src {d}/demo.cpp -o {exe}', f'timeout 120 {exe}'


def confirm(name):
    d = os.path.join(INC, name)
    wt = os.path.join(SCRATCH, name)
    res = {'name': name, 'property': name.split('-')[0]}
    try:
        sh(['git', '-C', '/repo', 'worktree', 'remove', '--force', wt])
        rc, out = sh(['git', '-C', '/repo', 'worktree', 'add', '--detach', wt, 'HEAD'])
        if rc != 0:
            res['error'] = 'worktree: ' + out[-300:]
            return res
        build, run = demo_cmds(d, wt)
        # 3. demo on the unchanged library
        if build:
            rc, out = sh(build)
            res['demo_builds_unchanged'] = rc == 0
        rc0, out0 = sh(run)
        res['demo_unchanged_rc'] = rc0
        # 1. patch + test suite
        rc, out = sh(['git', '-C', wt, 'apply', os.path.join(d, 'patch.diff')])
        res['patch_applies'] = rc == 0
        if rc != 0:
            res['error'] = out[-300:]
            return res
        rc, out = sh(f'cmake -G Ninja -B {wt}/_build -S {wt} -DCMAKE_BUILD_TYPE=RelWithDebInfo -DCMAKE_CXX_FLAGS=-Wno-error -DKDBindings_TESTS=ON '
                     f'-DKDBindings_EXAMPLES=OFF >/dev/null && cmake --build {wt}/_build 2>&1 | tail -3 && ctest --test-dir {wt}/_build -j4 2>&1 | tail -4')
        res['suite_passes_with_patch'] = '100% tests passed' in out
        res['suite_tail'] = out[-200:]
        # 2. demo with the patch
        if build:
            rc, out = sh(build)
            res['demo_builds_patched'] = rc == 0
        rc1, out1 = sh(run)
        res['demo_patched_rc'] = rc1
        res['demo_patched_tail'] = out1[-400:]
        res['confirmed'] = bool(res['suite_passes_with_patch'] and rc0 == 0 and rc1 != 0)
        res['ran'] = {'suite': 'cmake -G Ninja -B _build -DCMAKE_BUILD_TYPE=RelWithDebInfo -DKDBindings_TESTS=ON; cmake --build _build; ctest --test-dir _build',
                      'demo_build': build, 'demo_run': run}
    finally:
        sh(['git', '-C', '/repo', 'worktree', 'remove', '--force', wt])
        shutil.rmtree(wt, ignore_errors=True)
    return res


def main():
    global INC
    os.makedirs(SCRATCH, exist_ok=True)
    if sys.argv[1:2] == ['--recheck']:
        # re-confirm changes that are already filed (after /repo's HEAD moved): nothing is copied, only reported
        INC = os.path.join(ROOT, 'seeded')
        names = sys.argv[2:] or sorted(n for n in os.listdir(INC) if re.fullmatch(r'C\d\d-\d', n))
        with concurrent.futures.ThreadPoolExecutor(max_workers=6) as ex:
            results = list(ex.map(confirm, names))
        for r in results:
            print(json.dumps({k: r.get(k) for k in ('name', 'patch_applies', 'suite_passes_with_patch', 'demo_unchanged_rc', 'demo_patched_rc', 'confirmed', 'error')}))
        shutil.rmtree(SCRATCH, ignore_errors=True)
        return
    names = sys.argv[1:] or sorted(n for n in os.listdir(INC) if re.fullmatch(r'C\d\d-\d', n))
    with concurrent.futures.ThreadPoolExecutor(max_workers=4) as ex:
        results = list(ex.map(confirm, names))
    for r in results:
        print(json.dumps({k: r.get(k) for k in ('name', 'patch_applies', 'suite_passes_with_patch', 'demo_unchanged_rc', 'demo_patched_rc', 'confirmed', 'error')}))
        if r.get('confirmed'):
            src = os.path.join(INC, r['name'])
            dst = os.path.join(ROOT, 'seeded', r['name'])
            shutil.rmtree(dst, ignore_errors=True)
            shutil.copytree(src, dst)
            notes = open(os.path.join(src, 'notes.md')).read() if os.path.exists(os.path.join(src, 'notes.md')) else ''
            meta = {'breaks_property': r['property'], 'source': 'independent sub-agent given only the property text and a scratch worktree',
                    'needs_to_manifest': notes[:1500], 'confirmed_in_scratch_worktree': True,
                    'suite_passes_with_patch': r['suite_passes_with_patch'], 'demo_rc_unchanged': r['demo_unchanged_rc'],
                    'demo_rc_patched': r['demo_patched_rc'], 'ran': r['ran']}
            json.dump(meta, open(os.path.join(dst, 'meta.json'), 'w'), indent=1)
    shutil.rmtree(SCRATCH, ignore_errors=True)


if __name__ == '__main__':
    main()
