"""Shared machinery of bin/verif: builds (Coq, extraction, OCaml driver, C++ harness), correspondence runs,
shrinking, evidence writing."""
import hashlib
import json
import os
import re
import shutil
import subprocess
import sys
import time

ROOT = os.environ.get('VERIF_ROOT') or os.path.dirname(os.path.dirname(os.path.abspath(__file__)))
REPO = '/repo'
OUT = os.path.join(ROOT, 'out')
COQ = os.path.join(ROOT, 'coq')
CXXFLAGS = ['-std=c++17', '-O1', '-g', '-fsanitize=address,undefined', '-fno-sanitize-recover=all',
            '-I' + os.path.join(REPO, 'src')]


def sh(cmd, cwd=None, timeout=1800, env=None, input=None):
    try:
        p = subprocess.run(cmd, cwd=cwd, stdout=subprocess.PIPE, stderr=subprocess.STDOUT, timeout=timeout,
                           env=env, input=input, text=True, shell=isinstance(cmd, str), errors='replace')
    except subprocess.TimeoutExpired as t:
        # a command that does not come back (e.g. a corrupted container walked for ever) is a failure with exit status 124, not a crash of the check
        o = t.stdout or ''
        if isinstance(o, bytes):
            o = o.decode(errors='replace')
        return 124, o + f'\nTIMEOUT: no result after {timeout} s: ' + (cmd if isinstance(cmd, str) else ' '.join(map(str, cmd)))
    return p.returncode, p.stdout


def repo_fingerprint():
    """hash of the library headers as they are now in /repo's working tree"""
    h = hashlib.sha256()
    d = os.path.join(REPO, 'src', 'kdbindings')
    for f in sorted(os.listdir(d)):
        if f.endswith('.h'):
            h.update(f.encode())
            h.update(open(os.path.join(d, f), 'rb').read())
    return h.hexdigest()[:16]


# ---------------------------------------------------------------------------------------------------
# Coq
# ---------------------------------------------------------------------------------------------------
def coq_make(targets, timeout=1500):
    """full .vo build of the given targets (never -vos); returns (ok, log)"""
    if not os.path.exists(os.path.join(COQ, 'Makefile')) or \
            os.path.getmtime(os.path.join(COQ, 'Makefile')) < os.path.getmtime(os.path.join(COQ, '_CoqProject')):
        rc, out = sh(['coq_makefile', '-f', '_CoqProject', '-o', 'Makefile'], cwd=COQ)
        if rc != 0:
            return False, out
    rc, out = sh(['timeout', str(timeout), 'make', '-k', '-j16'] + targets, cwd=COQ, timeout=timeout + 30)
    return rc == 0, out


def forbidden_scan():
    """no Admitted/admit/Axiom/Parameter/... anywhere in the development"""
    bad = []
    pat = re.compile(r'\b(Admitted|admit|Axiom|Axioms|Parameter|Parameters|Conjecture|Abort All|Unset Guard Checking|'
                     r'Unset Positivity Checking|Unset Universe Checking|bypass_check|Admit Obligations|native_compute)\b')
    for dp, dn, fn in os.walk(COQ):
        for f in fn:
            if f.endswith('.v'):
                txt = open(os.path.join(dp, f)).read()
                # strip comments (non-nested approximation is enough: we never write these words in comments)
                for i, line in enumerate(txt.split('\n')):
                    m = pat.search(line)
                    if m and not line.strip().startswith('(*'):
                        bad.append(f"{os.path.join(dp, f)}:{i + 1}: {m.group(1)}")
    return bad


def theorems_in(vfile):
    txt = open(vfile).read()
    return re.findall(r'^\s*(?:Theorem|Example)\s+([A-Za-z0-9_\']+)', txt, re.M)


def parse_assumptions(log):
    """returns dict theorem-ish -> text of each 'Print Assumptions' answer in a coqc log"""
    res = []
    cur = None
    for line in log.split('\n'):
        if line.startswith('Closed under the global context'):
            res.append('Closed under the global context')
        elif line.startswith('Axioms:'):
            cur = []
            res.append(cur)
        elif cur is not None:
            if line.startswith(' ') or line.strip() == '' and False:
                cur.append(line.strip())
            elif re.match(r'^[A-Za-z_][A-Za-z0-9_.\']* :', line) or line.startswith('  '):
                cur.append(line.strip())
            else:
                cur = None
    return [r if isinstance(r, str) else 'Axioms: ' + ' | '.join(r) for r in res]


def check_properties_file(pid, extra_targets=()):
    """Compile Properties_<pid>.v (and what it needs) from scratch for that file; returns dict"""
    vo = f'Properties_{pid}.vo'
    v = os.path.join(COQ, f'Properties_{pid}.v')
    # always recompile the properties file itself so that Print Assumptions output is captured
    for ext in ('.vo', '.vok', '.vos', '.glob'):
        try:
            os.remove(os.path.join(COQ, f'Properties_{pid}{ext}'))
        except FileNotFoundError:
            pass
    ok, log = coq_make(list(extra_targets) + [vo])
    names = theorems_in(v)
    thms = [n for n in names]
    assumptions = parse_assumptions(log) if ok else []
    failed = None
    if not ok:
        m = re.search(r'File "\./([^"]+)", line (\d+)', log)
        failed = (m.group(1) + ':' + m.group(2)) if m else 'unknown'
    res = {'ok': ok, 'log': log, 'theorems': thms, 'assumptions': assumptions, 'failed_at': failed}
    if ok and os.environ.get('VERIF_COQCHK') == '1':
        # thorough tier: the compiled file and everything it depends on, re-checked by Coq's independent checker
        rc, out = sh(['timeout', '1500', 'coqchk', '-silent', '-o', '-Q', '.', 'KDB', f'KDB.Properties_{pid}'], cwd=COQ, timeout=1600)
        summary = out[out.find('CONTEXT SUMMARY'):] if 'CONTEXT SUMMARY' in out else out[-1500:]
        res['coqchk'] = ' '.join(summary.split())[:1200]
        res['assumptions'] = list(assumptions) + ['coqchk -o (independent checker, whole dependency cone): ' + res['coqchk']]
        if rc != 0 or '* Axioms: <none>' not in summary:
            res['ok'] = False
            res['log'] += '\ncoqchk:\n' + out[-3000:]
            res['failed_at'] = 'coqchk'
    return res


# ---------------------------------------------------------------------------------------------------
# extraction + OCaml drivers
# ---------------------------------------------------------------------------------------------------
def build_driver(name, extract_v, driver_ml, modname):
    """extract coq/<extract_v> into out/extract/<name>/ and build driver; returns (ok, log, exe)"""
    d = os.path.join(OUT, 'extract', name)
    os.makedirs(d, exist_ok=True)
    exe = os.path.join(d, name)
    src_v = os.path.join(COQ, extract_v)
    src_ml = os.path.join(ROOT, 'driver', driver_ml)
    stamp = os.path.join(d, 'stamp')
    # the libraries the extraction file loads must be current (a regenerated or edited .v file makes its dependants stale)
    rc, dep = sh(['coqdep', '-Q', '.', 'KDB', extract_v], cwd=COQ)
    need = sorted({os.path.basename(t) for t in re.findall(r'(\S+\.vo)\b', dep.split(':', 1)[1] if ':' in dep else '')
                   if os.path.basename(t) != extract_v[:-2] + '.vo'})
    if need:
        okm, mlog = coq_make(need)
        if not okm:
            return False, mlog, exe
    deps = [src_v, src_ml] + [os.path.join(COQ, f) for f in os.listdir(COQ) if f.endswith('.vo')]
    newest = max(os.path.getmtime(p) for p in deps)
    if os.path.exists(exe) and os.path.exists(stamp) and os.path.getmtime(stamp) >= newest:
        return True, 'up to date', exe
    rc, out = sh(['timeout', '600', 'coqc', '-Q', COQ, 'KDB', src_v], cwd=d)
    # coqc drops the .vo/.glob next to the source: remove them, only the .ml/.mli matter
    for ext in ('.vo', '.vok', '.vos', '.glob'):
        try:
            os.remove(src_v[:-2] + ext)
        except FileNotFoundError:
            pass
    if rc != 0:
        return False, out, exe
    shutil.copy(src_ml, d)
    rc, out2 = sh(['ocamlfind', 'ocamlopt', '-w', '-a', '-O3' if False else '-inline', '100', modname + '.mli', modname + '.ml',
                   driver_ml, '-o', name], cwd=d)
    if rc != 0:
        return False, out + out2, exe
    open(stamp, 'w').write(str(time.time()))
    return True, out + out2, exe


# ---------------------------------------------------------------------------------------------------
# C++ harnesses (always rebuilt when /repo's headers or the harness source changed)
# ---------------------------------------------------------------------------------------------------
def build_harness(name, src, extra=(), compiler='g++', flags=None):
    d = os.path.join(OUT, 'bin')
    os.makedirs(d, exist_ok=True)
    exe = os.path.join(d, name)
    fp = repo_fingerprint() + hashlib.sha256(open(src, 'rb').read()).hexdigest()[:16] + compiler + str(flags)
    stamp = exe + '.stamp'
    if os.path.exists(exe) and os.path.exists(stamp) and open(stamp).read() == fp:
        return True, 'up to date', exe
    cmd = [compiler] + (flags if flags is not None else CXXFLAGS) + [src, '-o', exe] + list(extra)
    rc, out = sh(cmd, timeout=900)
    if rc != 0:
        return False, out, exe
    open(stamp, 'w').write(fp)
    return True, out, exe


def run_blocks(exe, files, timeout=60, env=None, single_timeout=15):
    """run exe on the script files; returns dict file -> (list of output lines, stderr-ish tail or None).
    Falls back to one process per file when the batch dies (sanitizer abort)."""
    res = {}

    def parse(outtxt):
        cur = None
        blocks = {}
        for line in outtxt.split('\n'):
            if line.startswith('== '):
                cur = line[3:].strip()
                blocks[cur] = []
            elif cur is not None and line != '':
                blocks[cur].append(line)
        return blocks

    e = dict(os.environ)
    e['ASAN_OPTIONS'] = 'detect_leaks=1:abort_on_error=0:exitcode=99'
    e['UBSAN_OPTIONS'] = 'print_stacktrace=1:exitcode=98'
    if env:
        e.update(env)
    CH = 40
    for i in range(0, len(files), CH):
        chunk = files[i:i + CH]
        try:
            p = subprocess.run([exe] + chunk, stdout=subprocess.PIPE, stderr=subprocess.PIPE, timeout=timeout, env=e, text=True,
                               errors='replace')
            rc, o, err = p.returncode, p.stdout, p.stderr
        except subprocess.TimeoutExpired as t:
            rc, o, err = 124, (t.stdout or b'').decode(errors='replace') if isinstance(t.stdout, bytes) else (t.stdout or ''), 'TIMEOUT'
        if rc == 0:
            b = parse(o)
            for f in chunk:
                res[f] = (b.get(f, []), None)
        else:
            for f in chunk:
                try:
                    p = subprocess.run([exe, f], stdout=subprocess.PIPE, stderr=subprocess.PIPE, timeout=single_timeout, env=e,
                                       text=True, errors='replace')
                    rc1, o1, err1 = p.returncode, p.stdout, p.stderr
                except subprocess.TimeoutExpired as t:
                    o1 = t.stdout.decode(errors='replace') if isinstance(t.stdout, bytes) else (t.stdout or '')
                    rc1, err1 = 124, 'TIMEOUT (hang)'
                b = parse(o1)
                lines = b.get(f, [])
                if rc1 == 124:
                    lines = lines[:2000]
                if rc1 != 0:
                    lines = lines + [f'crash rc={rc1}']
                    res[f] = (lines, err1[-3000:])
                else:
                    res[f] = (lines, None)
    return res


def first_diff(a, b):
    for i in range(max(len(a), len(b))):
        x = a[i] if i < len(a) else '<end>'
        y = b[i] if i < len(b) else '<end>'
        if x != y:
            return i, x, y
    return None


# ---------------------------------------------------------------------------------------------------
# evidence
# ---------------------------------------------------------------------------------------------------
def write_evidence(pid, tier, seed, level, coverage, wall, violations, assumptions):
    os.makedirs(os.path.join(ROOT, 'evidence'), exist_ok=True)
    ev = {'property_id': pid, 'tier': tier, 'seed': seed, 'level': level, 'coverage': coverage,
          'assumptions': assumptions, 'wall_s': round(wall, 2), 'violations': violations}
    with open(os.path.join(ROOT, 'evidence', pid + '.json'), 'w') as f:
        json.dump(ev, f, indent=1)
        f.write('\n')


def load_known_findings():
    p = os.path.join(ROOT, 'known_findings.json')
    return json.load(open(p))['entries']
