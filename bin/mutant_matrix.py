#!/usr/bin/env python3
"""Applies every seeded change (seeded/<ID>-<n>/patch.diff) to /repo in turn, runs the quick check of the property it breaks,
restores /repo straight afterwards and records what the check said in seeded/<ID>-<n>/detect.json and seeded/MATRIX.md.
Never commits anything in /repo.  usage: mutant_matrix.py [--tier quick|thorough] [name ...]"""
import json
import os
import re
import subprocess
import sys
import time

ROOT = '/verif'


def sh(cmd, timeout=3600):
    p = subprocess.run(cmd, stdout=subprocess.PIPE, stderr=subprocess.STDOUT, text=True, timeout=timeout)
    return p.returncode, p.stdout


def main():
    args = sys.argv[1:]
    tier = 'quick'
    if args[:1] == ['--tier']:
        tier = args[1]
        args = args[2:]
    names = args or sorted(n for n in os.listdir(os.path.join(ROOT, 'seeded')) if re.fullmatch(r'C\d\d-\d', n))
    rc, out = sh(['git', '-C', '/repo', 'status', '--porcelain', '--untracked-files=no'])
    if out.strip():
        print('refusing: /repo has local modifications\n' + out)
        return 2
    rows = []
    for name in names:
        pid = name.split('-')[0]
        patch = os.path.join(ROOT, 'seeded', name, 'patch.diff')
        rc, out = sh(['git', '-C', '/repo', 'apply', patch])
        if rc != 0:
            rows.append((name, 'APPLY-FAILED', '', 0))
            continue
        t0 = time.time()
        try:
            rc, out = sh([os.path.join(ROOT, 'bin', 'verif'), 'check', pid, '--tier', tier])
        finally:
            sh(['git', '-C', '/repo', 'checkout', '--', '.'])
            # the evidence file now describes the changed tree: put the committed one (unchanged tree) back
            sh(['git', '-C', ROOT, 'checkout', '--', f'evidence/{pid}.json'])
        wall = round(time.time() - t0, 1)
        viol = [l for l in out.split('\n') if l.startswith('VIOLATION')]
        summary = [l for l in out.split('\n') if l.startswith('[')]
        how = 'MISSED'
        if rc != 0 and viol:
            how = 'no-failing-input-found' if all(v.rstrip().endswith('no-failing-input-found') for v in viol) else 'failing-input'
        # the minimised failing history becomes a corpus case of that property (corpus cases run first in every later check)
        kept = None
        if how == 'failing-input':
            m = re.search(r'replay=(\S+\.script)', viol[0])
            if m and os.path.exists(m.group(1)):
                txt = open(m.group(1)).read()
                lm = re.search(r'layer=(\w+)', txt.split('\n')[0])
                if lm:
                    cdir = os.path.join(ROOT, 'corpus', pid, lm.group(1))
                    os.makedirs(cdir, exist_ok=True)
                    kept = os.path.join(cdir, name + '.script')
                    body = '\n'.join(l for l in txt.split('\n') if not l.startswith('#'))
                    open(kept, 'w').write(f'# minimised failing history of seeded change {name} (agrees with the model on the unchanged library)\n' + body)
        det = {'property': pid, 'tier': tier, 'exit': rc, 'violation_lines': viol, 'summary': summary, 'verdict': how, 'wall_s': wall,
               'corpus_case': os.path.relpath(kept, ROOT) if kept else None,
               'ran': f'git -C /repo apply seeded/{name}/patch.diff; bin/verif check {pid} --tier {tier}; git -C /repo checkout -- .'}
        json.dump(det, open(os.path.join(ROOT, 'seeded', name, 'detect.json'), 'w'), indent=1)
        rows.append((name, how, viol[0] if viol else '', wall))
        print(name, how, wall, viol[0] if viol else '', flush=True)
    sh([os.path.join(ROOT, 'bin', 'verif'), 'regen'])
    allnames = sorted(n for n in os.listdir(os.path.join(ROOT, 'seeded')) if re.fullmatch(r'C\d\d-\d', n))
    with open(os.path.join(ROOT, 'seeded', 'MATRIX.md'), 'w') as f:
        f.write('# seeded changes against the check of the property they break (from seeded/<name>/detect.json)\n\n')
        f.write('| change | tier | verdict | first VIOLATION line | wall s |\n|---|---|---|---|---|\n')
        for n in allnames:
            p = os.path.join(ROOT, 'seeded', n, 'detect.json')
            if os.path.exists(p):
                d = json.load(open(p))
                v = d['violation_lines'][0] if d['violation_lines'] else ''
                f.write(f"| {n} | {d['tier']} | {d['verdict']} | `{v}` | {d['wall_s']} |\n")
    missed = [r[0] for r in rows if r[1] in ('MISSED', 'APPLY-FAILED')]
    print('missed:', missed)
    return 1 if missed else 0


if __name__ == '__main__':
    sys.exit(main())
