"""Checks for the properties whose tie is a translator (clang AST -> coq/generated/*.v) plus a compile/run grid:
C14 (operators and functions), C18 (connect adapts callables), C20 (l-value arguments), C17 (thread confinement)."""
import concurrent.futures
import os
import re
import sys
import time

import veriflib as V

ROOT = V.ROOT
GRID_FLAGS = ['-std=c++17', '-O0', '-fsanitize=undefined', '-fno-sanitize=bool', '-fno-sanitize-recover=all',
              '-I' + os.path.join(V.REPO, 'src')]

UNARY = [('not', '!'), ('compl', '~'), ('plus', '+'), ('minus', '-')]
BINARY = [('mul', '*', 'Arith'), ('div', '/', 'Div'), ('mod', '%', 'Div'), ('add', '+', 'Arith'), ('sub', '-', 'Arith'),
          ('shl', '<<', 'Shift'), ('shr', '>>', 'Shift'), ('lt', '<', 'Other'), ('le', '<=', 'Other'), ('gt', '>', 'Other'),
          ('ge', '>=', 'Other'), ('eq', '==', 'Other'), ('ne', '!=', 'Other'), ('band', '&', 'Other'), ('bxor', '^', 'Other'),
          ('bor', '|', 'Other'), ('land', '&&', 'Other'), ('lor', '||', 'Other')]
QUICK_PAIRS = [('int', 'int'), ('int', 'double'), ('unsigned', 'int'), ('char', 'int'), ('bool', 'int'),
               ('double', 'double'), ('short', 'short')]
ALL_TYPES = ['bool', 'signed char', 'unsigned char', 'short', 'unsigned short', 'int', 'unsigned', 'long',
             'unsigned long', 'long long', 'float', 'double']
QUICK_UNARY_TYPES = ['bool', 'char', 'int', 'unsigned', 'double', 'short']


def compile_and_run(job):
    src, exe, flags, incs = job
    t0 = time.time()
    rc, out = V.sh(['g++'] + flags + ['-I' + i for i in incs] + [src, '-o', exe], timeout=1500)
    if rc != 0:
        return dict(src=src, stage='compile', rc=rc, out=out[-3000:], wall=time.time() - t0)
    rc, out = V.sh([exe], timeout=600)
    return dict(src=src, stage='run', rc=rc, out=out[-6000:], wall=time.time() - t0)


def run_jobs(jobs, workers=16):
    with concurrent.futures.ThreadPoolExecutor(max_workers=workers) as ex:
        return list(ex.map(compile_and_run, jobs))


def ident(t):
    return t.replace(' ', '_')


def check_c14(tier, seed):
    t0 = time.time()
    pid = 'C14'
    out = os.path.join(V.OUT, pid)
    os.makedirs(out, exist_ok=True)
    notes, violations = [], []
    sys.path.insert(0, os.path.join(ROOT, 'translate'))
    import opstable
    import fntable
    ok1, m1 = opstable.run()
    ok2, m2 = fntable.run()
    notes += ['opstable: ' + m1, 'fntable: ' + m2]
    bad = V.forbidden_scan()
    pr = V.check_properties_file(pid)
    obligations = len(pr['theorems'])
    proof_ok = pr['ok'] and not bad and ok1 and ok2
    # grid
    gdir = os.path.join(out, 'grid')
    os.makedirs(gdir, exist_ok=True)
    inc = os.path.join(ROOT, 'harness', 'c14')
    pairs = QUICK_PAIRS if tier == 'quick' else [(a, b) for a in ALL_TYPES for b in ALL_TYPES]
    utypes = QUICK_UNARY_TYPES if tier == 'quick' else ALL_TYPES
    jobs = []
    for name, op, cls in BINARY:
        chunks = [pairs] if tier == 'quick' else [pairs[i:i + 24] for i in range(0, len(pairs), 24)]
        for ci, chunk in enumerate(chunks):
            src = os.path.join(gdir, f'bin_{name}_{ci}.cpp')
            with open(src, 'w') as f:
                f.write('#include "grid.h"\n')
                f.write(f'C14_BINARY({name}, {op}, OpClass::{cls})\nint main()\n{{\n')
                for a, b in chunk:
                    f.write(f'    test_{name}<{a}, {b}>("{a}", "{b}");\n')
                f.write('    std::printf("cells %ld failures %ld\\n", g_cells, g_fail);\n    return g_fail ? 1 : 0;\n}\n')
            jobs.append((src, src[:-4], GRID_FLAGS, [inc]))
    src = os.path.join(gdir, 'unary.cpp')
    with open(src, 'w') as f:
        f.write('#include "grid.h"\n')
        for name, op in UNARY:
            f.write(f'C14_UNARY({name}, {op})\n')
        f.write('int main()\n{\n')
        for name, op in UNARY:
            for t in utypes:
                f.write(f'    utest_{name}<{t}>("{t}");\n')
        f.write('    std::printf("cells %ld failures %ld\\n", g_cells, g_fail);\n    return g_fail ? 1 : 0;\n}\n')
    jobs.append((src, src[:-4], GRID_FLAGS, [inc]))
    for extra in ('functions.cpp', 'nested.cpp'):
        jobs.append((os.path.join(inc, extra), os.path.join(gdir, extra[:-4]), GRID_FLAGS, [inc]))
    results = run_jobs(jobs)
    cells = 0
    failures = []
    for r in results:
        m = re.search(r'cells (\d+) failures (\d+)', r['out'])
        if m:
            cells += int(m.group(1))
        if r['rc'] != 0:
            failures.append(r)
    samples = [{'program': os.path.basename(jobs[0][0]), 'first_lines': open(jobs[0][0]).read().split('\n')[:8]}]
    if failures:
        r = failures[0]
        replay = os.path.join(out, f'replay_{seed}.txt')
        with open(replay, 'w') as f:
            f.write(f'# property=C14: {r["stage"]} of {r["src"]} failed (rc={r["rc"]}); reproduce with\n')
            f.write(f'#   g++ {" ".join(GRID_FLAGS)} -I{inc} {r["src"]} -o /tmp/c14 && /tmp/c14\n')
            f.write(r['out'])
        violations.append(('grid', replay, f'{len(failures)} of {len(jobs)} grid programs fail'))
    if not proof_ok and not failures:
        replay = os.path.join(out, f'proof_broken_{seed}.txt')
        with open(replay, 'w') as f:
            f.write('property C14: the table regenerated from the current source no longer passes the wiring / completeness check\n')
            f.write(f'(coq/Properties_C14.v, failed at {pr.get("failed_at")}); translators: {m1}; {m2}; forbidden: {bad}\n\n')
            f.write(pr['log'][-4000:])
        violations.append(('proof', replay, 'no-failing-input-found'))
    wall = time.time() - t0
    coverage = {
        'obligations': obligations, 'discharged': obligations if proof_ok else 0,
        'checker_cmd': 'python3 translate/opstable.py && python3 translate/fntable.py && cd coq && make -k Properties_C14.vo',
        'trusted_base': ['Coq 8.16.1 kernel; vm_compute for the finite sweeps over the regenerated tables',
                         'translate/opstable.py, translate/fntable.py over clang 14 JSON AST (unknown constructs are emitted as "?" / 99 and fail the check)',
                         'g++ 12 as the reference for what the plain C++ operator computes (the grid compares the library with the same compiler)',
                         'Print Assumptions: ' + '; '.join(sorted(set(pr['assumptions'])))],
        'theorems': pr['theorems'],
        'programs': len(jobs), 'disagreements_checked': cells,
        'evaluations': cells, 'distinct_nontrivial': cells,
        'rule': 'one cell = one (operator or function, operand-kind combination, operand type pair, operand value pair): static result '
                'type by static_assert, value initially and after each input change; every cell is distinct by construction and non-trivial '
                '(it evaluates the expression through a bound property)',
        'exhaustive': True,
        'grid': {'binary_ops': len(BINARY), 'unary_ops': len(UNARY), 'functions': 9, 'type_pairs': [list(p) for p in pairs[:40]],
                 'kinds': 8, 'nested_scenarios': 6},
        'samples': samples,
        'source_fingerprint': V.repo_fingerprint(),
        'notes': notes,
    }
    V.write_evidence(pid, tier, seed, 'proof', coverage, wall, len(violations),
                     ['the semantics of the C++ operators themselves is a parameter of the theorems (any interpretation)',
                      'compiler behaviour (promotions, result types) is validated on the stated finite grid only'])
    for kind, rp, what in violations:
        print(f'VIOLATION property={pid} replay={rp}' + (' no-failing-input-found' if kind == 'proof' else ''))
    print(f'[{pid}] theorems={obligations} discharged={obligations if proof_ok else 0} programs={len(jobs)} cells={cells} '
          f'failing_programs={len(failures)} wall={wall:.1f}s')
    return 1 if violations else 0


# ---------------------------------------------------------------------------------------------------------------
# C18
# ---------------------------------------------------------------------------------------------------------------
C18_PRELUDE = '#include <kdbindings/binding.h>\n#include <string>\nusing namespace KDBindings;\n'
C18_MUST_FAIL = [
    ('too_many_params', 'Signal<int> s; auto h = s.connect([](int, int) {});', 'Signal<int> s; auto h = s.connect([](int) {});'),
    ('too_many_bound', 'Signal<int> s; auto h = s.connect([](int) {}, 1, 2);', 'Signal<int> s; auto h = s.connect([](int) {}, 1);'),
    ('needs_more_than_emitted', 'Signal<> s; auto h = s.connect([](int, int) {}, 1);', 'Signal<> s; auto h = s.connect([](int, int) {}, 1, 2);'),
    ('rvalue_member_on_lvalue_object', 'struct O { void m(int) && {} }; O o; Signal<int> s; auto h = s.connect(&O::m, &o);',
     'struct O { void m(int) & {} }; O o; Signal<int> s; auto h = s.connect(&O::m, &o);'),
    ('unconvertible_parameter', 'Signal<std::string> s; auto h = s.connect([](int *) {});', 'Signal<std::string> s; auto h = s.connect([](std::string) {});'),
    ('rvalue_reference_parameter', 'Signal<int &&> s;', 'Signal<int &> s;'),
    ('rvalue_reference_parameter_among_others', 'Signal<int, std::string &&> s;', 'Signal<int, const std::string &> s;'),
    ('rvalue_reference_parameter_connect_only', 'Signal<int &&> s; auto h = s.connect([]() {});', 'Signal<int> s; auto h = s.connect([]() {});'),
    ('copy_construct_signal', 'Signal<int> a; Signal<int> b(a);', 'Signal<int> a; Signal<int> b(std::move(a));'),
    ('copy_assign_signal', 'Signal<int> a, b; b = a;', 'Signal<int> a, b; b = std::move(a);'),
    ('copy_construct_property', 'Property<int> a{ 1 }; Property<int> b(a);', 'Property<int> a{ 1 }; Property<int> b(std::move(a));'),
    ('copy_assign_property', 'Property<int> a{ 1 }, b{ 2 }; b = a;', 'Property<int> a{ 1 }, b{ 2 }; b = std::move(a);'),
    ('copy_construct_scoped_connection', 'ScopedConnection a; ScopedConnection b(a);', 'ScopedConnection a; ScopedConnection b(std::move(a));'),
    ('copy_assign_scoped_connection', 'ScopedConnection a, b; b = a;', 'ScopedConnection a, b; b = std::move(a);'),
    ('copy_construct_binding', 'Property<int> p{ 1 }; auto b = makeBinding(p); Binding<int, ImmediateBindingEvaluator> c(*b);',
     'Property<int> p{ 1 }; auto b = makeBinding(p);'),
    ('copy_assign_binding', 'Property<int> p{ 1 }; auto b = makeBinding(p); auto c = makeBinding(p); *c = *b;',
     'Property<int> p{ 1 }; auto b = makeBinding(p); auto c = makeBinding(p);'),
]


def syntax_only(job):
    src = job
    rc, out = V.sh(['g++', '-std=c++17', '-fsyntax-only', '-I' + os.path.join(V.REPO, 'src'), src], timeout=600)
    return src, rc, out[-1500:]


def check_c18(tier, seed):
    t0 = time.time()
    pid = 'C18'
    out = os.path.join(V.OUT, pid)
    gdir = os.path.join(out, 'grid')
    os.makedirs(gdir, exist_ok=True)
    notes, violations = [], []
    sys.path.insert(0, os.path.join(ROOT, 'translate'))
    import aritytable
    ok1, m1 = aritytable.run()
    notes.append('aritytable: ' + m1)
    bad = V.forbidden_scan()
    pr = V.check_properties_file(pid)
    obligations = len(pr['theorems'])
    proof_ok = pr['ok'] and not bad and ok1
    # positive grid
    pos = compile_and_run((os.path.join(ROOT, 'harness', 'c18', 'positive.cpp'), os.path.join(gdir, 'positive'),
                           ['-std=c++17', '-O0', '-fsanitize=undefined,address', '-fno-sanitize-recover=all', '-I' + os.path.join(V.REPO, 'src')], []))
    m = re.search(r'cells (\d+) failures (\d+)', pos['out'])
    cells = int(m.group(1)) if m else 0
    failing = []
    if pos['rc'] != 0:
        failing.append(('positive', pos['src'], pos['out']))
    # must-fail cells and their compiling twins
    srcs = []
    for name, badc, goodc in C18_MUST_FAIL:
        for kind, code in (('bad', badc), ('good', goodc)):
            src = os.path.join(gdir, f'{name}_{kind}.cpp')
            open(src, 'w').write(C18_PRELUDE + 'int main()\n{\n    ' + code + '\n    return 0;\n}\n')
            srcs.append(src)
    with concurrent.futures.ThreadPoolExecutor(max_workers=16) as ex:
        res = {s_: (rc, o) for s_, rc, o in ex.map(syntax_only, srcs)}
    for name, badc, goodc in C18_MUST_FAIL:
        rb = res[os.path.join(gdir, f'{name}_bad.cpp')]
        rg = res[os.path.join(gdir, f'{name}_good.cpp')]
        cells += 2
        if rb[0] == 0:
            failing.append((name, os.path.join(gdir, f'{name}_bad.cpp'), 'ill-formed use was ACCEPTED by the compiler:\n    ' + badc))
        if rg[0] != 0:
            failing.append((name, os.path.join(gdir, f'{name}_good.cpp'), 'the well-formed twin was rejected:\n    ' + goodc + '\n' + rg[1]))
    if failing:
        name, src, what = failing[0]
        replay = os.path.join(out, f'replay_{seed}.txt')
        with open(replay, 'w') as f:
            f.write(f'# property=C18 cell={name} source={src}\n{what}\n')
        violations.append(('grid', replay, f'{len(failing)} cells fail'))
    if not proof_ok and not failing:
        replay = os.path.join(out, f'proof_broken_{seed}.txt')
        with open(replay, 'w') as f:
            f.write('property C18: a table regenerated from the current headers no longer passes its check (coq/Properties_C18.v)\n')
            f.write(f'failed at {pr.get("failed_at")}; translator: {m1}; forbidden: {bad}\n\n' + pr['log'][-4000:])
        violations.append(('proof', replay, 'no-failing-input-found'))
    wall = time.time() - t0
    coverage = {
        'obligations': obligations, 'discharged': obligations if proof_ok else 0,
        'checker_cmd': 'python3 translate/aritytable.py && cd coq && make -k Properties_C18.vo',
        'trusted_base': ['Coq 8.16.1 kernel; vm_compute for the finite sweeps over the regenerated tables',
                         'translate/aritytable.py over clang 14 JSON AST and (for the static_assert condition) the source text',
                         'std::bind / std::function as specified by the standard; g++ 12 as the judge of well-formedness',
                         'Print Assumptions: ' + '; '.join(sorted(set(pr['assumptions'])))],
        'theorems': pr['theorems'],
        'programs': 1 + len(srcs), 'disagreements_checked': cells,
        'evaluations': cells, 'distinct_nontrivial': cells,
        'rule': 'positive cells: (callable shape, arity, bound count, signal arity) compiled, run with distinct values, bound l-values '
                'modified between connect and emit; negative cells: an ill-formed use must be rejected while a twin differing only in the '
                'offending detail compiles; all cells distinct by construction',
        'exhaustive': True,
        'samples': [{'must_fail': C18_MUST_FAIL[0][1], 'twin': C18_MUST_FAIL[0][2]}],
        'source_fingerprint': V.repo_fingerprint(), 'notes': notes,
    }
    V.write_evidence(pid, tier, seed, 'proof', coverage, wall, len(violations),
                     ['acceptance by the C++ type system is validated on the stated grid, not derived'])
    for kind, rp, what in violations:
        print(f'VIOLATION property={pid} replay={rp}' + (' no-failing-input-found' if kind == 'proof' else ''))
    print(f'[{pid}] theorems={obligations} discharged={obligations if proof_ok else 0} cells={cells} failing={len(failing)} wall={wall:.1f}s')
    return 1 if violations else 0


# ---------------------------------------------------------------------------------------------------------------
# C20
# ---------------------------------------------------------------------------------------------------------------
def check_c20(tier, seed):
    t0 = time.time()
    pid = 'C20'
    out = os.path.join(V.OUT, pid)
    os.makedirs(out, exist_ok=True)
    notes, violations = [], []
    sys.path.insert(0, os.path.join(ROOT, 'translate'))
    import forwarding
    import aritytable
    ok1, m1 = forwarding.run()
    ok2, m2 = aritytable.run()
    notes += ['forwarding: ' + m1, 'aritytable: ' + m2]
    bad = V.forbidden_scan()
    pr = V.check_properties_file(pid)
    obligations = len(pr['theorems'])
    proof_ok = pr['ok'] and not bad and ok1 and ok2
    jobs = [(os.path.join(ROOT, 'harness', 'c20', 'grid.cpp'), os.path.join(out, 'grid_gxx'),
             ['-std=c++17', '-O0', '-fsanitize=undefined,address', '-fno-sanitize-recover=all', '-I' + os.path.join(V.REPO, 'src')], [])]
    res = [compile_and_run(j) for j in jobs]
    if tier == 'thorough':
        rc, o = V.sh(['clang++', '-std=c++17', '-O1', '-fsanitize=undefined,address', '-I' + os.path.join(V.REPO, 'src'),
                      jobs[0][0], '-o', os.path.join(out, 'grid_clang')], timeout=900)
        if rc == 0:
            rc, o = V.sh([os.path.join(out, 'grid_clang')], timeout=300)
        res.append(dict(src=jobs[0][0] + ' (clang++)', stage='run', rc=rc, out=o[-4000:], wall=0))
    cells = 0
    failing = []
    for r in res:
        m = re.search(r'cells (\d+) failures (\d+)', r['out'])
        if m:
            cells += int(m.group(1))
        if r['rc'] != 0:
            failing.append(r)
    if failing:
        r = failing[0]
        replay = os.path.join(out, f'replay_{seed}.txt')
        with open(replay, 'w') as f:
            f.write(f'# property=C20: {r["stage"]} of {r["src"]} failed (rc={r["rc"]}): a caller-supplied l-value was altered\n')
            f.write(f'#   g++ -std=c++17 -fsanitize=undefined,address -I/repo/src {jobs[0][0]} -o /tmp/c20 && /tmp/c20\n')
            f.write(r['out'])
        violations.append(('grid', replay, 'grid failed'))
    if not proof_ok and not failing:
        replay = os.path.join(out, f'proof_broken_{seed}.txt')
        with open(replay, 'w') as f:
            f.write('property C20: the forwarding facts regenerated from the current headers no longer pass the check (coq/Properties_C20.v)\n')
            f.write(f'failed at {pr.get("failed_at")}; translators: {m1}; {m2}; forbidden: {bad}\n\n' + pr['log'][-4000:])
        violations.append(('proof', replay, 'no-failing-input-found'))
    wall = time.time() - t0
    coverage = {
        'obligations': obligations, 'discharged': obligations if proof_ok else 0,
        'checker_cmd': 'python3 translate/forwarding.py && python3 translate/aritytable.py && cd coq && make -k Properties_C20.vo',
        'trusted_base': ['Coq 8.16.1 kernel; vm_compute for the finite sweep over the regenerated site table',
                         'translate/forwarding.py: a static analysis over clang 14 JSON AST written for this task (which std::move/std::forward calls '
                         'apply to which reference parameter; sink resolution only for makeNode -> ConstantNode); unknown sinks fail the check',
                         'Print Assumptions: ' + '; '.join(sorted(set(pr['assumptions'])))],
        'theorems': pr['theorems'],
        'programs': len(res), 'disagreements_checked': cells, 'evaluations': cells, 'distinct_nontrivial': cells,
        'rule': 'one cell = (construction entry point, argument kind passed as l-value): the caller\'s object is compared with its state before '
                'and used again; entry points: connect, connectReflective, connectSingleShot, connectDeferred, connect with bound argument, '
                'Private::makeNode, makeBinding and makeBoundProperty with and without evaluator, operator expressions; argument kinds: stateful '
                'lambda, std::function, function object with mutable state, std::string / std::vector constants, evaluator, input properties',
        'exhaustive': True,
        'samples': [{'cell': 'makeBoundProperty(ev, memo, a, b) with Memo{mutable calls, cache}: memo.calls == 0 afterwards'}],
        'source_fingerprint': V.repo_fingerprint(), 'notes': notes,
    }
    V.write_evidence(pid, tier, seed, 'proof', coverage, wall, len(violations),
                     ['the extraction of forwarding facts is a static analysis written for this task (trusted); the grid is the search for a concrete altered argument'])
    for kind, rp, what in violations:
        print(f'VIOLATION property={pid} replay={rp}' + (' no-failing-input-found' if kind == 'proof' else ''))
    print(f'[{pid}] theorems={obligations} discharged={obligations if proof_ok else 0} cells={cells} failing={len(failing)} wall={wall:.1f}s')
    return 1 if violations else 0


# ---------------------------------------------------------------------------------------------------------------
# C17
# ---------------------------------------------------------------------------------------------------------------
def check_c17(tier, seed):
    t0 = time.time()
    pid = 'C17'
    out = os.path.join(V.OUT, pid)
    os.makedirs(out, exist_ok=True)
    notes, violations = [], []
    sys.path.insert(0, os.path.join(ROOT, 'translate'))
    import statics
    ok1, m1 = statics.run()
    notes.append('statics: ' + m1)
    bad = V.forbidden_scan()
    pr = V.check_properties_file(pid)
    obligations = len(pr['theorems'])
    proof_ok = pr['ok'] and not bad and ok1
    src = os.path.join(ROOT, 'harness', 'c17', 'threads.cpp')
    exe = os.path.join(out, 'threads_tsan')
    rc, o = V.sh(['clang++', '-std=c++17', '-O1', '-g', '-fsanitize=thread', '-pthread', '-I' + os.path.join(V.REPO, 'src'), src, '-o', exe], timeout=900)
    runs = []
    build_ok = rc == 0
    if not build_ok:
        notes.append('TSan workload does not build: ' + o[-1500:])
    else:
        nthreads, iters, reps = (8, 2000, 3) if tier == 'quick' else (16, 20000, 6)
        for r in range(reps):
            rc2, o2 = V.sh([exe, str(nthreads), str(iters), str(seed * 10 + r)], timeout=300 if tier == 'quick' else 1800)
            runs.append((rc2, o2[-5000:]))
    failing = [r for r in runs if r[0] != 0]
    if failing or not build_ok:
        replay = os.path.join(out, f'replay_{seed}.txt')
        with open(replay, 'w') as f:
            f.write(f'# property=C17: clang++ -std=c++17 -O1 -g -fsanitize=thread -pthread -I/repo/src {src} -o /tmp/c17 && /tmp/c17 8 2000 {seed * 10}\n')
            f.write(failing[0][1] if failing else o[-4000:])
        violations.append(('tsan' if failing else 'proof', replay, 'ThreadSanitizer report or wrong result' if failing else 'no-failing-input-found'))
    if not proof_ok and not failing and build_ok:
        replay = os.path.join(out, f'proof_broken_{seed}.txt')
        with open(replay, 'w') as f:
            f.write('property C17: the list of static-storage variables regenerated from the current headers contains one that is neither thread_local nor immutable\n')
            f.write(f'(coq/Properties_C17.v, failed at {pr.get("failed_at")}); translator: {m1}; forbidden: {bad}\n\n' + pr['log'][-4000:])
        violations.append(('proof', replay, 'no-failing-input-found'))
    wall = time.time() - t0
    total_iters = sum(1 for _ in runs)
    coverage = {
        'obligations': obligations, 'discharged': obligations if proof_ok else 0,
        'checker_cmd': 'python3 translate/statics.py && cd coq && make -k Properties_C17.vo',
        'trusted_base': ['Coq 8.16.1 kernel', 'translate/statics.py over clang 14 JSON AST (which variables have static or thread storage duration)',
                         'ThreadSanitizer (clang 14) as the observer of data races in the sampled executions',
                         'Print Assumptions: ' + '; '.join(sorted(set(pr['assumptions'])))],
        'theorems': pr['theorems'],
        'evaluations': len(runs), 'distinct_nontrivial': len(runs),
        'rule': 'one evaluation = one TSan run of N threads, each executing a disjoint workload (all connection flavours, recycling, '
                'blockers, scoped connections, moves, deferred connections with a thread-owned evaluator, immediate and evaluator-driven '
                'bindings, rebind/reset, property moves) for the stated number of iterations with a distinct seed',
        'samples': [{'threads': 8 if tier == 'quick' else 16, 'iterations_per_thread': 2000 if tier == 'quick' else 20000, 'output': runs[0][1].strip()[-200:] if runs else ''}],
        'source_fingerprint': V.repo_fingerprint(), 'notes': notes,
    }
    V.write_evidence(pid, tier, seed, 'proof', coverage, wall, len(violations),
                     ['the theorem is about the footprint discipline of the model; absence of any other hidden sharing in the binary is supported (AST sweep, TSan samples), not proved'])
    for kind, rp, what in violations:
        print(f'VIOLATION property={pid} replay={rp}' + (' no-failing-input-found' if kind == 'proof' else ''))
    print(f'[{pid}] theorems={obligations} discharged={obligations if proof_ok else 0} tsan_runs={len(runs)} failing={len(failing)} wall={wall:.1f}s')
    return 1 if violations else 0


# ---------------------------------------------------------------------------------------------------------------
# C08
# ---------------------------------------------------------------------------------------------------------------
def check_c08(tier, seed):
    t0 = time.time()
    pid = 'C08'
    out = os.path.join(V.OUT, pid)
    os.makedirs(out, exist_ok=True)
    notes, violations = [], []
    sys.path.insert(0, os.path.join(ROOT, 'translate'))
    import evalir
    ok1, m1 = evalir.run()
    notes.append('evalir: ' + m1)
    bad = V.forbidden_scan()
    pr = V.check_properties_file(pid)
    obligations = len(pr['theorems'])
    proof_ok = pr['ok'] and not bad and ok1
    src = os.path.join(ROOT, 'harness', 'c08', 'threads.cpp')
    exe = os.path.join(out, 'threads_tsan')
    rc, o = V.sh(['clang++', '-std=c++17', '-O1', '-g', '-fsanitize=thread', '-pthread', '-I' + os.path.join(V.REPO, 'src'), src, '-o', exe], timeout=900)
    build_ok = rc == 0
    runs = []
    if build_ok:
        reps, iters = (4, 2000) if tier == 'quick' else (12, 10000)
        with concurrent.futures.ThreadPoolExecutor(max_workers=4) as ex:
            runs = list(ex.map(lambda r: V.sh([exe, str(iters), str(seed * 100 + r)], timeout=1200), range(reps)))
    else:
        notes.append('real-thread harness does not build: ' + o[-1500:])
    failing = [r for r in runs if r[0] != 0]
    if failing or not build_ok:
        replay = os.path.join(out, f'replay_{seed}.txt')
        with open(replay, 'w') as f:
            f.write(f'# property=C08: clang++ -std=c++17 -O1 -g -fsanitize=thread -pthread -I/repo/src {src} -o /tmp/c08 && /tmp/c08 2000 {seed * 100}\n')
            f.write(failing[0][1][-5000:] if failing else o[-4000:])
        violations.append(('threads' if failing else 'proof', replay, 'real-thread run failed' if failing else 'no-failing-input-found'))
    if not proof_ok and not failing and build_ok:
        replay = os.path.join(out, f'proof_broken_{seed}.txt')
        with open(replay, 'w') as f:
            f.write('property C08: the IR regenerated from connection_evaluator.h is no longer the one the theorems were proved for, or violates the lock discipline\n')
            f.write(f'(coq/Properties_C08.v, failed at {pr.get("failed_at")}); translator: {m1}; forbidden: {bad}\n\n' + pr['log'][-4000:])
        violations.append(('proof', replay, 'no-failing-input-found'))
    wall = time.time() - t0
    coverage = {
        'obligations': obligations, 'discharged': obligations if proof_ok else 0,
        'checker_cmd': 'python3 translate/evalir.py && cd coq && make -k Properties_C08.vo',
        'trusted_base': ['Coq 8.16.1 kernel', 'translate/evalir.py over clang 14 JSON AST (statement shapes of the three methods; anything else becomes IUnknown)',
                         'assumed: std::recursive_mutex makes lock-protected regions atomic w.r.t. one another; shared_ptr/weak_ptr control blocks are thread safe',
                         'ThreadSanitizer (clang 14) and a progress watchdog as observers of the sampled real-thread executions',
                         'Print Assumptions: ' + '; '.join(sorted(set(pr['assumptions'])))],
        'theorems': pr['theorems'],
        'evaluations': len(runs) * ((2000 if tier == 'quick' else 10000)), 'distinct_nontrivial': len(runs) * ((2000 if tier == 'quick' else 10000)),
        'rule': 'one evaluation = one randomly timed scenario on real threads: 2 producers (emit / disconnect / destroy their own signal, 3 deferred '
                'connections each, the first one slow) and 1 consumer looping over evaluation passes, alternately with and without holding the user '
                'lock that the hook takes; distinct by seed; non-trivial by construction (every scenario emits and evaluates concurrently)',
        'samples': [{'output': runs[0][1].strip()[-200:] if runs else ''}],
        'source_fingerprint': V.repo_fingerprint(), 'notes': notes,
    }
    V.write_evidence(pid, tier, seed, 'proof', coverage, wall, len(violations),
                     ['the C++ memory model below the level of the mutex protocol is assumed; real-thread runs are samples'])
    for kind, rp, what in violations:
        print(f'VIOLATION property={pid} replay={rp}' + (' no-failing-input-found' if kind == 'proof' else ''))
    print(f'[{pid}] theorems={obligations} discharged={obligations if proof_ok else 0} thread_runs={len(runs)} failing={len(failing)} wall={wall:.1f}s')
    return 1 if violations else 0
