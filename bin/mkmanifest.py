#!/usr/bin/env python3
"""Writes MANIFEST.json from the table below (so that it stays valid and in step with bin/verif)."""
import json
import sys

LEVEL_TEXT = {
    'C08': ("PARTIAL w.r.t. the C++ memory model. The bodies of evaluateDeferredConnections / enqueueSlotInvocation / dequeueSlotInvocation are regenerated as a small "
            "IR from clang's AST on every run and proved equal to the IR of the theorems. Machine-checked: queue and flag are touched only under the mutex and the "
            "user hook is called outside it; with the methods' lock skeletons, any number of threads running any sequences of emissions (hook taking a user lock), "
            "disconnects and passes (optionally under that user lock) never deadlock under any schedule; for every history of the (then atomic) critical sections a "
            "queued invocation runs at most once, exactly once at the next pass unless cancelled, only on an evaluating thread, and after a disconnect has returned "
            "nothing queued before it runs. Tie on the implementation side: randomly timed real-thread scenarios under ThreadSanitizer with a deadlock watchdog.", '6/C08'),
    'C17': ("PARTIAL. Machine-checked: (i) every variable of static or thread storage duration declared by the headers - the list is regenerated from clang's AST on "
            "every run - is thread_local or immutable; (ii) under the footprint discipline (a call touches only objects of its thread plus such statics) every "
            "interleaving of any per-thread call sequences gives each thread exactly the result of running alone. That the binary has no other hidden sharing is "
            "supported by ThreadSanitizer runs of 8-16 threads executing disjoint workloads covering the public API, not proved.", '6/C17'),
    'C20': ("PARTIAL. Machine-checked over a site table regenerated from the current headers (every std::move / std::forward applied to a reference parameter of a "
            "library function reachable from binding.h): no l-value handed in by a caller is turned into an r-value that initialises a library object (the only move "
            "out of a forwarding reference ends in a const-reference constructor parameter), and the library stores decayed copies of callables, constants and "
            "bound connect arguments. The extraction is a static analysis written for this task; a run-time grid of entry points x argument kinds (all l-values, incl. evaluators with earlier removals) "
            "searches for a concrete altered argument.", '6/C20'),
    'C18': ("PARTIAL by nature. Machine-checked over tables regenerated from the current headers: get_arity has exactly one overload for each of the 24 cv/ref/"
            "noexcept member-function qualifications (arguments + 1), for plain and noexcept function pointers and for generic callables; bind_first passes the "
            "callable, the bound values BY VALUE and placeholders _1.._k with k = arity - |bound|, and consists of nothing but that one return statement; hence (std::bind per the standard) the callable receives the "
            "bound values followed by exactly the first k emitted values, in order - the formula the signal model uses; copy operations of Signal, Property, "
            "Binding, ScopedConnection are deleted and the R-value-reference static_assert is intact. Acceptance/rejection by the C++ type system is validated on a "
            "grid: 56 run-time cells (shapes x arities x bound counts x signal arities, class-type bound values over several emissions, bound l-values modified after connect) and 16 must-fail cells with "
            "compiling twins.", '6/C18'),
    'C14': ("Machine-checked over tables REGENERATED from the current headers on every run (clang JSON AST): each of the 152 operator overloads applies, inside "
            "its lambda, the operator it is declared for to its operands in source order, hands them to makeNode in source order, and declares as result type "
            "decltype of that same expression with the right accessors - for every interpretation of the C++ operators and all operand values; the table is "
            "complete (4 unary x 2, 18 binary x 8 operand-kind combinations, nothing else); the 9 predeclared functions forward all arguments to std::NAME with a "
            "deduced result type. What the compiler makes of it (promotions, result types, values) is validated exhaustively on a stated finite grid: "
            "static_assert on the result type and value comparison initially and after every input change, plus nested expressions under deferred evaluation.", '6/C14'),
    'C02': ("Machine-checked in three layers. (1) Abstract propagation model (PropAbs.v: markDirty with early return, cached re-evaluation, equality "
            "suppression, nested notification): after every assignment every bound property equals the denotation of its expression, for every network of "
            "operator trees (arity 1-3), every interpretation of the user functions and every delivery order. (2) Refinement (PropSim.v): on the executable "
            "model that is run against the library (tables, handles, observers, logs) Property::setHelper IS the abstract assignment whenever no observer acts "
            "(operator trees of every arity the model has); so a coherent world stays coherent under every assignment that returns normally, and in a "
            "coherent world every immediately bound property equals its expression recomputed from scratch. (3) Growth (PropGrow.v): coherence is established "
            "and kept by every history that creates properties, attaches plain observers, binds fresh properties (immediate mode, expressions over existing "
            "properties incl. bound ones, repeated inputs) and assigns to inputs; also by histories that bind existing properties, unbound or already bound (which may have readers; rebinding is reset() then assignment), call reset(), destroy properties that no live binding reads move-construct any property and move-assign over destinations no live binding reads (PropMove.v: every tree abstracts to the old one with the source renamed, the invariant is stable under renaming); also in MIXED worlds (PropMixed.v: evaluator objects, fresh properties bound through an evaluator, evaluateAll - an evaluator-driven property is an input of the immediate bindings reading it). "
            "(4) Observers that WRITE (PropAbsAct.v, PropSimAct.v, PropGrowAct.v): subscribers of valueChanged that assign the announced value to another property from inside the notification - on the abstract layer a complete nested assignment, on the executable model setHelper refines it (same coherence notion), so after any growing-network history followed by any history that attaches such observers (and plain ones) and assigns inputs, and after any history that interleaves new properties, such observers, fresh immediate bindings and assignments in ANY order, every immediately bound property equals its expression; expressions written with the library's operators: the regenerated table of all operator overloads passes the wiring check and the correspondence builds nodes with the real overloads. "
            "Observers of valueAboutToChange of UNBOUND properties that write the old value elsewhere are covered the same way (PropAbsAct2.v, PropSimAct2.v, PropGrowAct2.v: network, then observers of both kinds and assignments; and networks growing in ANY order while such writers exist: new properties, observers, fresh / late / re-binding, reset(), move construction, destruction of and move assignment over unread properties, assignments). PARTIAL: such observers on bound properties and observers that reset bindings are covered by the extracted checker check_c02 on every reached world and by correspondence; known finding "
            "KF-C02-aborted-walk (an exception cutting a notification walk short) is re-confirmed on every run.", '6/C02'),
    'C03': ("Machine-checked on the executable model of Property::setHelper: an equal value changes nothing and logs nothing; any other value notifies every "
            "about-to-change observer with (old, new) while get() = old, stores, then notifies every changed observer with the new value while get() = new, each "
            "once, in subscription order, and touches nothing else; set(), operator= and operator>> are the same call and bindings write through setHelper. "
            "A second model (PropEq.v) states the protocol for ONE property under an ARBITRARY equality relation (any type, any boolean relation: operator==, a "
            "specialised equal_to, never equal, non-reflexive like NaN): silent iff the relation says equal, otherwise every observer once in order with the "
            "right get(), writes of the property's own value are ordinary writes, and an observer replaying the changed notifications holds the current value "
            "after every operation sequence. Tie: differential execution of both models (network scripts incl. observers that write and assignment from a "
            "reference into another property; equality scripts on Property<T> for int, a modulo-10 equal_to, double with NaN, a never-equal equal_to and a type "
            "without operator==).", '6/C03'),
    'C06': ("Machine-checked in three layers. (1) Executable model: a change notification reaching an evaluator-driven binding only sets dirty flags; an "
            "assignment to an input whose subscribers are observers and evaluator-driven nodes changes no other property, runs no user function and notifies only "
            "the input's observers; an evaluation with nothing dirty runs nothing. (2) Abstract model of evaluator-driven bindings (PropAbsLazy.v): ONE "
            "evaluateAll over bindings registered in dependency order leaves every registered binding clean and every bound property equal to the denotation "
            "of its expression, for every network, interpretation and delivery order. (3) Refinement and growth (PropSimLazy.v, PropGrowLazy.v): in worlds all "
            "of whose bindings are evaluator-driven (through one or several explicit evaluators) and whose observers do not act, setHelper of the executable model is the abstract marking "
            "assignment and evaluateAll the abstract pass; these state conditions hold in every world reached by creating properties, plain observers, fresh "
            "evaluator-driven bindings, assignments and evaluateAll, and in such a network the registration order is a duplicate-free dependency order; hence "
            "after ONE evaluateAll every registered bound property equals its expression recomputed from scratch (no further premise); the same for histories "
            "that also reset() bound properties, destroy properties nobody reads (PropGrowLazyMore.v) move-construct properties and move-assign them over destinations no live binding reads (PropMoveLazy.v: the destination's old binding dies and leaves its registry), and a reset binding is dead and out of the registry evaluateAll iterates; for EVERY history (any outcome, acting observers): registries hold live bindings only and a dead binding stays dead, so a reset, replaced or destroyed binding is never evaluated again (PropReg.v); notifications only for changed values (PropNotify.v): in any world a Binding::evaluate whose result equals the current value calls no observer, and an evaluateAll of such a network that leaves every registered property's value as it was has called no observer and never changes an unregistered property; an evaluateAll directly after another returns the very same world (for the networks above without any premise, PropTgt.v). In MIXED worlds (PropMixedLazy.v: immediate and evaluator-driven bindings together, no acting observers) every cache of every evaluator-driven tree is right for the current values in every world a growing network reaches, through every assignment with its cascade of immediate re-evaluations, so every evaluation of such a binding assigns exactly its expression over the current inputs; and ONE evaluateAll of an explicit evaluator leaves every property bound through it equal to its expression over the values after the pass (PropMixedPass.v: creation order is a rank under which setHelper(q) touches nothing below q but q). The growing mixed networks include reset(), p = q.get(), disconnecting observers, evaluator objects going away, destruction of unread properties and both moves (the destination takes the rank of the source). PARTIAL: acting observers, "
            "and direct rebinding of existing properties / user-held bindings in mixed worlds, are covered by the extracted checker "
            "check_c06_after_evalall on every evaluateAll of every generated history and by correspondence.", '6/C06'),
    'C07': ("Machine-checked on the executable model: every direct write to a bound property raises ReadOnlyProperty and leaves the world unchanged; reset keeps "
            "value and observers, removes the updater and re-enables the normal write protocol; destroying/replacing a binding touches no property and no "
            "observer; after reset the former binding is dead and owns no subscription in any signal of any property, only live bindings are subscribed anywhere, "
            "updater and binding refer to each other - consequences of the link invariant pinv, proved to hold in every world reached by a legal history "
            "(coq/PropLink*.v, arbitrary expressions, both modes, observers that write or reset, moves, destructions). Tie: differential execution incl. "
            "rebinding probes; pinv's executable form is evaluated on every reached world.", '6/C07'),
    'C10': ("Machine-checked on the models: handles of a destroyed signal are inactive and its table empty; a leaf without target raises PropertyDestroyedError "
            "without reading anything and a failed evaluation leaves the bound property untouched; and the link invariant pinv (17 conjuncts, coq/PropLink.v) "
            "holds in EVERY world reached by a legal history of property-layer operations - any creation, binding, rebinding, reset, move and destruction order, "
            "arbitrary expressions and user functions, observers that write or reset: no expression leaf of a live binding refers to a property that is gone, "
            "each leaf holds live subscriptions on the changed/moved/destroyed signals of exactly the property it refers to, evaluation never reads a missing "
            "property, no subscription of a destroyed binding remains in any signal; ~Property announces destroyed() exactly once per connected observer, in "
            "connection order, and records nothing else, a moved-from property announces nothing (PropDestroyed.v). PARTIAL with respect to memory: lifetimes are modelled (alive flags), the "
            "real library runs the same destruction orders under ASan/UBSan; destroying an object inside its own notification is outside the model.", '6/C10'),
    'C11': ("Machine-checked (signal layer): a move touches no Impl, the destination holds the source's Impl and the source none, belongsTo follows, move "
            "assignment is disconnectAll of the destination followed by the move, and what the destination held is gone (empty table, dead Impl). "
            "Machine-checked (property layer, coq/PropLinkMove.v): move construction and move assignment keep the link invariant - afterwards every leaf that "
            "read the source reads the destination and is subscribed to the destination's signals, readers of the overwritten destination refer to nothing, "
            "the moved binding updates the destination, the overwritten binding is gone with all its subscriptions; no signal is left emitting. Scoped connections: "
            "a move hands the guarded connection over, the source guards nothing afterwards, what the destination guarded is disconnected. Values (coq/PropMove.v): "
            "move construction gives the destination the value and updater of the source, and in worlds of immediate bindings without acting observers every bound "
            "property still equals its expression after a move construction or a move assignment over an unread destination; in worlds of evaluator-driven bindings both moves keep the state conditions of C06's one-pass theorem; C11_property_move_assignment_transfers states field by field what a move assignment does (incl. the dead old binding leaving its registry). PARTIAL: acting observers and the notification order seen by observers "
            "are tied by correspondence and check_c02 on every reached world (tests).", '6/C11'),
    'C13': ("Machine-checked on the executable model: a clean node runs no user function, one evaluation runs at most one function per operator node, get() runs "
            "none, evaluator-driven notifications only mark, an evaluateAll directly following another runs nothing (network level, PropNotify.v); and exactly: from a clean tree, after notifications for any set of input leaves, one successful evaluation runs the "
            "functions of precisely the operator nodes above those leaves, once each, and leaves the tree clean. The strict statement is refuted for immediate mode with several notification paths "
            "(C13_multipath_refuted, known finding KF-C13-multipath). Per-call function invocation sequences are compared with the real library.", '6/C13'),
    'C04': ("Machine-checked on the model: a disconnected id becomes stale and stays stale after every further history (hence inactive through every handle "
            "copy, for ever, and - by C01 - never invoked again), repeating the disconnect is a no-op, exactly that table entry and its queued deferred "
            "invocations go while all other connections are untouched, disconnectAll/destruction/overwrite empty the table and kill the Impl. Release of the "
            "callable itself is observed: the harness compares the set of labels whose tracked callable is still alive after every call.", '6/C04'),
    'C05': ("Machine-checked on the model: an unblocked deferred connection contributes exactly one queued invocation and no call to an emission; a pass runs "
            "the queue once, in order, with the stored values, and leaves it empty; a second pass runs nothing; disconnect cancels exactly that connection's "
            "entries; a nested evaluate is a no-op; with ARBITRARY re-entrant slots (emitting deferred signals of the same evaluator, disconnecting, destroying signals, nested passes) a pass that returns runs the queue as it stood at its start and everything queued meanwhile, each element once, in queue order, and ends with the queue empty; no evaluator is left evaluating. Tie: generated histories with slots that "
            "emit / disconnect / evaluate inside passes, arguments destroyed right after emit (ASan).", '6/C05'),
    'C15': ("Machine-checked on the model: block returns the previous setting and flips exactly one flag; blocked connections contribute nothing to an "
            "emission; inactive handles are rejected with out_of_range and no change; for EVERY well-nested sequence of scoped blockers (on active or inactive "
            "handles) all blocked settings and the blocker table are restored; blocker destruction is total. Tie: generated histories with nested blockers and "
            "disconnects / signal destruction while blockers are alive.", '6/C15'),
    'C19': ("Machine-checked bookkeeping: table size = live + reusable positions, grows only when none is reusable, erasing keeps the size, queues are empty "
            "after a pass, a destroyed signal's table is empty, in every reachable world. Bytes are NOT modelled: the harness observes, after every call, the "
            "set of tracked callables still alive (must equal the model's) and, after teardown, per-label instance counts (must be 0); ASan's leak checker runs "
            "on every script. Property layer: machine-checked that after any legal history every connection made for a binding node is owned by a leaf of a live "
            "binding (no unowned connection can accumulate); tie: generated state-restoring cycles (move away and back, bind/reset, create/destroy, observe/"
            "unobserve, rebind, evaluators, held bindings) repeated around heapmark/heapcheck - where the model's footprint came back, the bytes held by the real "
            "library (counting operator new) must be unchanged.", '6/C19'),
    'C01': ("Machine-checked on the executable model of Signal::Impl: an emission with non-re-entrant slot bodies logs EXACTLY one invocation per connected, "
            "unblocked connection, in table order, with bound values followed by the leading emitted values the callable needs, and one queued invocation per "
            "deferred connection (C01_emit_exact); with arbitrary re-entrant bodies never twice (C01_at_most_once); connect/disconnect/block change exactly the "
            "entry they name and ids are fresh, so the table is the finite map of connections made and not yet disconnected, in every reachable world; "
            "single-shot: with arbitrary bodies the emission that invokes a single-shot connection leaves its id stale however it ends, and a stale id is in no "
            "table and inactive through every later history (exactly one emission in its life). "
            "Tie: differential execution of generated histories (all five flavours, 4 signal signatures incl. const-ref and by-value class types, bound "
            "arguments, blocks, moves, recycled positions) under ASan/UBSan.", '6/C01'),
    'C09': ("Machine-checked for ARBITRARY re-entrant slot bodies and nesting depth: in one emission no connection is invoked twice; during the walk no entry "
            "of the emitting Impl is erased and the Impl stays alive (no executing callable destroyed, no freed table walked); when emit returns - also by a "
            "library exception - every requested disconnect has been executed and nothing is left emitting; a direct connection whose entry the bodies leave as it is (they may disconnect or block others, emit, evaluate) is invoked exactly once by an emission that returns. Memory safety of the real code is observed "
            "(ASan + a destroyed-while-running canary) on generated re-entrant histories, not proved.", '6/C09'),
    'C12': ("Machine-checked theorems on the executable model of the generational index array and of Signal::Impl/ConnectionHandle: ids are never "
            "re-issued, a stale id stays stale for ever under any history (any re-entrant slot bodies), uses through stale ids are rejected or have no "
            "effect, operator== is identity; the 2^32 wrap-around is proved to be real (C12_wrap_refuted, known finding). The model is tied to the code by "
            "differential execution of generated churn histories (stale handles, copies, foreign signals) under ASan/UBSan.", '6/C12'),
    'C16': ("Signal layer machine-checked; property layer: machine-checked that the link invariant holds and no property signal is left emitting after EVERY call whatever "
            "it answered (ReadOnlyProperty, PropertyDestroyedError, already-emitting, throwing user function), the values after a failure by correspondence (fault-injecting "
            "property histories: writes to bound properties, destroyed inputs, throwing functions, then valid operations) with known finding KF-C02-aborted-walk. Machine-checked: after EVERY top-level call of the model - also calls ending in a library exception raised inside nested emissions or "
            "evaluation passes - no Impl is left emitting, no evaluator evaluating, no disconnect pending, all tables well formed (invariant + frame "
            "contract proved for arbitrary re-entrant slot bodies). Tie: differential execution of fault-injecting histories (stale/foreign/inactive "
            "handles, dead evaluators, nested emission) followed by valid operations.", '6/C16'),
}
NOTE = ("Trusted: Coq 8.16.1 kernel; hand-written models (coq/GenIdx.v, coq/SigDefs.v, coq/PropDefs.v) tied to /repo/src by running model (extracted with ExtrOcamlBasic) "
        "and real library on the same generated scripts; generator coverage bounds the tie. Theorems are closed under the global context (no axioms).")
TECH = 'Coq proof on executable model + differential correspondence with the C++ library'

ALL = ['C%02d' % i for i in range(1, 21)]
REASONS = {p: 'check not yet registered in this commit (work in progress; see DESIGN.md section 6)' for p in ALL}


def main():
    claimed = [p for p in ALL if p in LEVEL_TEXT]
    m = {
        'version': 1,
        'setup_cmd': 'bin/verif setup',
        'hooks': {'guard': 'KDBINDINGS_VERIF',
                  'enable': 'no hook commits exist: every observable is reached through the public API; checks compile harness/*.cpp against /repo/src',
                  'baseline_off_cmd': 'cmake --build /repo/_build && ctest --test-dir /repo/_build -j8 --timeout 900',
                  'source_commits': [], 'add_only': True},
        'engines': [{'name': 'coq-model', 'path': 'coq/', 'serves_properties': claimed,
                     'kind_free_text': 'Coq 8.16 development: executable models, invariants, property theorems'},
                    {'name': 'correspondence', 'path': 'bin/verif', 'serves_properties': claimed,
                     'kind_free_text': 'extracted OCaml model vs C++ harness on generated scripts'}],
        'checks': [],
        'not_applicable': [{'property_id': p, 'reason': REASONS[p]} for p in ALL if p not in LEVEL_TEXT],
        'notes': 'see DESIGN.md; known_findings.json lists fixed: and known findings',
    }
    for p in claimed:
        text, ref = LEVEL_TEXT[p]
        tech = TECH if p not in ('C08', 'C14', 'C17', 'C18', 'C20') else 'Coq proof over tables regenerated from the source by a clang-AST translator + compile/run grid'
        m['checks'].append({
            'property_id': p,
            'quick_cmd': f'bin/verif check {p} --tier quick',
            'thorough_cmd': f'bin/verif check {p} --tier thorough',
            'evidence_file': f'/verif/evidence/{p}.json',
            'replay_cmd_template': 'bin/verif replay {path}',
            'engine': 'coq-model',
            'level_claimed': {'category': 'proof', 'text': text, 'design_ref': ref},
            'level_note': NOTE,
            'technique': tech,
        })
    json.dump(m, open('/verif/MANIFEST.json', 'w'), indent=1)
    print('claimed:', claimed)


if __name__ == '__main__':
    main()
