#!/bin/bash
# try_mutant.sh <patch> <ID>... : apply a seeded change to /repo, run the quick checks, undo
p=$1; shift
git -C /repo apply $p || { echo "APPLY FAILED"; exit 2; }
for id in "$@"; do /verif/bin/verif check $id --tier quick 2>&1 | grep -E "VIOLATION|KNOWN|^\[" ; done
git -C /repo checkout -- .
for id in "$@"; do git -C /verif checkout -- evidence/$id.json; done
/verif/bin/verif regen >/dev/null
