#!/bin/bash
# run_all.sh [quick|thorough] : every registered check on /repo as it is; one summary line each
tier=${1:-quick}
cd "$(dirname "$0")/.."
rc=0
for id in C01 C02 C03 C04 C05 C06 C07 C08 C09 C10 C11 C12 C13 C14 C15 C16 C17 C18 C19 C20; do
  bin/verif check $id --tier $tier 2>&1 | grep -E "^VIOLATION|^KNOWN-FINDING|^\[" || true
  [ ${PIPESTATUS[0]} -ne 0 ] && rc=1
done
exit $rc
