#!/bin/bash
# dbg.sh FILE LINE : show the proof state just before LINE of coq/FILE
f=$1; n=$2
mkdir -p /tmp/dbg
head -n $((n-1)) /verif/coq/$f > /tmp/dbg/D.v
echo "Show." >> /tmp/dbg/D.v
cd /verif/coq && timeout 120 coqc -Q . KDB /tmp/dbg/D.v 2>&1 | tail -${3:-40}
