#!/usr/bin/env python3
"""Regenerates coq/generated/OpsTable.v from every `operator OP` template of namespace KDBindings in
node_operators.h (clang JSON AST): declared operator, operand kinds, the operator and operand order in the lambda
body, the argument order of makeNode, the operator / operand order / accessors in the trailing return type.
Anything not recognised becomes the string "?" or the index 99, which makes the Coq check evaluate to false."""
import os
import re
import sys
sys.path.insert(0, os.path.dirname(os.path.abspath(__file__)))
import astlib

OUT = os.path.join(os.environ.get('VERIF_ROOT') or os.path.dirname(os.path.dirname(os.path.abspath(__file__))), 'coq', 'generated', 'OpsTable.v')


def kind_of(ty):
    if 'Property<' in ty:
        return 'KP'
    if 'Node<' in ty:
        return 'KN'
    if 'ostream' in ty or 'istream' in ty:
        return None
    return 'KV'


def first(o, pred):
    """depth-first search"""
    if isinstance(o, dict):
        if pred(o):
            return o
        for c in o.get('inner', []):
            r = first(c, pred)
            if r is not None:
                return r
    return None


def refs(o, acc):
    if isinstance(o, dict):
        if o.get('kind') == 'DeclRefExpr' and isinstance(o.get('referencedDecl'), dict):
            acc.append(o['referencedDecl'].get('name'))
        for c in o.get('inner', []):
            refs(c, acc)
    return acc


def parse_ret(qual, params):
    """the expression inside decltype(...) of the trailing return type -> (op, [param indices], [accessors])"""
    m = re.search(r'decltype\((.*?)\)>', qual.split('->', 1)[1] if '->' in qual else '')
    if not m:
        return '?', [99], ['?']
    e = m.group(1).strip()

    def operand(txt):
        txt = txt.strip()
        mm = re.fullmatch(r'(\w+)(\.get\(\)|\.evaluate\(\))?', txt)
        if not mm or mm.group(1) not in params:
            return 99, '?'
        acc = {'.get()': 'AGet', '.evaluate()': 'AEval', None: 'APlain'}[mm.group(2)]
        return params.index(mm.group(1)), acc
    # unary: OP x ; binary: x OP y
    mu = re.fullmatch(r'([!~+\-])\s*(\w+(?:\.\w+\(\))?)', e)
    if mu:
        i, a = operand(mu.group(2))
        return mu.group(1), [i], [a]
    mb = re.fullmatch(r'(\w+(?:\.\w+\(\))?)\s*(<<|>>|<=|>=|==|!=|&&|\|\||[*/%+\-<>&^|])\s*(\w+(?:\.\w+\(\))?)', e)
    if mb:
        i, a = operand(mb.group(1))
        j, b = operand(mb.group(3))
        return mb.group(2), [i, j], [a, b]
    return '?', [99], ['?']


def run():
    objs, rc, err = astlib.ast_dump('/repo/src/kdbindings/node_operators.h', 'KDBindings::operator')
    entries = []
    for t in objs:
        if True:
            if True:
                if t.get('kind') != 'FunctionTemplateDecl' or not str(t.get('name', '')).startswith('operator'):
                    continue
                fd = next((c for c in t.get('inner', []) if c.get('kind') == 'FunctionDecl'), None)
                if fd is None:
                    continue
                pv = [c for c in fd.get('inner', []) if c.get('kind') == 'ParmVarDecl']
                kinds = [kind_of(p['type']['qualType']) for p in pv]
                if None in kinds:
                    continue          # the stream operators of property.h
                params = [p['name'] for p in pv]
                op = t['name'][len('operator'):]
                call = first(fd, lambda o: o.get('kind') == 'CallExpr' and
                             first(o, lambda x: x.get('kind') == 'UnresolvedLookupExpr' and x.get('name') == 'makeNode') is not None)
                body_op, body_args, node_args = '?', [99], [99]
                if call is not None:
                    args = call.get('inner', [])[1:]
                    lam = args[0] if args and args[0].get('kind') == 'LambdaExpr' else None
                    if lam is not None:
                        lbody = [c for c in lam.get('inner', []) if c.get('kind') == 'CompoundStmt']
                        meth = first(lam, lambda o: o.get('kind') == 'CXXMethodDecl' and o.get('name') == 'operator()')
                        lparams = [c['name'] for c in meth.get('inner', []) if c.get('kind') == 'ParmVarDecl'] if meth else []
                        if lbody:
                            oc = first(lbody[0], lambda o: o.get('kind') in ('CXXOperatorCallExpr', 'BinaryOperator', 'UnaryOperator'))
                            if oc is not None:
                                if oc.get('kind') == 'CXXOperatorCallExpr':
                                    look = first(oc, lambda o: o.get('kind') == 'UnresolvedLookupExpr')
                                    body_op = look['name'][len('operator'):] if look else '?'
                                else:
                                    body_op = oc.get('opcode', '?')
                                names = refs(oc, [])
                                body_args = [lparams.index(n) if n in lparams else 99 for n in names]
                        node_args = []
                        for a in args[1:]:
                            names = refs(a, [])
                            names = [n for n in names if n in params]
                            node_args.append(params.index(names[0]) if len(names) == 1 else 99)
                ret_op, ret_args, ret_acc = parse_ret(fd['type']['qualType'], params)
                entries.append(dict(op=op, kinds=kinds, body_op=body_op, body_args=body_args, node_args=node_args,
                                    ret_op=ret_op, ret_args=ret_args, ret_acc=ret_acc))
    def lst(xs, f=str):
        return '[' + '; '.join(f(x) for x in xs) + ']'
    lines = ['(* GENERATED by translate/opstable.py from /repo/src/kdbindings/node_operators.h - do not edit *)',
             'From Coq Require Import List String.', 'From KDB Require Import TablesDefs.', 'Import ListNotations.',
             'Local Open Scope string_scope.', '', 'Definition ops_table : list opentry := [']
    rows = []
    for e in entries:
        rows.append('  {| oe_op := "%s"; oe_kinds := %s; oe_body_op := "%s"; oe_body_args := %s; oe_node_args := %s; '
                    'oe_ret_op := "%s"; oe_ret_args := %s; oe_ret_acc := %s |}' %
                    (e['op'], lst(e['kinds']), e['body_op'], lst(e['body_args']), lst(e['node_args']),
                     e['ret_op'], lst(e['ret_args']), lst(e['ret_acc'])))
    lines.append(';\n'.join(rows))
    lines.append('].')
    astlib.write_if_changed(OUT, '\n'.join(lines) + '\n')
    return True, f'{len(entries)} operator overloads'


if __name__ == '__main__':
    ok, msg = run()
    print(msg)
    sys.exit(0 if ok else 1)
