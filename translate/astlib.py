"""clang JSON AST helpers shared by the translators."""
import json
import subprocess

REPO_SRC = '/repo/src'


def ast_dump(header, filt=None, timeout=120):
    cmd = ['clang++', '-std=c++17', '-fsyntax-only', '-Xclang', '-ast-dump=json', '-I' + REPO_SRC, '-x', 'c++', header]
    if filt:
        cmd[5:5] = ['-Xclang', '-ast-dump-filter=' + filt]
    p = subprocess.run(cmd, stdout=subprocess.PIPE, stderr=subprocess.PIPE, text=True, timeout=timeout)
    txt = p.stdout
    dec = json.JSONDecoder()
    objs = []
    i = 0
    while True:
        j = txt.find('{', i)
        if j < 0:
            break
        try:
            o, e = dec.raw_decode(txt[j:])
        except ValueError:
            break
        objs.append(o)
        i = j + e
    return objs, p.returncode, p.stderr


def walk(o, fn, path=()):
    if isinstance(o, dict):
        fn(o, path)
        nm = o.get('name')
        sub = path + ((nm,) if nm and o.get('kind') in ('CXXRecordDecl', 'ClassTemplateDecl', 'NamespaceDecl',
                                                         'FunctionDecl', 'CXXMethodDecl', 'FunctionTemplateDecl',
                                                         'CXXConstructorDecl') else ())
        for c in o.get('inner', []):
            walk(c, fn, sub)


def write_if_changed(path, text):
    try:
        if open(path).read() == text:
            return False
    except FileNotFoundError:
        pass
    open(path, 'w').write(text)
    return True
