#!/usr/bin/env python3
"""Regenerates coq/generated/Forwarding.v: every std::move / std::forward applied to a reference PARAMETER of a library
function (all headers reachable from binding.h), with the kind of that parameter and - for moves out of forwarding
references - the kind of the parameter of the sink it flows into; plus the facts that the library stores DECAYED copies
of callables and constants."""
import os
import re
import sys
sys.path.insert(0, os.path.dirname(os.path.abspath(__file__)))
import astlib

OUT = os.path.join(os.environ.get('VERIF_ROOT') or os.path.dirname(os.path.dirname(os.path.abspath(__file__))), 'coq', 'generated', 'Forwarding.v')


def walk_fns(o, fn, acc, tparams):
    """collect (function decl, names of the type parameters of ITS OWN template: only those make `T &&` a forwarding
    reference; `T &&` with a class template parameter is an r-value reference)"""
    if not isinstance(o, dict):
        return
    k = o.get('kind')
    tp = set()
    if k == 'FunctionTemplateDecl':
        tp = {c.get('name') for c in o.get('inner', []) if c.get('kind') == 'TemplateTypeParmDecl'}
    elif k in ('FunctionDecl', 'CXXMethodDecl', 'CXXConstructorDecl'):
        tp = tparams
    if k in ('FunctionDecl', 'CXXMethodDecl', 'CXXConstructorDecl') and any(c.get('kind') == 'CompoundStmt' for c in o.get('inner', [])):
        acc.append((o, tparams))
    for c in o.get('inner', []):
        walk_fns(c, fn, acc, tp)


def calls(o, acc):
    if isinstance(o, dict):
        if o.get('kind') == 'CallExpr' and o.get('inner'):
            acc.append(o)
        for c in o.get('inner', []):
            calls(c, acc)
    return acc


def callee_name(call):
    c = call['inner'][0]
    while c.get('kind') == 'ImplicitCastExpr' and c.get('inner'):
        c = c['inner'][0]
    if c.get('kind') == 'UnresolvedLookupExpr':
        return c.get('name')
    if c.get('kind') == 'DeclRefExpr':
        return (c.get('referencedDecl') or {}).get('name')
    return None


def only_ref(o):
    """the single DeclRefExpr under o, if o is (casts around) exactly one reference"""
    while isinstance(o, dict) and o.get('kind') in ('ImplicitCastExpr', 'ParenExpr') and o.get('inner'):
        o = o['inner'][0]
    if isinstance(o, dict) and o.get('kind') == 'DeclRefExpr':
        return o
    return None


def pkind(ty, tparams):
    t = ty.strip()
    if re.fullmatch(r'(\w+) &&(\.\.\.)?', t) and re.fullmatch(r'(\w+) &&(\.\.\.)?', t).group(1) in tparams:
        return 'PForwarding'
    if t.endswith('&&') or t.endswith('&&...'):
        return 'PRvalueRef'
    if t.endswith('&'):
        return 'PConstRef' if (t.startswith('const ') or ' const &' in t or 'const&' in t) else 'PLvalueRef'
    return None


def run():
    objs, rc, err = astlib.ast_dump('/repo/src/kdbindings/binding.h', 'KDBindings::')
    fns = []
    for o in objs:
        walk_fns(o, None, fns, set())
    # constructor parameter kind of ConstantNode (the sink of makeNode(T&&))
    const_sink = 'SUnknown'
    for fd, tp in fns:
        if fd.get('kind') == 'CXXConstructorDecl' and fd.get('name') == 'ConstantNode<T>' or fd.get('name') == 'ConstantNode':
            pv = [c for c in fd.get('inner', []) if c.get('kind') == 'ParmVarDecl']
            if len(pv) == 1:
                t = pv[0]['type']['qualType']
                const_sink = 'SConstRef' if t in ('const T &', 'T const &') else 'SByValue' if t == 'T' else 'SRvalueRef' if t == 'T &&' else 'SUnknown'
    sites = []
    seen = set()
    opnode_decays = False
    constnode_decays = False
    for fd, tp in fns:
        params = {c['name']: c['type']['qualType'] for c in fd.get('inner', []) if c.get('kind') == 'ParmVarDecl' and c.get('name')}
        for call in calls(fd, []):
            nm = callee_name(call)
            if nm in ('move', 'forward') and len(call['inner']) == 2:
                r = only_ref(call['inner'][1])
                if r is None:
                    continue
                pn = (r.get('referencedDecl') or {}).get('name')
                if (r.get('referencedDecl') or {}).get('kind') != 'ParmVarDecl' or pn not in params:
                    continue
                k = pkind(params[pn], tp)
                if k is None:
                    continue
                how = 'HMove' if nm == 'move' else 'HForward'
                sink = 'SNone'
                if how == 'HMove' and k in ('PForwarding', 'PLvalueRef'):
                    sink = const_sink if (fd.get('name') == 'makeNode' and pn == 'value') else 'SUnknown'
                key = (fd.get('name'), pn, k, how, sink, fd.get('loc', {}).get('line', fd.get('range', {}).get('begin', {}).get('line')))
                if key in seen:
                    continue
                seen.add(key)
                sites.append(key)
    src = re.sub(r'\s+', ' ', open('/repo/src/kdbindings/make_node.h').read())
    opnode_decays = 'std::make_unique<OperatorNode<ResultType, std::decay_t<Operator>, bindable_value_type_t<Ts>...>>(' in src
    constnode_decays = 'std::make_unique<ConstantNode<std::decay_t<T>>>(' in src
    lines = ['(* GENERATED by translate/forwarding.py from the headers reachable from binding.h - do not edit *)',
             'From Coq Require Import List String.', 'From KDB Require Import TablesDefs.', 'Import ListNotations.',
             'Local Open Scope string_scope.', '', 'Definition fwd_sites : list fwd_site := [']
    lines.append(';\n'.join('  {| fs_fn := "%s"; fs_param := "%s"; fs_pkind := %s; fs_how := %s; fs_sink := %s |}' % (s[0], s[1], s[2], s[3], s[4]) for s in sites))
    lines.append('].')
    lines.append(f'Definition operator_node_stores_decayed_copy : bool := {"true" if opnode_decays else "false"}.')
    lines.append(f'Definition constant_node_stores_decayed_copy : bool := {"true" if constnode_decays else "false"}.')
    astlib.write_if_changed(OUT, '\n'.join(lines) + '\n')
    return True, f'{len(sites)} move/forward sites on reference parameters'


if __name__ == '__main__':
    ok, msg = run()
    print(msg)
    sys.exit(0 if ok else 1)
