#!/usr/bin/env python3
"""Regenerates coq/generated/ArityTable.v from utils.h / signal.h / property.h / binding.h / connection_handle.h:
every get_arity(TypeMarker<...>) overload with its formula, the placeholder formula and parameter passing of
bind_first_helper, the index count of bind_first, and the special-member facts C18 relies on."""
import os
import re
import sys
sys.path.insert(0, os.path.dirname(os.path.abspath(__file__)))
import astlib

OUT = os.path.join(os.environ.get('VERIF_ROOT') or os.path.dirname(os.path.dirname(os.path.abspath(__file__))), 'coq', 'generated', 'ArityTable.v')


def first(o, pred):
    if isinstance(o, dict):
        if pred(o):
            return o
        for c in o.get('inner', []):
            r = first(c, pred)
            if r is not None:
                return r
    return None


def allof(o, pred, acc):
    if isinstance(o, dict):
        if pred(o):
            acc.append(o)
        for c in o.get('inner', []):
            allof(c, pred, acc)
    return acc


def formula(fd):
    ret = first(fd, lambda o: o.get('kind') == 'ReturnStmt')
    if ret is None or not ret.get('inner'):
        return 'FUnknown'
    e = ret['inner'][0]
    if e.get('kind') == 'SizeOfPackExpr':
        return 'FN'
    if e.get('kind') == 'BinaryOperator' and e.get('opcode') == '+':
        a, b = e['inner']
        lit = first(b, lambda o: o.get('kind') == 'IntegerLiteral')
        if a.get('kind') == 'SizeOfPackExpr' and lit is not None and lit.get('value') == '1':
            return 'FN1'
    if e.get('kind') == 'BinaryOperator' and e.get('opcode') == '-':
        a, b = e['inner']
        cons = first(a, lambda o: o.get('kind') == 'CXXUnresolvedConstructExpr')
        lit = first(b, lambda o: o.get('kind') == 'IntegerLiteral')
        if a.get('kind') == 'CallExpr' and cons is not None and \
                cons['type']['qualType'].replace(' ', '') == 'TypeMarker<decltype(&T::operator())>' and lit is not None and lit.get('value') == '1':
            return 'FCallOpMinus1'
    return 'FUnknown'


def special(objs, cls, want_template=True):
    """(copy ctor deleted, copy assignment deleted) of the first definition of class cls"""
    for o in objs:
        rec = None
        if o.get('kind') == 'ClassTemplateDecl' and o.get('name') == cls:
            rec = next((c for c in o.get('inner', []) if c.get('kind') == 'CXXRecordDecl' and c.get('completeDefinition')), None)
        elif o.get('kind') == 'CXXRecordDecl' and o.get('name') == cls and o.get('completeDefinition'):
            rec = o
        if rec is None:
            continue
        cc = ca = False
        for m in rec.get('inner', []):
            ty = m.get('type', {}).get('qualType', '')
            if m.get('kind') == 'CXXConstructorDecl' and re.search(r'\(const .*&\)', ty) and m.get('explicitlyDeleted'):
                cc = True
            if m.get('kind') == 'CXXMethodDecl' and m.get('name') == 'operator=' and re.search(r'\(const .*&\)|\(.* const ?&\)', ty) and m.get('explicitlyDeleted'):
                ca = True
        return cc, ca
    return False, False


def run():
    objs, rc, err = astlib.ast_dump('/repo/src/kdbindings/utils.h', 'KDBindings::Private::')
    entries = []
    offset, by_value, order_ok, count_expr, single_return = 99, False, False, "?", False
    for o in objs:
        if o.get('kind') != 'FunctionTemplateDecl':
            continue
        fd = next((c for c in o.get('inner', []) if c.get('kind') == 'FunctionDecl'), None)
        if fd is None:
            continue
        if o.get('name') == 'get_arity':
            pv = [c for c in fd.get('inner', []) if c.get('kind') == 'ParmVarDecl']
            if len(pv) != 1 or 'TypeMarker<' not in pv[0]['type']['qualType']:
                continue
            t = pv[0]['type']['qualType']
            inner = t[t.index('TypeMarker<') + len('TypeMarker<'):-1].strip()
            m = re.fullmatch(r'Return \(\*\)\(Arguments\.\.\.\)\s*(noexcept)?', inner)
            if m:
                entries.append(('fnptr', m.group(1) or '', formula(fd)))
                continue
            m = re.fullmatch(r'Return \(Class::\*\)\(Arguments\.\.\.\)\s*(.*)', inner)
            if m:
                entries.append(('member', ' '.join(m.group(1).split()), formula(fd)))
                continue
            if inner == 'T':
                entries.append(('generic', '', formula(fd)))
                continue
            entries.append(('unknown', inner, 'FUnknown'))
        elif o.get('name') == 'bind_first_helper':
            pv = [c for c in fd.get('inner', []) if c.get('kind') == 'ParmVarDecl']
            by_value = len(pv) == 3 and pv[2]['type']['qualType'] == 'Args...' and pv[1]['type']['qualType'] == 'Func &&'
            call = first(fd, lambda x: x.get('kind') == 'CallExpr' and first(x, lambda y: y.get('kind') == 'UnresolvedLookupExpr' and y.get('name') == 'bind') is not None)
            if call is not None:
                args = call.get('inner', [])[1:]
                ph = first(call, lambda x: x.get('kind') == 'CXXUnresolvedConstructExpr' and 'placeholder<' in x['type']['qualType'])
                if ph is not None:
                    mm = re.fullmatch(r'placeholder<Is \+ (\d+)>', ph['type']['qualType'])
                    offset = int(mm.group(1)) if mm else 99
                def names(a):
                    return [x['referencedDecl']['name'] for x in allof(a, lambda y: y.get('kind') == 'DeclRefExpr' and isinstance(y.get('referencedDecl'), dict), [])]
                order_ok = len(args) == 3 and names(args[0]) == ['fun'] and names(args[1]) == ['args'] and \
                    args[1].get('kind') == 'PackExpansionExpr' and args[2].get('kind') == 'PackExpansionExpr' and names(args[2]) == []
        elif o.get('name') == 'bind_first':
            cons = first(fd, lambda x: x.get('kind') == 'CXXUnresolvedConstructExpr' and 'make_index_sequence' in x['type']['qualType'])
            if cons is not None:
                mm = re.search(r'make_index_sequence<(.*)>$', cons['type']['qualType'])
                count_expr = mm.group(1).replace(' ', '') if mm else '?'
            # the whole body is `return bind_first_helper(...)`: no other path builds the callable that connect() stores
            body = first(fd, lambda x: x.get('kind') == 'CompoundStmt')
            stmts = body.get('inner', []) if body else []
            single_return = len(stmts) == 1 and stmts[0].get('kind') == 'ReturnStmt' and \
                first(stmts[0], lambda y: y.get('kind') == 'UnresolvedLookupExpr' and y.get('name') == 'bind_first_helper') is not None and \
                first(fd, lambda y: y.get('kind') in ('LambdaExpr', 'IfStmt', 'ConditionalOperator')) is None
    # special members and the r-value-reference static_assert
    sobjs, _, _ = astlib.ast_dump('/repo/src/kdbindings/binding.h', 'KDBindings::')
    facts = {}
    for cls in ('Signal', 'Property', 'ScopedConnection', 'Binding', 'ConnectionEvaluator'):
        facts[cls] = special(sobjs, cls)
    sa_ok = False
    src = open('/repo/src/kdbindings/signal.h').read()
    m = re.search(r'class Signal\s*\{\s*static_assert\(\s*(.*?),\s*"', src, re.S)
    if m:
        cond = re.sub(r'\s+', '', m.group(1))
        sa_ok = cond == 'std::conjunction<std::negation<std::is_rvalue_reference<Args>>...>::value'
    b = lambda x: 'true' if x else 'false'
    lines = ['(* GENERATED by translate/aritytable.py from utils.h, signal.h, property.h, binding.h, connection_handle.h - do not edit *)',
             'From Coq Require Import List String.', 'From KDB Require Import TablesDefs.', 'Import ListNotations.',
             'Local Open Scope string_scope.', '', 'Definition arity_table : list arity_entry := [']
    lines.append(';\n'.join('  {| ar_kind := "%s"; ar_quals := "%s"; ar_formula := %s |}' % e for e in entries))
    lines.append('].')
    lines.append(f'Definition placeholder_offset : nat := {offset}.')
    lines.append(f'Definition bound_args_by_value : bool := {b(by_value)}.')
    lines.append(f'Definition bind_argument_order_ok : bool := {b(order_ok)}.')
    lines.append(f'Definition index_count_expr : string := "{count_expr}".')
    lines.append(f'Definition bind_first_is_one_return_of_helper : bool := {b(single_return)}.')
    for cls, (cc, ca) in facts.items():
        lines.append(f'Definition {cls}_copy_ctor_deleted : bool := {b(cc)}.')
        lines.append(f'Definition {cls}_copy_assign_deleted : bool := {b(ca)}.')
    lines.append(f'Definition rvalue_static_assert_present : bool := {b(sa_ok)}.')
    astlib.write_if_changed(OUT, '\n'.join(lines) + '\n')
    return True, f'{len(entries)} get_arity overloads, placeholder offset {offset}'


if __name__ == '__main__':
    ok, msg = run()
    print(msg)
    sys.exit(0 if ok else 1)
