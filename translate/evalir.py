#!/usr/bin/env python3
"""Regenerates coq/generated/EvalIRCurrent.v: the bodies of ConnectionEvaluator::evaluateDeferredConnections,
enqueueSlotInvocation and dequeueSlotInvocation as a small structured IR (clang JSON AST). Every statement that is not
one of the recognised shapes becomes IUnknown "<kind>", which makes `ir_tie` fail."""
import os
import sys
sys.path.insert(0, os.path.dirname(os.path.abspath(__file__)))
import astlib

OUT = os.path.join(os.environ.get('VERIF_ROOT') or os.path.dirname(os.path.dirname(os.path.abspath(__file__))), 'coq', 'generated', 'EvalIRCurrent.v')
QUEUE, FLAG, MUTEX = 'm_deferredSlotInvocations', 'm_isEvaluating', 'm_slotInvocationMutex'


def first(o, pred):
    if isinstance(o, dict):
        if pred(o):
            return o
        for c in o.get('inner', []):
            r = first(c, pred)
            if r is not None:
                return r
    return None


def strip(o):
    while isinstance(o, dict) and o.get('kind') in ('ExprWithCleanups', 'ImplicitCastExpr', 'ParenExpr', 'MaterializeTemporaryExpr', 'CXXBindTemporaryExpr') and o.get('inner'):
        o = o['inner'][0]
    return o


def is_member(o, name):
    o = strip(o)
    return isinstance(o, dict) and o.get('kind') == 'MemberExpr' and o.get('name') == name and \
        o.get('inner') and strip(o['inner'][0]).get('kind') == 'CXXThisExpr'


def member_call(o):
    """(method name, object is this->QUEUE?) for a CXXMemberCallExpr"""
    o = strip(o)
    if not isinstance(o, dict) or o.get('kind') != 'CXXMemberCallExpr':
        return None
    m = o['inner'][0]
    if m.get('kind') != 'MemberExpr':
        return None
    obj = m['inner'][0] if m.get('inner') else None
    return m.get('name'), obj, o['inner'][1:]


def unknown(o):
    return 'IUnknown "%s"' % (o.get('kind') if isinstance(o, dict) else 'null')


def stmt(o):
    o = strip(o) if isinstance(o, dict) and o.get('kind') == 'ExprWithCleanups' else o
    if not isinstance(o, dict):
        return unknown(o)
    k = o.get('kind')
    if k == 'CompoundStmt':
        return 'IBlock [' + '; '.join(stmt(c) for c in o.get('inner', [])) + ']'
    if k == 'DeclStmt':
        v = o['inner'][0] if o.get('inner') else {}
        ty = v.get('type', {}).get('qualType', '')
        if ty == 'std::lock_guard<std::recursive_mutex>':
            ce = v['inner'][0] if v.get('inner') else None
            if ce and ce.get('kind') == 'CXXConstructExpr' and len(ce.get('inner', [])) == 1 and is_member(ce['inner'][0], MUTEX):
                return 'ILock'
            return unknown(o)
        lam = first(v, lambda x: x.get('kind') == 'LambdaExpr')
        if lam is not None:
            # the matching predicate of dequeue: invocationPair.first == handle
            body = [c for c in lam.get('inner', []) if c.get('kind') == 'CompoundStmt']
            if body:
                ret = first(body[0], lambda x: x.get('kind') == 'ReturnStmt')
                e = ret['inner'][0] if ret and ret.get('inner') else None
                if e and e.get('kind') == 'BinaryOperator' and e.get('opcode') == '==':
                    l, r = e['inner']
                    lm = first(l, lambda x: x.get('kind') == 'CXXDependentScopeMemberExpr')
                    rr = strip(r)
                    if lm is not None and lm.get('member') == 'first' and rr.get('kind') == 'DeclRefExpr' and rr['referencedDecl'].get('name') == 'handle':
                        return 'IMatchByHandle'
            return unknown(o)
        return unknown(o)
    if k == 'IfStmt':
        inner = o.get('inner', [])
        if len(inner) == 2 and is_member(inner[0], FLAG):
            body = inner[1]
            if body.get('kind') == 'CompoundStmt' and len(body.get('inner', [])) == 1 and body['inner'][0].get('kind') == 'ReturnStmt' and not body['inner'][0].get('inner'):
                return 'IIfFlagReturn'
        return unknown(o)
    if k == 'BinaryOperator' and o.get('opcode') == '=':
        l, r = o['inner']
        r = strip(r)
        if is_member(l, FLAG) and r.get('kind') == 'CXXBoolLiteralExpr':
            return 'ISetFlag %s' % ('true' if r.get('value') else 'false')
        return unknown(o)
    if k == 'CXXTryStmt':
        body = o['inner'][0]
        catches = o['inner'][1:]
        if len(catches) == 1 and catches[0].get('kind') == 'CXXCatchStmt':
            ci = catches[0].get('inner', [])
            # catch (...) : the exception declaration is absent
            hb = [c for c in ci if isinstance(c, dict) and c.get('kind') == 'CompoundStmt']
            decl = [c for c in ci if isinstance(c, dict) and c.get('kind') == 'VarDecl']
            if hb and not decl:
                return 'ITry [%s] [%s]' % ('; '.join(stmt(c) for c in body.get('inner', [])), '; '.join(stmt(c) for c in hb[0].get('inner', [])))
        return unknown(o)
    if k == 'ForStmt':
        inner = o.get('inner', [])
        try:
            init, _, cond, inc, body = inner
            iv = init['inner'][0]
            lit = first(iv, lambda x: x.get('kind') == 'IntegerLiteral')
            ok = iv.get('kind') == 'VarDecl' and lit is not None and lit.get('value') == '0'
            l, r = cond['inner']
            mc = member_call(r)
            ok = ok and cond.get('opcode') == '<' and strip(l)['referencedDecl']['name'] == iv['name'] and mc and mc[0] == 'size' and is_member(mc[1], QUEUE)
            ok = ok and inc.get('kind') == 'UnaryOperator' and inc.get('opcode') == '++'
            bs = body.get('inner', [])
            ok = ok and len(bs) == 2 and bs[0].get('kind') == 'DeclStmt'
            cv = bs[0]['inner'][0]
            cty = cv['type']['qualType']
            copy = '&' not in cty and cty.startswith('std::function<void ()>')
            sec = first(cv, lambda x: x.get('kind') == 'MemberExpr' and x.get('name') == 'second')
            idx = first(cv, lambda x: x.get('kind') == 'CXXOperatorCallExpr')
            ok = ok and sec is not None and idx is not None and first(idx, lambda x: is_member(x, QUEUE)) is not None
            call = strip(bs[1])
            ok = ok and call.get('kind') == 'CXXOperatorCallExpr' and strip(call['inner'][1])['referencedDecl']['name'] == cv['name']
            if ok:
                return 'IForIndexCallCopy' if copy else 'IForIndexCallInPlace'
        except Exception:
            pass
        return unknown(o)
    if k == 'CXXForRangeStmt':
        return 'IForRangeCall'
    if k == 'CXXThrowExpr':
        return 'IRethrow' if not o.get('inner') else unknown(o)
    if k == 'CXXMemberCallExpr':
        mc = member_call(o)
        if mc:
            name, obj, args = mc
            if name == 'onInvocationAdded' and strip(obj).get('kind') == 'CXXThisExpr':
                return 'ICallHook'
            if is_member(obj, QUEUE):
                if name == 'clear' and not args:
                    return 'IClear'
                if name == 'push_back':
                    return 'IPushBack'
                if name == 'erase' and len(args) == 2:
                    if first(args[0], lambda x: x.get('kind') == 'DeclRefExpr' and (x.get('referencedDecl') or {}).get('name') == 'remove_if') is not None \
                            and first(args[0], lambda x: x.get('kind') == 'DeclRefExpr' and (x.get('referencedDecl') or {}).get('name') == 'handleMatches') is not None \
                            and first(args[1], lambda x: x.get('kind') == 'MemberExpr' and x.get('name') == 'end') is not None:
                        return 'IEraseMatching'
        return unknown(o)
    return unknown(o)


def run():
    objs, rc, err = astlib.ast_dump('/repo/src/kdbindings/connection_evaluator.h', 'KDBindings::ConnectionEvaluator')
    bodies = {}

    def find(o):
        if isinstance(o, dict):
            if o.get('kind') == 'CXXMethodDecl' and o.get('name') in ('evaluateDeferredConnections', 'enqueueSlotInvocation', 'dequeueSlotInvocation'):
                b = [c for c in o.get('inner', []) if c.get('kind') == 'CompoundStmt']
                if b:
                    bodies[o['name']] = '[' + '; '.join(stmt(c) for c in b[0].get('inner', [])) + ']'
            for c in o.get('inner', []):
                find(c)
    for o in objs:
        find(o)
    # the members of the class: exactly one mutex, one flag, one queue (anything else that is mutable would be unprotected state)
    members = []
    for o in objs:
        def mem(x):
            if isinstance(x, dict):
                if x.get('kind') == 'FieldDecl' and x.get('name'):
                    members.append((x.get('name') or '', x.get('type', {}).get('qualType', '')))
                for c in x.get('inner', []):
                    mem(c)
        mem(o)
    members = sorted(set(members))
    lines = ['(* GENERATED by translate/evalir.py from /repo/src/kdbindings/connection_evaluator.h - do not edit *)',
             'From Coq Require Import List String.', 'From KDB Require Import EvalIR.', 'Import ListNotations.',
             'Local Open Scope string_scope.', '']
    for name, coqname in (('evaluateDeferredConnections', 'cur_evaluate'), ('enqueueSlotInvocation', 'cur_enqueue'), ('dequeueSlotInvocation', 'cur_dequeue')):
        body = bodies.get(name, '[IUnknown "missing"]')
        lines.append('Definition %s : list instr := %s.' % (coqname, body))
    lines.append('Definition cur_fields : list (string * string) := [' + '; '.join('("%s", "%s")' % m for m in members) + '].')
    astlib.write_if_changed(OUT, '\n'.join(lines) + '\n')
    return True, 'IR of evaluate/enqueue/dequeue: ' + ' | '.join(f'{k}={v}' for k, v in bodies.items())


if __name__ == '__main__':
    ok, msg = run()
    print(msg)
    sys.exit(0 if ok else 1)
