// C20 grid: every construction entry point x argument kind, all passed as L-VALUES; afterwards the caller's object
// must compare equal to a copy taken before and be usable with the same results.
#include <kdbindings/binding.h>
#include <cstdio>
#include <string>
#include <vector>

using namespace KDBindings;

static long g_cells = 0, g_fail = 0;
#define CHECK(COND, WHAT)                       \
    do {                                        \
        ++g_cells;                              \
        if (!(COND)) {                          \
            ++g_fail;                           \
            std::printf("FAIL %s\n", WHAT);     \
        }                                       \
    } while (0)

// a function object whose calls change its own (mutable) state: the library must work on its own copy
struct Memo {
    mutable int calls = 0;
    mutable std::vector<int> cache;
    int operator()(int a, int b) const
    {
        ++calls;
        cache.push_back(a + b);
        return a + b;
    }
};

// callables with inspectable, non-trivially-movable state (a moved-from std::string / std::vector is empty)
struct Keeper2 {
    std::string name = std::string(40, 'k');
    std::vector<int> data{ 1, 2, 3 };
    void operator()(const std::string &, int) const { }
};
struct Keeper1 {
    std::string name = std::string(40, 'q');
    void operator()(int) const { }
};
struct Receiver {
    std::string tag = std::string(40, 'r');
    int hits = 0;
    void slot(const std::string &, int) { ++hits; }
};

int main()
{
    // ---- the adapting connect (bound leading arguments, callables that take fewer arguments than are emitted) -------------------
    {
        Signal<int> s;
        Signal<int, int> s2;
        Keeper2 k2;                                  // l-value callable, two parameters: one bound, one emitted
        std::string boundText(40, 'b');              // l-value bound argument with heap state
        auto h1 = s.connect(k2, boundText);
        Keeper1 k1;                                  // l-value callable that takes fewer arguments than the signal emits
        auto h2 = s2.connect(k1);
        std::function<void(const std::string &, int)> sf2 = [text = std::string(40, 'f')](const std::string &, int) { (void)text; };
        std::string boundText2(40, 'c');
        auto h3 = s.connect(sf2, boundText2);        // l-value std::function + l-value bound argument
        Receiver r;
        std::string boundText3(40, 'd');
        auto h4 = s.connect(&Receiver::slot, &r, boundText3);   // member function, object pointer, l-value bound argument
        s.emit(1);
        s2.emit(1, 2);
        CHECK(k2.name == std::string(40, 'k') && k2.data.size() == 3, "connect(callable, bound...): the caller's l-value callable keeps its state");
        CHECK(boundText == std::string(40, 'b'), "connect(callable, bound...): the caller's l-value bound argument keeps its value");
        CHECK(k1.name == std::string(40, 'q'), "connect(callable taking fewer arguments): the caller's l-value callable keeps its state");
        CHECK(bool(sf2), "connect(std::function, bound...): the caller's l-value std::function is still callable");
        CHECK(boundText2 == std::string(40, 'c'), "connect(std::function, bound...): the caller's l-value bound argument keeps its value");
        CHECK(boundText3 == std::string(40, 'd') && r.tag == std::string(40, 'r') && r.hits == 1,
              "connect(member function, object, bound...): object and l-value bound argument intact, slot reached once");
        // and they remain fully usable: a second connection made from the same l-values behaves like the first
        auto h5 = s.connect(k2, boundText);
        s.emit(2);
        CHECK(k2.data.size() == 3 && boundText.size() == 40 && r.hits == 2, "connect(callable, bound...): second use of the same l-values");
        h1.release(); h2.release(); h3.release(); h4.release(); h5.release();
    }
    // ---- connect flavours -----------------------------------------------------------------------------
    {
        std::vector<int> cap{ 1, 2, 3 };
        auto lam = [cap](int x) { (void)x; return; };
        auto lamv = [cap]() { return int(cap.size()); };
        std::function<void(int)> sf = [cap](int) {};
        std::function<void(ConnectionHandle &, int)> rf = [cap](ConnectionHandle &, int) {};
        Signal<int> s;
        auto ev = std::make_shared<ConnectionEvaluator>();
        auto h1 = s.connect(lam);
        auto h2 = s.connect(sf);
        auto h3 = s.connectReflective(rf);
        auto h4 = s.connectSingleShot(sf);
        auto h5 = s.connectDeferred(ev, sf);
        int bound = 5;
        auto two = [cap](int a, int b) { (void)a; (void)b; };
        auto h6 = s.connect(two, bound);
        s.emit(1);
        ev->evaluateDeferredConnections();
        CHECK(lamv() == 3, "connect: captured state of an l-value lambda intact");
        CHECK(bool(sf), "connect/connectSingleShot/connectDeferred: l-value std::function still callable");
        CHECK(bool(rf), "connectReflective: l-value std::function still callable");
        CHECK(bound == 5, "connect: bound l-value unchanged");
        CHECK(bool(ev) && ev.use_count() == 1, "connectDeferred: the evaluator is only referenced weakly");
        (void)lam;
        (void)two;
        h1.release(); h2.release(); h3.release(); h4.release(); h5.release(); h6.release();
    }
    // ---- makeNode / makeBinding / makeBoundProperty with and without evaluator ---------------------------
    {
        Property<int> a{ 1 }, b{ 2 };
        int notified = 0;
        auto obs = a.valueChanged().connect([&](int) { ++notified; });
        std::vector<int> cap{ 1, 2, 3 };
        auto lam = [cap](int x, int y) { return x + y + int(cap.size()); };
        std::function<int(int, int)> sf = [](int x, int y) { return x * y; };
        Memo memo;
        BindingEvaluator ev;

        auto n1 = Private::makeNode(lam, a, b);
        auto n2 = Private::makeNode(sf, a, b);
        auto n3 = Private::makeNode(memo, a, b);
        CHECK(lam(0, 0) == 3, "makeNode: l-value lambda keeps its captures");
        CHECK(bool(sf), "makeNode: l-value std::function still callable");
        CHECK(memo.calls == 0 && memo.cache.empty(), "makeNode: the caller's function object was not used in place of a copy");

        auto b1 = makeBinding(lam, a, b);
        auto b2 = makeBinding(ev, lam, a, b);
        auto b3 = makeBinding(sf, a, b);
        auto b4 = makeBinding(ev, sf, a, b);
        auto b5 = makeBinding(memo, a, b);
        auto b6 = makeBinding(ev, memo, a, b);
        CHECK(lam(0, 0) == 3, "makeBinding: l-value lambda keeps its captures");
        CHECK(bool(sf), "makeBinding: l-value std::function still callable");
        CHECK(memo.calls == 0 && memo.cache.empty(), "makeBinding: the caller's function object was not used in place of a copy");

        auto p1 = makeBoundProperty(lam, a, b);
        auto p2 = makeBoundProperty(ev, lam, a, b);
        auto p3 = makeBoundProperty(sf, a, b);
        auto p4 = makeBoundProperty(ev, sf, a, b);
        auto p5 = makeBoundProperty(memo, a, b);
        auto p6 = makeBoundProperty(ev, memo, a, b);
        a = 10;
        b = 20;
        ev.evaluateAll();
        CHECK(p1.get() == 33 && p2.get() == 33 && p3.get() == 200 && p4.get() == 200 && p5.get() == 30 && p6.get() == 30, "bound properties compute with their own copies");
        CHECK(lam(0, 0) == 3, "makeBoundProperty: l-value lambda keeps its captures");
        CHECK(bool(sf) && sf(2, 3) == 6, "makeBoundProperty: l-value std::function still callable");
        CHECK(memo.calls == 0 && memo.cache.empty(), "makeBoundProperty / re-evaluation: the caller's function object was never called");
        // the inputs: value, observers, (absence of) binding
        CHECK(a.get() == 10 && b.get() == 20, "input properties keep their values");
        CHECK(notified == 1, "input property keeps its observers");
        CHECK(!a.hasBinding() && !b.hasBinding(), "input properties keep their own (absent) binding");
        // an evaluator passed as l-value only gains registrations: it still evaluates what it had
        Property<int> c{ 5 };
        auto pc = makeBoundProperty(ev, [](int x) { return x + 1; }, c);
        c = 6;
        ev.evaluateAll();
        CHECK(pc.get() == 7, "evaluator still usable after being passed as l-value");
        obs.release();
    }
    // ---- constants of class type in function and operator expressions --------------------------------------
    {
        Property<std::string> name{ "ab" };
        std::string suffix = "-suffix";
        std::vector<int> vec{ 1, 2, 3, 4 };
        BindingEvaluator ev;
        auto cat = [](const std::string &x, const std::string &y) { return x + y; };
        auto len = [](const std::string &x, const std::vector<int> &v) { return int(x.size() + v.size()); };
        auto p1 = makeBoundProperty(cat, name, suffix);
        auto p2 = makeBoundProperty(ev, cat, name, suffix);
        auto p3 = makeBoundProperty(len, name, vec);
        auto p4 = makeBoundProperty(name + suffix);
        auto n5 = Private::makeNode(cat, name, suffix);
        auto b6 = makeBinding(cat, name, suffix);
        auto b7 = makeBinding(ev, len, name, vec);
        CHECK(suffix == "-suffix", "class-type constant (std::string) passed as l-value keeps its value");
        CHECK(vec.size() == 4, "class-type constant (std::vector) passed as l-value keeps its value");
        CHECK(p1.get() == "ab-suffix" && p4.get() == "ab-suffix" && p3.get() == 6, "expressions over class-type constants compute the right values");
        name = "xyz";
        CHECK(p1.get() == "xyz-suffix" && p4.get() == "xyz-suffix", "... also after a change");
        CHECK(name.get() == "xyz", "input property keeps its value");
    }
    // ---- a bound property used as input keeps its binding ---------------------------------------------------
    {
        Property<int> a{ 1 };
        auto mid = makeBoundProperty(a + 1);
        auto top = makeBoundProperty(mid * 2);
        CHECK(mid.hasBinding() && mid.get() == 2 && top.get() == 4, "bound property used as input keeps its binding");
        a = 5;
        CHECK(mid.get() == 6 && top.get() == 12, "... and keeps following its inputs");
    }
    // ---- an evaluator l-value that has a history: registrations were removed before (the first, a middle one), then every construction
    //      entry point is used with it - it only GAINS the new registration, every registration it still had stays and is evaluated ----
    {
        for (int removed = 0; removed < 3; ++removed) {
            for (int entry = 0; entry < 4; ++entry) {
                BindingEvaluator ev;
                Property<int> in{ 1 };
                auto plus = [](int x) { return x + 100; };
                Property<int> p[3] = { makeBoundProperty(ev, plus, in), makeBoundProperty(ev, in * 2), makeBoundProperty(ev, in - 7) };
                p[removed].reset();
                BindingEvaluator copy = ev;
                Property<int> fresh;
                std::unique_ptr<PropertyUpdater<int>> held;
                switch (entry) {
                case 0:
                    fresh = makeBoundProperty(ev, plus, in);
                    break;
                case 1:
                    fresh = makeBinding(ev, in + 1000);
                    break;
                case 2:
                    held = makeBinding(ev, plus, in);
                    fresh = std::move(held);
                    break;
                default:
                    fresh = makeBoundProperty(copy, in + 1000);
                }
                in = 50;
                ev.evaluateAll();
                const int want[3] = { 150, 100, 43 };
                bool ok = true;
                for (int i = 0; i < 3; ++i)
                    if (i != removed && p[i].get() != want[i])
                        ok = false;
                CHECK(ok, ("evaluator with an earlier removal: existing registrations survive entry point " + std::to_string(entry) + ", removed " + std::to_string(removed)).c_str());
                CHECK(fresh.get() == (entry == 0 || entry == 2 ? 150 : 1050), "evaluator with an earlier removal: the new registration is evaluated");
            }
        }
    }
    std::printf("cells %ld failures %ld\n", g_cells, g_fail);
    return g_fail ? 1 : 0;
}
