// C03, "'never equal' for types without comparison": a Property of a type that has no operator== and no
// KDBindings::equal_to specialisation must be usable, and every assignment to it must be announced.
// Exit 0 = as documented; does not compile / exits 1 = the property fails for this type.
#include <kdbindings/property.h>
#include <cstdio>

struct NoEq {
    int v;
};

int main()
{
    KDBindings::Property<NoEq> p{ NoEq{ 1 } };
    int about = 0, changed = 0;
    (void)p.valueAboutToChange().connect([&](const NoEq &o, const NoEq &n) { about += (o.v == 1 && n.v == 1 && p.get().v == 1); });
    (void)p.valueChanged().connect([&](const NoEq &n) { changed += (n.v == 1 && p.get().v == 1); });
    p.set(NoEq{ 1 });   // same bits, but never equal: announced
    p = NoEq{ 1 };
    std::printf("about=%d changed=%d (expected 2 2)\n", about, changed);
    return about == 2 && changed == 2 ? 0 : 1;
}
