// C17: N threads run disjoint workloads covering the public API on objects each thread creates itself.
// Build: clang++ -std=c++17 -O1 -g -fsanitize=thread -pthread.  Any ThreadSanitizer report is a violation.
// usage: threads <nthreads> <iterations> <seed>
#include <kdbindings/binding.h>
#include <atomic>
#include <cstdio>
#include <cstdlib>
#include <thread>
#include <vector>

using namespace KDBindings;

extern "C" const char *__tsan_default_options() { return "halt_on_error=1:exitcode=66:report_signal_unsafe=0"; }

static std::atomic<long> g_errors{ 0 };

static void workload(unsigned seed, int iterations)
{
    unsigned s = seed * 2654435761u + 1;
    auto rnd = [&s](unsigned n) { s = s * 1664525u + 1013904223u; return (s >> 8) % n; };
    for (int it = 0; it < iterations; ++it) {
        // --- signals: all flavours, recycling of storage positions, blocking, moves, scoped connections, blockers
        {
            Signal<int> sig;
            int sum = 0;
            std::vector<ConnectionHandle> hs;
            for (int i = 0; i < 4; ++i)
                hs.push_back(sig.connect([&sum](int v) { sum += v; }));
            hs[rnd(4)].disconnect();
            hs.push_back(sig.connect([&sum](int v) { sum += 10 * v; }));             // recycles a position
            hs.push_back(sig.connect([&sum](int a, int v) { sum += a + v; }, 3));   // bound argument
            auto single = sig.connectSingleShot([&sum](int v) { sum += 100 * v; });
            auto refl = sig.connectReflective([&sum](ConnectionHandle &h, int v) { sum += v; h.block(true); });
            {
                ConnectionBlocker b(hs[4]);
                sig.emit(1);
            }
            ScopedConnection sc = sig.connect([&sum](int v) { sum -= v; });
            Signal<int> moved(std::move(sig));
            moved.emit(2);
            auto ev = std::make_shared<ConnectionEvaluator>();
            auto d = moved.connectDeferred(ev, [&sum](int v) { sum += v; });
            moved.emit(3);
            ev->evaluateDeferredConnections();
            d.disconnect();
            moved.disconnectAll();
            (void)single;
            (void)refl;
            if (sum == 0)
                ++g_errors;
        }
        // --- properties and bindings: immediate and evaluator-driven, rebind / reset (recycles subscriptions), moves
        {
            Property<int> a{ int(rnd(10)) }, b{ 2 };
            int seen = 0;
            auto obs = a.valueChanged().connect([&seen](int v) { seen = v; });
            auto imm = makeBoundProperty(a + b * 2);
            auto imm2 = makeBoundProperty([](int x, int y) { return x - y; }, imm, b);
            BindingEvaluator ev;
            auto man = makeBoundProperty(ev, a * b);
            BindingEvaluator ev2 = ev;
            a = int(rnd(50)) + 20;
            ev2.evaluateAll();
            if (imm.get() != a.get() + b.get() * 2 || imm2.get() != imm.get() - b.get() || man.get() != a.get() * b.get() || seen != a.get())
                ++g_errors;
            imm.reset();
            imm = makeBinding(a - b);                     // rebinding: old subscriptions are recycled
            Property<int> a2(std::move(a));              // bindings follow the moved input
            a2 = 7;
            if (imm.get() != 7 - b.get())
                ++g_errors;
            auto held = makeBinding(ev, [](int x) { return x; }, b);
            b = 9;
            ev.evaluateAll();
            obs.release();
        }
    }
}

int main(int argc, char **argv)
{
    const int nthreads = argc > 1 ? std::atoi(argv[1]) : 4;
    const int iterations = argc > 2 ? std::atoi(argv[2]) : 200;
    const unsigned seed = argc > 3 ? unsigned(std::atoi(argv[3])) : 1;
    std::vector<std::thread> ts;
    for (int t = 0; t < nthreads; ++t)
        ts.emplace_back(workload, seed * 97 + t, iterations);
    for (auto &t : ts)
        t.join();
    std::printf("threads %d iterations %d errors %ld\n", nthreads, iterations, g_errors.load());
    return g_errors ? 1 : 0;
}
