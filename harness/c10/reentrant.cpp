// C10 grid: objects destroyed from INSIDE a notification ("any destruction order ... interleaved with input changes, emissions and
// evaluations": the interleaving point is a slot of one of the binding's inputs).  One scenario per process (AddressSanitizer stops at the
// first error): reentrant <index>; `reentrant count` prints the number of scenarios.  Exit 0 = nothing destroyed was touched and the
// values are right.
//   order    0 the user's handler is connected BEFORE the binding is created (its slot runs before the binding's node), 1 after
//   signal   0 valueChanged of the input, 1 valueAboutToChange, 2 destroyed
//   action   0 destroy the bound property, 1 reset() it, 2 rebind it to an expression over another input
//   followup (signal 2 only) 0 none, 1 assign the dying input once more, 2 move the dying input away
//   mode     0 immediate, 1 through an evaluator
#include <kdbindings/binding.h>
#include <cstdio>
#include <cstdlib>
#include <memory>
#include <string>

using namespace KDBindings;

static int fail(const char *what)
{
    std::printf("FAIL %s\n", what);
    return 1;
}

static int scenario(int order, int sig, int action, int followup, int mode)
{
    BindingEvaluator evaluator;
    auto a = std::make_unique<Property<int>>(1);
    Property<int> *const ap = a.get(); // unique_ptr::reset() nulls the pointer before the destructor runs: the handler uses this one
    Property<int> b{ 10 };
    std::unique_ptr<Property<int>> c;
    std::unique_ptr<Property<int>> salvaged;
    bool ran = false;
    auto act = [&]() {
        if (ran)
            return;
        ran = true;
        switch (action) {
        case 0:
            c.reset();
            break;
        case 1:
            if (c)
                c->reset();
            break;
        default:
            if (c) {
                if (mode == 0)
                    *c = makeBinding(b + 1);
                else
                    *c = makeBinding(evaluator, b + 1);
            }
            break;
        }
        if (sig == 2 && followup == 1)
            ap->set(77);
        if (sig == 2 && followup == 2)
            salvaged = std::make_unique<Property<int>>(std::move(*ap));
    };
    auto connectHandler = [&]() {
        switch (sig) {
        case 0:
            (void)a->valueChanged().connect([&](int) { act(); });
            break;
        case 1:
            (void)a->valueAboutToChange().connect([&](int, int) { act(); });
            break;
        default:
            (void)a->destroyed().connect([&]() { act(); });
            break;
        }
    };
    auto bind = [&]() {
        if (mode == 0)
            c = std::make_unique<Property<int>>(makeBoundProperty(*a + b));
        else
            c = std::make_unique<Property<int>>(makeBoundProperty(evaluator, *a + b));
    };
    if (order == 0) {
        connectHandler();
        bind();
    } else {
        bind();
        connectHandler();
    }
    if (c->get() != 11)
        return fail("initial value");
    if (sig == 2) {
        a.reset(); // the handler runs inside ~Property
    } else {
        *a = 2; // the handler runs inside the assignment
    }
    evaluator.evaluateAll();
    // everything that still exists is usable
    b = 20;
    evaluator.evaluateAll();
    if (a)
        *a = 3;
    evaluator.evaluateAll();
    if (c && action == 2 && c->get() != 21)
        return fail("rebound property does not follow its new input");
    if (c && action == 1) {
        c->set(5);
        if (c->get() != 5)
            return fail("reset property is not writable");
    }
    if (salvaged && salvaged->get() != 1 && salvaged->get() != 77)
        return fail("salvaged value");
    c.reset();
    a.reset();
    return 0;
}

int main(int argc, char **argv)
{
    int n = 0;
    const int want = argc > 1 && std::string(argv[1]) != "count" ? std::atoi(argv[1]) : -1;
    for (int mode = 0; mode < 2; ++mode)
        for (int order = 0; order < 2; ++order)
            for (int sig = 0; sig < 3; ++sig)
                for (int action = 0; action < 3; ++action)
                    for (int followup = 0; followup < (sig == 2 ? 3 : 1); ++followup) {
                        if (n == want) {
                            std::printf("scenario %d: mode=%d order=%d signal=%d action=%d followup=%d\n", n, mode, order, sig, action, followup);
                            std::fflush(stdout);
                            const int rc = scenario(order, sig, action, followup, mode);
                            std::printf(rc == 0 ? "ok\n" : "failed\n");
                            return rc;
                        }
                        ++n;
                    }
    if (want < 0) {
        std::printf("%d\n", n);
        return 0;
    }
    return 2;
}
