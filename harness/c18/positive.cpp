// C18 positive grid: callable shape x callable arity x bound-argument count x signal arity.
// Every accepted cell is compiled and run with distinct values: the callable must receive the bound values (as they
// were AT CONNECT TIME) followed by exactly the leading emitted values it still needs, in order, unmodified.
#include <kdbindings/signal.h>
#include <cstdio>
#include <functional>
#include <string>
#include <vector>

using namespace KDBindings;

static long g_cells = 0, g_fail = 0;
static std::vector<int> g_got;

static void expect(const char *what, std::vector<int> want)
{
    ++g_cells;
    if (g_got != want) {
        ++g_fail;
        std::string a, b;
        for (int x : g_got)
            a += std::to_string(x) + " ";
        for (int x : want)
            b += std::to_string(x) + " ";
        std::printf("FAIL %s: got [%s] want [%s]\n", what, a.c_str(), b.c_str());
    }
    g_got.clear();
}

// free functions
static void f0() { g_got = { -1 }; }
static void f1(int a) { g_got = { a }; }
static void f2(int a, int b) { g_got = { a, b }; }
static void f3(int a, int b, int c) { g_got = { a, b, c }; }
static void n1(int a) noexcept { g_got = { a }; }
static void n2(int a, int b) noexcept { g_got = { a, b }; }

struct FunctorC {
    void operator()(int a, int b) const { g_got = { a, b }; }
};
struct FunctorM {
    int calls = 0;
    void operator()(int a, int b)
    {
        ++calls;
        g_got = { a, b };
    }
};

// member functions with every cv / ref / noexcept qualification
struct Obj {
    int tag = 77;
#define M(NAME, QUALS) \
    void NAME(int a, int b) QUALS { g_got = { tag, a, b }; }
    M(m_plain, )
    M(m_c, const)
    M(m_v, volatile)
    M(m_cv, const volatile)
    M(m_l, &)
    M(m_cl, const &)
    M(m_vl, volatile &)
    M(m_cvl, const volatile &)
    M(m_r, &&)
    M(m_cr, const &&)
    M(m_n, noexcept)
    M(m_cn, const noexcept)
    M(m_vn, volatile noexcept)
    M(m_cvn, const volatile noexcept)
    M(m_ln, & noexcept)
    M(m_cln, const & noexcept)
    M(m_vln, volatile & noexcept)
    M(m_cvln, const volatile & noexcept)
    M(m_rn, && noexcept)
    M(m_crn, const && noexcept)
#undef M
    void one(int a) { g_got = { tag, a }; }
    void none() { g_got = { tag }; }
};

int main()
{
    // ---- signal arity 3 ------------------------------------------------------------------------
    {
        Signal<int, int, int> s;
        int b1 = 100, b2 = 200; // bound l-values: changed after connect, the callable must still see the old values
        std::vector<ConnectionHandle> hs;
        hs.push_back(s.connect(f0));
        hs.push_back(s.connect(f1));
        hs.push_back(s.connect(f2));
        hs.push_back(s.connect(f3));
        hs.push_back(s.connect(f3, b1));
        hs.push_back(s.connect(f3, b1, b2));
        hs.push_back(s.connect(f2, b1));
        hs.push_back(s.connect(f2, b1, b2));
        hs.push_back(s.connect(f1, b1));
        hs.push_back(s.connect(n1));
        hs.push_back(s.connect(n2, b2));
        b1 = -1;
        b2 = -2;
        const std::vector<std::vector<int>> want = { { -1 }, { 1 }, { 1, 2 }, { 1, 2, 3 }, { 100, 1, 2 }, { 100, 200, 1 }, { 100, 1 },
                                                      { 100, 200 }, { 100 }, { 1 }, { 200, 1 } };
        for (size_t i = 0; i < hs.size(); ++i) {
            for (size_t j = 0; j < hs.size(); ++j)
                hs[j].block(j != i);
            s.emit(1, 2, 3);
            expect(("free function cell " + std::to_string(i)).c_str(), want[i]);
        }
    }
    // ---- lambdas, function objects, std::function ----------------------------------------------
    {
        Signal<int, int> s;
        int b = 9;
        std::vector<ConnectionHandle> hs;
        hs.push_back(s.connect([](int a, int c) { g_got = { a, c }; }));
        hs.push_back(s.connect([](int a) { g_got = { a }; }));
        hs.push_back(s.connect([]() { g_got = { -1 }; }));
        int counter = 0;
        hs.push_back(s.connect([counter](int a, int c) mutable { ++counter; g_got = { counter, a, c }; }));
        hs.push_back(s.connect([](int x, int a, int c) { g_got = { x, a, c }; }, b));
        hs.push_back(s.connect([](int x, int a) { g_got = { x, a }; }, b));
        FunctorC fc;
        FunctorM fm;
        hs.push_back(s.connect(fc));
        hs.push_back(s.connect(fm));
        std::function<void(int, int)> sf = [](int a, int c) { g_got = { a * 10, c * 10 }; };
        hs.push_back(s.connect(sf));
        std::function<void(int, int, int)> sf3 = [](int x, int a, int c) { g_got = { x, a, c }; };
        hs.push_back(s.connect(sf3, b));
        b = -9;
        const std::vector<std::vector<int>> want = { { 5, 6 }, { 5 }, { -1 }, { 1, 5, 6 }, { 9, 5, 6 }, { 9, 5 }, { 5, 6 }, { 5, 6 }, { 50, 60 }, { 9, 5, 6 } };
        for (size_t i = 0; i < hs.size(); ++i) {
            for (size_t j = 0; j < hs.size(); ++j)
                hs[j].block(j != i);
            s.emit(5, 6);
            expect(("callable object cell " + std::to_string(i)).c_str(), want[i]);
        }
        if (!sf || !sf3) {
            ++g_fail;
            std::printf("FAIL an l-value std::function was emptied by connect\n");
        }
    }
    // ---- member functions: the object is the first bound argument --------------------------------
    {
        Signal<int, int, int> s;
        Obj o;
        std::vector<ConnectionHandle> hs;
#define C(NAME) hs.push_back(s.connect(&Obj::NAME, &o));
        C(m_plain) C(m_c) C(m_v) C(m_cv) C(m_l) C(m_cl) C(m_vl) C(m_cvl)
        C(m_n) C(m_cn) C(m_vn) C(m_cvn) C(m_ln) C(m_cln) C(m_vln) C(m_cvln)
#undef C
        // && -qualified members need an r-value object: bound by value, std::bind calls them on its own l-value copy
        // only if invocable; they are covered by the must-fail twins instead.
        hs.push_back(s.connect(&Obj::one, &o));
        hs.push_back(s.connect(&Obj::none, &o));
        int bound = 42;
        hs.push_back(s.connect(&Obj::m_plain, &o, bound));
        bound = 0;
        for (size_t i = 0; i < hs.size(); ++i) {
            for (size_t j = 0; j < hs.size(); ++j)
                hs[j].block(j != i);
            s.emit(1, 2, 3);
            std::vector<int> want = i < 16 ? std::vector<int>{ 77, 1, 2 } : i == 16 ? std::vector<int>{ 77, 1 } : i == 17 ? std::vector<int>{ 77 } : std::vector<int>{ 77, 42, 1 };
            expect(("member function cell " + std::to_string(i)).c_str(), want);
        }
    }
    // ---- signal arities 0 and 1, const-reference and class-type parameters ------------------------
    {
        Signal<> s0;
        auto h = s0.connect(f0);
        s0.emit();
        expect("arity-0 signal", { -1 });
        int b = 3;
        auto h2 = s0.connect(f1, b);
        b = 4;
        h.block(true);
        s0.emit();
        expect("arity-0 signal, one bound", { 3 });
        Signal<const std::string &, int> s2;
        auto h3 = s2.connect([](const std::string &t, int n) { g_got = { int(t.size()), n }; });
        auto h4 = s2.connect([](std::string t) { g_got = { int(t.size()) }; });
        h4.block(true);
        s2.emit(std::string("four"), 8);
        expect("const-ref parameter", { 4, 8 });
        h3.block(true);
        h4.block(false);
        s2.emit(std::string("sixsix"), 8);
        expect("by-value slot on const-ref parameter, rest discarded", { 6 });
        h3.release();
        h2.release();
    }
    // ---- reference parameters reach an ADAPTED slot as the very objects that were emitted ("unmodified": no copy, no slicing) -----
    {
        struct Base {
            virtual ~Base() = default;
            virtual int kind() const { return 1; }
            int payload = 11;
        };
        struct Derived : Base {
            int kind() const override { return 2; }
            int extra = 22;
        };
        static const Base *g_seen = nullptr;
        Signal<const Base &, int> s;
        Derived d;
        // fewer parameters than emitted arguments (adapted through bind_first), and one bound value in front
        auto hFew = s.connect([](const Base &b) { g_seen = &b; g_got = { b.kind(), b.payload }; });
        s.emit(d, 5);
        ++g_cells;
        if (g_seen != &d) {
            ++g_fail;
            std::printf("FAIL adapted slot, const Base& parameter: the slot received a different object than the one emitted\n");
        }
        expect("adapted slot, const Base& parameter: dynamic type and value of the emitted object", { 2, 11 });
        hFew.block(true);
        g_seen = nullptr;
        auto hBound = s.connect([](int k, const Base &b) { g_seen = &b; g_got = { k, b.kind(), b.payload }; }, 7);
        s.emit(d, 6);
        ++g_cells;
        if (g_seen != &d) {
            ++g_fail;
            std::printf("FAIL bound value + const Base& parameter: the slot received a different object than the one emitted\n");
        }
        expect("bound value + const Base& parameter", { 7, 2, 11 });
        hFew.release();
        hBound.release();
    }
    // ---- bound values of a move-sensitive class type, every emission of several: "in order and unmodified" must hold each time,
    //      whether every parameter is bound or some are left to the emission ------------------------------------------------
    {
        Signal<int> s;
        std::string word = "bound-value-longer-than-any-small-string-buffer";
        const int n = int(word.size());
        auto hAll = s.connect([](std::string w, int k) { g_got = { int(w.size()), k }; }, word, 5);          // all bound, by value
        auto hAllRef = s.connect([](const std::string &w, int k) { g_got = { int(w.size()), k }; }, word, 6); // all bound, by const&
        auto hPart = s.connect([](std::string w, int k) { g_got = { int(w.size()), k }; }, word);             // one left to the emission
        std::vector<int> vec = { 1, 2, 3, 4 };
        auto hVec = s.connect([](std::vector<int> v) { g_got = { int(v.size()) }; }, vec);                    // all bound, another class type
        word = "x";
        vec.clear();
        ConnectionHandle *all[] = { &hAll, &hAllRef, &hPart, &hVec };
        for (int round = 0; round < 3; ++round) {
            for (int i = 0; i < 4; ++i) {
                for (int j = 0; j < 4; ++j)
                    all[j]->block(j != i);
                s.emit(9);
                std::vector<int> want = i == 0 ? std::vector<int>{ n, 5 } : i == 1 ? std::vector<int>{ n, 6 } : i == 2 ? std::vector<int>{ n, 9 } : std::vector<int>{ 4 };
                expect(("class-type bound value, emission " + std::to_string(round) + " cell " + std::to_string(i)).c_str(), want);
            }
        }
    }
    std::printf("cells %ld failures %ld\n", g_cells, g_fail);
    return g_fail ? 1 : 0;
}
