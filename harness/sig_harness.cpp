// Script interpreter running signal-layer scripts on the REAL library (headers of /repo/src as they are now).
// Prints one observation per line in the format of driver/sigdriver.ml.
// Build: g++ -std=c++17 -O1 -g -fsanitize=address,undefined -fno-sanitize-recover=all -I/repo/src
#include <kdbindings/signal.h>

#include <cstdio>
#include <cstdlib>
#include <cstring>
#include <fstream>
#include <map>
#include <memory>
#include <sstream>
#include <string>
#include <tuple>
#include <vector>

using namespace KDBindings;

static void out(const std::string &s)
{
    fputs(s.c_str(), stdout);
    fputc('\n', stdout);
    fflush(stdout);
}

// ---- instance accounting of user callables -------------------------------------------------------
static std::map<int, long> g_live; // label -> live instances of the tracked callable
static long g_destroyedWhileRunning = 0;

struct Big {
    int v = 0;
    std::vector<int> pad; // makes copies non-trivial so that use-after-free is visible to ASan
    Big() = default;
    explicit Big(int x)
        : v(x), pad(3, x) { }
};
static int toInt(int x) { return x; }
static int toInt(const Big &b)
{
    if (b.pad.size() != 3 || b.pad[0] != b.v)
        out("ub corrupted-argument");
    return b.v;
}

struct World;
static World *g_world = nullptr;
static void runScript(int sid);

struct Tracker {
    int label;
    mutable int running = 0;
    explicit Tracker(int l)
        : label(l) { ++g_live[label]; }
    Tracker(const Tracker &o)
        : label(o.label) { ++g_live[label]; }
    Tracker(Tracker &&o) noexcept
        : label(o.label) { ++g_live[label]; }
    Tracker &operator=(const Tracker &) = delete;
    ~Tracker()
    {
        --g_live[label];
        if (running > 0) {
            ++g_destroyedWhileRunning;
            out("ub callable-destroyed-while-running " + std::to_string(label));
        }
    }
};

struct RunGuard {
    const Tracker &t;
    explicit RunGuard(const Tracker &x)
        : t(x) { ++t.running; }
    ~RunGuard() { --t.running; }
};

// a user callable with a fixed parameter list P...
template<typename... P>
struct Slot {
    Tracker t;
    int sid;
    Slot(int label, int s)
        : t(label), sid(s) { }
    void operator()(P... ps) const
    {
        RunGuard g(t);
        std::string line = "slot " + std::to_string(t.label);
        int vals[] = { 0, toInt(ps)... };
        for (size_t i = 1; i < sizeof(vals) / sizeof(int); ++i)
            line += " " + std::to_string(vals[i]);
        out(line);
        runScript(sid);
    }
};

struct Evaluator : ConnectionEvaluator {
    int id;
    explicit Evaluator(int i)
        : id(i) { }
    void onInvocationAdded() override { out("added " + std::to_string(id)); }
};

// ---- type-erased signals ---------------------------------------------------------------------------
struct SigBase {
    virtual ~SigBase() = default;
    virtual int kind() const = 0;
    virtual ConnectionHandle connect(int label, int arity, const std::vector<int> &bound, int sid) = 0;
    virtual ConnectionHandle connectR(int label, int sid, int selfvar) = 0;
    virtual ConnectionHandle connect1(int label, int sid) = 0;
    virtual ConnectionHandle connectD(int label, int sid, const std::shared_ptr<ConnectionEvaluator> &ev) = 0;
    virtual void emit(const std::vector<int> &vals) = 0;
    virtual void disconnect(const ConnectionHandle &h) = 0;
    virtual void disconnectAll() = 0;
    virtual bool block(const ConnectionHandle &h, bool b) = 0;
    virtual bool isBlocked(const ConnectionHandle &h) = 0;
    virtual bool belongs(const ConnectionHandle &h) = 0;
    virtual std::unique_ptr<SigBase> moveCtor() = 0;
    virtual void moveAssignFrom(SigBase &o) = 0;
};

static std::map<int, ConnectionHandle> *g_handles = nullptr;

template<typename T>
static T fromInt(int v);
template<>
int fromInt<int>(int v) { return v; }
template<>
Big fromInt<Big>(int v) { return Big(v); }

template<int K, typename... A>
struct SigT : SigBase {
    Signal<A...> sig;
    using ArgsTuple = std::tuple<A...>;
    static constexpr size_t N = sizeof...(A);
    int kind() const override { return K; }

    template<size_t... Bi, size_t... Ri>
    ConnectionHandle connectBR(int label, int sid, const std::vector<int> &bound, std::index_sequence<Bi...>, std::index_sequence<Ri...>)
    {
        using S = Slot<decltype((void)Bi, int{})..., std::tuple_element_t<Ri, ArgsTuple>...>;
        S s(label, sid);
        return sig.connect(s, bound[Bi]...);
    }
    template<size_t B>
    ConnectionHandle connectB(int label, int sid, const std::vector<int> &bound, size_t r)
    {
        if constexpr (N >= 0) {
            if (r == 0)
                return connectBR(label, sid, bound, std::make_index_sequence<B>{}, std::make_index_sequence<0>{});
        }
        if constexpr (N >= 1) {
            if (r == 1)
                return connectBR(label, sid, bound, std::make_index_sequence<B>{}, std::make_index_sequence<1>{});
        }
        if constexpr (N >= 2) {
            if (r == 2)
                return connectBR(label, sid, bound, std::make_index_sequence<B>{}, std::make_index_sequence<2>{});
        }
        if constexpr (N >= 3) {
            if (r == 3)
                return connectBR(label, sid, bound, std::make_index_sequence<B>{}, std::make_index_sequence<3>{});
        }
        out("harness-error bad arity");
        std::exit(3);
    }
    ConnectionHandle connect(int label, int arity, const std::vector<int> &bound, int sid) override
    {
        size_t r = size_t(arity) - bound.size();
        if (bound.size() == 0 && r == N) {
            // the plain std::function overload, from an l-value callable
            Slot<A...> s(label, sid);
            std::function<void(A...)> f = s;
            return sig.connect(f);
        }
        switch (bound.size()) {
        case 0:
            return connectB<0>(label, sid, bound, r);
        case 1:
            return connectB<1>(label, sid, bound, r);
        case 2:
            return connectB<2>(label, sid, bound, r);
        }
        out("harness-error bad bound count");
        std::exit(3);
    }
    ConnectionHandle connectR(int label, int sid, int selfvar) override
    {
        Slot<A...> s(label, sid);
        return sig.connectReflective([s, selfvar](ConnectionHandle &h, A... as) {
            (*g_handles)[selfvar] = h;
            s(as...);
        });
    }
    ConnectionHandle connect1(int label, int sid) override
    {
        Slot<A...> s(label, sid);
        return sig.connectSingleShot(s);
    }
    ConnectionHandle connectD(int label, int sid, const std::shared_ptr<ConnectionEvaluator> &ev) override
    {
        Slot<A...> s(label, sid);
        return sig.connectDeferred(ev, s);
    }
    template<size_t... I>
    void emitI(const std::vector<int> &vals, std::index_sequence<I...>)
    {
        // l-value arguments that are destroyed right after the call: a deferred invocation must own copies
        auto args = std::make_unique<std::tuple<std::decay_t<A>...>>(fromInt<std::decay_t<A>>(vals[I])...);
        sig.emit(std::get<I>(*args)...);
        args.reset();
    }
    void emit(const std::vector<int> &vals) override { emitI(vals, std::make_index_sequence<N>{}); }
    void disconnect(const ConnectionHandle &h) override { sig.disconnect(h); }
    void disconnectAll() override { sig.disconnectAll(); }
    bool block(const ConnectionHandle &h, bool b) override { return sig.blockConnection(h, b); }
    bool isBlocked(const ConnectionHandle &h) override { return sig.isConnectionBlocked(h); }
    bool belongs(const ConnectionHandle &h) override { return h.belongsTo(sig); }
    std::unique_ptr<SigBase> moveCtor() override
    {
        return std::unique_ptr<SigBase>(new SigT(std::move(sig)));
    }
    void moveAssignFrom(SigBase &o) override
    {
        auto *other = dynamic_cast<SigT *>(&o);
        if (!other) {
            out("harness-error move between signal kinds");
            std::exit(3);
        }
        sig = std::move(other->sig);
    }
    SigT() = default;
    explicit SigT(Signal<A...> &&s)
        : sig(std::move(s)) { }
};

static std::unique_ptr<SigBase> makeSig(int kind)
{
    switch (kind) {
    case 0:
        return std::make_unique<SigT<0>>();
    case 1:
        return std::make_unique<SigT<1, int>>();
    case 2:
        return std::make_unique<SigT<2, const Big &>>();
    case 3:
        return std::make_unique<SigT<3, int, Big, const Big &>>();
    }
    out("harness-error bad signal kind");
    std::exit(3);
}

// ---- the interpreter -------------------------------------------------------------------------------
struct World {
    std::map<int, std::unique_ptr<SigBase>> sigs;
    std::map<int, ConnectionHandle> handles;
    std::map<int, std::unique_ptr<ScopedConnection>> scoped;
    std::map<int, std::unique_ptr<ConnectionBlocker>> blockers;
    std::map<int, std::shared_ptr<ConnectionEvaluator>> evs;
    std::map<int, std::vector<std::vector<std::string>>> scripts;

    SigBase &sig(int s)
    {
        auto it = sigs.find(s);
        if (it == sigs.end() || !it->second) {
            out("harness-error no signal " + std::to_string(s));
            std::exit(3);
        }
        return *it->second;
    }
    ConnectionHandle &handle(int h)
    {
        auto it = handles.find(h);
        if (it == handles.end()) {
            out("harness-error no handle " + std::to_string(h));
            std::exit(3);
        }
        return it->second;
    }
    void exec(const std::vector<std::string> &t);
};

static int I(const std::string &s) { return std::atoi(s.c_str()); }
static void outb(bool b) { out(std::string("bool ") + (b ? "1" : "0")); }

void World::exec(const std::vector<std::string> &t)
{
    const std::string &o = t[0];
    if (o == "signew") {
        sigs[I(t[1])] = makeSig(I(t[2]));
    } else if (o == "sigdel") {
        sig(I(t[1]));
        sigs.erase(I(t[1]));
    } else if (o == "sigmovector") {
        sigs[I(t[2])] = sig(I(t[1])).moveCtor();
    } else if (o == "sigmoveassign") {
        sig(I(t[1])).moveAssignFrom(sig(I(t[2])));
    } else if (o == "conn") {
        std::vector<int> bound;
        for (int i = 0; i < I(t[6]); ++i)
            bound.push_back(I(t[7 + i]));
        auto h = sig(I(t[1])).connect(I(t[3]), I(t[4]), bound, I(t[5]));
        handles[I(t[2])] = h;
    } else if (o == "connr") {
        auto h = sig(I(t[1])).connectR(I(t[3]), I(t[4]), I(t[5]));
        handles[I(t[2])] = h;
    } else if (o == "conn1") {
        auto h = sig(I(t[1])).connect1(I(t[3]), I(t[4]));
        handles[I(t[2])] = h;
    } else if (o == "connd") {
        auto it = evs.find(I(t[5]));
        std::shared_ptr<ConnectionEvaluator> ev = it == evs.end() ? nullptr : it->second;
        auto h = sig(I(t[1])).connectD(I(t[3]), I(t[4]), ev);
        handles[I(t[2])] = h;
    } else if (o == "emit") {
        std::vector<int> vals;
        for (int i = 0; i < I(t[2]); ++i)
            vals.push_back(I(t[3 + i]));
        sig(I(t[1])).emit(vals);
    } else if (o == "disch") {
        handle(I(t[1])).disconnect();
    } else if (o == "discs") {
        sig(I(t[1])).disconnect(handle(I(t[2])));
    } else if (o == "discall") {
        sig(I(t[1])).disconnectAll();
    } else if (o == "blockh") {
        outb(handle(I(t[1])).block(I(t[2]) != 0));
    } else if (o == "blocks") {
        outb(sig(I(t[1])).block(handle(I(t[2])), I(t[3]) != 0));
    } else if (o == "isblockedh") {
        outb(handle(I(t[1])).isBlocked());
    } else if (o == "isblockeds") {
        outb(sig(I(t[1])).isBlocked(handle(I(t[2]))));
    } else if (o == "active") {
        outb(handle(I(t[1])).isActive());
    } else if (o == "belongs") {
        outb(sig(I(t[2])).belongs(handle(I(t[1]))));
    } else if (o == "heq") {
        outb(handle(I(t[1])) == handle(I(t[2])));
    } else if (o == "hcopy") {
        ConnectionHandle c = handle(I(t[1]));
        handles[I(t[2])] = c;
    } else if (o == "hnew") {
        handles[I(t[1])] = ConnectionHandle();
    } else if (o == "scnew") {
        scoped[I(t[1])] = std::make_unique<ScopedConnection>(std::move(handle(I(t[2]))));
    } else if (o == "scassign") {
        handle(I(t[2]));
        if (scoped.count(I(t[1])))
            *scoped.at(I(t[1])) = std::move(handle(I(t[2])));
    } else if (o == "scmove") {
        if (scoped.count(I(t[1])) && scoped.count(I(t[2])) && I(t[1]) != I(t[2]))
            *scoped.at(I(t[2])) = std::move(*scoped.at(I(t[1])));
    } else if (o == "scmovector") {
        if (scoped.count(I(t[1])))
            scoped[I(t[2])] = std::make_unique<ScopedConnection>(std::move(*scoped.at(I(t[1]))));
    } else if (o == "scdrop") {
        scoped.erase(I(t[1]));
    } else if (o == "blnew") {
        auto b = std::make_unique<ConnectionBlocker>(handle(I(t[2])));
        blockers[I(t[1])] = std::move(b);
    } else if (o == "bldrop") {
        blockers.erase(I(t[1]));
    } else if (o == "tryblockh") {
        if (handle(I(t[1])).isActive())
            outb(handle(I(t[1])).block(I(t[2]) != 0));
    } else if (o == "tryisblockedh") {
        if (handle(I(t[1])).isActive())
            outb(handle(I(t[1])).isBlocked());
    } else if (o == "discs_safe") {
        if (sig(I(t[1])).belongs(handle(I(t[2]))))
            sig(I(t[1])).disconnect(handle(I(t[2])));
    } else if (o == "tryblnew") {
        if (handle(I(t[2])).isActive()) {
            auto b = std::make_unique<ConnectionBlocker>(handle(I(t[2])));
            blockers[I(t[1])] = std::move(b);
        }
    } else if (o == "evnew") {
        evs[I(t[1])] = std::make_shared<Evaluator>(I(t[1]));
    } else if (o == "evdrop") {
        if (!evs.count(I(t[1]))) {
            out("harness-error evdrop on missing evaluator");
            std::exit(3);
        }
        evs[I(t[1])].reset();
    } else if (o == "eval") {
        auto it = evs.find(I(t[1]));
        if (it == evs.end()) {
            out("harness-error eval on missing evaluator");
            std::exit(3);
        }
        auto ev = it->second; // the caller owns the evaluator during the pass
        if (!ev) {
            out("harness-error eval on dropped evaluator");
            std::exit(3);
        }
        ev->evaluateDeferredConnections();
    } else {
        out("harness-error unknown op " + o);
        std::exit(3);
    }
}

static void runScript(int sid)
{
    auto it = g_world->scripts.find(sid);
    if (it == g_world->scripts.end())
        return;
    // copy: the script table is never modified while running, but be safe against re-entrancy
    const auto body = it->second;
    for (const auto &t : body)
        g_world->exec(t);
}

static std::vector<std::string> toks(const std::string &line)
{
    std::vector<std::string> r;
    std::istringstream is(line);
    std::string s;
    while (is >> s)
        r.push_back(s);
    return r;
}

static void printHeld()
{
    std::string line = "held";
    for (auto &[l, n] : g_live)
        if (n > 0)
            line += " " + std::to_string(l);
    out(line);
}

static void runFile(const char *path)
{
    out(std::string("== ") + path);
    std::ifstream in(path);
    std::vector<std::vector<std::string>> top;
    {
        World w;
        g_world = &w;
        g_handles = &w.handles;
        g_live.clear();
        std::string line;
        while (std::getline(in, line)) {
            auto t = toks(line);
            if (t.empty() || t[0][0] == '#')
                continue;
            if (t[0] == "def") {
                int sid = I(t[1]), cnt = I(t[2]);
                std::vector<std::vector<std::string>> body;
                while (cnt > 0 && std::getline(in, line)) {
                    auto b = toks(line);
                    if (b.empty())
                        continue;
                    body.push_back(b);
                    --cnt;
                }
                w.scripts[sid] = body;
            } else {
                top.push_back(t);
            }
        }
        for (const auto &t : top) {
            std::string r = "ok";
            try {
                w.exec(t);
            } catch (const std::out_of_range &) {
                r = "oor";
            } catch (const std::runtime_error &e) {
                if (std::strstr(e.what(), "already emitting"))
                    r = "emitting";
                else if (std::strstr(e.what(), "no longer alive"))
                    r = "evgone";
                else
                    r = std::string("exc-runtime:") + e.what();
            } catch (const std::exception &e) {
                r = std::string("exc:") + e.what();
            }
            out("done " + r);
            printHeld();
        }
        // teardown in an order that exercises destruction with everything still connected
        w.blockers.clear();
        w.scoped.clear();
        w.sigs.clear();
        w.evs.clear();
        w.handles.clear();
        g_world = nullptr;
        g_handles = nullptr;
    }
    std::string line = "teardown";
    for (auto &[l, n] : g_live)
        if (n != 0)
            line += " " + std::to_string(l) + ":" + std::to_string(n);
    out(line);
}

int main(int argc, char **argv)
{
    for (int i = 1; i < argc; ++i)
        runFile(argv[i]);
    return 0;
}
