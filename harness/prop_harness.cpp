// Script interpreter running property-layer scripts on the REAL library (headers of /repo/src as they are now).
// Prints one observation per line in the format of driver/propdriver.ml.
#include <kdbindings/binding.h>

#include <cstdio>
#include <cstdlib>
#include <cstring>
#include <fstream>
#include <map>
#include <memory>
#include <sstream>
#include <string>
#include <vector>

using namespace KDBindings;

// C19 on the property layer: with -DHEAP_ACCOUNTING (a separate binary, built without sanitizers) every allocation of the process goes
// through the counting operator new below; `heapmark` remembers the number of bytes currently held, `heapcheck` prints by how much
// that number has changed.  The interpreter itself keeps no history (observations are printed and forgotten), so between two points
// at which its own tables have the same content the difference is the library's.
#ifdef HEAP_ACCOUNTING
#include <new>
static long g_heapLive = 0;
static void *countedAlloc(std::size_t n)
{
    void *p = std::malloc(n + 16);
    if (!p)
        throw std::bad_alloc();
    *static_cast<std::size_t *>(p) = n;
    g_heapLive += static_cast<long>(n);
    return static_cast<char *>(p) + 16;
}
static void countedFree(void *q) noexcept
{
    if (!q)
        return;
    void *p = static_cast<char *>(q) - 16;
    g_heapLive -= static_cast<long>(*static_cast<std::size_t *>(p));
    std::free(p);
}
void *operator new(std::size_t n) { return countedAlloc(n); }
void *operator new[](std::size_t n) { return countedAlloc(n); }
void operator delete(void *p) noexcept { countedFree(p); }
void operator delete[](void *p) noexcept { countedFree(p); }
void operator delete(void *p, std::size_t) noexcept { countedFree(p); }
void operator delete[](void *p, std::size_t) noexcept { countedFree(p); }
#else
static long g_heapLive = 0;
#endif
static long g_heapMark = 0;

static void out(const std::string &s)
{
    fputs(s.c_str(), stdout);
    fputc('\n', stdout);
    fflush(stdout);
}

using P = Property<int>;
using NodeI = Private::Node<int>;

static long g_liveFn = 0; // instances of user functions held inside expression trees

// the same table as coq/PropFn.v
static int fnval(int f, int a, int b, int c)
{
    if (f >= 50 && a == 13)
        throw std::runtime_error("user");
    switch (f % 5) {
    case 0:
        return a + b + c + f;
    case 1:
        return a - b + 2 * c;
    case 2:
        return std::max(a, std::max(b, c));
    case 3:
        return a == b ? c + 1 : a - 1;
    default:
        return (a * b) % 97 - c;
    }
}

struct Fn {
    int f;
    explicit Fn(int x)
        : f(x) { ++g_liveFn; }
    Fn(const Fn &o)
        : f(o.f) { ++g_liveFn; }
    Fn(Fn &&o) noexcept
        : f(o.f) { ++g_liveFn; }
    ~Fn() { --g_liveFn; }
    int operator()(int a) const
    {
        out("fn " + std::to_string(f));
        return fnval(f, a, 0, 0);
    }
    int operator()(int a, int b) const
    {
        out("fn " + std::to_string(f));
        return fnval(f, a, b, 0);
    }
    int operator()(int a, int b, int c) const
    {
        out("fn " + std::to_string(f));
        return fnval(f, a, b, c);
    }
};

struct World {
    std::map<int, std::unique_ptr<P>> props;
    std::map<int, std::unique_ptr<BindingEvaluator>> bevs;
    std::map<int, std::unique_ptr<PropertyUpdater<int>>> held;
    std::map<int, ConnectionHandle> obs;
    std::map<int, int> obsOwner; // observer label -> property currently carrying its connection
    P *destroying = nullptr;
    int destroyingId = -1;

    P *prop(int id)
    {
        if (id == destroyingId)
            return destroying;
        auto it = props.find(id);
        if (it == props.end() || !it->second)
            return nullptr;
        return it->second.get();
    }
    P &need(int id)
    {
        P *p = prop(id);
        if (!p) {
            out("harness-error no property " + std::to_string(id));
            std::exit(3);
        }
        return *p;
    }
    std::string seen(int label)
    {
        auto it = obsOwner.find(label);
        P *p = it == obsOwner.end() ? nullptr : prop(it->second);
        return p ? std::to_string(p->get()) : std::string("-");
    }
    // true while an expression is built in which some property occurs more than once: the order in which the leaves of ONE library
    // call (`a + b`: make_unique<OperatorNode>(op, makeNode(a), makeNode(b))) subscribe to their properties is the compiler's argument
    // evaluation order, which is observable only through two leaves on the same property; there the property operands are turned into
    // nodes first, in the model's left-to-right order (the [Node, ...] overloads are used); otherwise the overload for the operand
    // kinds as they are is called
    bool leavesFirst = false;
    NodeI build(const std::vector<std::string> &t, size_t &i);
    void exec(const std::vector<std::string> &t);
};

static World *g_w = nullptr;
static int I(const std::string &s) { return std::atoi(s.c_str()); }

// Function ids >= 100 stand for the library's OWN operator overloads and declared functions (node_operators.h, node_functions.h):
// the expression is put together with the real `operator OP` overload selected by the operand kinds (Property&, plain value, Node&&) -
// all eight combinations of the binary macro, both of the unary one.  They print no `fn` line (the library's lambda is not
// instrumented); the model computes the same values (coq/PropFn.v) and the driver does not print their `fn` events.
//   100 +   101 -   102 ^   103 &   104 |        110 unary -   111 ~   112 unary +   113 abs
template<typename L, typename R>
static NodeI applyBinary(int f, L &&l, R &&r)
{
    switch (f) {
    case 100:
        return std::forward<L>(l) + std::forward<R>(r);
    case 101:
        return std::forward<L>(l) - std::forward<R>(r);
    case 102:
        return std::forward<L>(l) ^ std::forward<R>(r);
    case 103:
        return std::forward<L>(l) & std::forward<R>(r);
    default:
        return std::forward<L>(l) | std::forward<R>(r);
    }
}
template<typename A>
static NodeI applyUnary(int f, A &&a)
{
    switch (f) {
    case 110:
        return -std::forward<A>(a);
    case 111:
        return ~std::forward<A>(a);
    case 112:
        return +std::forward<A>(a);
    default:
        return KDBindings::abs(std::forward<A>(a));
    }
}

struct Operand {
    char kind; // 'p' property, 'c' constant, 'n' sub-expression
    P *prop = nullptr;
    int value = 0;
    std::unique_ptr<NodeI> node;
};

NodeI World::build(const std::vector<std::string> &t, size_t &i)
{
    const std::string k = t.at(i++);
    if ((k == "o1" || k == "o2") && I(t.at(i)) >= 100) {
        const int f = I(t.at(i++));
        auto operand = [&]() {
            Operand o;
            const std::string &kk = t.at(i);
            if (kk == "p" && leavesFirst) {
                o.kind = 'n';
                ++i;
                o.node = std::make_unique<NodeI>(Private::makeNode(need(I(t.at(i++)))));
            } else if (kk == "p") {
                o.kind = 'p';
                ++i;
                o.prop = &need(I(t.at(i++)));
            } else if (kk == "c") {
                o.kind = 'c';
                ++i;
                o.value = I(t.at(i++));
            } else {
                o.kind = 'n';
                o.node = std::make_unique<NodeI>(build(t, i));
            }
            return o;
        };
        if (k == "o1") {
            Operand a = operand();
            if (a.kind == 'p')
                return applyUnary(f, *a.prop);
            if (a.kind == 'c') // there is no operator for a plain value: a constant node as operand
                return applyUnary(f, Private::makeNode(std::move(a.value)));
            return applyUnary(f, std::move(*a.node));
        }
        Operand a = operand();
        Operand b = operand();
        if (a.kind == 'c' && b.kind == 'c') // plain values on both sides are not an expression of the library
            return applyBinary(f, Private::makeNode(std::move(a.value)), std::move(b.value));
        if (a.kind == 'p') {
            if (b.kind == 'p')
                return applyBinary(f, *a.prop, *b.prop);
            if (b.kind == 'c')
                return applyBinary(f, *a.prop, std::move(b.value));
            return applyBinary(f, *a.prop, std::move(*b.node));
        }
        if (a.kind == 'c') {
            if (b.kind == 'p')
                return applyBinary(f, std::move(a.value), *b.prop);
            return applyBinary(f, std::move(a.value), std::move(*b.node));
        }
        if (b.kind == 'p')
            return applyBinary(f, std::move(*a.node), *b.prop);
        if (b.kind == 'c')
            return applyBinary(f, std::move(*a.node), std::move(b.value));
        return applyBinary(f, std::move(*a.node), std::move(*b.node));
    }
    if (k == "c") {
        int v = I(t.at(i++));
        return Private::makeNode(std::move(v));
    }
    if (k == "p") {
        return Private::makeNode(need(I(t.at(i++))));
    }
    int f = I(t.at(i++));
    if (k == "o1") {
        NodeI a = build(t, i);
        return Private::makeNode(Fn(f), std::move(a));
    }
    if (k == "o2") {
        NodeI a = build(t, i);
        NodeI b = build(t, i);
        return Private::makeNode(Fn(f), std::move(a), std::move(b));
    }
    if (k == "o3") {
        NodeI a = build(t, i);
        NodeI b = build(t, i);
        NodeI c = build(t, i);
        return Private::makeNode(Fn(f), std::move(a), std::move(b), std::move(c));
    }
    out("harness-error bad expression");
    std::exit(3);
}

void World::exec(const std::vector<std::string> &t)
{
    const std::string &o = t[0];
    if (o == "pnew") {
        if (props.count(I(t[1]))) {
            out("harness-error property exists");
            std::exit(3);
        }
        props[I(t[1])] = std::make_unique<P>(I(t[2]));
    } else if (o == "pdel") {
        need(I(t[1]));
        destroyingId = I(t[1]);
        destroying = props[destroyingId].release();
        props.erase(destroyingId);
        P *raw = destroying;
        try {
            delete raw;
        } catch (...) {
            destroying = nullptr;
            destroyingId = -1;
            throw;
        }
        destroying = nullptr;
        destroyingId = -1;
    } else if (o == "pset") {
        P &p = need(I(t[1]));
        int v = I(t[2]);
        switch (I(t[3])) {
        case 0:
            p.set(v);
            break;
        case 1:
            p = v;
            break;
        default: {
            std::istringstream is(std::to_string(v));
            is >> p;
        }
        }
    } else if (o == "pget") {
        out("val " + std::to_string(need(I(t[1])).get()));
    } else if (o == "phas") {
        out("val " + std::to_string(need(I(t[1])).hasBinding() ? 1 : 0));
    } else if (o == "passign") {
        need(I(t[1])) = need(I(t[2])).get(); // operator=(T const &) with a reference into the other property
    } else if (o == "pobs" || o == "pobsset" || o == "pobsreset") {
        P &p = need(I(t[1]));
        int label = I(t[3]);
        const int target = o == "pobsset" ? I(t[5]) : -1;
        const int rtarget = o == "pobsreset" ? I(t[5]) : -1;
        obsOwner[label] = I(t[1]);
        ConnectionHandle h;
        switch (I(t[2])) {
        case 0:
            h = p.valueAboutToChange().connect([label, target, rtarget](const int &oldv, const int &newv) {
                out("notify " + std::to_string(label) + " about " + std::to_string(oldv) + " " + std::to_string(newv) + " seen " + g_w->seen(label));
                if (target >= 0)
                    if (P *q = g_w->prop(target))
                        q->set(oldv);
                if (rtarget >= 0)
                    if (P *q = g_w->prop(rtarget))
                        q->reset();
            });
            break;
        case 1:
            h = p.valueChanged().connect([label, target, rtarget](const int &v) {
                out("notify " + std::to_string(label) + " changed " + std::to_string(v) + " seen " + g_w->seen(label));
                if (target >= 0)
                    if (P *q = g_w->prop(target))
                        q->set(v);
                if (rtarget >= 0)
                    if (P *q = g_w->prop(rtarget))
                        q->reset();
            });
            break;
        default:
            h = p.destroyed().connect([label]() {
                out("notify " + std::to_string(label) + " destroyed seen " + g_w->seen(label));
            });
        }
        obs[I(t[4])] = h;
    } else if (o == "punobs") {
        auto it = obs.find(I(t[1]));
        if (it == obs.end()) {
            out("harness-error no observer handle");
            std::exit(3);
        }
        it->second.disconnect();
    } else if (o == "pbind" || o == "bhold") {
        size_t i = 3;
        int mode = I(t[2]);
        {
            std::map<std::string, int> occurrences;
            leavesFirst = false;
            for (size_t k = 3; k + 1 < t.size(); ++k)
                if (t[k] == "p" && ++occurrences[t[k + 1]] > 1)
                    leavesFirst = true;
        }
        NodeI root = build(t, i);
        if (mode >= 0 && !bevs.count(mode)) {
            out("harness-error no evaluator");
            std::exit(3);
        }
        if (o == "bhold") {
            if (mode < 0)
                held[I(t[1])] = makeBinding(std::move(root));
            else
                held[I(t[1])] = makeBinding(*bevs[mode], std::move(root));
            return;
        }
        int pid = I(t[1]);
        if (mode < 0) {
            auto b = makeBinding(std::move(root));
            if (prop(pid))
                *prop(pid) = std::move(b);
            else
                props[pid] = std::make_unique<P>(std::move(b));
        } else {
            auto b = makeBinding(*bevs[mode], std::move(root));
            if (prop(pid))
                *prop(pid) = std::move(b);
            else
                props[pid] = std::make_unique<P>(std::move(b));
        }
    } else if (o == "bholddel") {
        if (!held.count(I(t[1]))) {
            out("harness-error no held binding");
            std::exit(3);
        }
        held.erase(I(t[1]));
    } else if (o == "preset") {
        need(I(t[1])).reset();
    } else if (o == "pmovector") {
        P &src = need(I(t[1]));
        if (prop(I(t[2]))) {
            out("harness-error move-construct over existing");
            std::exit(3);
        }
        auto d = std::make_unique<P>(std::move(src));
        props[I(t[2])] = std::move(d);
        for (auto &[l, owner] : obsOwner)
            if (owner == I(t[1]))
                owner = I(t[2]);
    } else if (o == "pmoveassign") {
        P &dst = need(I(t[1]));
        P &src = need(I(t[2]));
        for (auto &[l, owner] : obsOwner)
            if (owner == I(t[1]))
                owner = -2; // these connections end with the overwritten signals
        try {
            dst = std::move(src);
        } catch (...) {
            for (auto &[l, owner] : obsOwner)
                if (owner == I(t[2]))
                    owner = I(t[1]);
            throw;
        }
        for (auto &[l, owner] : obsOwner)
            if (owner == I(t[2]))
                owner = I(t[1]);
    } else if (o == "bevnew") {
        bevs[I(t[1])] = std::make_unique<BindingEvaluator>();
    } else if (o == "bevcopy") {
        if (!bevs.count(I(t[1])) || bevs.count(I(t[2]))) {
            out("harness-error bevcopy");
            std::exit(3);
        }
        bevs[I(t[2])] = std::make_unique<BindingEvaluator>(*bevs[I(t[1])]);
    } else if (o == "bevdel") {
        if (!bevs.count(I(t[1]))) {
            out("harness-error bevdel");
            std::exit(3);
        }
        bevs.erase(I(t[1]));
    } else if (o == "heapmark") {
        g_heapMark = g_heapLive;
    } else if (o == "heapcheck") {
#ifdef HEAP_ACCOUNTING
        out("heap " + std::to_string(g_heapLive - g_heapMark));
#else
        out("heap n/a");
#endif
    } else if (o == "evalall") {
        if (!bevs.count(I(t[1]))) {
            out("harness-error evalall");
            std::exit(3);
        }
        bevs[I(t[1])]->evaluateAll();
    } else {
        out("harness-error unknown op " + o);
        std::exit(3);
    }
}

static std::vector<std::string> toks(const std::string &line)
{
    std::vector<std::string> r;
    std::istringstream is(line);
    std::string s;
    while (is >> s)
        r.push_back(s);
    return r;
}

static void runFile(const char *path)
{
    out(std::string("== ") + path);
    std::ifstream in(path);
    {
        World w;
        g_w = &w;
        std::string line;
        while (std::getline(in, line)) {
            auto t = toks(line);
            if (t.empty() || t[0][0] == '#')
                continue;
            std::string r = "ok";
            try {
                w.exec(t);
            } catch (const ReadOnlyProperty &) {
                r = "readonly";
            } catch (const PropertyDestroyedError &) {
                r = "destroyed";
            } catch (const std::runtime_error &e) {
                if (std::strstr(e.what(), "already emitting"))
                    r = "emitting";
                else if (std::strcmp(e.what(), "user") == 0)
                    r = "user";
                else
                    r = std::string("exc-runtime:") + e.what();
            } catch (const std::exception &e) {
                r = std::string("exc:") + e.what();
            }
            out("done " + r);
            std::string vals = "vals";
            for (auto &[id, p] : w.props)
                if (p)
                    vals += " " + std::to_string(id) + ":" + std::to_string(p->get()) + (p->hasBinding() ? "b" : "");
            out(vals);
        }
        // teardown: whatever the script left alive, in an order that stresses dangling references:
        // evaluators first, then properties in ascending id (inputs usually before the properties bound to them)
        w.bevs.clear();
        while (!w.props.empty()) {
            auto it = w.props.begin();
            w.destroyingId = it->first;
            w.destroying = it->second.release();
            w.props.erase(it);
            delete w.destroying;
            w.destroying = nullptr;
            w.destroyingId = -1;
        }
        w.held.clear();
        w.obs.clear();
        g_w = nullptr;
    }
    out("teardown" + (g_liveFn ? " fn:" + std::to_string(g_liveFn) : std::string()));
    g_liveFn = 0;
}

int main(int argc, char **argv)
{
    for (int i = 1; i < argc; ++i)
        runFile(argv[i]);
    return 0;
}
