// C14 grid: for one operator, all 8 operand-kind combinations, a list of operand type pairs and a small value domain:
// static result type == decltype(a OP b), value == (a OP b) initially and after every change of an input.
#pragma once
#include <kdbindings/binding.h>
#include <cmath>
#include <cstdio>
#include <type_traits>
#include <vector>

using namespace KDBindings;

static long g_cells = 0, g_fail = 0;

template<class T>
T node_value_type(const Private::Node<T> &);

template<class T>
std::vector<T> domain()
{
    if constexpr (std::is_same_v<T, bool>)
        return { false, true };
    else if constexpr (std::is_floating_point_v<T>)
        return { T(0.5), T(1), T(2), T(-1.5) };
    else if constexpr (std::is_signed_v<T>)
        return { T(0), T(1), T(2), T(3), T(7), T(-1), T(-5) };
    else
        return { T(0), T(1), T(2), T(3), T(7) };
}

template<class R>
bool same(const R &x, const R &y)
{
    if constexpr (std::is_floating_point_v<R>)
        return (x == y) || (std::isnan(x) && std::isnan(y));
    else
        return x == y;
}

inline void report(const char *op, const char *kind, const char *ta, const char *tb, double a, double b, double got, double want, const char *when)
{
    ++g_fail;
    std::printf("FAIL op=%s kind=%s types=(%s,%s) a=%g b=%g got=%g want=%g %s\n", op, kind, ta, tb, a, b, got, want, when);
}

// is the plain operator defined (no UB) on these values?
enum class OpClass { Arith, Div, Shift, Other };

template<class A, class B>
bool defined_on(OpClass c, A a, B b)
{
    if (c == OpClass::Div)
        return b != 0;
    if (c == OpClass::Shift) {
        if constexpr (std::is_integral_v<A> && std::is_integral_v<B>) {
            if constexpr (std::is_signed_v<A>)
                if (a < 0)
                    return false;
            if constexpr (std::is_signed_v<B>)
                if (b < 0)
                    return false;
            return b <= 3;
        }
    }
    return true;
}

#define C14_BINARY(NAME, OP, CLASS)                                                                                          \
    template<class A, class B, class = void>                                                                                \
    struct ok_##NAME : std::false_type {                                                                                    \
    };                                                                                                                      \
    template<class A, class B>                                                                                              \
    struct ok_##NAME<A, B, std::void_t<decltype(std::declval<A>() OP std::declval<B>())>> : std::true_type {              \
    };                                                                                                                      \
    template<class A, class B>                                                                                              \
    void test_##NAME(const char *ta, const char *tb)                                                                        \
    {                                                                                                                       \
        if constexpr (ok_##NAME<A, B>::value) {                                                                             \
            using R = decltype(std::declval<A>() OP std::declval<B>());                                                    \
            {                                                                                                               \
                Property<A> pa{ A{} };                                                                                      \
                Property<B> pb{ B{} };                                                                                      \
                A va{};                                                                                                     \
                B vb{};                                                                                                     \
                static_assert(std::is_same_v<decltype(node_value_type(pa OP vb)), R>, "PV result type");                   \
                static_assert(std::is_same_v<decltype(node_value_type(va OP pb)), R>, "VP result type");                   \
                static_assert(std::is_same_v<decltype(node_value_type(pa OP pb)), R>, "PP result type");                   \
                static_assert(std::is_same_v<decltype(node_value_type(Private::makeNode(pa) OP vb)), R>, "NV result type"); \
                static_assert(std::is_same_v<decltype(node_value_type(va OP Private::makeNode(pb))), R>, "VN result type"); \
                static_assert(std::is_same_v<decltype(node_value_type(Private::makeNode(pa) OP Private::makeNode(pb))), R>, "NN result type"); \
                static_assert(std::is_same_v<decltype(node_value_type(pa OP Private::makeNode(pb))), R>, "PN result type"); \
                static_assert(std::is_same_v<decltype(node_value_type(Private::makeNode(pa) OP pb)), R>, "NP result type"); \
            }                                                                                                               \
            const auto as = domain<A>();                                                                                    \
            const auto bs = domain<B>();                                                                                    \
            for (A a : as)                                                                                                  \
                for (B b : bs) {                                                                                            \
                    if (!defined_on(CLASS, a, b))                                                                           \
                        continue;                                                                                           \
                    A a2 = as[1 % as.size()];                                                    \
                    B b2 = bs[bs.size() - 1];                                                                               \
                    const bool d2 = defined_on(CLASS, a2, b) && defined_on(CLASS, a2, b2);                                  \
                    const R want = (a OP b);                                                                                \
                    _Pragma("GCC diagnostic push") _Pragma("GCC diagnostic ignored \"-Wparentheses\"")                      \
                    {                                                                                                       \
                        Property<A> pa{ a };                                                                                \
                        auto r = makeBoundProperty(pa OP b);                                                                \
                        ++g_cells;                                                                                          \
                        if (!same<R>(r.get(), want))                                                                        \
                            report(#OP, "PV", ta, tb, double(a), double(b), double(r.get()), double(want), "initially");   \
                        if (d2) {                                                                                           \
                            pa = a2;                                                                                        \
                            if (!same<R>(r.get(), (a2 OP b)))                                                               \
                                report(#OP, "PV", ta, tb, double(a2), double(b), double(r.get()), double(a2 OP b), "after change"); \
                        }                                                                                                   \
                    }                                                                                                       \
                    {                                                                                                       \
                        Property<B> pb{ b };                                                                                \
                        auto r = makeBoundProperty(a OP pb);                                                                \
                        ++g_cells;                                                                                          \
                        if (!same<R>(r.get(), want))                                                                        \
                            report(#OP, "VP", ta, tb, double(a), double(b), double(r.get()), double(want), "initially");   \
                        if (defined_on(CLASS, a, b2)) {                                                                     \
                            pb = b2;                                                                                        \
                            if (!same<R>(r.get(), (a OP b2)))                                                               \
                                report(#OP, "VP", ta, tb, double(a), double(b2), double(r.get()), double(a OP b2), "after change"); \
                        }                                                                                                   \
                    }                                                                                                       \
                    {                                                                                                       \
                        Property<A> pa{ a };                                                                                \
                        Property<B> pb{ b };                                                                                \
                        auto r = makeBoundProperty(pa OP pb);                                                               \
                        auto r2 = makeBoundProperty(Private::makeNode(pa) OP b);                                            \
                        auto r3 = makeBoundProperty(a OP Private::makeNode(pb));                                            \
                        auto r4 = makeBoundProperty(Private::makeNode(pa) OP Private::makeNode(pb));                        \
                        auto r5 = makeBoundProperty(pa OP Private::makeNode(pb));                                           \
                        auto r6 = makeBoundProperty(Private::makeNode(pa) OP pb);                                           \
                        g_cells += 6;                                                                                       \
                        if (!same<R>(r.get(), want)) report(#OP, "PP", ta, tb, double(a), double(b), double(r.get()), double(want), "initially");   \
                        if (!same<R>(r2.get(), want)) report(#OP, "NV", ta, tb, double(a), double(b), double(r2.get()), double(want), "initially"); \
                        if (!same<R>(r3.get(), want)) report(#OP, "VN", ta, tb, double(a), double(b), double(r3.get()), double(want), "initially"); \
                        if (!same<R>(r4.get(), want)) report(#OP, "NN", ta, tb, double(a), double(b), double(r4.get()), double(want), "initially"); \
                        if (!same<R>(r5.get(), want)) report(#OP, "PN", ta, tb, double(a), double(b), double(r5.get()), double(want), "initially"); \
                        if (!same<R>(r6.get(), want)) report(#OP, "NP", ta, tb, double(a), double(b), double(r6.get()), double(want), "initially"); \
                        if (d2) {                                                                                           \
                            pa = a2;                                                                                        \
                            const R w1 = (a2 OP b);                                                                         \
                            if (!same<R>(r.get(), w1)) report(#OP, "PP", ta, tb, double(a2), double(b), double(r.get()), double(w1), "after change of a");   \
                            if (!same<R>(r2.get(), w1)) report(#OP, "NV", ta, tb, double(a2), double(b), double(r2.get()), double(w1), "after change of a"); \
                            if (!same<R>(r4.get(), w1)) report(#OP, "NN", ta, tb, double(a2), double(b), double(r4.get()), double(w1), "after change of a"); \
                            if (!same<R>(r5.get(), w1)) report(#OP, "PN", ta, tb, double(a2), double(b), double(r5.get()), double(w1), "after change of a"); \
                            if (!same<R>(r6.get(), w1)) report(#OP, "NP", ta, tb, double(a2), double(b), double(r6.get()), double(w1), "after change of a"); \
                            pb = b2;                                                                                        \
                            const R w2 = (a2 OP b2);                                                                        \
                            if (!same<R>(r.get(), w2)) report(#OP, "PP", ta, tb, double(a2), double(b2), double(r.get()), double(w2), "after change of b");   \
                            if (!same<R>(r3.get(), (a OP b2))) report(#OP, "VN", ta, tb, double(a), double(b2), double(r3.get()), double(a OP b2), "after change of b"); \
                            if (!same<R>(r4.get(), w2)) report(#OP, "NN", ta, tb, double(a2), double(b2), double(r4.get()), double(w2), "after change of b"); \
                            if (!same<R>(r5.get(), w2)) report(#OP, "PN", ta, tb, double(a2), double(b2), double(r5.get()), double(w2), "after change of b"); \
                            if (!same<R>(r6.get(), w2)) report(#OP, "NP", ta, tb, double(a2), double(b2), double(r6.get()), double(w2), "after change of b"); \
                        }                                                                                                   \
                    }                                                                                                       \
                    _Pragma("GCC diagnostic pop")                                                                           \
                }                                                                                                           \
        }                                                                                                                   \
    }

#define C14_UNARY(NAME, OP)                                                                                                 \
    template<class A, class = void>                                                                                         \
    struct uok_##NAME : std::false_type {                                                                                   \
    };                                                                                                                      \
    template<class A>                                                                                                       \
    struct uok_##NAME<A, std::void_t<decltype(OP std::declval<A>())>> : std::true_type {                                   \
    };                                                                                                                      \
    template<class A>                                                                                                       \
    void utest_##NAME(const char *ta)                                                                                       \
    {                                                                                                                       \
        if constexpr (uok_##NAME<A>::value) {                                                                               \
            using R = std::decay_t<decltype(OP std::declval<A>())>;                                                         \
            {                                                                                                               \
                Property<A> pa{ A{} };                                                                                      \
                static_assert(std::is_same_v<decltype(node_value_type(OP pa)), R>, "P result type");                        \
                static_assert(std::is_same_v<decltype(node_value_type(OP Private::makeNode(pa))), R>, "N result type");     \
            }                                                                                                               \
            const auto as = domain<A>();                                                                                    \
            for (A a : as) {                                                                                                \
                Property<A> pa{ a };                                                                                        \
                auto r = makeBoundProperty(OP pa);                                                                          \
                auto r2 = makeBoundProperty(OP Private::makeNode(pa));                                                      \
                g_cells += 2;                                                                                               \
                const R want = (OP a);                                                                                      \
                if (!same<R>(r.get(), want)) report(#OP, "P", ta, "-", double(a), 0, double(r.get()), double(want), "initially");   \
                if (!same<R>(r2.get(), want)) report(#OP, "N", ta, "-", double(a), 0, double(r2.get()), double(want), "initially"); \
                A a2 = as[as.size() - 1];                                                                                   \
                pa = a2;                                                                                                    \
                const R w2 = (OP a2);                                                                                       \
                if (!same<R>(r.get(), w2)) report(#OP, "P", ta, "-", double(a2), 0, double(r.get()), double(w2), "after change");   \
                if (!same<R>(r2.get(), w2)) report(#OP, "N", ta, "-", double(a2), 0, double(r2.get()), double(w2), "after change"); \
            }                                                                                                               \
        }                                                                                                                   \
    }
