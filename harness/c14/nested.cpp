// C14: nested operator expressions keep computing the plain expression after EVERY change of an input, in immediate
// mode and when evaluation is deferred to BindingEvaluator::evaluateAll (all orders of two changes between evaluations).
#include "grid.h"

template<class MakeExpr, class Plain>
void scenario(const char *what, MakeExpr mk, Plain plain)
{
    const int vals[] = { 5, 10, -3, 0, 7 };
    // the inputs are changed in every order, one or two at a time, before each evaluation
    const int orders[][3] = { { 0, 1, 2 }, { 0, 2, 1 }, { 1, 0, 2 }, { 1, 2, 0 }, { 2, 0, 1 }, { 2, 1, 0 } };
    for (auto &ord : orders)
        for (int first = 0; first < 5; ++first)
            for (int second = 0; second < 5; ++second) {
                Property<int> p[3] = { Property<int>(1), Property<int>(2), Property<int>(3) };
                BindingEvaluator ev;
                auto imm = makeBoundProperty(mk(p[0], p[1], p[2]));
                auto man = makeBoundProperty(ev, mk(p[0], p[1], p[2]));
                ++g_cells;
                auto check = [&](const char *when) {
                    const int want = plain(p[0].get(), p[1].get(), p[2].get());
                    if (imm.get() != want)
                        report(what, "immediate", "int", "int", p[0].get(), p[1].get(), imm.get(), want, when);
                    ev.evaluateAll();
                    if (man.get() != want)
                        report(what, "evaluator", "int", "int", p[0].get(), p[1].get(), man.get(), want, when);
                };
                check("initially");
                p[ord[0]] = vals[first];
                p[ord[1]] = vals[second];
                check("after two changes");
                p[ord[2]] = vals[first];
                check("after third change");
                p[ord[1]] = vals[(second + 1) % 5];
                p[ord[0]] = vals[(first + 2) % 5];
                check("after two more changes");
            }
}

int main()
{
    scenario("a*(b+c)", [](auto &a, auto &b, auto &c) { return a * (b + c); }, [](int a, int b, int c) { return a * (b + c); });
    scenario("(b-c)-a", [](auto &a, auto &b, auto &c) { return (b - c) - a; }, [](int a, int b, int c) { return (b - c) - a; });
    scenario("(a+1)*(b<<1)+c", [](auto &a, auto &b, auto &c) { return (a + 1) * (b + 100) + c; }, [](int a, int b, int c) { return (a + 1) * (b + 100) + c; });
    scenario("abs(b-c)+a", [](auto &a, auto &b, auto &c) { return abs(b - c) + a; }, [](int a, int b, int c) { return std::abs(b - c) + a; });
    scenario("-(a+b)*~c", [](auto &a, auto &b, auto &c) { return -(a + b) * ~c; }, [](int a, int b, int c) { return -(a + b) * ~c; });
    scenario("(a<b)&&(b<c)", [](auto &a, auto &b, auto &c) { return (a < b) && (b < c); }, [](int a, int b, int c) { return int((a < b) && (b < c)); });
    std::printf("cells %ld failures %ld\n", g_cells, g_fail);
    return g_fail ? 1 : 0;
}
