// C14: the nine predeclared functions: static result type and value equal to std::NAME applied to the plain value,
// for Property and Node operands, initially and after a change.
#include "grid.h"

#define C14_FUNCTION(NAME)                                                                                             \
    template<class A>                                                                                                  \
    void ftest_##NAME(const char *ta, std::vector<A> dom)                                                              \
    {                                                                                                                  \
        using R = std::decay_t<decltype(std::NAME(std::declval<A>()))>;                                                \
        {                                                                                                              \
            Property<A> pa{ A{} };                                                                                     \
            static_assert(std::is_same_v<decltype(node_value_type(NAME(pa))), R>, #NAME " P result type");             \
            static_assert(std::is_same_v<decltype(node_value_type(NAME(Private::makeNode(pa)))), R>, #NAME " N result type"); \
        }                                                                                                              \
        for (A a : dom) {                                                                                              \
            Property<A> pa{ a };                                                                                       \
            auto r = makeBoundProperty(NAME(pa));                                                                      \
            auto r2 = makeBoundProperty(NAME(Private::makeNode(pa)));                                                  \
            g_cells += 2;                                                                                              \
            const R want = std::NAME(a);                                                                               \
            if (!same<R>(r.get(), want)) report(#NAME, "P", ta, "-", double(a), 0, double(r.get()), double(want), "initially");   \
            if (!same<R>(r2.get(), want)) report(#NAME, "N", ta, "-", double(a), 0, double(r2.get()), double(want), "initially"); \
            A a2 = dom[0];                                                                                             \
            pa = a2;                                                                                                   \
            const R w2 = std::NAME(a2);                                                                                \
            if (!same<R>(r.get(), w2)) report(#NAME, "P", ta, "-", double(a2), 0, double(r.get()), double(w2), "after change");   \
            if (!same<R>(r2.get(), w2)) report(#NAME, "N", ta, "-", double(a2), 0, double(r2.get()), double(w2), "after change"); \
        }                                                                                                              \
    }

C14_FUNCTION(abs)
C14_FUNCTION(floor)
C14_FUNCTION(ceil)
C14_FUNCTION(sin)
C14_FUNCTION(cos)
C14_FUNCTION(tan)
C14_FUNCTION(asin)
C14_FUNCTION(acos)
C14_FUNCTION(atan)

int main()
{
    ftest_abs<short>("short", { 3, -7, 0, short(-32767) });
    ftest_abs<signed char>("signed char", { 3, -7, 0, (signed char)-127 });
    ftest_abs<int>("int", { 3, -7, 0, -2147483647 });
    ftest_abs<long>("long", { 3, -7, 0 });
    ftest_abs<long long>("long long", { 3, -7, 0 });
    ftest_abs<float>("float", { 1.5f, -2.25f, 0.f });
    ftest_abs<double>("double", { 1.5, -2.25, 0. });
#define ALL_FLOAT(NAME, ...)                          \
    ftest_##NAME<float>("float", { __VA_ARGS__ });    \
    ftest_##NAME<double>("double", { __VA_ARGS__ });  \
    ftest_##NAME<int>("int", { 0, 1 });
    ALL_FLOAT(floor, 1.5f, -2.25f, 0.f, 7.f)
    ALL_FLOAT(ceil, 1.5f, -2.25f, 0.f, 7.f)
    ALL_FLOAT(sin, 0.5f, -1.f, 0.f)
    ALL_FLOAT(cos, 0.5f, -1.f, 0.f)
    ALL_FLOAT(tan, 0.5f, -1.f, 0.f)
    ALL_FLOAT(asin, 0.5f, -1.f, 0.f)
    ALL_FLOAT(acos, 0.5f, -1.f, 0.f)
    ALL_FLOAT(atan, 0.5f, -1.f, 0.f)
    std::printf("cells %ld failures %ld\n", g_cells, g_fail);
    return g_fail ? 1 : 0;
}
