// Runs an equality-layer script on KDBindings::Property<T> for five element types that differ in their equality
// relation, and prints what the observers saw in the format of driver/eqdriver.ml (model: coq/PropEq.v).
//   eqnew <flavour> <init> <nA> <nC>     0 int (operator==)           1 Mod10 (equal_to specialised: equal modulo 10)
//                                        2 double with NaN            3 Never (equal_to specialised: never equal)
//                                        4 NoEq (no operator==, no specialisation: the library's "never equal" fallback;
//                                          only with -DEQ_HAVE_NOEQ, which bin/verif sets when harness/eq_probe_noeq.cpp compiles)
//                                        5 Loose (a class with an ordinary operator== that is not declared noexcept)
//                                        6 std::string holding 32 filler characters + the number (heap storage: a value the library moved
//                                          from, where it should have kept or copied it, prints as "moved-from")
//   ew <path 0 set | 1 operator= | 2 stream extraction> <v>
//   ewcur <path 0 set(p.get()) | 1 p = p.get()>        the property's own value, through the reference get() returns
//   eobs <0 valueAboutToChange | 1 valueChanged>
//   ebind                                an immediate binding b = f(p); prints `fn <index>` whenever f runs (index = its place among
//                                        the valueChanged subscribers of p)
#include <kdbindings/binding.h>
#include <kdbindings/property.h>

#include <cmath>
#include <fstream>
#include <iostream>
#include <limits>
#include <memory>
#include <sstream>
#include <string>
#include <vector>

using namespace KDBindings;

struct Mod10 {
    long v = 0;
};
struct Never {
    long v = 0;
};
struct NoEq {
    long v = 0;
};
struct Loose {
    long v = 0;
    bool operator==(const Loose &o) const { return v == o.v; } // deliberately not noexcept, like most user types
};
namespace KDBindings {
template<>
struct equal_to<Mod10> {
    bool operator()(const Mod10 &a, const Mod10 &b) const noexcept { return ((a.v % 10) + 10) % 10 == ((b.v % 10) + 10) % 10; }
};
template<>
struct equal_to<Never> {
    bool operator()(const Never &, const Never &) const noexcept { return false; }
};
} // namespace KDBindings
static std::istream &operator>>(std::istream &s, Mod10 &x) { return s >> x.v; }
static std::istream &operator>>(std::istream &s, Never &x) { return s >> x.v; }
static std::istream &operator>>(std::istream &s, NoEq &x) { return s >> x.v; }
static std::istream &operator>>(std::istream &s, Loose &x) { return s >> x.v; }

template<typename T>
struct Conv;
template<>
struct Conv<int> {
    static int make(long v) { return static_cast<int>(v); }
    static std::string show(const int &x) { return std::to_string(x); }
    static std::string text(long v) { return std::to_string(v); }
};
template<>
struct Conv<double> {
    static double make(long v) { return v < 0 ? std::numeric_limits<double>::quiet_NaN() : static_cast<double>(v); }
    static std::string show(const double &x) { return std::isnan(x) ? "nan" : std::to_string(static_cast<long>(x)); }
    static std::string text(long v) { return v < 0 ? "nan" : std::to_string(v); }
};
#define EQ_CONV(TYPE)                                                         \
    template<>                                                                \
    struct Conv<TYPE> {                                                       \
        static TYPE make(long v) { return TYPE{ v }; }                        \
        static std::string show(const TYPE &x) { return std::to_string(x.v); } \
        static std::string text(long v) { return std::to_string(v); }         \
    };
template<>
struct Conv<std::string> {
    static std::string make(long v) { return std::string(32, '#') + std::to_string(v); }
    static std::string show(const std::string &x) { return x.size() <= 32 ? std::string("moved-from") : x.substr(32); }
    static std::string text(long v) { return make(v); }
};
EQ_CONV(Mod10)
EQ_CONV(Never)
EQ_CONV(NoEq)
EQ_CONV(Loose)

static std::vector<std::string> toks(const std::string &l)
{
    std::istringstream s(l);
    std::vector<std::string> r;
    std::string t;
    while (s >> t)
        r.push_back(t);
    return r;
}

template<typename T>
static void runScript(std::ifstream &in, long init, int nA, int nC)
{
    using C = Conv<T>;
    {
        Property<T> p(C::make(init));
        int na = 0, nc = 0;
        auto addA = [&] {
            int idx = na++;
            (void)p.valueAboutToChange().connect([&p, idx](const T &o, const T &n) {
                std::cout << "notify about " << idx << " " << C::show(o) << " " << C::show(n) << " get=" << C::show(p.get()) << "\n";
            });
        };
        auto addC = [&] {
            int idx = nc++;
            (void)p.valueChanged().connect([&p, idx](const T &n) {
                std::cout << "notify changed " << idx << " " << C::show(n) << " get=" << C::show(p.get()) << "\n";
            });
        };
        std::vector<std::unique_ptr<Property<int>>> readers;
        auto addB = [&] {
            int idx = nc++;
            readers.push_back(std::make_unique<Property<int>>(makeBoundProperty([idx](const T &) {
                std::cout << "fn " << idx << "\n";
                return idx;
            },
                                                                                p)));
        };
        for (int i = 0; i < nA; ++i)
            addA();
        for (int i = 0; i < nC; ++i)
            addC();
        std::cout << "vals " << C::show(p.get()) << "\n";
        std::string line;
        while (std::getline(in, line)) {
            auto t = toks(line);
            if (t.empty() || t[0][0] == '#')
                continue;
            if (t[0] == "ew" && t.size() == 3) {
                long v = std::stol(t[2]);
                switch (std::stoi(t[1])) {
                case 0:
                    p.set(C::make(v));
                    break;
                case 1:
                    p = C::make(v);
                    break;
                default: {
                    std::istringstream s(C::text(v));
                    s >> p;
                    break;
                }
                }
            } else if (t[0] == "ewcur" && t.size() == 2) {
                if (std::stoi(t[1]) == 0)
                    p.set(p.get());
                else
                    p = p.get();
            } else if (t[0] == "eobs" && t.size() == 2) {
                if (std::stoi(t[1]) == 0)
                    addA();
                else
                    addC();
            } else if (t[0] == "ebind" && t.size() == 1) {
                addB();
            } else {
                std::cout << "harness-error bad op: " << line << "\n";
            }
            std::cout << "vals " << C::show(p.get()) << "\n";
        }
    }
    std::cout << "teardown\n";
}

static void runFile(const char *path)
{
    std::cout << "== " << path << "\n";
    std::ifstream in(path);
    std::string line;
    while (std::getline(in, line)) {
        auto t = toks(line);
        if (t.empty() || t[0][0] == '#')
            continue;
        if (t[0] != "eqnew" || t.size() != 5) {
            std::cout << "harness-error first op must be eqnew\n";
            return;
        }
        long init = std::stol(t[2]);
        int nA = std::stoi(t[3]), nC = std::stoi(t[4]);
        switch (std::stoi(t[1])) {
        case 0:
            runScript<int>(in, init, nA, nC);
            break;
        case 1:
            runScript<Mod10>(in, init, nA, nC);
            break;
        case 2:
            runScript<double>(in, init, nA, nC);
            break;
        case 3:
            runScript<Never>(in, init, nA, nC);
            break;
        case 5:
            runScript<Loose>(in, init, nA, nC);
            break;
        case 6:
            runScript<std::string>(in, init, nA, nC);
            break;
        default:
#ifdef EQ_HAVE_NOEQ
            runScript<NoEq>(in, init, nA, nC);
#else
            std::cout << "harness-error Property<NoEq> does not compile\n";
#endif
            break;
        }
        return;
    }
}

int main(int argc, char **argv)
{
    for (int i = 1; i < argc; ++i)
        runFile(argv[i]);
    std::cout.flush();
    return 0;
}
