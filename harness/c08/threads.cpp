// C08: producers emit / connect deferred / disconnect / destroy their own signals while a consumer thread runs evaluation
// passes on the shared evaluator, optionally while holding a user lock that the evaluator's hook also takes.
// Checked on every run: slots run only on a thread that is inside evaluateDeferredConnections; every queued
// invocation runs at most once, and exactly once unless its connection was disconnected; after disconnect() has
// returned to the producer the slot is never started again; all threads finish (watchdog); ThreadSanitizer is silent.
// Build: clang++ -std=c++17 -O1 -g -fsanitize=thread -pthread.    usage: threads <iterations> <seed>
#include <kdbindings/signal.h>
#include <atomic>
#include <chrono>
#include <cstdio>
#include <cstdlib>
#include <mutex>
#include <thread>
#include <vector>

using namespace KDBindings;

extern "C" const char *__tsan_default_options() { return "halt_on_error=1:exitcode=66:report_signal_unsafe=0"; }

static std::atomic<long> g_errors{ 0 };
static std::atomic<long> g_progress{ 0 };
static thread_local bool t_evaluating = false;

struct LockingEvaluator : ConnectionEvaluator {
    std::mutex userLock; // taken by the hook and by the consumer around the pass
    std::atomic<long> added{ 0 };
    void onInvocationAdded() override
    {
        std::lock_guard<std::mutex> g(userLock);
        ++added;
    }
};

static void fail(const char *what)
{
    ++g_errors;
    std::printf("FAIL %s\n", what);
}

struct Conn {
    std::atomic<int> started{ 0 };
    std::atomic<bool> disconnectReturned{ false };
    std::atomic<int> emitted{ 0 };
};

static void scenario(unsigned seed, bool consumerTakesUserLock)
{
    unsigned s = seed * 2654435761u + 12345u;
    auto rnd = [&s](unsigned n) { s = s * 1664525u + 1013904223u; return (s >> 9) % n; };
    auto ev = std::make_shared<LockingEvaluator>();
    constexpr int NP = 2, NC = 3;
    std::vector<std::vector<Conn>> conns(NP);
    for (auto &v : conns)
        v = std::vector<Conn>(NC);
    std::atomic<bool> stop{ false };
    std::atomic<bool> drained{ false };
    std::atomic<int> producersDone{ 0 };

    std::thread consumer([&] {
        while (!stop.load()) {
            if (consumerTakesUserLock) {
                std::lock_guard<std::mutex> g(ev->userLock);
                t_evaluating = true;
                ev->evaluateDeferredConnections();
                t_evaluating = false;
            } else {
                t_evaluating = true;
                ev->evaluateDeferredConnections();
                t_evaluating = false;
            }
            ++g_progress;
            std::this_thread::yield();
        }
        t_evaluating = true;
        ev->evaluateDeferredConnections();
        t_evaluating = false;
        drained.store(true);
    });

    std::vector<std::thread> producers;
    for (int p = 0; p < NP; ++p)
        producers.emplace_back([&, p] {
            unsigned ps = seed * 97u + p * 7919u + 1;
            auto prnd = [&ps](unsigned n) { ps = ps * 1664525u + 1013904223u; return (ps >> 9) % n; };
            auto sig = std::make_unique<Signal<int>>();
            std::vector<ConnectionHandle> hs(NC);
            for (int c = 0; c < NC; ++c) {
                Conn *cn = &conns[p][c];
                const bool slow = c == 0;
                hs[c] = sig->connectDeferred(ev, [cn, slow](int) {
                    if (!t_evaluating)
                        fail("a slot ran on a thread that is not evaluating");
                    if (cn->disconnectReturned.load())
                        fail("a slot was started after disconnect() had returned to the producer");
                    ++cn->started;
                    if (slow)
                        for (volatile int i = 0; i < 3000; ++i) { }
                });
            }
            const int steps = 6 + prnd(6);
            for (int k = 0; k < steps; ++k) {
                const unsigned what = prnd(10);
                if (what < 6) {
                    sig->emit(k);
                    for (int c = 0; c < NC; ++c)
                        if (!conns[p][c].disconnectReturned.load())
                            ++conns[p][c].emitted;
                } else if (what < 9) {
                    const int c = 1 + prnd(NC - 1);
                    if (!conns[p][c].disconnectReturned.load()) {
                        hs[c].disconnect();
                        conns[p][c].disconnectReturned.store(true);
                    }
                } else {
                    std::this_thread::yield();
                }
                ++g_progress;
            }
            if (prnd(2)) {
                sig.reset(); // destroying the signal disconnects everything
                for (int c = 0; c < NC; ++c)
                    conns[p][c].disconnectReturned.store(true);
            }
            ++producersDone;
            // keep the signal alive until the consumer has drained the queue: destroying it would (rightly) cancel what is pending
            while (!drained.load())
                std::this_thread::yield();
        });

    while (producersDone.load() < NP)
        std::this_thread::yield();
    stop.store(true);
    for (auto &t : producers)
        t.join();
    consumer.join();
    for (int p = 0; p < NP; ++p)
        for (int c = 0; c < NC; ++c) {
            const Conn &cn = conns[p][c];
            if (cn.started.load() > cn.emitted.load())
                fail("an invocation ran more often than it was queued");
            if (!cn.disconnectReturned.load() && cn.started.load() != cn.emitted.load())
                fail("a queued invocation of a connected slot did not run exactly once");
        }
    (void)rnd;
}

int main(int argc, char **argv)
{
    const int iterations = argc > 1 ? std::atoi(argv[1]) : 300;
    const unsigned seed = argc > 2 ? unsigned(std::atoi(argv[2])) : 1;
    std::atomic<bool> finished{ false };
    std::thread watchdog([&] {
        long last = -1;
        int stuck = 0;
        while (!finished.load()) {
            std::this_thread::sleep_for(std::chrono::milliseconds(500));
            const long now = g_progress.load();
            stuck = (now == last) ? stuck + 1 : 0;
            last = now;
            if (stuck >= 16) {
                std::printf("FAIL deadlock: no thread made progress for 8 s\n");
                std::fflush(stdout);
                std::_Exit(77);
            }
        }
    });
    for (int i = 0; i < iterations && !g_errors.load(); ++i)
        scenario(seed * 1000 + i, i % 2 == 0);
    finished.store(true);
    watchdog.join();
    std::printf("iterations %d errors %ld\n", iterations, g_errors.load());
    return g_errors ? 1 : 0;
}
