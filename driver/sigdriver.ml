(* Runs a signal-layer script on the model extracted from coq/SigDefs.v and prints the
   observations in the same format as harness/sig_harness.cpp.
   usage: sigdriver <script>...   (one output block per script, separated by "== <file>") *)
open Sigmodel

let rec nat_of_int n = if n <= 0 then O else S (nat_of_int (n - 1))
let rec int_of_nat = function O -> 0 | S n -> 1 + int_of_nat n
let rec pos_of_int n = if n <= 1 then XH else if n land 1 = 0 then XO (pos_of_int (n lsr 1)) else XI (pos_of_int (n lsr 1))
let rec int_of_pos = function XH -> 1 | XO p -> 2 * int_of_pos p | XI p -> 2 * int_of_pos p + 1
let z_of_int n = if n = 0 then Z0 else if n > 0 then Zpos (pos_of_int n) else Zneg (pos_of_int (-n))
let int_of_z = function Z0 -> 0 | Zpos p -> int_of_pos p | Zneg p -> - (int_of_pos p)

let tokens line = List.filter (fun s -> s <> "") (String.split_on_char ' ' (String.trim line))

exception Bad of string

let parse_op toks =
  let n s = nat_of_int (int_of_string s) in
  let b s = (int_of_string s) <> 0 in
  let zs l = List.map (fun s -> z_of_int (int_of_string s)) l in
  match toks with
  | ["signew"; s; k] -> OSigNew (n s, n k)
  | ["sigdel"; s] -> OSigDel (n s)
  | ["sigmovector"; a; d] -> OSigMoveCtor (n a, n d)
  | ["sigmoveassign"; d; a] -> OSigMoveAssign (n d, n a)
  | "conn" :: s :: h :: l :: a :: sid :: _nb :: bs -> OConnect (n s, n h, n l, n a, zs bs, n sid)
  | ["connr"; s; h; l; sid; v] -> OConnectR (n s, n h, n l, n sid, n v)
  | ["conn1"; s; h; l; sid] -> OConnect1 (n s, n h, n l, n sid)
  | ["connd"; s; h; l; sid; e] -> OConnectD (n s, n h, n l, n sid, n e)
  | "emit" :: s :: _n :: vs -> OEmit (n s, zs vs)
  | ["disch"; h] -> ODiscH (n h)
  | ["discs"; s; h] -> ODiscS (n s, n h)
  | ["discall"; s] -> ODiscAll (n s)
  | ["blockh"; h; x] -> OBlockH (n h, b x)
  | ["blocks"; s; h; x] -> OBlockS (n s, n h, b x)
  | ["isblockedh"; h] -> OIsBlockedH (n h)
  | ["isblockeds"; s; h] -> OIsBlockedS (n s, n h)
  | ["active"; h] -> OActive (n h)
  | ["belongs"; h; s] -> OBelongs (n h, n s)
  | ["heq"; a; c] -> OHEq (n a, n c)
  | ["hcopy"; a; d] -> OHCopy (n a, n d)
  | ["hnew"; h] -> OHNew (n h)
  | ["scnew"; c; h] -> OScNew (n c, n h)
  | ["scassign"; c; h] -> OScAssign (n c, n h)
  | ["scmove"; a; d] -> OScMove (n a, n d)
  | ["scmovector"; a; d] -> OScMoveCtor (n a, n d)
  | ["scdrop"; c] -> OScDrop (n c)
  | ["blnew"; x; h] -> OBlNew (n x, n h)
  | ["bldrop"; x] -> OBlDrop (n x)
  | ["evnew"; e] -> OEvNew (n e)
  | ["evdrop"; e] -> OEvDrop (n e)
  | ["eval"; e] -> OEval (n e)
  | ["tryblockh"; h; x] -> OTryBlockH (n h, b x)
  | ["tryisblockedh"; h] -> OTryIsBlockedH (n h)
  | ["discs_safe"; s; h] -> ODiscSSafe (n s, n h)
  | ["tryblnew"; x; h] -> OTryBlNew (n x, n h)
  | _ -> raise (Bad (String.concat " " toks))

let read_lines f =
  let ic = open_in f in
  let rec go acc = match input_line ic with
    | l -> go (l :: acc)
    | exception End_of_file -> close_in ic; List.rev acc in
  go []

(* returns (script table, top-level ops) *)
let parse lines =
  let tbl = Hashtbl.create 16 in
  let rec go lines top = match lines with
    | [] -> List.rev top
    | l :: rest ->
      (match tokens l with
       | [] -> go rest top
       | t :: _ when String.length t > 0 && t.[0] = '#' -> go rest top
       | ["def"; sid; cnt] ->
         let cnt = int_of_string cnt in
         let rec take k ls acc = if k = 0 then (List.rev acc, ls) else
             match ls with
             | [] -> raise (Bad "def: truncated")
             | x :: xs -> (match tokens x with
                 | [] -> take k xs acc
                 | tk -> take (k - 1) xs (parse_op tk :: acc)) in
         let (body, rest') = take cnt rest [] in
         Hashtbl.replace tbl (int_of_string sid) body;
         go rest' top
       | tk -> go rest (parse_op tk :: top)) in
  let top = go lines [] in
  (tbl, top)

let exn_name = function
  | ExOutOfRange -> "oor" | ExAlreadyEmitting -> "emitting" | ExEvaluatorGone -> "evgone"
  | ExBadScript -> "bad" | ExUB -> "ub" | ExOutOfFuel -> "fuel" | ExWrap -> "wrap"

let print_event = function
  | EvSlot (_, _, l, args) ->
    Printf.printf "slot %d%s\n" (int_of_nat l) (String.concat "" (List.map (fun z -> " " ^ string_of_int (int_of_z z)) args))
  | EvAdded e -> Printf.printf "added %d\n" (int_of_nat e)
  | EvBool b -> Printf.printf "bool %d\n" (if b then 1 else 0)
  | EvDone None -> print_string "done ok\n"
  | EvDone (Some e) -> Printf.printf "done %s\n" (exn_name e)

let run_file f =
  Printf.printf "== %s\n" f;
  let (tbl, top) = parse (read_lines f) in
  let tblf sid = match Hashtbl.find_opt tbl (int_of_nat sid) with Some b -> b | None -> [] in
  let fuel = nat_of_int 12 and pass_fuel = nat_of_int 3000 in
  let w = ref world0 in
  List.iter (fun o ->
      let before = List.length !w.w_trace in
      let w' = step tblf pass_fuel fuel !w o in
      let tr = w'.w_trace in
      let fresh = List.length tr - before in
      let rec firstn k l = if k = 0 then [] else match l with [] -> [] | x :: r -> x :: firstn (k - 1) r in
      List.iter print_event (List.rev (firstn fresh tr));
      let held = List.sort_uniq compare (List.map int_of_nat (held_labels w')) in
      Printf.printf "held%s\n" (String.concat "" (List.map (fun l -> " " ^ string_of_int l) held));
      (* keep the trace short: only its length matters for the next step *)
      w := w') top

let () =
  for i = 1 to Array.length Sys.argv - 1 do
    (try run_file Sys.argv.(i) with Bad s -> Printf.printf "PARSE-ERROR %s\n" s)
  done
