(* Runs an equality-layer script on the model extracted from coq/PropEq.v and prints the observations in the format of
   harness/eq_harness.cpp.   usage: eqdriver <script>...
   script:  eqnew <flavour 0..4> <init> <nA> <nC>   (first line)
            ew <path 0..2> <v> | ewcur <path 0..1> | eobs <0 about | 1 changed>
            ebind    an immediate binding  b = f(p)  with an instrumented function: for the model it IS a changed-observer (the
                     PropertyNode's subscription to valueChanged, made at this moment); what it shows is `fn <index>` each time f runs:
                     once when the binding is created, then once per announced change - and never for a write of an equal value (C13) *)
open Eqmodel

let rec nat_of_int n = if n <= 0 then O else S (nat_of_int (n - 1))
let rec int_of_nat = function O -> 0 | S n -> 1 + int_of_nat n
let rec pos_of_int n = if n <= 1 then XH else if n land 1 = 0 then XO (pos_of_int (n lsr 1)) else XI (pos_of_int (n lsr 1))
let rec int_of_pos = function XH -> 1 | XO p -> 2 * int_of_pos p | XI p -> 2 * int_of_pos p + 1
let z_of_int n = if n = 0 then Z0 else if n > 0 then Zpos (pos_of_int n) else Zneg (pos_of_int (-n))
let int_of_z = function Z0 -> 0 | Zpos p -> int_of_pos p | Zneg p -> - (int_of_pos p)

exception Bad of string
let tokens line = List.filter (fun s -> s <> "") (String.split_on_char ' ' (String.trim line))
let flavour_of = function 0 -> FInt | 1 -> FMod | 2 -> FNan | 3 -> FNever | 4 -> FNoEq | 5 -> FLoose | 6 -> FText | _ -> raise (Bad "flavour")

let read_lines f =
  let ic = open_in f in
  let rec go acc = match input_line ic with l -> go (l :: acc) | exception End_of_file -> close_in ic; List.rev acc in
  go []

(* a NaN prints as "nan" whatever negative number encodes it *)
let show fl z = let v = int_of_z z in if fl = FNan && v < 0 then "nan" else string_of_int v

let run_file f =
  Printf.printf "== %s\n" f;
  let lines = List.filter (fun l -> let t = tokens l in t <> [] && (List.hd t).[0] <> '#') (read_lines f) in
  match lines with
  | [] -> ()
  | first :: rest ->
    (match tokens first with
     | ["eqnew"; fl; init; na; nc] ->
       let fl = flavour_of (int_of_string fl) in
       let ops = List.map (fun l -> match tokens l with
           | ["ew"; p; v] -> EW (nat_of_int (int_of_string p), z_of_int (int_of_string v))
           | ["ewcur"; p] -> EWCur (nat_of_int (int_of_string p))
           | ["eobs"; k] -> EObs (int_of_string k = 1)
           | ["ebind"] -> EObs true
           | t -> raise (Bad (String.concat " " t))) rest in
       let init_z = z_of_int (int_of_string init) in
       (* one result per prefix keeps the output aligned with the harness: value after every op *)
       Printf.printf "vals %s\n" (show fl init_z);
       let readers = Hashtbl.create 7 in
       let rec go pre todo raw =
         match todo with
         | [] -> ()
         | o :: r ->
           let pre' = pre @ [o] in
           let is_bind = (match raw with l :: _ -> tokens l = ["ebind"] | [] -> false) in
           (if is_bind then begin
               let (s0, _) = erun_f fl init_z (nat_of_int (int_of_string na)) (nat_of_int (int_of_string nc)) pre in
               let idx = int_of_nat s0.e_nc in
               Hashtbl.replace readers idx ();
               Printf.printf "fn %d\n" idx end);
           let (s, ls) = erun_f fl init_z (nat_of_int (int_of_string na)) (nat_of_int (int_of_string nc)) pre' in
           let last = List.nth ls (List.length ls - 1) in
           List.iter (fun ev -> match ev with
               | EAbout (i, o_, n_, g) -> Printf.printf "notify about %d %s %s get=%s\n" (int_of_nat i) (show fl o_) (show fl n_) (show fl g)
               | EChanged (j, n_, g) ->
                 if Hashtbl.mem readers (int_of_nat j) then Printf.printf "fn %d\n" (int_of_nat j)
                 else Printf.printf "notify changed %d %s get=%s\n" (int_of_nat j) (show fl n_) (show fl g)) last;
           Printf.printf "vals %s\n" (show fl s.e_cur);
           go pre' r (match raw with _ :: t -> t | [] -> []) in
       go [] ops rest
     | t -> raise (Bad (String.concat " " t)))

let () =
  for i = 1 to Array.length Sys.argv - 1 do
    (try run_file Sys.argv.(i) with Bad _ | Failure _ -> Printf.printf "done bad\n")
  done
