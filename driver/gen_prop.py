#!/usr/bin/env python3
"""Generator of property-layer scripts (op language: coq/PropDefs.v, harness/prop_harness.cpp).

One random.Random(seed) drives every choice.  Acyclicity of bindings is kept by ranks: a property is only bound to
expressions over properties of strictly smaller rank; a move transfers the rank.  Values stay small (|v| <= 60) so
that int arithmetic in the real library cannot overflow for trees of depth <= 3.
Profiles: C02 C03 C06 C07 C10 C11 C13 C16 (weights below).
"""
import random
import sys

PROFILES = {
    #            new set  get obs  bindI bindE reset del  move evall bev  hold  unobs  fault
    'C03': dict(new=8, set=50, get=4, obs=14, bindI=6, bindE=0, reset=1, dele=2, move=3, evall=0, bev=0, hold=0, unobs=3, fault=0, user=0),
    'C02': dict(ops=0.4, new=8, set=40, get=4, obs=8, bindI=18, bindE=0, reset=2, dele=1, move=8, evall=0, bev=0, hold=0, unobs=1, fault=0, user=0),
    'C06': dict(ops=0.2, obsreset=0.3, new=8, set=34, get=4, obs=8, bindI=2, bindE=16, reset=3, dele=2, move=2, evall=14, bev=4, hold=2, unobs=1, fault=0, user=0),
    # obsreset: a binding reset or replaced from inside an evaluateAll pass must never be evaluated again either (seeded change C07-6)
    'C07': dict(obsreset=0.3, new=6, set=30, get=6, obs=9, bindI=12, bindE=10, reset=10, dele=1, move=2, evall=8, bev=2, hold=0, unobs=1, fault=8, user=0,
                rebind=6),
    # obsreset: observers that reset() a later binding - from inside an evaluateAll pass this destroys a registered Binding while the
    # registry is being walked (seeded change C10-5: a pass over a snapshot of the registry evaluates the destroyed Binding)
    'C10': dict(obsreset=0.3, new=8, set=24, get=4, obs=10, bindI=10, bindE=12, reset=2, dele=14, move=3, evall=9, bev=4, hold=5, unobs=2, fault=0,
                user=0),
    'C11': dict(ops=0.2, new=8, set=28, get=4, obs=10, bindI=12, bindE=4, reset=1, dele=3, move=22, evall=4, bev=2, hold=0, unobs=1, fault=0, user=0),
    'C13': dict(new=6, set=40, get=10, obs=4, bindI=12, bindE=10, reset=1, dele=1, move=2, evall=12, bev=2, hold=0, unobs=0, fault=0, user=0),
    # C19: a random network, then state-restoring cycles unrolled W + K times around heapmark / heapcheck
    'C19': dict(new=8, set=12, get=2, obs=8, bindI=14, bindE=8, reset=2, dele=2, move=6, evall=4, bev=3, hold=1, unobs=1, fault=0, user=0, cycle=7),
    # general mix: every family at once (run as a share of every property-layer check, so that a change that breaks property X
    # through a mechanism only the profile of property Y exercises still breaks the correspondence of X's check)
    'all': dict(ops=0.25, obsreset=0.15, new=7, set=30, get=4, obs=9, bindI=12, bindE=10, reset=4, dele=6, move=7, evall=8, bev=3, hold=2, unobs=2,
                fault=3, user=1, rebind=2),
    # histories INSIDE the quantifier of the growth theorems (coq/PropFragment.v decides membership; the evidence counts them):
    # C02in: a growing network (fresh / late bindings, rebinding, reset, destruction of unread properties, both moves) followed by a phase
    #        of observers that write (valueChanged) and assignments; odd seeds: everything interleaved, fresh bindings only
    # C06in: a growing mixed network
    'C02in': dict(inside='c02', ops=0.3, obsset=0.0, new=8, set=36, get=4, obs=8, bindI=18, bindE=0, reset=3, dele=3, move=8, evall=0, bev=0, hold=0, unobs=0,
                  fault=0, user=0),
    'C06in': dict(inside='c06', ops=0.2, obsset=0.0, new=8, set=30, get=4, obs=8, bindI=8, bindE=14, reset=3, dele=3, move=6, evall=12, bev=4, hold=0, unobs=2,
                  fault=0, user=0),
    'C16': dict(new=6, set=34, get=4, obs=8, bindI=12, bindE=6, reset=6, dele=8, move=2, evall=6, bev=2, hold=2, unobs=1, fault=6, user=1),
}


class Gen:
    def __init__(self, seed, profile, length):
        self.seed = seed
        self.r = random.Random(seed)
        self.p = PROFILES[profile]
        self.profile = profile
        self.length = length
        self.lines = []
        self.props = {}      # id -> dict(rank, bound(bool))
        self.next_prop = 0
        self.next_rank = 0
        self.bevs = []       # live evaluator names
        self.next_bev = 0
        self.held = []
        self.next_held = 0
        self.next_label = 100
        self.next_obs = 0
        self.obs = []
        self.robs = []       # [host property, property whose binding it resets] of the observers that reset
        self.ahosts = set()  # properties that host an observer that writes or resets (such a property is never moved)
        self.stats = {}
        self.inside = self.p.get('inside')
        # inside the proven fragments: mixed networks and the interleaved variant bind fresh properties only; destruction and
        # move assignment only touch properties that no live binding reads
        self.fresh_only = self.inside == 'c06'
        self.interleaved = self.inside == 'c02' and self.seed % 2 == 1     # writers, bindings (fresh, late, re-), reset, assignments in any order
        self.about_hosts = set()
        self.wtargets = set()      # properties written by observers: binding one would make the observer's write fail (ReadOnlyProperty)
        self.phase2 = False

    def emit(self, s):
        self.lines.append(s)
        k = s.split()[0]
        self.stats[k] = self.stats.get(k, 0) + 1

    def val(self):
        r = self.r
        c = r.random()
        if c < 0.15 and self.p['user']:
            return 13
        return r.choice([0, 1, 2, 3, 5, 7, -1, -4, 10, 20, r.randrange(-30, 31)])

    def fn(self, arity):
        r = self.r
        if self.p.get('ops') and arity < 3 and r.random() < self.p['ops']:
            # the library's own operator overloads / declared functions (the harness selects the overload by the operand kinds)
            return r.choice([110, 111, 112, 113]) if arity == 1 else r.choice([100, 101, 102, 103, 104, 100, 101])
        f = r.randrange(0, 20)
        if self.p['user'] and r.random() < 0.25:
            f = 50 + r.randrange(0, 10)
        return f

    def expr(self, leaves, depth):
        r = self.r
        c = r.random()
        if depth == 0 or c < 0.25:
            if leaves and r.random() < 0.85:
                return f"p {r.choice(leaves)}"
            return f"c {self.val()}"
        a = r.choice([1, 2, 2, 2, 3])
        f = self.fn(a)
        return f"o{a} {f} " + " ".join(self.expr(leaves, depth - 1) for _ in range(a))

    def op_new(self):
        if len(self.props) >= 12:
            return
        p = self.next_prop
        self.next_prop += 1
        self.props[p] = dict(rank=self.next_rank, bound=False)
        self.next_rank += 1
        self.emit(f"pnew {p} {self.val()}")

    def pick(self, pred=lambda p, d: True):
        c = [p for p, d in self.props.items() if pred(p, d)]
        return self.r.choice(c) if c else None

    def op_set(self):
        r = self.r
        p = self.pick(lambda p, d: not d['bound'])
        if p is None:
            return
        c = r.random()
        v = self.val()
        path = r.randrange(3)
        if c > 0.9:
            q = self.pick(lambda q, d: q != p)
            if q is not None:
                self.emit(f"passign {p} {q}")
                return
        self.emit(f"pset {p} {v} {path}")
        if c < 0.3:
            # a run of equal values
            self.emit(f"pset {p} {v} {r.randrange(3)}")

    def op_get(self):
        p = self.pick()
        if p is not None:
            self.emit(f"pget {p}" if self.r.random() < 0.8 else f"phas {p}")

    def op_obs(self):
        p = self.pick()
        if p is None:
            return
        k = self.r.choice([0, 1, 1, 1, 2])
        if self.inside == 'c02' and (self.phase2 or self.interleaved) and self.r.random() < 0.5:
            # an observer of valueChanged that writes an unbound property ranked above its host
            tgt2 = [q for q, d in self.props.items() if d['rank'] > self.props[p]['rank'] and not d['bound']]
            if tgt2:
                lab = self.next_label
                self.next_label += 1
                h = self.next_obs
                self.next_obs += 1
                # on an unbound host the writer may also listen to valueAboutToChange (it then writes the OLD value)
                kk = 0 if (not self.props[p]['bound'] and self.r.random() < 0.3) else 1
                tq = self.r.choice(tgt2)
                self.wtargets.add(tq)
                self.emit(f"pobsset {p} {kk} {lab} {h} {tq}")
                self.ahosts.add(p)
                if kk == 0:
                    self.about_hosts.add(p)
                return
        lab = self.next_label
        self.next_label += 1
        h = self.next_obs
        self.next_obs += 1
        self.obs.append(h)
        tgt = [q for q, d in self.props.items() if d['rank'] > self.props[p]['rank'] and not d['bound']]
        rt = [q for q, d in self.props.items() if d['bound'] and d['rank'] > self.props[p]['rank']]
        if rt and k != 2 and self.r.random() < self.p.get('obsreset', 0.0):
            q = self.r.choice(rt)
            self.emit(f"pobsreset {p} {k} {lab} {h} {q}")
            self.robs.append([p, q])
            self.ahosts.add(p)
        elif tgt and k != 2 and self.r.random() < self.p.get('obsset', 0.25):
            self.emit(f"pobsset {p} {k} {lab} {h} {self.r.choice(tgt)}")
            self.ahosts.add(p)
        else:
            self.emit(f"pobs {p} {k} {lab} {h}")

    def read_props(self):
        return {a for d in self.props.values() if d['bound'] for a in d.get('inputs', [])}

    def op_unobs(self):
        if self.obs:
            self.emit(f"punobs {self.r.choice(self.obs)}")

    def bind(self, mode):
        r = self.r
        # target: an existing property (rebinding / binding a plain one) or a new one (makeBoundProperty)
        if (r.random() < 0.45 or self.fresh_only) and len(self.props) < 12:
            p = self.next_prop
            self.next_prop += 1
            rank = self.next_rank
            self.next_rank += 1
            new = True
        elif self.fresh_only:
            return
        else:
            p = self.pick((lambda q, d: q not in self.about_hosts and q not in self.wtargets) if self.interleaved else (lambda q, d: True))
            if p is None:
                return
            rank = self.props[p]['rank']
            new = False
        leaves = [q for q, d in self.props.items() if d['rank'] < rank and q != p]
        if not leaves and r.random() < 0.7:
            return
        if leaves and r.random() < 0.3:
            # favour few inputs: duplicates and diamonds
            leaves = r.sample(leaves, min(len(leaves), 2))
        e = self.expr(leaves, r.choice([1, 2, 2, 3]))
        self.emit(f"pbind {p} {mode} {e}")
        if new:
            self.props[p] = dict(rank=rank, bound=True)
        else:
            self.props[p]['bound'] = True
        self.props[p]['mode'] = mode
        self.props[p]['inputs'] = self.inputs_of(e)

    @staticmethod
    def inputs_of(e):
        t = e.split()
        return sorted({int(t[i + 1]) for i in range(len(t) - 1) if t[i] == 'p'})

    def op_rebind(self):
        """rebinding probe: an observer of an immediately bound property that writes one of its CURRENT inputs is attached just
        before the property is bound to an expression without that input (the replaced binding must be gone by the time the
        observers hear about the new value), and detached right afterwards (so that the rank discipline is kept)"""
        r = self.r
        cands = [(p, a) for p, d in self.props.items() if d['bound'] and d.get('mode') == -1
                 for a in d.get('inputs', []) if a in self.props and not self.props[a]['bound']]
        if not cands:
            return
        p, a = r.choice(cands)
        rank = self.props[p]['rank']
        # what the probe's write to `a` can reach must stay clear of the new expression (and of every other writing observer): an
        # observer of p that - directly or through bindings and further observers - changes an input of p's own binding from inside
        # p's notification is a dependency cycle made by user code, which the library does not detect and C02 does not speak about
        dep = {a}
        grew = True
        while grew:
            grew = False
            for q, d in self.props.items():
                if q not in dep and d['bound'] and any(x in dep for x in d.get('inputs', [])):
                    dep.add(q)
                    grew = True
        if (dep - {p}) & (self.ahosts | {host for host, _ in self.robs}):
            return
        leaves = [q for q, d in self.props.items() if d['rank'] < rank and q != p and q not in dep]
        e = self.expr(leaves, r.choice([0, 1, 2]))
        lab = self.next_label
        self.next_label += 1
        h = self.next_obs
        self.next_obs += 1
        self.emit(f"pobsset {p} {r.choice([0, 1, 1])} {lab} {h} {a}")
        mode = -1 if (r.random() < 0.7 or not self.bevs) else r.choice(self.bevs)
        self.emit(f"pbind {p} {mode} {e}")
        self.emit(f"punobs {h}")
        self.props[p]['mode'] = mode
        self.props[p]['inputs'] = self.inputs_of(e)

    def op_bindI(self):
        self.bind(-1)

    def op_bindE(self):
        if not self.bevs:
            self.op_bev()
        if self.bevs:
            self.bind(self.r.choice(self.bevs))

    def op_reset(self):
        if self.inside == 'c02' and self.phase2:
            return
        p = self.pick(lambda p, d: d['bound']) if self.r.random() < 0.85 else self.pick()
        if p is not None:
            self.emit(f"preset {p}")
            self.props[p]['bound'] = False

    def op_dele(self):
        r = self.r
        c = r.random()
        if c < 0.7 or self.inside:
            rd = self.read_props() if self.inside else set()
            if self.interleaved:
                # writing observers exist while the network grows: a property they assign, or whose binding they reset, stays alive
                rd = rd | set(self.wtargets) | {q for _, q in self.robs}
            p = self.pick(lambda p, d: p not in rd)
            if p is not None and len(self.props) > 2:
                self.emit(f"pdel {p}")
                del self.props[p]
                self.ahosts.discard(p)
        elif c < 0.85 and self.held:
            b = self.held.pop(r.randrange(len(self.held)))
            self.emit(f"bholddel {b}")
        elif len(self.bevs) > 1:
            e = self.bevs.pop(r.randrange(len(self.bevs)))
            self.emit(f"bevdel {e}")

    def op_move(self):
        r = self.r
        s = self.pick()
        if s is None:
            return
        # the rank discipline (an acting observer only touches properties ranked above its host; a binding only reads properties
        # ranked below its target) is what keeps dependency cycles out; a move would carry the observers to a property of another
        # rank, so hosts of acting observers stay where they are
        if s in self.ahosts:
            return
        # observers move with the signals of their host: a move must not put an observer that resets q's binding on q itself
        # (the binding would be destroyed inside the notification it is delivering: outside every quantifier)
        forbidden = {q for host, q in self.robs if host == s}
        if r.random() < 0.5 and len(self.props) < 12:
            d = self.next_prop
            self.next_prop += 1
            self.emit(f"pmovector {s} {d}")
            for q in self.props.values():
                if 'inputs' in q:
                    q['inputs'] = [d if x == s else x for x in q['inputs']]
            for ro in self.robs:
                if ro[0] == s:
                    ro[0] = d
            self.props[d] = dict(rank=self.props[s]['rank'], bound=self.props[s]['bound'], mode=self.props[s].get('mode'),
                                 inputs=self.props[s].get('inputs', []))
            self.props[s]['bound'] = False
        else:
            rd = self.read_props() if self.inside else set()
            if self.interleaved and self.props[s]['bound']:
                # writing observers exist meanwhile: one that assigns the destination would find it bound afterwards
                rd = rd | set(self.wtargets)
            # the destination takes over the readers of the source (ranked above the source): it must not be ranked above them, or
            # an observer could later be allowed to act on it from inside a notification that its own change causes (a cycle)
            rs = self.props[s]['rank']
            d = self.pick(lambda p, dd: p != s and p not in forbidden and p not in rd and dd['rank'] <= rs)
            if d is None:
                return
            self.emit(f"pmoveassign {d} {s}")
            for q in self.props.values():
                if 'inputs' in q:
                    q['inputs'] = [d if x == s else x for x in q['inputs']]
            self.robs = [ro for ro in self.robs if ro[0] != d]      # the observers of the overwritten property are gone
            self.ahosts.discard(d)
            self.about_hosts.discard(d)
            for ro in self.robs:
                if ro[0] == s:
                    ro[0] = d
            self.props[d] = dict(rank=max(self.props[s]['rank'], self.props[d]['rank']), bound=self.props[s]['bound'],
                                 mode=self.props[s].get('mode'), inputs=self.props[s].get('inputs', []))
            self.props[s]['bound'] = False

    def op_evall(self):
        if self.bevs:
            self.emit(f"evalall {self.r.choice(self.bevs)}")

    def op_bev(self):
        r = self.r
        if self.bevs and r.random() < 0.4 and len(self.bevs) < 4:
            e = self.next_bev
            self.next_bev += 1
            self.emit(f"bevcopy {r.choice(self.bevs)} {e}")
            self.bevs.append(e)
        elif len(self.bevs) < 4:
            e = self.next_bev
            self.next_bev += 1
            self.emit(f"bevnew {e}")
            self.bevs.append(e)

    def op_hold(self):
        r = self.r
        if len(self.held) >= 3:
            return
        leaves = list(self.props.keys())
        if not leaves:
            return
        mode = -1 if (r.random() < 0.5 or not self.bevs) else r.choice(self.bevs)
        b = self.next_held
        self.next_held += 1
        self.emit(f"bhold {b} {mode} {self.expr(leaves, r.choice([1, 2]))}")
        self.held.append(b)

    def op_fault(self):
        # a direct write to a bound property (must be rejected), by any path
        p = self.pick(lambda p, d: d['bound'])
        if p is not None:
            self.emit(f"pset {p} {self.val()} {self.r.randrange(3)}")

    def op_user(self):
        p = self.pick(lambda p, d: not d['bound'])
        if p is not None:
            self.emit(f"pset {p} 13 0")

    def cycle_body(self):
        """one to three state-restoring templates instantiated on the current network; scratch names: property 900, evaluator 90,
        held binding 90, observer handle 900 / label 9000 (never used by the other operations)"""
        r = self.r
        body = []
        allp = list(self.props.keys())
        for _ in range(r.choice([1, 1, 2, 3])):
            t = r.choice(['move', 'move', 'bindreset', 'boundprop', 'obs', 'write', 'evaluator', 'hold', 'rebind', 'evall'])
            if t == 'move':
                s = self.pick(lambda p, d: p not in self.ahosts)
                if s is not None:
                    body += [f"pmovector {s} 900", f"pmoveassign {s} 900", "pdel 900"]
            elif t == 'bindreset':
                p = self.pick(lambda p, d: not d['bound'])
                if p is not None:
                    leaves = [q for q, d in self.props.items() if d['rank'] < self.props[p]['rank']]
                    mode = -1 if (r.random() < 0.6 or not self.bevs) else r.choice(self.bevs)
                    body += [f"pbind {p} {mode} {self.expr(leaves, r.choice([1, 2]))}"]
                    if mode != -1 and r.random() < 0.5:
                        body += [f"evalall {mode}"]
                    body += [f"preset {p}"]
            elif t == 'boundprop':
                mode = -1 if (r.random() < 0.6 or not self.bevs) else r.choice(self.bevs)
                body += [f"pbind 900 {mode} {self.expr(allp, r.choice([1, 2, 3]))}"]
                q = self.pick(lambda p, d: not d['bound'])
                if q is not None and r.random() < 0.6:
                    body += [f"pset {q} {self.val()} 0"]
                    if mode != -1:
                        body += [f"evalall {mode}"]
                body += ["pget 900", "pdel 900"]
            elif t == 'obs':
                p = self.pick()
                if p is not None:
                    body += [f"pobs {p} {r.choice([0, 1, 1, 2])} 9000 900"]
                    q = self.pick(lambda q, d: not d['bound'])
                    if q is not None and r.random() < 0.5:
                        body += [f"pset {q} {self.val()} 0"]
                    body += ["punobs 900"]
            elif t == 'write':
                p = self.pick(lambda p, d: not d['bound'])
                if p is not None:
                    body += [f"pset {p} {self.val()} {r.randrange(3)}", f"pset {p} {self.val()} {r.randrange(3)}"]
            elif t == 'evaluator':
                body += ["bevnew 90", f"pbind 900 90 {self.expr(allp, r.choice([1, 2]))}", "evalall 90", "pdel 900", "bevdel 90"]
            elif t == 'hold':
                mode = -1 if (r.random() < 0.5 or not self.bevs) else r.choice(self.bevs)
                body += [f"bhold 90 {mode} {self.expr(allp, r.choice([1, 2]))}", "bholddel 90"]
            elif t == 'rebind':
                p = self.pick(lambda p, d: d['bound'])
                if p is not None:
                    leaves = [q for q, d in self.props.items() if d['rank'] < self.props[p]['rank']]
                    mode = self.props[p].get('mode', -1)
                    if mode != -1 and mode not in self.bevs:
                        mode = -1
                    e2 = self.expr(leaves, r.choice([1, 2]))
                    body += [f"pbind {p} {mode} {self.expr(leaves, r.choice([1, 2]))}", f"pbind {p} {mode} {e2}"]
                    self.props[p]['mode'] = mode
                    self.props[p]['inputs'] = self.inputs_of(e2)
            elif t == 'evall' and self.bevs:
                body += [f"evalall {r.choice(self.bevs)}"]
        return body

    def op_cycle(self):
        r = self.r
        body = self.cycle_body()
        if not body:
            return
        for _ in range(r.choice([2, 3])):
            for l in body:
                self.emit(l)
        self.emit("heapmark")
        for _ in range(r.choice([3, 5, 8])):
            for l in body:
                self.emit(l)
        self.emit("heapcheck")

    def generate(self):
        r = self.r
        for _ in range(r.choice([2, 3, 4])):
            self.op_new()
        fam = dict(new=self.op_new, set=self.op_set, get=self.op_get, obs=self.op_obs, bindI=self.op_bindI,
                   bindE=self.op_bindE, reset=self.op_reset, dele=self.op_dele, move=self.op_move, evall=self.op_evall,
                   bev=self.op_bev, hold=self.op_hold, unobs=self.op_unobs, fault=self.op_fault, user=self.op_user,
                   rebind=self.op_rebind, cycle=self.op_cycle)
        names = [k for k, v in self.p.items() if k in fam and v > 0]
        weights = [self.p[k] for k in names]
        guard = 0
        start = len(self.lines)
        while len(self.lines) - start < self.length and guard < 30 * self.length:
            guard += 1
            if self.inside == 'c02' and not self.interleaved and not self.phase2 and len(self.lines) - start > 0.6 * self.length:
                self.phase2 = True
            if self.phase2:
                fam[r.choice(['set', 'set', 'obs', 'get'])]()
                continue
            fam[r.choices(names, weights)[0]]()
        if self.p.get('cycle'):
            self.op_cycle()
        return "\n".join(self.lines) + "\n"


def generate(seed, profile='C02', length=60):
    g = Gen(seed, profile, length)
    return g.generate(), g.stats


if __name__ == '__main__':
    seed = int(sys.argv[1]) if len(sys.argv) > 1 else 1
    profile = sys.argv[2] if len(sys.argv) > 2 else 'C02'
    length = int(sys.argv[3]) if len(sys.argv) > 3 else 60
    sys.stdout.write(generate(seed, profile, length)[0])
