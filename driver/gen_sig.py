#!/usr/bin/env python3
"""Generator of signal-layer scripts (op language: coq/SigDefs.v, harness/sig_harness.cpp).

Every random choice comes from one random.Random(seed): a script replays from (profile, seed, length).
A profile is a feature set + weights aimed at one property; ops outside the feature set are never generated, so a
property's check exercises (almost) only the code its theorems are about.

Slot scripts never connect (connecting to an emitting signal is documented UB) and never destroy signals/evaluators.
Signals 0..3 are tier 0, 4..7 tier 1: slots of tier-0 signals may emit tier-1 signals; slots of tier-1 signals never
emit; deferred slots emit only in profiles with 'deferred_emit' (their targets are tier 1, whose slots never emit, so
evaluation passes terminate).
"""
import random
import sys

KIND_ARITY = {0: 0, 1: 1, 2: 1, 3: 3}
NH = 24  # handle variables 0..NH-1 exist from the start; NH..NH+7 are "self" variables of reflective slots

# feature flags: flavours, op families, slot actions
PROFILES = {
    # C01: who is invoked with which values; no re-entrancy, no faults
    'C01': dict(flavours=['plain', 'bound', 'refl', 'single', 'deferred'], slots=[], faults=False,
                w=dict(connect=30, emit=28, disc=14, block=10, query=4, copy=4, move=6, scoped=0, blocker=0, ev=4)),
    # C04: every disconnect route, copies, held callables
    'C04': dict(flavours=['plain', 'bound', 'refl', 'single', 'deferred', 'deferred'],
                slots=['disch', 'discall', 'scdrop', 'discs_safe', 'active', 'disch'], faults=False,
                w=dict(connect=28, emit=16, disc=22, block=0, query=10, copy=8, move=6, scoped=8, blocker=0, ev=4,
                       sigdel=3)),
    # C05: deferred connections, passes, re-entrancy inside passes
    'C05': dict(flavours=['plain', 'deferred', 'deferred', 'deferred'],
                slots=['disch', 'discall', 'emit', 'eval', 'active', 'scdrop'],
                faults=False, deferred_emit=True, two_evs=True,
                w=dict(connect=26, emit=30, disc=12, block=4, query=4, copy=3, move=5, scoped=3, blocker=0, ev=14,
                       sigdel=2)),
    # C09: re-entrant slots on direct connections
    'C09': dict(flavours=['plain', 'bound', 'refl', 'single', 'refl'],
                slots=['disch', 'discall', 'tryblockh', 'scdrop', 'emit', 'active', 'discs_safe'],
                faults=False, dense=True,
                w=dict(connect=30, emit=30, disc=8, block=6, query=8, copy=6, move=2, scoped=8, blocker=0, ev=0)),
    # C12: identity of handles under churn; stale and foreign handles (foreign uses are the rejected cases)
    'C12': dict(flavours=['plain', 'refl'], slots=[], faults=True, fault_kinds=['foreign'], churn=True,
                w=dict(connect=34, emit=6, disc=24, block=8, query=16, copy=10, move=2, scoped=0, blocker=0, ev=0)),
    # C15: blocking, blockers, disconnects while blockers are alive
    'C15': dict(flavours=['plain', 'refl', 'deferred'], slots=['tryblockh', 'disch', 'active'], faults=True,
                fault_kinds=['inactive'], few_handles=True,
                w=dict(connect=20, emit=24, disc=8, block=22, query=6, copy=3, move=1, scoped=0, blocker=14, ev=2,
                       sigdel=1)),
    # C16: library-raised exceptions, also from inside emissions and passes, then valid ops
    'C16': dict(flavours=['plain', 'refl', 'single', 'deferred'],
                slots=['disch', 'discall', 'tryblockh', 'emit', 'eval', 'active', 'blockh', 'discs', 'isblockedh',
                       'emit_any'],
                faults=True, fault_kinds=['foreign', 'inactive', 'deadev', 'nested'], deferred_emit=True,
                w=dict(connect=28, emit=30, disc=10, block=8, query=6, copy=4, move=3, scoped=2, blocker=3, ev=6)),
    # C11: moves of signals and scoped connections
    # slots that move-assign signals (also the one that is emitting) and reassign scoped connections: "whatever the destination held
    # before is disposed of as if destroyed" also when the disposal can only be requested because an emission is running
    'C11': dict(flavours=['plain', 'refl', 'single', 'deferred', 'deferred'],
                slots=['sigmoveassign', 'scmove', 'scassign', 'sigmoveassign', 'active', 'disch'], faults=False, samekind=True,
                w=dict(connect=24, emit=24, disc=8, block=8, query=10, copy=3, move=16, scoped=12, blocker=0, ev=6,
                       sigdel=3)),
    # C19: evaluators released by their owner while deferred connections to them stay connected; emissions towards them must be
    # rejected, not queued where nobody can ever evaluate them (seeded change C19-5: connections that own their evaluator)
    'C19': dict(flavours=['plain', 'deferred', 'deferred', 'single', 'bound'],
                slots=['disch', 'active', 'eval'], faults=True, fault_kinds=['deadev'],
                w=dict(connect=28, emit=30, disc=12, block=4, query=4, copy=3, move=3, scoped=3, blocker=0, ev=12, sigdel=2)),
    # general mixes (thorough tier, C19)
    'clean': dict(flavours=['plain', 'bound', 'refl', 'single', 'deferred'],
                  slots=['disch', 'discall', 'tryblockh', 'scdrop', 'emit', 'active', 'eval'], faults=False,
                  w=dict(connect=30, emit=25, disc=12, block=8, query=8, copy=5, move=3, scoped=4, blocker=3, ev=4)),
    'fault': dict(flavours=['plain', 'bound', 'refl', 'single', 'deferred'],
                  slots=['disch', 'discall', 'tryblockh', 'scdrop', 'emit', 'active', 'eval', 'blockh', 'discs',
                         'isblockedh', 'emit_any'],
                  faults=True, fault_kinds=['foreign', 'inactive', 'deadev', 'nested'], deferred_emit=True,
                  w=dict(connect=28, emit=27, disc=12, block=8, query=8, copy=5, move=3, scoped=4, blocker=3, ev=4)),
}


class Gen:
    def __init__(self, seed, profile, length):
        self.r = random.Random(seed)
        self.profile = profile
        self.p = PROFILES[profile]
        self.length = length
        self.lines = []
        self.sigs = {}      # id -> (kind, tier)
        self.scoped = set()
        self.next_scoped = 0
        self.blockers = []
        self.next_blocker = 0
        self.evs = {}       # id -> alive
        self.next_label = 100
        self.conn_handles = []
        self.handle_sig = {}
        self.scripts = {}
        self.stats = {}
        self.nh = 8 if self.p.get('few_handles') else NH

    def count(self, k):
        self.stats[k] = self.stats.get(k, 0) + 1

    def emit_line(self, s):
        self.lines.append(s)
        self.count(s.split()[0])

    def fault(self, kind):
        return self.p['faults'] and kind in self.p.get('fault_kinds', [])

    # ---- slot bodies -------------------------------------------------------------------------------
    def make_scripts(self):
        r = self.r
        acts = self.p['slots']
        self.scripts[0] = []
        self.emitting_scripts = set()
        self.wild_scripts = set()   # may emit ANY signal: never given to deferred connections (self-feeding passes do not end)
        if not acts:
            return
        for sid in range(1, 14):
            body = []
            for _ in range(r.choice([1, 1, 2, 2, 3])):
                a = r.choice(acts)
                h = r.randrange(self.nh) if r.random() < 0.7 else NH + r.randrange(8)
                if a == 'disch':
                    body.append(f"disch {h}")
                elif a == 'discall':
                    body.append(f"discall {r.randrange(8)}")
                elif a == 'tryblockh':
                    body.append(f"tryblockh {h} {r.randrange(2)}")
                elif a == 'scdrop':
                    body.append(f"scdrop {r.randrange(6)}")
                elif a == 'active':
                    body.append(f"active {h}")
                elif a == 'discs_safe':
                    body.append(f"discs_safe {r.randrange(8)} {h}")
                elif a == 'emit':
                    if sid % 2 == 0:
                        body.append(("EMIT", 4 + r.randrange(4)))
                        self.emitting_scripts.add(sid)
                    else:
                        body.append(f"active {h}")
                elif a == 'eval':
                    body.append(f"eval {r.randrange(2 if self.p.get('two_evs') else 3)}")
                elif a == 'sigmoveassign':
                    # within one tier (all signals of a tier have the same signature in profiles with 'samekind')
                    base = r.choice([0, 4])
                    d_, s_ = r.sample(range(base, base + 4), 2)
                    body.append(f"sigmoveassign {d_} {s_}")
                elif a == 'scmove':
                    a_, b_ = r.sample(range(6), 2)
                    body.append(f"scmove {a_} {b_}")
                elif a == 'scassign':
                    body.append(f"scassign {r.randrange(6)} {h}")
                elif a == 'blockh':
                    body.append(f"blockh {h} {r.randrange(2)}")
                elif a == 'discs':
                    body.append(f"discs {r.randrange(8)} {h}")
                elif a == 'isblockedh':
                    body.append(f"isblockedh {h}")
                elif a == 'emit_any':
                    if sid % 3 == 0:
                        body.append(("EMIT", r.randrange(8)))
                        self.emitting_scripts.add(sid)
                        self.wild_scripts.add(sid)
                    else:
                        body.append(f"active {h}")
            self.scripts[sid] = body

    # ---- helpers -----------------------------------------------------------------------------------
    def rand_vals(self, n):
        return [self.r.choice([0, 1, -1, 7, 42, -100, 1000, self.r.randrange(-50, 50)]) for _ in range(n)]

    def pick_sig(self, tier=None):
        c = [s for s, (k, t) in self.sigs.items() if tier is None or t == tier]
        if self.p.get('churn') or self.p.get('dense'):
            # concentrate on few signals so that positions are recycled / layouts are dense
            c2 = [s for s in c if s in (0, 1, 4)]
            if c2 and self.r.random() < 0.8:
                c = c2
        return self.r.choice(c) if c else None

    def pick_script(self, tier, deferred):
        r = self.r
        if not self.p['slots'] or r.random() < 0.35:
            return 0
        cands = list(self.scripts.keys())
        if tier == 1 or (deferred and not self.p.get('deferred_emit')):
            cands = [s for s in cands if s not in self.emitting_scripts]
        if deferred:
            cands = [s for s in cands if s not in self.wild_scripts]
        return r.choice(cands)

    def pick_handle(self):
        r = self.r
        if self.conn_handles and r.random() < 0.85:
            return r.choice(self.conn_handles)
        return r.randrange(self.nh)

    def sig_for(self, h, wrong=0.2):
        s = self.handle_sig.get(h)
        if s is not None and s in self.sigs and self.r.random() >= wrong:
            return s
        return self.pick_sig()

    def new_label(self):
        self.next_label += 1
        return self.next_label

    # ---- op families -------------------------------------------------------------------------------
    def op_connect(self):
        r = self.r
        s = self.pick_sig()
        if s is None:
            return
        kind, tier = self.sigs[s]
        n = KIND_ARITY[kind]
        h = r.randrange(self.nh)
        fl = r.choice(self.p['flavours'])
        lab = self.new_label()
        alive_evs = [e for e, a in self.evs.items() if a]
        dead_evs = [e for e, a in self.evs.items() if not a]
        if fl == 'deferred' and not alive_evs and not (dead_evs and self.fault('deadev')):
            fl = 'plain'
        if fl == 'plain':
            self.emit_line(f"conn {s} {h} {lab} {n} {self.pick_script(tier, False)} 0")
        elif fl == 'bound':
            b = r.choice([0, 1, 1, 2])
            rr = r.randrange(n + 1)
            bound = self.rand_vals(b)
            self.emit_line(f"conn {s} {h} {lab} {b + rr} {self.pick_script(tier, False)} {b}"
                           + "".join(f" {x}" for x in bound))
        elif fl == 'refl':
            self.emit_line(f"connr {s} {h} {lab} {self.pick_script(tier, False)} {NH + r.randrange(8)}")
        elif fl == 'single':
            self.emit_line(f"conn1 {s} {h} {lab} {self.pick_script(tier, False)}")
        else:
            if dead_evs and self.fault('deadev') and r.random() < 0.25:
                e = r.choice(dead_evs)
            elif alive_evs:
                e = r.choice(alive_evs)
            else:
                e = r.choice(dead_evs)
            self.emit_line(f"connd {s} {h} {lab} {self.pick_script(tier, True)} {e}")
        if h not in self.conn_handles:
            self.conn_handles.append(h)
        self.handle_sig[h] = s

    def op_emit(self):
        s = self.pick_sig()
        if s is None:
            return
        n = KIND_ARITY[self.sigs[s][0]]
        self.emit_line(f"emit {s} {n}" + "".join(f" {x}" for x in self.rand_vals(n)))

    def op_disc(self):
        r = self.r
        h = self.pick_handle()
        c = r.random()
        if c < 0.5:
            self.emit_line(f"disch {h}")
        elif c < 0.85:
            s = self.sig_for(h, 0.3 if self.fault('foreign') else 0.1)
            if s is not None:
                self.emit_line(f"discs {s} {h}" if self.fault('foreign') else f"discs_safe {s} {h}")
        else:
            s = self.pick_sig()
            if s is not None:
                self.emit_line(f"discall {s}")

    def op_block(self):
        r = self.r
        h = self.pick_handle()
        b = r.randrange(2)
        c = r.random()
        if c < 0.6:
            self.emit_line(f"blockh {h} {b}" if self.fault('inactive') else f"tryblockh {h} {b}")
        elif self.fault('foreign') or self.fault('inactive'):
            s = self.sig_for(h, 0.3 if self.fault('foreign') else 0.0)
            if s is not None:
                self.emit_line(f"blocks {s} {h} {b}")
        else:
            self.emit_line(f"tryblockh {h} {b}")

    def op_query(self):
        r = self.r
        h = self.pick_handle()
        c = r.random()
        if c < 0.35:
            self.emit_line(f"active {h}")
        elif c < 0.5:
            self.emit_line(f"isblockedh {h}" if self.fault('inactive') else f"tryisblockedh {h}")
        elif c < 0.6 and (self.fault('foreign') or self.fault('inactive')):
            s = self.sig_for(h, 0.3)
            if s is not None:
                self.emit_line(f"isblockeds {s} {h}")
        elif c < 0.8:
            s = self.sig_for(h, 0.3)
            if s is not None:
                self.emit_line(f"belongs {h} {s}")
        else:
            self.emit_line(f"heq {h} {self.pick_handle()}")

    def op_copy(self):
        r = self.r
        h = self.pick_handle()
        if r.random() < 0.9:
            d = r.randrange(self.nh)
            self.emit_line(f"hcopy {h} {d}")
            if d not in self.conn_handles:
                self.conn_handles.append(d)
            if h in self.handle_sig:
                self.handle_sig[d] = self.handle_sig[h]
        else:
            self.emit_line(f"hnew {r.randrange(self.nh)}")

    def op_scoped(self):
        r = self.r
        h = self.pick_handle()
        d = r.random()
        if d < 0.4 or not self.scoped:
            cid = self.next_scoped % 6
            self.next_scoped += 1
            if cid in self.scoped:
                self.emit_line(f"scassign {cid} {h}")
            else:
                self.emit_line(f"scnew {cid} {h}")
                self.scoped.add(cid)
        elif d < 0.6:
            cid = r.choice(sorted(self.scoped))
            self.emit_line(f"scdrop {cid}")
            self.scoped.discard(cid)
        elif d < 0.8 and len(self.scoped) >= 2:
            a, b = r.sample(sorted(self.scoped), 2)
            self.emit_line(f"scmove {a} {b}")
        else:
            a = r.choice(sorted(self.scoped))
            free = [x for x in range(6) if x not in self.scoped]
            if free:
                b = r.choice(free)
                self.emit_line(f"scmovector {a} {b}")
                self.scoped.add(b)

    def op_blocker(self):
        r = self.r
        h = self.pick_handle()
        if self.blockers and r.random() < 0.5:
            b = self.blockers.pop() if r.random() < 0.7 else self.blockers.pop(r.randrange(len(self.blockers)))
            self.emit_line(f"bldrop {b}")
        else:
            b = self.next_blocker
            self.next_blocker += 1
            self.emit_line(f"blnew {b} {h}" if self.fault('inactive') else f"tryblnew {b} {h}")
            self.blockers.append(b)

    def op_ev(self):
        r = self.r
        alive = [e for e, a in self.evs.items() if a]
        droppable = [e for e in alive if e >= 3]
        if droppable and self.fault('deadev') and r.random() < 0.3:
            e = r.choice(droppable)
            self.evs[e] = False
            self.emit_line(f"evdrop {e}")
        elif alive:
            self.emit_line(f"eval {r.choice(alive)}")

    def op_move(self):
        r = self.r
        s = self.pick_sig()
        if s is None:
            return
        kind, tier = self.sigs[s]
        same = [x for x, (k, t) in self.sigs.items() if k == kind and t == tier and x != s]
        d = r.random()
        if d < 0.45 and same:
            self.emit_line(f"sigmoveassign {r.choice(same)} {s}")
        elif d < 0.8:
            spare = [x for x in (range(8, 12) if tier == 0 else range(12, 16)) if x not in self.sigs]
            if spare:
                d2 = spare[0]
                self.emit_line(f"sigmovector {s} {d2}")
                self.sigs[d2] = (kind, tier)
        else:
            spares = [x for x in self.sigs if x >= 8]
            if spares:
                x = r.choice(spares)
                self.emit_line(f"sigdel {x}")
                del self.sigs[x]

    def op_sigdel(self):
        s = self.pick_sig()
        if s is None:
            return
        kind, tier = self.sigs[s]
        self.emit_line(f"sigdel {s}")
        del self.sigs[s]
        if s < 8:
            self.emit_line(f"signew {s} {kind}")
            self.sigs[s] = (kind, tier)

    def generate(self):
        r = self.r
        self.make_scripts()
        kinds0 = [r.randrange(4) for _ in range(4)]
        kinds1 = [r.randrange(4) for _ in range(4)]
        if self.p.get('dense') or self.p.get('churn'):
            kinds0[1] = kinds0[0]
        if self.p.get('samekind'):
            kinds0 = [kinds0[0]] * 4
            kinds1 = [kinds1[0]] * 4
        for i in range(4):
            self.emit_line(f"signew {i} {kinds0[i]}")
            self.sigs[i] = (kinds0[i], 0)
        for i in range(4):
            self.emit_line(f"signew {4 + i} {kinds1[i]}")
            self.sigs[4 + i] = (kinds1[i], 1)
        for h in range(NH + 8):
            self.emit_line(f"hnew {h}")
        for e in range(3):
            self.evs[e] = True
            self.emit_line(f"evnew {e}")
        if self.fault('deadev'):
            for e in (3, 4):
                self.evs[e] = True
                self.emit_line(f"evnew {e}")
        if self.p.get('two_evs'):
            self.evs = {e: a for e, a in self.evs.items() if e < 2 or e >= 3}
        fam = {'connect': self.op_connect, 'emit': self.op_emit, 'disc': self.op_disc, 'block': self.op_block,
               'query': self.op_query, 'copy': self.op_copy, 'move': self.op_move, 'scoped': self.op_scoped,
               'blocker': self.op_blocker, 'ev': self.op_ev, 'sigdel': self.op_sigdel}
        names = [k for k, v in self.p['w'].items() if v > 0]
        weights = [self.p['w'][k] for k in names]
        start = len(self.lines)
        guard = 0
        while len(self.lines) - start < self.length and guard < 20 * self.length:
            guard += 1
            fam[r.choices(names, weights)[0]]()
        out = []
        for sid, body in sorted(self.scripts.items()):
            out.append(f"def {sid} {len(body)}")
            for b in body:
                if isinstance(b, tuple):
                    t = b[1]
                    nn = KIND_ARITY[(kinds0 + kinds1)[t]]
                    out.append(f"emit {t} {nn}" + "".join(f" {x}" for x in self.rand_vals(nn)))
                else:
                    out.append(b)
        return "\n".join(out + self.lines) + "\n"


def generate(seed, profile='clean', length=60):
    g = Gen(seed, profile, length)
    text = g.generate()
    return text, g.stats


if __name__ == '__main__':
    seed = int(sys.argv[1]) if len(sys.argv) > 1 else 1
    profile = sys.argv[2] if len(sys.argv) > 2 else 'clean'
    length = int(sys.argv[3]) if len(sys.argv) > 3 else 60
    sys.stdout.write(generate(seed, profile, length)[0])
