#!/usr/bin/env python3
"""Generator of signal-layer scripts (see coq/SigDefs.v for the op language).

Every random choice comes from one random.Random(seed) so a script replays from (profile, seed, length).
Profiles:
  clean  - only operations and slot actions that never make the library raise: used to judge C01/C04/C05/C09/C12/C15
  fault  - adds operations that fail with library-raised exceptions (stale / foreign handles, dead evaluators,
           nested emission of the emitting signal, throwing actions inside slots): used for C16 and the rejection clauses
  churn  - clean, biased to connect/disconnect churn on few positions with many retained stale handles (C12/C19)
Slot scripts never connect (connecting to an emitting signal is documented UB) and never destroy signals/evaluators.
Signals are in two tiers: slots of tier-0 signals may emit tier-1 signals; slots of tier-1 signals never emit, and
deferred slots never emit in the clean profiles (that bounds nesting and excludes self-feeding evaluation passes).
"""
import random
import sys

KIND_ARITY = {0: 0, 1: 1, 2: 1, 3: 3}
NH = 24  # handle variables 0..NH-1 exist from the start; NH..NH+7 are "self" variables of reflective slots


class Gen:
    def __init__(self, seed, profile, length):
        self.r = random.Random(seed)
        self.profile = profile
        self.length = length
        self.lines = []
        self.sigs = {}      # id -> (kind, tier)
        self.next_sig = 0
        self.scoped = set()
        self.next_scoped = 0
        self.blockers = []  # stack of ids (well nested) + free-form ones
        self.next_blocker = 0
        self.evs = {}       # id -> alive
        self.next_ev = 0
        self.next_label = 100
        self.conn_handles = []   # handle vars that have held a connection at some time
        self.scripts = {}
        self.stats = {}
        self.handle_sig = {}     # handle var -> signal it was last connected on (a guess: moves are not tracked)

    def count(self, k):
        self.stats[k] = self.stats.get(k, 0) + 1

    def emit_line(self, s):
        self.lines.append(s)
        self.count(s.split()[0])

    # ---- slot bodies -------------------------------------------------------------------------------
    def make_scripts(self):
        r = self.r
        fault = self.profile == 'fault'
        nscripts = 14
        self.scripts[0] = []
        self.emitting_scripts = set()
        for sid in range(1, nscripts):
            body = []
            for _ in range(r.choice([1, 1, 2, 2, 3])):
                c = r.random()
                h = r.randrange(NH + 8)
                if c < 0.22:
                    body.append(f"disch {h}")
                elif c < 0.30:
                    body.append(f"discall {r.randrange(4)}")
                elif c < 0.42:
                    body.append(f"tryblockh {h} {r.randrange(2)}")
                elif c < 0.50:
                    body.append(f"scdrop {r.randrange(6)}")
                elif c < 0.62:
                    body.append(f"active {h}")
                elif c < 0.74 and sid % 2 == 0:
                    # tier-1 signals are 4..7
                    t = 4 + r.randrange(4)
                    k = None
                    body.append(("EMIT", t))
                    self.emitting_scripts.add(sid)
                elif c < 0.80:
                    body.append(f"eval {r.randrange(2 if self.profile == 'deferred' else 3)}")
                elif c < 0.86:
                    body.append(f"heq {h} {r.randrange(NH)}")
                elif fault:
                    d = r.random()
                    if d < 0.3:
                        body.append(f"blockh {h} {r.randrange(2)}")
                    elif d < 0.5:
                        body.append(f"discs {r.randrange(8)} {h}")
                    elif d < 0.7:
                        body.append(f"isblockedh {h}")
                    elif d < 0.85:
                        body.append(f"blocks {r.randrange(8)} {h} {r.randrange(2)}")
                    else:
                        body.append(("EMIT", r.randrange(8)))
                        self.emitting_scripts.add(sid)
                else:
                    body.append(f"active {h}")
            self.scripts[sid] = body

    # ---- helpers -----------------------------------------------------------------------------------
    def rand_vals(self, n):
        return [self.r.choice([0, 1, -1, 7, 42, -100, 1000, self.r.randrange(-50, 50)]) for _ in range(n)]

    def pick_sig(self, tier=None):
        c = [s for s, (k, t) in self.sigs.items() if tier is None or t == tier]
        return self.r.choice(c) if c else None

    def pick_script(self, tier, deferred):
        r = self.r
        if r.random() < 0.45:
            return 0
        cands = list(self.scripts.keys())
        if tier == 1 or (deferred and self.profile not in ('fault', 'deferred')):
            cands = [s for s in cands if s not in self.emitting_scripts]
        return r.choice(cands)

    def pick_handle(self):
        r = self.r
        if self.conn_handles and r.random() < 0.85:
            return r.choice(self.conn_handles)
        return r.randrange(NH)

    def new_label(self):
        self.next_label += 1
        return self.next_label

    # ---- top-level ops -----------------------------------------------------------------------------
    def op_connect(self):
        r = self.r
        s = self.pick_sig()
        if s is None:
            return
        kind, tier = self.sigs[s]
        n = KIND_ARITY[kind]
        h = r.randrange(NH) if self.profile != 'churn' else r.randrange(NH)
        c = r.random()
        lab = self.new_label()
        alive_evs = [e for e, a in self.evs.items() if a]
        dead_evs = [e for e, a in self.evs.items() if not a]
        if self.profile == 'deferred' and alive_evs and r.random() < 0.6:
            sid = self.pick_script(tier, True)
            self.emit_line(f"connd {s} {h} {lab} {sid} {r.choice(alive_evs)}")
        elif c < 0.40:
            b = r.choice([0, 0, 0, 1, 2])
            rr = r.randrange(n + 1) if r.random() < 0.5 else n
            a = b + rr
            sid = self.pick_script(tier, False)
            bound = self.rand_vals(b)
            self.emit_line(f"conn {s} {h} {lab} {a} {sid} {b}" + "".join(f" {x}" for x in bound))
        elif c < 0.55:
            sid = self.pick_script(tier, False)
            v = NH + r.randrange(8)
            self.emit_line(f"connr {s} {h} {lab} {sid} {v}")
        elif c < 0.70:
            sid = self.pick_script(tier, False)
            self.emit_line(f"conn1 {s} {h} {lab} {sid}")
        elif alive_evs or (dead_evs and self.profile == 'fault'):
            sid = self.pick_script(tier, True)
            if self.profile == 'fault' and dead_evs and r.random() < 0.2:
                e = r.choice(dead_evs)
            elif alive_evs:
                e = r.choice(alive_evs)
            else:
                return
            self.emit_line(f"connd {s} {h} {lab} {sid} {e}")
        else:
            sid = self.pick_script(tier, False)
            self.emit_line(f"conn {s} {h} {lab} {n} {sid} 0")
        if h not in self.conn_handles:
            self.conn_handles.append(h)
        self.handle_sig[h] = s

    def sig_for(self, h):
        # mostly the signal the handle was issued by, sometimes any other one
        s = self.handle_sig.get(h)
        if s is not None and s in self.sigs and self.r.random() < 0.8:
            return s
        return self.pick_sig()

    def op_emit(self):
        s = self.pick_sig()
        if s is None:
            return
        n = KIND_ARITY[self.sigs[s][0]]
        vals = self.rand_vals(n)
        self.emit_line(f"emit {s} {n}" + "".join(f" {x}" for x in vals))

    def op_misc(self):
        r = self.r
        fault = self.profile == 'fault'
        c = r.random()
        h = self.pick_handle()
        if c < 0.16:
            self.emit_line(f"disch {h}")
        elif c < 0.22:
            s = self.sig_for(h)
            if s is not None:
                self.emit_line(f"discs_safe {s} {h}" if not fault else f"discs {s} {h}")
        elif c < 0.25:
            s = self.pick_sig()
            if s is not None:
                self.emit_line(f"discall {s}")
        elif c < 0.35:
            self.emit_line((f"blockh {h} {r.randrange(2)}") if fault else f"tryblockh {h} {r.randrange(2)}")
        elif c < 0.40:
            s = self.sig_for(h)
            if s is not None and fault:
                self.emit_line(f"blocks {s} {h} {r.randrange(2)}")
            else:
                self.emit_line(f"tryblockh {h} {r.randrange(2)}")
        elif c < 0.45:
            self.emit_line(f"isblockedh {h}" if fault else f"tryisblockedh {h}")
        elif c < 0.48:
            s = self.sig_for(h)
            if s is not None and fault:
                self.emit_line(f"isblockeds {s} {h}")
            else:
                self.emit_line(f"active {h}")
        elif c < 0.58:
            self.emit_line(f"active {h}")
        elif c < 0.63:
            s = self.sig_for(h)
            if s is not None:
                self.emit_line(f"belongs {h} {s}")
        elif c < 0.68:
            self.emit_line(f"heq {h} {self.pick_handle()}")
        elif c < 0.76:
            d = r.randrange(NH)
            self.emit_line(f"hcopy {h} {d}")
            if h in self.handle_sig:
                self.handle_sig[d] = self.handle_sig[h]
            if d not in self.conn_handles:
                self.conn_handles.append(d)
        elif c < 0.78:
            self.emit_line(f"hnew {r.randrange(NH)}")
        elif c < 0.84:
            # scoped connections
            d = r.random()
            if d < 0.4 or not self.scoped:
                cid = self.next_scoped % 6
                self.next_scoped += 1
                if cid in self.scoped:
                    self.emit_line(f"scassign {cid} {h}")
                else:
                    self.emit_line(f"scnew {cid} {h}")
                    self.scoped.add(cid)
            elif d < 0.6:
                cid = r.choice(sorted(self.scoped))
                self.emit_line(f"scdrop {cid}")
                self.scoped.discard(cid)
            elif d < 0.8 and len(self.scoped) >= 2:
                a, b = r.sample(sorted(self.scoped), 2)
                self.emit_line(f"scmove {a} {b}")
            else:
                a = r.choice(sorted(self.scoped))
                free = [x for x in range(6) if x not in self.scoped]
                if free:
                    b = r.choice(free)
                    self.emit_line(f"scmovector {a} {b}")
                    self.scoped.add(b)
        elif c < 0.90:
            # blockers
            if self.blockers and r.random() < 0.5:
                b = self.blockers.pop() if r.random() < 0.7 else self.blockers.pop(r.randrange(len(self.blockers)))
                self.emit_line(f"bldrop {b}")
            else:
                b = self.next_blocker
                self.next_blocker += 1
                self.emit_line(f"blnew {b} {h}" if fault else f"tryblnew {b} {h}")
                self.blockers.append(b)
        elif c < (0.94 if self.profile != 'deferred' else 0.99):
            # evaluators
            alive = [e for e, a in self.evs.items() if a]
            if alive and r.random() < 0.7:
                self.emit_line(f"eval {r.choice(alive)}")
            elif fault and r.random() < 0.6:
                droppable = [e for e in alive if e >= 3]
                if droppable:
                    e = r.choice(droppable)
                    self.evs[e] = False
                    self.emit_line(f"evdrop {e}")
        else:
            # signal lifecycle and moves (same kind and tier only)
            d = r.random()
            s = self.pick_sig()
            if s is None:
                return
            kind, tier = self.sigs[s]
            same = [x for x, (k, t) in self.sigs.items() if k == kind and t == tier and x != s]
            if d < 0.35 and same:
                self.emit_line(f"sigmoveassign {r.choice(same)} {s}")
            elif d < 0.6:
                # move-construct a new signal object out of s, then destroy s and re-create it empty
                # (ids 0..3 are tier 0, 4..7 tier 1; the moved-to object gets a spare id of the same tier)
                spare = [x for x in (range(8, 12) if tier == 0 else range(12, 16)) if x not in self.sigs]
                if spare:
                    d2 = spare[0]
                    self.emit_line(f"sigmovector {s} {d2}")
                    self.sigs[d2] = (kind, tier)
            elif d < 0.8:
                self.emit_line(f"sigdel {s}")
                del self.sigs[s]
                self.emit_line(f"signew {s} {kind}")
                self.sigs[s] = (kind, tier)
            else:
                spares = [x for x in self.sigs if x >= 8]
                if spares:
                    x = r.choice(spares)
                    self.emit_line(f"sigdel {x}")
                    del self.sigs[x]

    def generate(self):
        r = self.r
        self.make_scripts()
        # fixed population: tier-0 signals 0..3, tier-1 signals 4..7, mixed kinds
        kinds0 = [r.randrange(4) for _ in range(4)]
        kinds1 = [r.randrange(4) for _ in range(4)]
        for i in range(4):
            self.emit_line(f"signew {i} {kinds0[i]}")
            self.sigs[i] = (kinds0[i], 0)
        for i in range(4):
            self.emit_line(f"signew {4 + i} {kinds1[i]}")
            self.sigs[4 + i] = (kinds1[i], 1)
        for h in range(NH + 8):
            self.emit_line(f"hnew {h}")
        for e in range(r.choice([1, 2, 3]) if self.profile != 'deferred' else 2):
            self.evs[e] = True
            self.next_ev = e + 1
            self.emit_line(f"evnew {e}")
        for e in range(self.next_ev, 3):
            # evaluator variables named by slot scripts always exist
            self.evs[e] = True
            self.emit_line(f"evnew {e}")
        self.next_ev = 3
        if self.profile == 'fault':
            # evaluators that may be destroyed while connections still refer to them (never named by slot scripts)
            for e in (3, 4):
                self.evs[e] = True
                self.emit_line(f"evnew {e}")
            self.next_ev = 5
        wc, we, wm = {'clean': (0.30, 0.25, 0.45), 'fault': (0.28, 0.27, 0.45), 'churn': (0.42, 0.13, 0.45),
                      'deferred': (0.25, 0.35, 0.40)}[self.profile]
        n = 0
        while n < self.length:
            c = r.random()
            before = len(self.lines)
            if c < wc:
                self.op_connect()
            elif c < wc + we:
                self.op_emit()
            else:
                self.op_misc()
            n += len(self.lines) - before if len(self.lines) > before else 0
            if len(self.lines) == before:
                n += 0
                if r.random() < 0.05:
                    n += 1
        # resolve EMIT placeholders now that kinds are known (tier-1 kinds never change)
        out = []
        for sid, body in sorted(self.scripts.items()):
            out.append(f"def {sid} {len(body)}")
            for b in body:
                if isinstance(b, tuple):
                    t = b[1]
                    kind = (kinds0 + kinds1)[t]
                    nn = KIND_ARITY[kind]
                    vals = self.rand_vals(nn)
                    out.append(f"emit {t} {nn}" + "".join(f" {x}" for x in vals))
                else:
                    out.append(b)
        return "\n".join(out + self.lines) + "\n"


def generate(seed, profile='clean', length=60):
    g = Gen(seed, profile, length)
    text = g.generate()
    return text, g.stats


if __name__ == '__main__':
    seed = int(sys.argv[1]) if len(sys.argv) > 1 else 1
    profile = sys.argv[2] if len(sys.argv) > 2 else 'clean'
    length = int(sys.argv[3]) if len(sys.argv) > 3 else 60
    sys.stdout.write(generate(seed, profile, length)[0])
