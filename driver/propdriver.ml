(* Runs a property-layer script on the model extracted from coq/PropDefs.v and prints the observations in the
   format of harness/prop_harness.cpp.   usage: propdriver [--ltr] <script>... *)
open Propmodel

let rec nat_of_int n = if n <= 0 then O else S (nat_of_int (n - 1))
let rec int_of_nat = function O -> 0 | S n -> 1 + int_of_nat n
let rec pos_of_int n = if n <= 1 then XH else if n land 1 = 0 then XO (pos_of_int (n lsr 1)) else XI (pos_of_int (n lsr 1))
let rec int_of_pos = function XH -> 1 | XO p -> 2 * int_of_pos p | XI p -> 2 * int_of_pos p + 1
let z_of_int n = if n = 0 then Z0 else if n > 0 then Zpos (pos_of_int n) else Zneg (pos_of_int (-n))
let int_of_z = function Z0 -> 0 | Zpos p -> int_of_pos p | Zneg p -> - (int_of_pos p)

exception Bad of string

let tokens line = List.filter (fun s -> s <> "") (String.split_on_char ' ' (String.trim line))

let kind_of = function 0 -> KAbout | 1 -> KChanged | 2 -> KDestroyed | _ -> KMoved
let kind_name = function KAbout -> "about" | KChanged -> "changed" | KDestroyed -> "destroyed" | KMoved -> "moved"
let path_of = function 0 -> WSet | 1 -> WAssign | _ -> WStream

(* prefix expression: c v | p P | o1 f E | o2 f E E | o3 f E E E *)
let rec parse_expr toks =
  match toks with
  | "c" :: v :: r -> (EConst (z_of_int (int_of_string v)), r)
  | "p" :: p :: r -> (EProp (nat_of_int (int_of_string p)), r)
  | "o1" :: f :: r -> let (a, r1) = parse_expr r in (EOp1 (nat_of_int (int_of_string f), a), r1)
  | "o2" :: f :: r -> let (a, r1) = parse_expr r in let (b, r2) = parse_expr r1 in (EOp2 (nat_of_int (int_of_string f), a, b), r2)
  | "o3" :: f :: r ->
    let (a, r1) = parse_expr r in let (b, r2) = parse_expr r1 in let (c, r3) = parse_expr r2 in
    (EOp3 (nat_of_int (int_of_string f), a, b, c), r3)
  | _ -> raise (Bad ("expr: " ^ String.concat " " toks))

let mode_of s = let m = int_of_string s in if m < 0 then MImmediate else MEvaluator (nat_of_int m)

let parse_op toks =
  let n s = nat_of_int (int_of_string s) in
  let i s = int_of_string s in
  match toks with
  | ["pnew"; p; v] -> PNew (n p, z_of_int (i v))
  | ["pdel"; p] -> PDel (n p)
  | ["pset"; p; v; path] -> PSet (n p, z_of_int (i v), path_of (i path))
  | ["pget"; p] -> PGet (n p)
  | ["phas"; p] -> PHasBinding (n p)
  | ["pobs"; p; k; l; h] -> PObserve (n p, kind_of (i k), n l, n h, None)
  | ["pobsset"; p; k; l; h; q] -> PObserve (n p, kind_of (i k), n l, n h, Some (false, n q))
  | ["pobsreset"; p; k; l; h; q] -> PObserve (n p, kind_of (i k), n l, n h, Some (true, n q))
  | ["passign"; p; q] -> PAssignFrom (n p, n q)
  | ["punobs"; h] -> PUnobserve (n h)
  | "pbind" :: p :: m :: e -> let (ex, _) = parse_expr e in PBind (n p, ex, mode_of m)
  | ["preset"; p] -> PReset (n p)
  | ["pmovector"; s; d] -> PMoveCtor (n s, n d)
  | ["pmoveassign"; d; s] -> PMoveAssign (n d, n s)
  | ["bevnew"; e] -> BevNew (n e)
  | ["bevcopy"; s; d] -> BevCopy (n s, n d)
  | ["bevdel"; e] -> BevDel (n e)
  | ["evalall"; e] -> BevEvalAll (n e)
  | "bhold" :: b :: m :: e -> let (ex, _) = parse_expr e in BHold (n b, ex, mode_of m)
  | ["bholddel"; b] -> BHoldDel (n b)
  | _ -> raise (Bad (String.concat " " toks))

(* fn_std, noting whether an argument or an intermediate product leaves the range in which int arithmetic cannot overflow *)
let out_of_range = ref false
let fn_range f args =
  let big z = abs (int_of_z z) > 0x10000000 in
  let ai = List.map int_of_z args in
  if List.exists big args then out_of_range := true;
  (match ai with a :: b :: _ when int_of_nat f < 100 && int_of_nat f mod 5 = 4 && abs (a * b) > 0x40000000 -> out_of_range := true | _ -> ());
  fn_std f args

let read_lines f =
  let ic = open_in f in
  let rec go acc = match input_line ic with
    | l -> go (l :: acc)
    | exception End_of_file -> close_in ic; List.rev acc in
  go []

let exn_name = function
  | PxReadOnly -> "readonly" | PxDestroyed -> "destroyed" | PxEmitting -> "emitting" | PxUser -> "user"
  | PxBad -> "bad" | PxUnmodelled -> "unmodelled" | PxFuel -> "fuel"

let zs l = String.concat "" (List.map (fun z -> " " ^ string_of_int (int_of_z z)) l)

let print_event = function
  | EvNotify (l, k, payload, seen) ->
    Printf.printf "notify %d %s%s seen %s\n" (int_of_nat l) (kind_name k) (zs payload)
      (match seen with Some v -> string_of_int (int_of_z v) | None -> "-")
  | EvFn f -> if int_of_nat f < 100 then Printf.printf "fn %d\n" (int_of_nat f)   (* ids >= 100: the library's own operators, not instrumented *)
  | EvVal (Some v) -> Printf.printf "val %d\n" (int_of_z v)
  | EvVal None -> print_string "val -\n"
  | EvDone None -> print_string "done ok\n"
  | EvDone (Some e) -> Printf.printf "done %s\n" (exn_name e)

let run_file rtl f =
  Printf.printf "== %s\n" f;
  let ops = List.filter_map (fun l -> match tokens l with
      | [] -> None
      | t :: _ when t.[0] = '#' -> None
      | ["heapmark"] -> Some `Mark
      | ["heapcheck"] -> Some `Check
      | tk -> Some (`Op (parse_op tk, String.concat " " tk))) (read_lines f) in
  let fuel = nat_of_int 40 in
  let w = ref world0 in
  let legal = ref true in
  out_of_range := false;
  let mark = ref (footprint world0) in
  let hist = ref [] and before_mark = ref [] and since_mark = ref [] in
  let print_vals w' =
    let vs = List.sort compare (List.map (fun (p, pr) -> (int_of_nat p, int_of_z pr.pr_value, pr.pr_updater <> None)) w'.w_props) in
    Printf.printf "vals%s\n" (String.concat "" (List.map (fun (p, v, b) -> Printf.sprintf " %d:%d%s" p v (if b then "b" else "")) vs)) in
  List.iter (function
    | `Mark -> mark := footprint !w; before_mark := !hist; since_mark := []; print_string "done ok\n"; print_vals !w
    | `Check ->
      (* C19: a tested cycle = the operations since the mark are a sequence P repeated k >= 1 times, the same P was executed at least
         twice directly before the mark (warm-up: vectors and free lists of the library have reached their steady capacity), and
         the model's footprint is what it was at the mark.  Then the real library must hold exactly the bytes it held at the mark. *)
      let s = Array.of_list (List.rev !since_mark) in
      let n = Array.length s in
      let periodic p = n mod p = 0 && (let ok = ref true in for i = p to n - 1 do if s.(i) <> s.(i - p) then ok := false done; !ok) in
      let rec minp p = if p > n then 0 else if periodic p then p else minp (p + 1) in
      let p = if n = 0 then 0 else minp 1 in
      let warmed =
        p > 0 &&
        (let b = Array.of_list !before_mark in      (* newest first *)
         Array.length b >= 2 * p &&
         (let ok = ref true in
          for i = 0 to 2 * p - 1 do if b.(i) <> s.(p - 1 - (i mod p)) then ok := false done; !ok)) in
      print_string (if warmed && footprint !w = !mark then "heap 0\n" else "heap unsteady\n"); print_string "done ok\n"; print_vals !w
    | `Op (o, raw) ->
      hist := raw :: !hist; since_mark := raw :: !since_mark;
      let before = List.length !w.w_trace in
      let w' = step fn_range rtl fuel !w o in
      let tr = w'.w_trace in
      let fresh = List.length tr - before in
      let rec firstn k l = if k = 0 then [] else match l with [] -> [] | x :: r -> x :: firstn (k - 1) r in
      (* the model computes in Z, Property<int> in int: a history whose values leave the range in which the harness's functions and the
         library's operators cannot overflow is not a legal program from this operation on (`done range`: the check keeps the prefix) *)
      if !out_of_range then print_string "done range\n" else List.iter print_event (List.rev (firstn fresh tr));
      print_vals w';
      (* lines starting with '#' are the model's own property checkers: not compared with the implementation *)
      (* pinv: the link invariant proved in coq/PropLinkOps.v, evaluated on this world as long as no operation so far was
         answered with "not a legal program / not modelled" *)
      (match w'.w_trace with EvDone r :: _ -> if not (okxb r) then legal := false | _ -> ());
      let pb = pinv_b w' in
      Printf.printf "#chk c02=%d links=%d pinv=%s%s\n" (if check_c02 fn_std w' then 1 else 0) (if check_links w' then 1 else 0)
        (if not !legal then "skip" else if List.for_all (fun b -> b) pb then "1"
         else "0 pinvbits=" ^ String.concat "" (List.map (fun b -> if b then "t" else "f") pb))
        (match o with
         | BevEvalAll e when (match w'.w_trace with EvDone None :: _ -> true | _ -> false)
                             (* observers that write or reset change inputs in the middle of a pass: outside the guarantee *)
                             && List.for_all (fun tb -> List.for_all (function Some (_, SObs (_, Some _)) -> false | _ -> true) tb.t_slots) w'.w_tables ->
           (match List.assoc_opt e (List.map (fun (a, b) -> (a, b)) w'.w_bevs) with
             | Some id -> Printf.sprintf " c06=%d" (if check_c06_after_evalall fn_std w' id then 1 else 0)
             | None -> "")
         | _ -> "");
      w := w') ops;
  (* is this history inside the quantifier of the growth theorems (coq/PropFragment.v: classifiers with soundness proofs)?
     c02: a growing network in any order with writing observers, or a growing network (moves, rebinding, reset, destruction) for its
     first k operations followed by observers - also writing ones of both signals - and assignments only (k = just after the last operation that is not of that kind);
     c06: a growing mixed network *)
  let only = List.filter_map (function `Op (o, _) -> Some o | _ -> None) ops in
  let n = List.length only in
  let k = let rec go i last = function [] -> last | o :: r -> go (i + 1) (if act2_synb o then last else i + 1) r in go 0 0 only in
  Printf.printf "#frag c02=%d c06=%d n=%d\n" (if in_c02_fragment fn_std rtl fuel (nat_of_int k) only then 1 else 0)
    (if in_c06_fragment fn_std rtl fuel only then 1 else 0) n

let () =
  let rtl = ref true in
  for i = 1 to Array.length Sys.argv - 1 do
    if Sys.argv.(i) = "--ltr" then rtl := false
    else (try run_file !rtl Sys.argv.(i) with Bad s -> Printf.printf "PARSE-ERROR %s\n" s)
  done
