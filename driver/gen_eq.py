#!/usr/bin/env python3
"""Generator of equality-layer scripts (model coq/PropEq.v, harness harness/eq_harness.cpp): one Property<T> per script, T chosen
among five equality relations, writes through every path with runs of equal values, values equal under the custom relation
but not identical, NaNs, and writes of the property's own value.  All randomness derives from the seed."""
import random
import sys


def generate(seed, profile='C03', length=60):
    r = random.Random(seed)
    stats = {}

    def count(k):
        stats[k] = stats.get(k, 0) + 1

    # flavour 5: a class whose operator== is not declared noexcept; profile C13 adds one or two immediate bindings reading the property
    # (instrumented function): a write of an equal value must not run it
    fl = r.choice([0, 1, 1, 2, 2, 3, 4, 5, 6, 6] if profile != 'C13' else [0, 1, 1, 2, 5, 5, 5, 3, 4, 6])
    pool = [0, 1, 2, 3, 10, 11, 12, 13, 21, 22, 35]

    def val():
        if fl == 2 and r.random() < 0.3:
            return -1
        return r.choice(pool)

    init = val()
    lines = [f'eqnew {fl} {init} {r.randrange(0, 3)} {r.randrange(0, 4)}']
    count(f'eqnew_flavour{fl}')
    last = init
    n = max(4, min(length, 40))
    if profile == 'C13':
        lines.append('ebind')
        count('ebind')
    for _ in range(n):
        x = r.random()
        if profile == 'C13' and x < 0.03:
            lines.append('ebind')
            count('ebind')
        elif x < 0.08:
            k = r.randrange(2)
            lines.append(f'eobs {k}')
            count('eobs')
        elif x < 0.30:
            lines.append(f'ewcur {r.randrange(2)}')
            count('ewcur')
        else:
            y = r.random()
            if y < 0.3:
                v = last                      # run of equal values
            elif y < 0.45 and last >= 0:
                v = last + 10 * r.choice([1, 2, -1]) if last + 10 * -1 >= 0 else last + 10   # equal modulo 10, not identical
                v = max(v, 0)
            else:
                v = val()
            last = v
            lines.append(f'ew {r.randrange(2) if v < 0 else r.randrange(3)} {v}')   # a NaN can not be read from a stream
            count('ew')
    return '\n'.join(lines) + '\n', stats


if __name__ == '__main__':
    seed = int(sys.argv[1]) if len(sys.argv) > 1 else 1
    sys.stdout.write(generate(seed, sys.argv[3] if len(sys.argv) > 3 else 'C03', int(sys.argv[2]) if len(sys.argv) > 2 else 30)[0])
