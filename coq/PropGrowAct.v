(* C02 for networks WITH observers that write (coq/PropSimAct.v), end to end on the executable model: after any history of a growing
   network (coq/PropMove.v: new properties, plain observers, immediate bindings - fresh, late, rebinding -, reset, destruction of unread
   properties, both moves, assignments) followed by any history that attaches observers - plain ones, and observers of valueChanged that
   assign the announced value to another property - and assigns inputs, every immediately bound property equals its expression recomputed
   over the current values, whenever the calls returned normally. *)
From Coq Require Import List Arith ZArith Lia Bool.
Import ListNotations.
From KDB Require Import Util UtilProofs PropDefs PropFlags PropLink PropLinkBasics PropLinkOps PropLinkTheorems PropSim PropGrow PropSimAct.
From KDB Require PropAbs PropAbsProofs PropAbsAct PropProofs PropCheck PropGrowMore PropMove.

Section GrowAct.
  Variable fn : nat -> list Z -> option Z.
  Variable rtl : bool.
  Notation COH := (PropSim.COH fn).
  Notation SCA := PropSimAct.SCA.

  Lemma SCA_log e w : SCA w -> SCA (log e w).
  Proof. intros (Hinv & Hna & Hsi). split; [eapply pinv_views; [apply views_log|exact Hinv]|split; [exact Hna|exact Hsi]]. Qed.

  (* attaching an observer - plain, or one that writes *)
  Lemma act_observe fuel w p k label h act w' :
    SCA w -> COH w -> (act = None \/ (k = KChanged /\ exists tgt, act = Some (false, tgt))) ->
    step1 fn rtl fuel w (PObserve p k label h act) = (w', None) -> SCA w' /\ COH w'.
  Proof.
    intros (Hinv & Hna & Hsi) HC Hact H.
    assert (Hinv' : pinv w') by (eapply (observe_pinv fn rtl fuel); eauto; exact I).
    cbn [step1] in H. destruct (match k, act with KMoved, _ => true | KDestroyed, Some _ => true | _, _ => false end); [discriminate H|].
    destruct (subscribe w p k (SObs label act)) as [[w1 hd]|] eqn:Hs; [|discriminate H]. inversion H; subst w'.
    pose proof (subscribe_ext _ _ _ _ _ _ Hs (pi_twf _ _ _ _ _ _ _ Hinv) (pi_own _ _ _ _ _ _ _ Hinv)) as E.
    split.
    - split; [exact Hinv'|]. split.
      + intros t pos ser label0 a Hsl. assert (Hsl1 : slot_at w1 t pos ser (SObs label0 (Some a))) by exact Hsl.
        destruct (se_new _ _ _ _ _ _ E _ _ _ _ Hsl1) as [Hold|(Et & _ & _ & Es)].
        * destruct (Hna t pos ser label0 a Hold) as (tgt & p' & Ea & Ho). exists tgt, p'. split; [exact Ea|]. exact (se_owns_old _ _ _ _ _ _ E _ _ _ Ho).
        * inversion Es; subst. destruct Hact as [Hn|(-> & tgt & Ea)]; [discriminate Hn|]. inversion Ea; subst a. exists tgt, p. split; [reflexivity|].
          exact (se_owns_h _ _ _ _ _ _ E).
      + exact (PropGrow.sub_SIMPLE _ _ _ _ _ _ E Hsi).
    - exact (PropGrow.sub_COH fn _ _ _ _ _ _ E HC).
  Qed.

  Definition act_op (o : op) : Prop :=
    match o with
    | PSet _ _ _ | PGet _ | PHasBinding _ | PAssignFrom _ _ => True
    | PObserve _ _ _ _ None => True
    | PObserve _ KChanged _ _ (Some (false, _)) => True
    | _ => False
    end.

  Theorem act_step fuel w o w' : SCA w -> COH w -> act_op o -> step1 fn rtl fuel w o = (w', None) -> SCA w' /\ COH w'.
  Proof.
    intros HSC HC Ho H. destruct o; cbn [act_op] in Ho; try contradiction.
    - (* PSet *) cbn [step1] in H. destruct (lookup (w_props w) p) as [pr|] eqn:Hp; [|discriminate H]. destruct (pr_updater pr) eqn:Hu; [discriminate H|].
      destruct (assignment_coherent_act fn rtl fuel w p pr v w' HSC HC Hp Hu H) as (A1 & A2 & _). auto.
    - (* PGet *) cbn [step1] in H. destruct (lookup (w_props w) p); [|discriminate H]. inversion H; subst w'. split; [apply SCA_log; exact HSC|exact HC].
    - (* PHasBinding *) cbn [step1] in H. destruct (lookup (w_props w) p); [|discriminate H]. inversion H; subst w'. split; [apply SCA_log; exact HSC|exact HC].
    - (* PObserve *) destruct act as [[[|] tgt]|].
      + destruct k; contradiction.
      + destruct k; try contradiction. apply (act_observe fuel w p KChanged label h (Some (false, tgt)) w' HSC HC); [right; split; [reflexivity|exists tgt; reflexivity]|exact H].
      + apply (act_observe fuel w p k label h None w' HSC HC); [left; reflexivity|exact H].
    - (* PAssignFrom *) cbn [step1] in H. destruct (lookup (w_props w) p) as [pr|] eqn:Hp; [|discriminate H]. destruct (lookup (w_props w) q) as [qr|]; [|discriminate H].
      destruct (pr_updater pr) eqn:Hu; [discriminate H|].
      destruct (assignment_coherent_act fn rtl fuel w p pr (pr_value qr) w' HSC HC Hp Hu H) as (A1 & A2 & _). auto.
  Qed.

  Fixpoint act_run_ok (fuel : nat) (w : world) (ops : list op) : Prop :=
    match ops with
    | [] => True
    | o :: r => act_op o /\ snd (step1 fn rtl fuel w o) = None /\ act_run_ok fuel (step fn rtl fuel w o) r
    end.

  Theorem act_coherent fuel : forall ops w, SCA w -> COH w -> act_run_ok fuel w ops ->
    SCA (fold_left (step fn rtl fuel) ops w) /\ COH (fold_left (step fn rtl fuel) ops w).
  Proof.
    induction ops as [|o r IH]; intros w HSC HC Hok; cbn [fold_left]; [auto|]. destruct Hok as (Ho & Hn & Hr).
    unfold step in *. destruct (step1 fn rtl fuel w o) as [w1 e] eqn:E. cbn [snd] in Hn. subst e.
    destruct (act_step fuel w o w1 HSC HC Ho E) as [SC1 COH1].
    apply IH; [apply SCA_log; exact SC1|exact COH1|exact Hr].
  Qed.

  (* what coherence says about a bound property (PropSim.coherent_bound_equals_expression, for worlds with acting observers) *)
  Theorem coherent_bound_equals_expression_act w q x pr z :
    SCA w -> COH w -> PropSim.imm_of w q = Some x -> lookup (w_props w) q = Some pr ->
    PropCheck.den_node fn (values w) (b_root x) = Some z -> pr_value pr = z.
  Proof.
    intros (Hinv & Hna & Hsi) (s & HRel & HInv) Hi Hq Hd. pose proof HRel as (R1 & R2 & R3).
    destruct (PropSim.abs_tree (b_root x)) as [T|] eqn:HT; [|exfalso; exact (Hsi _ _ Hi HT)].
    assert (Htr : PropAbs.tr s q = Some T) by (rewrite R2, Hi; exact HT).
    assert (Hb : exists b, get_bind w b = Some x).
    { unfold PropSim.imm_of in Hi. rewrite Hq in Hi. destruct (pr_updater pr) as [b|]; [|discriminate Hi]. exists b.
      destruct (get_bind w b) as [x0|]; [|discriminate Hi]. destruct (Nat.eqb (b_evp x0) 0); [congruence|discriminate Hi]. }
    destruct Hb as (b & Hb).
    rewrite (PropSim.den_node_abs fn (values w) (PropAbs.env s) _ _ _ HT (fun p lid Hi0 => PropSim.values_env w s p lid T b x Hinv HRel Hb HT Hi0) Hd).
    rewrite <- (R1 _ _ Hq). destruct (HInv q T Htr) as (_ & _ & E & _). apply E. intros p0 lid _ [].
  Qed.

  (* end to end: a growing network, then observers that write and assignments *)
  Theorem network_then_acting_observers_consistent fuel ops1 ops2 q x pr z :
    PropMove.grow3_run_ok fn rtl fuel world0 ops1 ->
    act_run_ok fuel (run fn rtl fuel ops1) ops2 ->
    let w := run fn rtl fuel (ops1 ++ ops2) in
    PropSim.imm_of w q = Some x -> lookup (w_props w) q = Some pr ->
    PropCheck.den_node fn (values w) (b_root x) = Some z -> pr_value pr = z.
  Proof.
    intros Hok1 Hok2 w Hi Hq Hd.
    destruct (PropMove.grow3_coherent fn rtl fuel ops1 world0 PropGrow.SC_world0 (PropGrow.COH_world0 fn) (PropMove.NOEMIT_world0) Hok1) as [HSC HC].
    destruct (act_coherent fuel ops2 _ (SC_SCA _ HSC) HC Hok2) as [HSC2 HC2].
    unfold w, run in *. rewrite fold_left_app in *. eapply coherent_bound_equals_expression_act; eauto.
  Qed.
End GrowAct.
