(* Executable model of the property layer of KDBindings:
     property.h (Property<T>: value, four signals, updater, set/get, move, destruction),
     node.h (Dirtyable, ConstantNode, PropertyNode, OperatorNode), make_node.h,
     binding.h (Binding, immediate and evaluator-driven), binding_evaluator.h (registry, evaluateAll).
   Values are Z.  The signals of a property are modelled by their own small subscriber tables (positions with
   LIFO reuse and a serial number per subscription, i.e. the generational array without wrap-around; the full
   Signal model is coq/SigDefs.v): what matters here is WHO is subscribed, in WHICH ORDER they are called, and
   that an exception leaving a subscriber ends the walk (after the fix: commits the walk's scope guard still runs).
   User observers only record what they were told and what get() returned at that moment.
   User functions inside expressions are `fn : nat -> list Z -> option Z` (None = the function throws); the
   order in which an operator node evaluates its children is the parameter `rtl` (g++: right to left).
   No proofs in this file. *)
From KDB Require Export Util.

Inductive pexn :=
| PxReadOnly            (* ReadOnlyProperty *)
| PxDestroyed           (* PropertyDestroyedError *)
| PxEmitting            (* std::runtime_error "Signal is already emitting" (cyclic bindings) *)
| PxUser                (* an exception thrown by a user function inside an expression *)
| PxBad                 (* the script is not a legal program (names a missing object, throws while building) *)
| PxUnmodelled          (* a situation this layer does not model (disconnect during an emission of the same signal) *)
| PxFuel.               (* recursion bound hit *)

Inductive expr :=
| EConst (v : Z)
| EProp (p : nat)
| EOp1 (f : nat) (a : expr)
| EOp2 (f : nat) (a b : expr)
| EOp3 (f : nat) (a b c : expr).

Inductive sigkind := KAbout | KChanged | KDestroyed | KMoved.

(* a subscription handle: table, position, serial *)
Record handle := { h_table : nat; h_pos : nat; h_serial : nat }.

Inductive node :=
| NConst (v : Z)
| NProp (target : option nat) (dirty : bool) (leaf : nat) (hc hm hd : handle)
| NOp1 (f : nat) (dirty : bool) (cache : Z) (a : node)
| NOp2 (f : nat) (dirty : bool) (cache : Z) (a b : node)
| NOp3 (f : nat) (dirty : bool) (cache : Z) (a b c : node).

Inductive subscriber :=
| SObs (label : nat) (act : option (bool * nat))
      (* a user observer; act = Some (false, q): it also calls q.set(first payload value); Some (true, q): q.reset() *)
| SNode (b : nat) (leaf : nat).            (* the slot of PropertyNode `leaf` of binding b; the table's kind tells which of its three slots *)

Record table := {
  t_slots : list (option (nat * subscriber));   (* serial, subscriber *)
  t_free : list nat;
  t_emitting : bool;
  t_alive : bool }.
Definition table_new : table := {| t_slots := []; t_free := []; t_emitting := false; t_alive := true |}.

Record prop := {
  pr_value : Z;
  pr_about : option nat; pr_changed : option nat; pr_destroyed : option nat; pr_moved : option nat;  (* Signal::m_impl *)
  pr_updater : option nat }.

Record binding := {
  b_root : node;
  b_evp : nat;                 (* which BindingEvaluator::Private it registered with; 0 = the immediate instance *)
  b_regid : nat;               (* m_bindingId *)
  b_target : option nat;       (* the property whose setHelper is bound into m_propertyUpdateFunction *)
  b_alive : bool }.

Record evpriv := { ep_registry : list (nat * nat); ep_next : nat }.    (* (id, binding), ascending ids *)

Inductive event :=
| EvNotify (label : nat) (k : sigkind) (payload : list Z) (seen : option Z)   (* observer called; seen = get() at that moment *)
| EvFn (f : nat)                                                              (* a user function ran *)
| EvVal (v : option Z)                                                        (* answer of get / hasBinding *)
| EvDone (r : option pexn).

Inductive mode := MImmediate | MEvaluator (e : nat).
Inductive wpath := WSet | WAssign | WStream.      (* set(), operator=, operator>> *)

Inductive op :=
| PNew (p : nat) (v : Z) | PDel (p : nat)
| PSet (p : nat) (v : Z) (path : wpath) | PGet (p : nat) | PHasBinding (p : nat)
| PObserve (p : nat) (k : sigkind) (label : nat) (h : nat) (act : option (bool * nat)) | PUnobserve (h : nat)
| PAssignFrom (p q : nat)                        (* p = q.get(): operator= with a reference into q *)
| PBind (p : nat) (e : expr) (m : mode)          (* p = makeBinding(...): creates p (makeBoundProperty) if it does not exist *)
| PReset (p : nat)
| PMoveCtor (src dst : nat) | PMoveAssign (dst src : nat)
| BevNew (e : nat) | BevCopy (src dst : nat) | BevDel (e : nat) | BevEvalAll (e : nat)
| BHold (b : nat) (e : expr) (m : mode) | BHoldDel (b : nat).     (* a binding owned by the user, never given to a property *)

Record world := {
  w_tables : list table;
  w_props : nmap prop;
  w_binds : list binding;
  w_evps : list evpriv;
  w_bevs : nmap nat;
  w_obs : nmap handle;
  w_held : nmap nat;               (* user-held bindings: script name -> binding id *)
  w_serial : nat;
  w_trace : list event }.

Definition world0 : world :=
  {| w_tables := []; w_props := []; w_binds := []; w_evps := [{| ep_registry := []; ep_next := 0 |}];
     w_bevs := []; w_obs := []; w_held := []; w_serial := 0; w_trace := [] |}.

Definition set_tables w x := {| w_tables := x; w_props := w_props w; w_binds := w_binds w; w_evps := w_evps w; w_bevs := w_bevs w; w_obs := w_obs w; w_held := w_held w; w_serial := w_serial w; w_trace := w_trace w |}.
Definition set_props w x := {| w_tables := w_tables w; w_props := x; w_binds := w_binds w; w_evps := w_evps w; w_bevs := w_bevs w; w_obs := w_obs w; w_held := w_held w; w_serial := w_serial w; w_trace := w_trace w |}.
Definition set_binds w x := {| w_tables := w_tables w; w_props := w_props w; w_binds := x; w_evps := w_evps w; w_bevs := w_bevs w; w_obs := w_obs w; w_held := w_held w; w_serial := w_serial w; w_trace := w_trace w |}.
Definition set_evps w x := {| w_tables := w_tables w; w_props := w_props w; w_binds := w_binds w; w_evps := x; w_bevs := w_bevs w; w_obs := w_obs w; w_held := w_held w; w_serial := w_serial w; w_trace := w_trace w |}.
Definition set_bevs w x := {| w_tables := w_tables w; w_props := w_props w; w_binds := w_binds w; w_evps := w_evps w; w_bevs := x; w_obs := w_obs w; w_held := w_held w; w_serial := w_serial w; w_trace := w_trace w |}.
Definition set_obs w x := {| w_tables := w_tables w; w_props := w_props w; w_binds := w_binds w; w_evps := w_evps w; w_bevs := w_bevs w; w_obs := x; w_held := w_held w; w_serial := w_serial w; w_trace := w_trace w |}.
Definition set_held w x := {| w_tables := w_tables w; w_props := w_props w; w_binds := w_binds w; w_evps := w_evps w; w_bevs := w_bevs w; w_obs := w_obs w; w_held := x; w_serial := w_serial w; w_trace := w_trace w |}.
Definition set_serial w x := {| w_tables := w_tables w; w_props := w_props w; w_binds := w_binds w; w_evps := w_evps w; w_bevs := w_bevs w; w_obs := w_obs w; w_held := w_held w; w_serial := x; w_trace := w_trace w |}.
Definition log (e : event) w := {| w_tables := w_tables w; w_props := w_props w; w_binds := w_binds w; w_evps := w_evps w; w_bevs := w_bevs w; w_obs := w_obs w; w_held := w_held w; w_serial := w_serial w; w_trace := e :: w_trace w |}.

Definition res : Type := world * option pexn.
Definition ok (w : world) : res := (w, None).
Definition throw (w : world) (e : pexn) : res := (w, Some e).

(* ---------- subscriber tables (the Signal::Impl of one property signal) ---------- *)
Definition get_table w t := nth_error (w_tables w) t.
Definition put_table w t x := set_tables w (upd (w_tables w) t x).

Definition sig_of (pr : prop) (k : sigkind) : option nat :=
  match k with KAbout => pr_about pr | KChanged => pr_changed pr | KDestroyed => pr_destroyed pr | KMoved => pr_moved pr end.
Definition prop_set_sig (pr : prop) (k : sigkind) (x : option nat) : prop :=
  match k with
  | KAbout => {| pr_value := pr_value pr; pr_about := x; pr_changed := pr_changed pr; pr_destroyed := pr_destroyed pr; pr_moved := pr_moved pr; pr_updater := pr_updater pr |}
  | KChanged => {| pr_value := pr_value pr; pr_about := pr_about pr; pr_changed := x; pr_destroyed := pr_destroyed pr; pr_moved := pr_moved pr; pr_updater := pr_updater pr |}
  | KDestroyed => {| pr_value := pr_value pr; pr_about := pr_about pr; pr_changed := pr_changed pr; pr_destroyed := x; pr_moved := pr_moved pr; pr_updater := pr_updater pr |}
  | KMoved => {| pr_value := pr_value pr; pr_about := pr_about pr; pr_changed := pr_changed pr; pr_destroyed := pr_destroyed pr; pr_moved := x; pr_updater := pr_updater pr |}
  end.
Definition prop_set_value (pr : prop) (v : Z) : prop :=
  {| pr_value := v; pr_about := pr_about pr; pr_changed := pr_changed pr; pr_destroyed := pr_destroyed pr; pr_moved := pr_moved pr; pr_updater := pr_updater pr |}.
Definition prop_set_updater (pr : prop) (u : option nat) : prop :=
  {| pr_value := pr_value pr; pr_about := pr_about pr; pr_changed := pr_changed pr; pr_destroyed := pr_destroyed pr; pr_moved := pr_moved pr; pr_updater := u |}.
Definition prop_new (v : Z) : prop :=
  {| pr_value := v; pr_about := None; pr_changed := None; pr_destroyed := None; pr_moved := None; pr_updater := None |}.

(* Signal::connect on signal k of property p: ensureImpl, insert (LIFO reuse of freed positions) *)
Definition subscribe (w : world) (p : nat) (k : sigkind) (s : subscriber) : option (world * handle) :=
  match lookup (w_props w) p with
  | None => None
  | Some pr =>
      let '(w1, t) := match sig_of pr k with
                      | Some t => (w, t)
                      | None => let t := length (w_tables w) in
                                (set_props (set_tables w (w_tables w ++ [table_new]))
                                           (bind_key (w_props w) p (prop_set_sig pr k (Some t))), t)
                      end in
      match get_table w1 t with
      | None => None
      | Some tb =>
          let ser := w_serial w1 in
          let '(slots, free, pos) :=
            match t_free tb with
            | i :: f => (upd (t_slots tb) i (Some (ser, s)), f, i)
            | [] => (t_slots tb ++ [Some (ser, s)], [], length (t_slots tb))
            end in
          Some (set_serial (put_table w1 t {| t_slots := slots; t_free := free; t_emitting := t_emitting tb; t_alive := t_alive tb |}) (S ser),
                {| h_table := t; h_pos := pos; h_serial := ser |})
      end
  end.

(* ConnectionHandle::disconnect: nothing if the Impl is gone or the subscription is not there any more *)
Definition unsubscribe (w : world) (h : handle) : res :=
  match get_table w (h_table h) with
  | Some tb =>
      if negb (t_alive tb) then ok w else
      match nth_error (t_slots tb) (h_pos h) with
      | Some (Some (ser, _)) =>
          if Nat.eqb ser (h_serial h) then
            if t_emitting tb then throw w PxUnmodelled else
            ok (put_table w (h_table h) {| t_slots := upd (t_slots tb) (h_pos h) None; t_free := h_pos h :: t_free tb;
                                           t_emitting := false; t_alive := true |})
          else ok w
      | _ => ok w
      end
  | None => ok w
  end.

(* ~Signal / move-assignment over a signal: disconnectAll, the Impl dies *)
Definition kill_table (w : world) (ot : option nat) : res :=
  match ot with
  | None => ok w
  | Some t => match get_table w t with
              | Some tb => if t_emitting tb then throw w PxUnmodelled
                           else ok (put_table w t {| t_slots := map (fun _ => None) (t_slots tb); t_free := t_free tb; t_emitting := false; t_alive := false |})
              | None => ok w end
  end.

(* ---------- expression nodes ---------- *)
Definition dummy_handle : handle := {| h_table := 0; h_pos := 0; h_serial := 0 |}.

Section Nodes.
  Variable fn : nat -> list Z -> option Z.
  Variable rtl : bool.
  Variable val : nat -> option Z.        (* current value of a live property *)

  (* Dirtyable::markDirty started at PropertyNode `leaf`: (tree', the walk reached the root and goes on to the Binding) *)
  Fixpoint mark (t : node) (leaf : nat) : option (node * bool) :=
    match t with
    | NConst _ => None
    | NProp tg d l hc hm hd =>
        if Nat.eqb l leaf then Some (if d then (t, false) else (NProp tg true l hc hm hd, true)) else None
    | NOp1 f d c a =>
        match mark a leaf with
        | Some (a', up) => Some (if up then (if d then (NOp1 f d c a', false) else (NOp1 f true c a', true)) else (NOp1 f d c a', false))
        | None => None end
    | NOp2 f d c a b =>
        match mark a leaf with
        | Some (a', up) => Some (if up then (if d then (NOp2 f d c a' b, false) else (NOp2 f true c a' b, true)) else (NOp2 f d c a' b, false))
        | None =>
            match mark b leaf with
            | Some (b', up) => Some (if up then (if d then (NOp2 f d c a b', false) else (NOp2 f true c a b', true)) else (NOp2 f d c a b', false))
            | None => None end
        end
    | NOp3 f d c a b e =>
        match mark a leaf with
        | Some (a', up) => Some (if up then (if d then (NOp3 f d c a' b e, false) else (NOp3 f true c a' b e, true)) else (NOp3 f d c a' b e, false))
        | None =>
            match mark b leaf with
            | Some (b', up) => Some (if up then (if d then (NOp3 f d c a b' e, false) else (NOp3 f true c a b' e, true)) else (NOp3 f d c a b' e, false))
            | None =>
                match mark e leaf with
                | Some (e', up) => Some (if up then (if d then (NOp3 f d c a b e', false) else (NOp3 f true c a b e', true)) else (NOp3 f d c a b e', false))
                | None => None end
            end
        end
    end.

  (* NodeInterface::evaluate: (tree', value or exception, user functions that ran, oldest first) *)
  Definition eres : Type := node * (Z + pexn) * list nat.

  Fixpoint eval (t : node) : eres :=
    match t with
    | NConst v => (t, inl v, [])
    | NProp tg d l hc hm hd =>
        match tg with
        | None => (t, inr PxDestroyed, [])
        | Some p => match val p with
                    | Some v => (NProp tg false l hc hm hd, inl v, [])
                    | None => (t, inr PxBad, [])      (* a dangling m_property: excluded by the model's invariant *)
                    end
        end
    | NOp1 f d c a =>
        if d then
          let '(a', ra, la) := eval a in
          match ra with
          | inr x => (NOp1 f false c a', inr x, la)
          | inl va => match fn f [va] with
                      | Some v => (NOp1 f false v a', inl v, la ++ [f])
                      | None => (NOp1 f false c a', inr PxUser, la ++ [f]) end
          end
        else (t, inl c, [])
    | NOp2 f d c a b =>
        if d then
          if rtl then
            let '(b', rb, lb) := eval b in
            match rb with
            | inr x => (NOp2 f false c a b', inr x, lb)
            | inl vb =>
                let '(a', ra, la) := eval a in
                match ra with
                | inr x => (NOp2 f false c a' b', inr x, lb ++ la)
                | inl va => match fn f [va; vb] with
                            | Some v => (NOp2 f false v a' b', inl v, lb ++ la ++ [f])
                            | None => (NOp2 f false c a' b', inr PxUser, lb ++ la ++ [f]) end
                end
            end
          else
            let '(a', ra, la) := eval a in
            match ra with
            | inr x => (NOp2 f false c a' b, inr x, la)
            | inl va =>
                let '(b', rb, lb) := eval b in
                match rb with
                | inr x => (NOp2 f false c a' b', inr x, la ++ lb)
                | inl vb => match fn f [va; vb] with
                            | Some v => (NOp2 f false v a' b', inl v, la ++ lb ++ [f])
                            | None => (NOp2 f false c a' b', inr PxUser, la ++ lb ++ [f]) end
                end
            end
        else (t, inl c, [])
    | NOp3 f d c a b e =>
        if d then
          if rtl then
            let '(e', re, le) := eval e in
            match re with
            | inr x => (NOp3 f false c a b e', inr x, le)
            | inl ve =>
                let '(b', rb, lb) := eval b in
                match rb with
                | inr x => (NOp3 f false c a b' e', inr x, le ++ lb)
                | inl vb =>
                    let '(a', ra, la) := eval a in
                    match ra with
                    | inr x => (NOp3 f false c a' b' e', inr x, le ++ lb ++ la)
                    | inl va => match fn f [va; vb; ve] with
                                | Some v => (NOp3 f false v a' b' e', inl v, le ++ lb ++ la ++ [f])
                                | None => (NOp3 f false c a' b' e', inr PxUser, le ++ lb ++ la ++ [f]) end
                    end
                end
            end
          else
            let '(a', ra, la) := eval a in
            match ra with
            | inr x => (NOp3 f false c a' b e, inr x, la)
            | inl va =>
                let '(b', rb, lb) := eval b in
                match rb with
                | inr x => (NOp3 f false c a' b' e, inr x, la ++ lb)
                | inl vb =>
                    let '(e', re, le) := eval e in
                    match re with
                    | inr x => (NOp3 f false c a' b' e', inr x, la ++ lb ++ le)
                    | inl ve => match fn f [va; vb; ve] with
                                | Some v => (NOp3 f false v a' b' e', inl v, la ++ lb ++ le ++ [f])
                                | None => (NOp3 f false c a' b' e', inr PxUser, la ++ lb ++ le ++ [f]) end
                    end
                end
            end
        else (t, inl c, [])
    end.

  (* PropertyNode::propertyMoved / propertyDestroyed for leaf `leaf` *)
  Fixpoint retarget (t : node) (leaf : nat) (f : option nat -> option nat) : node :=
    match t with
    | NConst _ => t
    | NProp tg d l hc hm hd => if Nat.eqb l leaf then NProp (f tg) d l hc hm hd else t
    | NOp1 g d c a => NOp1 g d c (retarget a leaf f)
    | NOp2 g d c a b => NOp2 g d c (retarget a leaf f) (retarget b leaf f)
    | NOp3 g d c a b e => NOp3 g d c (retarget a leaf f) (retarget b leaf f) (retarget e leaf f)
    end.
End Nodes.

(* all subscription handles held by the PropertyNodes of a tree (they are disconnected when the tree is destroyed) *)
Fixpoint node_handles (t : node) : list handle :=
  match t with
  | NConst _ => []
  | NProp _ _ _ hc hm hd => [hc; hm; hd]
  | NOp1 _ _ _ a => node_handles a
  | NOp2 _ _ _ a b => node_handles a ++ node_handles b
  | NOp3 _ _ _ a b c => node_handles a ++ node_handles b ++ node_handles c
  end.

Definition values (w : world) (p : nat) : option Z := option_map pr_value (lookup (w_props w) p).

Definition get_bind w b := match nth_error (w_binds w) b with Some x => if b_alive x then Some x else None | None => None end.
Definition put_bind w b x := set_binds w (upd (w_binds w) b x).
Definition bind_with_root (x : binding) (r : node) : binding :=
  {| b_root := r; b_evp := b_evp x; b_regid := b_regid x; b_target := b_target x; b_alive := b_alive x |}.
Definition bind_with_target (x : binding) (t : option nat) : binding :=
  {| b_root := b_root x; b_evp := b_evp x; b_regid := b_regid x; b_target := t; b_alive := b_alive x |}.

Fixpoint log_fns (l : list nat) (w : world) : world :=
  match l with [] => w | f :: r => log_fns r (log (EvFn f) w) end.

Section Exec.
  Variable fn : nat -> list Z -> option Z.
  Variable rtl : bool.

  (* building a tree (harness order: children left to right, then the operator node, whose constructor evaluates) *)
  Fixpoint build (w : world) (b : nat) (next : nat) (e : expr) : option (world * node * nat) + pexn :=
    match e with
    | EConst v => inl (Some (w, NConst v, next))
    | EProp p =>
        match subscribe w p KChanged (SNode b next) with
        | None => inr PxBad
        | Some (w1, hc) =>
            match subscribe w1 p KMoved (SNode b next) with
            | None => inr PxBad
            | Some (w2, hm) =>
                match subscribe w2 p KDestroyed (SNode b next) with
                | None => inr PxBad
                | Some (w3, hd) => inl (Some (w3, NProp (Some p) false next hc hm hd, S next))
                end
            end
        end
    | EOp1 f a =>
        match build w b next a with
        | inl (Some (w1, na, n1)) =>
            let '(t, r, l) := eval fn rtl (values w1) (NOp1 f true 0%Z na) in
            match r with inl _ => inl (Some (log_fns l w1, t, n1)) | inr _ => inr PxBad end
        | other => other
        end
    | EOp2 f a c =>
        match build w b next a with
        | inl (Some (w1, na, n1)) =>
            match build w1 b n1 c with
            | inl (Some (w2, nc, n2)) =>
                let '(t, r, l) := eval fn rtl (values w2) (NOp2 f true 0%Z na nc) in
                match r with inl _ => inl (Some (log_fns l w2, t, n2)) | inr _ => inr PxBad end
            | other => other
            end
        | other => other
        end
    | EOp3 f a c d =>
        match build w b next a with
        | inl (Some (w1, na, n1)) =>
            match build w1 b n1 c with
            | inl (Some (w2, nc, n2)) =>
                match build w2 b n2 d with
                | inl (Some (w3, nd, n3)) =>
                    let '(t, r, l) := eval fn rtl (values w3) (NOp3 f true 0%Z na nc nd) in
                    match r with inl _ => inl (Some (log_fns l w3, t, n3)) | inr _ => inr PxBad end
                | other => other
                end
            | other => other
            end
        | other => other
        end
    end.

  Fixpoint unsubscribe_all (w : world) (hs : list handle) : res :=
    match hs with
    | [] => ok w
    | h :: r => match unsubscribe w h with
                | (w1, None) => unsubscribe_all w1 r
                | (w1, Some e) => (w1, Some e)
                end
    end.

  (* ~Binding: leave the registry, destroy the nodes (their handles disconnect) *)
  Definition destroy_binding (w : world) (b : nat) : res :=
    match get_bind w b with
    | None => ok w
    | Some x =>
        let w1 := match nth_error (w_evps w) (b_evp x) with
                  | Some ep => set_evps w (upd (w_evps w) (b_evp x)
                                 {| ep_registry := filter (fun q => negb (Nat.eqb (fst q) (b_regid x))) (ep_registry ep); ep_next := ep_next ep |})
                  | None => w end in
        let w2 := put_bind w1 b {| b_root := b_root x; b_evp := b_evp x; b_regid := b_regid x; b_target := None; b_alive := false |} in
        unsubscribe_all w2 (node_handles (b_root x))
    end.

  Section Body.
    (* Property::setHelper of property p with value v, one unit of depth fuel less (nested notification) *)
    Variable rec_set : world -> nat -> Z -> res.

    (* Binding::evaluate *)
    Definition binding_evaluate (w : world) (b : nat) : res :=
      match get_bind w b with
      | None => throw w PxBad
      | Some x =>
          let '(t, r, l) := eval fn rtl (values w) (b_root x) in
          let w1 := log_fns l (put_bind w b (bind_with_root x t)) in
          match r with
          | inr e => throw w1 e
          | inl v => match b_target x with
                     | Some p => rec_set w1 p v
                     | None => ok w1      (* the default update function does nothing *)
                     end
          end
      end.

    (* one subscriber of signal k of property p is called *)
    Definition deliver (w : world) (p : nat) (k : sigkind) (payload : list Z) (s : subscriber) : res :=
      match s with
      | SObs label act =>
          let w1 := log (EvNotify label k payload (values w p)) w in
          match act, payload with
          | Some (false, q), v :: _ =>
              match lookup (w_props w1) q with
              | None => ok w1                                   (* the harness skips the write if q is gone *)
              | Some pr => match pr_updater pr with
                           | Some _ => throw w1 PxReadOnly
                           | None => rec_set w1 q v end
              end
          | Some (true, q), _ =>
              match lookup (w_props w1) q with
              | None => ok w1
              | Some pr =>
                  match pr_updater pr with
                  | None => ok w1
                  | Some b =>
                      match destroy_binding w1 b with
                      | (w2, Some e) => (w2, Some e)
                      | (w2, None) => match lookup (w_props w2) q with
                                      | Some pr2 => ok (set_props w2 (bind_key (w_props w2) q (prop_set_updater pr2 None)))
                                      | None => throw w2 PxBad end
                      end
                  end
              end
          | _, _ => ok w1
          end
      | SNode b leaf =>
          match get_bind w b with
          | None => throw w PxBad
          | Some x =>
              match k with
              | KChanged =>
                  match mark (b_root x) leaf with
                  | None => throw w PxBad
                  | Some (t, up) =>
                      let w1 := put_bind w b (bind_with_root x t) in
                      if up then (if Nat.eqb (b_evp x) 0 then binding_evaluate w1 b else ok w1) else ok w1
                  end
              | KDestroyed => ok (put_bind w b (bind_with_root x (retarget (b_root x) leaf (fun _ => None))))
              | KMoved =>
                  (* payload = the address the property now lives at *)
                  match payload with
                  | [a] => let na := Z.to_nat a in
                           ok (put_bind w b (bind_with_root x (retarget (b_root x) leaf
                                 (fun tg => match tg with Some q => if Nat.eqb q na then None else Some na | None => Some na end))))
                  | _ => throw w PxBad
                  end
              | KAbout => throw w PxBad
              end
          end
      end.

    (* the walk of Impl::emit over the positions captured before the loop *)
    Fixpoint walk (w : world) (t : nat) (p : nat) (k : sigkind) (payload : list Z) (idxs : list nat) : res :=
      match idxs with
      | [] => ok w
      | x :: r =>
          match get_table w t with
          | None => throw w PxBad
          | Some tb =>
              match nth_error (t_slots tb) x with
              | Some (Some (_, s)) =>
                  match deliver w p k payload s with
                  | (w1, None) => walk w1 t p k payload r
                  | (w1, Some e) => (w1, Some e)
                  end
              | _ => walk w t p k payload r
              end
          end
      end.

    (* Signal::emit on table t (the signal k of the property that currently lives at address p) *)
    Definition emit (w : world) (ot : option nat) (p : nat) (k : sigkind) (payload : list Z) : res :=
      match ot with
      | None => ok w
      | Some t =>
          match get_table w t with
          | None => throw w PxBad
          | Some tb =>
              if t_emitting tb then throw w PxEmitting else
              let w1 := put_table w t {| t_slots := t_slots tb; t_free := t_free tb; t_emitting := true; t_alive := t_alive tb |} in
              let '(w2, e) := walk w1 t p k payload (seq 0 (length (t_slots tb))) in
              match get_table w2 t with
              | Some tb2 => (put_table w2 t {| t_slots := t_slots tb2; t_free := t_free tb2; t_emitting := false; t_alive := t_alive tb2 |}, e)
              | None => (w2, e)
              end
          end
      end.
  End Body.

  (* Property::setHelper *)
  Fixpoint set_helper (fuel : nat) (w : world) (p : nat) (v : Z) : res :=
    match fuel with
    | O => throw w PxFuel
    | S f =>
        match lookup (w_props w) p with
        | None => throw w PxBad
        | Some pr =>
            if Z.eqb v (pr_value pr) then ok w else
            match emit (set_helper f) w (pr_about pr) p KAbout [pr_value pr; v] with
            | (w1, Some e) => (w1, Some e)
            | (w1, None) =>
                match lookup (w_props w1) p with
                | None => throw w1 PxBad
                | Some pr1 =>
                    let w2 := set_props w1 (bind_key (w_props w1) p (prop_set_value pr1 v)) in
                    emit (set_helper f) w2 (pr_changed pr1) p KChanged [v]
                end
            end
        end
    end.

  Definition no_set : world -> nat -> Z -> res := fun w _ _ => throw w PxFuel.

  (* a new Binding: register, build the tree, become its parent *)
  Definition make_binding (w : world) (e : expr) (m : mode) : (world * nat) + pexn :=
    let evp := match m with
               | MImmediate => Some 0
               | MEvaluator ev => lookup (w_bevs w) ev end in
    match evp with
    | None => inr PxBad
    | Some ep =>
        match nth_error (w_evps w) ep with
        | None => inr PxBad
        | Some st =>
            let b := length (w_binds w) in
            let rid := S (ep_next st) in
            match build w b 0 e with
            | inr x => inr x
            | inl None => inr PxBad
            | inl (Some (w1, root, _)) =>
                let w2 := set_evps w1 (upd (w_evps w1) ep {| ep_registry := ep_registry st ++ [(rid, b)]; ep_next := rid |}) in
                inl (set_binds w2 (w_binds w2 ++ [{| b_root := root; b_evp := ep; b_regid := rid; b_target := None; b_alive := true |}]), b)
            end
        end
    end.

  (* Property::operator=(std::unique_ptr<Updater>&&) *)
  Definition assign_binding (fuel : nat) (w : world) (p : nat) (b : nat) : res :=
    match lookup (w_props w) p with
    | None => throw w PxBad
    | Some pr =>
        (* m_updater = std::move(updater): the previous binding is destroyed *)
        match (match pr_updater pr with Some old => destroy_binding w old | None => ok w end) with
        | (w1, Some e) => (w1, Some e)
        | (w1, None) =>
            match lookup (w_props w1) p, get_bind w1 b with
            | Some pr1, Some x =>
                let w2 := set_props w1 (bind_key (w_props w1) p (prop_set_updater pr1 (Some b))) in
                let w3 := put_bind w2 b (bind_with_target x (Some p)) in
                (* setHelper(m_updater->get()) *)
                let '(t, r, l) := eval fn rtl (values w3) (b_root x) in
                let w4 := log_fns l (put_bind w3 b (bind_with_root (bind_with_target x (Some p)) t)) in
                match r with
                | inr e => throw w4 e
                | inl v => set_helper fuel w4 p v
                end
            | _, _ => throw w1 PxBad
            end
        end
    end.

  (* ~Property: emit destroyed, then the members die in reverse order: updater, signals *)
  Definition destroy_prop (fuel : nat) (w : world) (p : nat) : res :=
    match lookup (w_props w) p with
    | None => throw w PxBad
    | Some pr =>
        match emit (set_helper fuel) w (pr_destroyed pr) p KDestroyed [] with
        | (w1, Some e) => (w1, Some e)
        | (w1, None) =>
            match (match pr_updater pr with Some b => destroy_binding w1 b | None => ok w1 end) with
            | (w2, Some e) => (w2, Some e)
            | (w2, None) =>
                match kill_table w2 (pr_destroyed pr) with
                | (w3, Some e) => (w3, Some e)
                | (w3, None) =>
                    match kill_table w3 (pr_moved pr) with
                    | (w4, Some e) => (w4, Some e)
                    | (w4, None) =>
                        match kill_table w4 (pr_changed pr) with
                        | (w5, Some e) => (w5, Some e)
                        | (w5, None) =>
                            match kill_table w5 (pr_about pr) with
                            | (w6, Some e) => (w6, Some e)
                            | (w6, None) => ok (set_props w6 (remove_key (w_props w6) p))
                            end
                        end
                    end
                end
            end
        end
    end.

  (* the common part of move construction / assignment, after the members were moved:
     rewire the update function, m_moved.emit( *this ) on the destination's (old) signal, other.m_moved.emit( *this ), take over other.m_moved *)
  Definition finish_move (fuel : nat) (w : world) (dst src : nat) (dst_old_moved : option nat) : res :=
    match lookup (w_props w) dst, lookup (w_props w) src with
    | Some d, Some s =>
        let w1 := match pr_updater d with
                  | Some b => match get_bind w b with Some x => put_bind w b (bind_with_target x (Some dst)) | None => w end
                  | None => w end in
        match emit (set_helper fuel) w1 dst_old_moved dst KMoved [Z.of_nat dst] with
        | (w2, Some e) => (w2, Some e)
        | (w2, None) =>
            match emit (set_helper fuel) w2 (pr_moved s) dst KMoved [Z.of_nat dst] with
            | (w3, Some e) => (w3, Some e)
            | (w3, None) =>
                (* m_moved = std::move(other.m_moved): the destination's previous m_moved Impl is disconnected and dies *)
                match kill_table w3 dst_old_moved with
                | (w4, Some e) => (w4, Some e)
                | (w4, None) =>
                    match lookup (w_props w4) dst, lookup (w_props w4) src with
                    | Some d4, Some s4 =>
                        ok (set_props w4 (bind_key (bind_key (w_props w4) src (prop_set_sig s4 KMoved None)) dst (prop_set_sig d4 KMoved (pr_moved s4))))
                    | _, _ => throw w4 PxBad
                    end
                end
            end
        end
    | _, _ => throw w PxBad
    end.

  Definition moved_from (s : prop) : prop :=
    {| pr_value := pr_value s; pr_about := None; pr_changed := None; pr_destroyed := None; pr_moved := pr_moved s; pr_updater := None |}.

  Definition step1 (fuel : nat) (w : world) (o : op) : res :=
    match o with
    | PNew p v => match lookup (w_props w) p with
                  | Some _ => throw w PxBad
                  | None => ok (set_props w (bind_key (w_props w) p (prop_new v))) end
    | PDel p => destroy_prop fuel w p
    | PSet p v _ =>
        match lookup (w_props w) p with
        | None => throw w PxBad
        | Some pr => match pr_updater pr with
                     | Some _ => throw w PxReadOnly
                     | None => set_helper fuel w p v end
        end
    | PGet p => match lookup (w_props w) p with
                | None => throw w PxBad
                | Some pr => ok (log (EvVal (Some (pr_value pr))) w) end
    | PHasBinding p => match lookup (w_props w) p with
                       | None => throw w PxBad
                       | Some pr => ok (log (EvVal (Some (match pr_updater pr with Some _ => 1%Z | None => 0%Z end))) w) end
    | PAssignFrom p q =>
        match lookup (w_props w) p, lookup (w_props w) q with
        | Some pr, Some qr => match pr_updater pr with
                              | Some _ => throw w PxReadOnly
                              | None => set_helper fuel w p (pr_value qr) end
        | _, _ => throw w PxBad
        end
    | PObserve p k label h act =>
        (* the moved signal is private; observers of destroyed() that write or reset are not part of the model *)
        if (match k, act with KMoved, _ => true | KDestroyed, Some _ => true | _, _ => false end) then throw w PxBad else
        match subscribe w p k (SObs label act) with
        | None => throw w PxBad
        | Some (w1, hd) => ok (set_obs w1 (bind_key (w_obs w1) h hd))
        end
    | PUnobserve h => match lookup (w_obs w) h with
                      | None => throw w PxBad
                      | Some hd => unsubscribe w hd end
    | PBind p e m =>
        match make_binding w e m with
        | inr x => throw w x
        | inl (w1, b) =>
            match lookup (w_props w1) p with
            | Some _ => assign_binding fuel w1 p b
            | None => assign_binding fuel (set_props w1 (bind_key (w_props w1) p (prop_new 0%Z))) p b
            end
        end
    | PReset p =>
        match lookup (w_props w) p with
        | None => throw w PxBad
        | Some pr =>
            match pr_updater pr with
            | None => ok w
            | Some b =>
                match destroy_binding w b with
                | (w1, Some e) => (w1, Some e)
                | (w1, None) => match lookup (w_props w1) p with
                                | Some pr1 => ok (set_props w1 (bind_key (w_props w1) p (prop_set_updater pr1 None)))
                                | None => throw w1 PxBad end
                end
            end
        end
    | PMoveCtor src dst =>
        match lookup (w_props w) src, lookup (w_props w) dst with
        | Some s, None =>
            let d := {| pr_value := pr_value s; pr_about := pr_about s; pr_changed := pr_changed s;
                        pr_destroyed := pr_destroyed s; pr_moved := None; pr_updater := pr_updater s |} in
            let w1 := set_props w (bind_key (bind_key (w_props w) src (moved_from s)) dst d) in
            finish_move fuel w1 dst src None
        | _, _ => throw w PxBad
        end
    | PMoveAssign dst src =>
        match lookup (w_props w) src, lookup (w_props w) dst with
        | Some s, Some d =>
            if Nat.eqb src dst then throw w PxBad else
            (* member-wise move assignment: each overwritten signal disconnects all; the old updater is destroyed *)
            match kill_table w (pr_about d) with
            | (w1, Some e) => (w1, Some e)
            | (w1, None) =>
                match kill_table w1 (pr_changed d) with
                | (w2, Some e) => (w2, Some e)
                | (w2, None) =>
                    match kill_table w2 (pr_destroyed d) with
                    | (w3, Some e) => (w3, Some e)
                    | (w3, None) =>
                        match (match pr_updater d with Some b => destroy_binding w3 b | None => ok w3 end) with
                        | (w4, Some e) => (w4, Some e)
                        | (w4, None) =>
                            let d' := {| pr_value := pr_value s; pr_about := pr_about s; pr_changed := pr_changed s;
                                         pr_destroyed := pr_destroyed s; pr_moved := pr_moved d; pr_updater := pr_updater s |} in
                            let w5 := set_props w4 (bind_key (bind_key (w_props w4) src (moved_from s)) dst d') in
                            finish_move fuel w5 dst src (pr_moved d)
                        end
                    end
                end
            end
        | _, _ => throw w PxBad
        end
    | BevNew e =>
        match lookup (w_bevs w) e with
        | Some _ => throw w PxBad
        | None => let id := length (w_evps w) in
                  ok (set_bevs (set_evps w (w_evps w ++ [{| ep_registry := []; ep_next := 0 |}])) (bind_key (w_bevs w) e id))
        end
    | BevCopy src dst =>
        match lookup (w_bevs w) src, lookup (w_bevs w) dst with
        | Some id, None => ok (set_bevs w (bind_key (w_bevs w) dst id))
        | _, _ => throw w PxBad
        end
    | BevDel e =>
        match lookup (w_bevs w) e with
        | Some _ => ok (set_bevs w (remove_key (w_bevs w) e))
        | None => throw w PxBad
        end
    | BevEvalAll e =>
        match lookup (w_bevs w) e with
        | None => throw w PxBad
        | Some id =>
            match nth_error (w_evps w) id with
            | None => throw w PxBad
            | Some st =>
                (* iterate the map: ids ascending; a binding removed meanwhile is skipped (std::map iteration) *)
                (fix go (l : list (nat * nat)) (w : world) : res :=
                   match l with
                   | [] => ok w
                   | (rid, b) :: r =>
                       let still := match nth_error (w_evps w) id with
                                    | Some st' => existsb (fun q => Nat.eqb (fst q) rid) (ep_registry st')
                                    | None => false end in
                       if still then
                         match binding_evaluate (set_helper fuel) w b with
                         | (w1, None) => go r w1
                         | (w1, Some x) => (w1, Some x)
                         end
                       else go r w
                   end) (ep_registry st) w
            end
        end
    | BHold b e m =>
        match lookup (w_held w) b with
        | Some _ => throw w PxBad
        | None => match make_binding w e m with
                  | inr x => throw w x
                  | inl (w1, id) => ok (set_held w1 (bind_key (w_held w1) b id))
                  end
        end
    | BHoldDel b =>
        match lookup (w_held w) b with
        | None => throw w PxBad
        | Some id => match destroy_binding w id with
                     | (w1, None) => ok (set_held w1 (remove_key (w_held w1) b))
                     | (w1, Some e) => (w1, Some e) end
        end
    end.

  Definition step (fuel : nat) (w : world) (o : op) : world :=
    let '(w', r) := step1 fuel w o in log (EvDone r) w'.

  Definition run (fuel : nat) (ops : list op) : world := fold_left (step fuel) ops world0.
End Exec.
