(* Which histories are INSIDE the quantifier of the growth theorems: executable classifiers with soundness proofs.  The model driver
   evaluates them on every generated script, so that the evidence of a check says how many of the histories that were run against the
   library lie in the fragment for which the property is a theorem (the others are covered by the extracted oracles and the
   correspondence only). *)
From Coq Require Import List Arith ZArith Lia Bool.
Import ListNotations.
From KDB Require Import Util UtilProofs PropDefs PropLink PropSim PropGrow PropGrowMore PropMove PropSimAct PropGrowAct PropSimAct2 PropGrowAct2 PropMixedLazy PropMixedPass.
From KDB Require PropCheck PropAbs.

Section Frag.
  Variable fn : nat -> list Z -> option Z.
  Variable rtl : bool.

  Definition is_none {X} (o : option X) : bool := match o with None => true | Some _ => false end.
  Definition lookup_none {X} (m : nmap X) (k : nat) : bool := is_none (lookup m k).

  (* ---- C02 ---- *)
  Definition grow3_opb (w : world) (o : op) : bool :=
    match o with
    | PMoveCtor _ _ => true
    | PMoveAssign dst _ => PropGrowMore.no_reader_b w dst
    | PNew _ _ | PSet _ _ _ | PGet _ | PHasBinding _ | PReset _ => true
    | PObserve _ _ _ _ None => true
    | PBind _ _ MImmediate => true
    | PDel p => PropGrowMore.no_reader_b w p
    | _ => false
    end.
  Lemma grow3_opb_sound w o : grow3_opb w o = true -> PropMove.grow_op3 w o.
  Proof. destruct o; cbn; try discriminate; try (intros; exact I); try (intros H; exact H).
    - destruct act; [discriminate|intros; exact I].
    - destruct m; [intros; exact I|discriminate].
  Qed.

  Definition act_opb (o : op) : bool :=
    match o with
    | PSet _ _ _ | PGet _ | PHasBinding _ | PAssignFrom _ _ => true
    | PObserve _ _ _ _ None => true
    | PObserve _ KChanged _ _ (Some (false, _)) => true
    | _ => false
    end.
  Lemma act_opb_sound o : act_opb o = true -> PropGrowAct.act_op o.
  Proof. destruct o; cbn; try discriminate; try (intros; exact I). destruct act as [[[|] tgt]|]; destruct k; cbn; try discriminate; intros; exact I. Qed.

  (* the second phase may also attach observers of valueAboutToChange of unbound properties that write *)
  Definition act2_synb (o : op) : bool :=
    match o with PObserve _ KAbout _ _ (Some (false, _)) => true | _ => act_opb o end.
  Definition act2_opb (w : world) (o : op) : bool :=
    match o with PObserve p KAbout _ _ (Some (false, _)) => PropGrowAct2.unbound_b w p | _ => act_opb o end.
  Lemma act2_opb_sound w o : act2_opb w o = true -> PropGrowAct2.act2_op w o.
  Proof.
    destruct o; cbn [act2_opb PropGrowAct2.act2_op]; try (apply act_opb_sound).
    destruct k; try (apply act_opb_sound). destruct act as [[[|] tgt]|]; try (apply act_opb_sound). intros H; exact H.
  Qed.

  Definition grow_act_opb (w : world) (o : op) : bool :=
    match o with
    | PNew _ _ => true
    | PBind p _ MImmediate => lookup_none (w_props w) p || (PropGrowAct2.unbound_b w p && PropGrowAct2.nab_b w p) || PropGrowAct2.bound_b w p
    | PReset _ => true
    | PMoveCtor _ _ => true
    | PDel p => PropGrowMore.no_reader_b w p
    | PMoveAssign dst _ => PropGrowMore.no_reader_b w dst
    | _ => act2_opb w o
    end.
  Lemma grow_act_opb_sound w o : grow_act_opb w o = true -> PropGrowAct2.grow_act2_op w o.
  Proof.
    destruct o; cbn [grow_act_opb PropGrowAct2.grow_act2_op]; try (apply act2_opb_sound); try (intros; exact I); try (intros H; exact H).
    destruct m; [|apply act2_opb_sound]. intros H. apply orb_true_iff in H. destruct H as [H|H]; [apply orb_true_iff in H; destruct H as [H|H]|].
    - left. unfold lookup_none in H. destruct (lookup (w_props w) p); [discriminate|reflexivity].
    - right. left. apply andb_true_iff in H. exact H.
    - right. right. exact H.
  Qed.

  Section Runs.
    Variable fuel : nat.
    Variable opb : world -> op -> bool.
    Fixpoint run_okb (w : world) (ops : list op) : bool :=
      match ops with
      | [] => true
      | o :: r => opb w o && is_none (snd (step1 fn rtl fuel w o)) && run_okb (step fn rtl fuel w o) r
      end.
  End Runs.

  Lemma grow3_okb_sound fuel : forall ops w, run_okb fuel grow3_opb w ops = true -> PropMove.grow3_run_ok fn rtl fuel w ops.
  Proof.
    induction ops as [|o r IH]; intros w H; cbn [run_okb PropMove.grow3_run_ok] in *; [exact I|].
    apply andb_true_iff in H. destruct H as [H H3]. apply andb_true_iff in H. destruct H as [H1 H2].
    split; [apply grow3_opb_sound; exact H1|]. split; [destruct (snd (step1 fn rtl fuel w o)); [discriminate H2|reflexivity]|apply IH; exact H3].
  Qed.
  Lemma act_okb_sound fuel : forall ops w, run_okb fuel (fun _ => act_opb) w ops = true -> PropGrowAct.act_run_ok fn rtl fuel w ops.
  Proof.
    induction ops as [|o r IH]; intros w H; cbn [run_okb PropGrowAct.act_run_ok] in *; [exact I|].
    apply andb_true_iff in H. destruct H as [H H3]. apply andb_true_iff in H. destruct H as [H1 H2].
    split; [apply act_opb_sound; exact H1|]. split; [destruct (snd (step1 fn rtl fuel w o)); [discriminate H2|reflexivity]|apply IH; exact H3].
  Qed.
  Lemma act2_okb_sound fuel : forall ops w, run_okb fuel act2_opb w ops = true -> PropGrowAct2.act2_run_ok fn rtl fuel w ops.
  Proof.
    induction ops as [|o r IH]; intros w H; cbn [run_okb PropGrowAct2.act2_run_ok] in *; [exact I|].
    apply andb_true_iff in H. destruct H as [H H3]. apply andb_true_iff in H. destruct H as [H1 H2].
    split; [apply act2_opb_sound; exact H1|]. split; [destruct (snd (step1 fn rtl fuel w o)); [discriminate H2|reflexivity]|apply IH; exact H3].
  Qed.
  Lemma grow_act_okb_sound fuel : forall ops w, run_okb fuel grow_act_opb w ops = true -> PropGrowAct2.grow_act2_run_ok fn rtl fuel w ops.
  Proof.
    induction ops as [|o r IH]; intros w H; cbn [run_okb PropGrowAct2.grow_act2_run_ok] in *; [exact I|].
    apply andb_true_iff in H. destruct H as [H H3]. apply andb_true_iff in H. destruct H as [H1 H2].
    split; [apply grow_act_opb_sound; exact H1|]. split; [destruct (snd (step1 fn rtl fuel w o)); [discriminate H2|reflexivity]|apply IH; exact H3].
  Qed.

  (* the history is a growing network (with moves, rebinding, reset, destruction) for its first k operations and then only attaches
     observers (also writing ones, of valueChanged or - on unbound properties - of valueAboutToChange) and assigns - or it is a network growing in any order with writing observers *)
  Definition in_c02_fragment (fuel k : nat) (ops : list op) : bool :=
    run_okb fuel grow_act_opb world0 ops ||
    (run_okb fuel grow3_opb world0 (firstn k ops) && run_okb fuel act2_opb (run fn rtl fuel (firstn k ops)) (skipn k ops)).

  Theorem in_c02_fragment_sound fuel k ops q x pr z :
    in_c02_fragment fuel k ops = true ->
    let w := run fn rtl fuel ops in
    PropSim.imm_of w q = Some x -> lookup (w_props w) q = Some pr ->
    PropCheck.den_node fn (values w) (b_root x) = Some z -> pr_value pr = z.
  Proof.
    intros H w Hi Hq Hd. apply orb_true_iff in H. destruct H as [H|H].
    - exact (PropGrowAct2.grow_act2_reachable_consistent fn rtl fuel ops q x pr z (grow_act_okb_sound fuel ops world0 H) Hi Hq Hd).
    - apply andb_true_iff in H. destruct H as [H1 H2].
      pose proof (PropGrowAct2.network_then_observers_of_both_kinds_consistent fn rtl fuel (firstn k ops) (skipn k ops) q x pr z
                    (grow3_okb_sound fuel _ _ H1) (act2_okb_sound fuel _ _ H2)) as T.
      rewrite firstn_skipn in T. exact (T Hi Hq Hd).
  Qed.

  (* ---- C06: growing mixed networks ---- *)
  Definition mixed_opb (w : world) (o : op) : bool :=
    match o with
    | PNew _ _ | PSet _ _ _ | PGet _ | PHasBinding _ | BevNew _ | BevCopy _ _ | BevDel _ | PReset _ | PAssignFrom _ _ | PUnobserve _ | PMoveCtor _ _ => true
    | PObserve _ _ _ _ None => true
    | PBind p _ m => lookup_none (w_props w) p &&
                     match m with MImmediate => true | MEvaluator e0 => match lookup (w_bevs w) e0 with Some id => negb (Nat.eqb id 0) | None => false end end
    | BevEvalAll e0 => match lookup (w_bevs w) e0 with Some id => negb (Nat.eqb id 0) | None => false end
    | PDel p => PropGrowMore.no_reader_b w p
    | PMoveAssign dst _ => PropGrowMore.no_reader_b w dst
    | _ => false
    end.
  Lemma mixed_opb_sound w o : mixed_opb w o = true -> PropMixedLazy.grow_op5 w o.
  Proof.
    destruct o; cbn [mixed_opb PropMixedLazy.grow_op5]; try discriminate; try (intros; exact I); try (intros H; exact H).
    - destruct act; [discriminate|intros; exact I].
    - intros H. apply andb_true_iff in H. destruct H as [H1 H2]. split; [unfold lookup_none in H1; destruct (lookup (w_props w) p); [discriminate|reflexivity]|].
      destruct m; [exact I|]. destruct (lookup (w_bevs w) e0) as [id|]; [|discriminate H2]. exists id. split; [reflexivity|].
      destruct (Nat.eqb_spec id 0); [discriminate H2|assumption].
    - intros H. destruct (lookup (w_bevs w) e) as [id|]; [|discriminate H]. exists id. split; [reflexivity|]. destruct (Nat.eqb_spec id 0); [discriminate H|assumption].
  Qed.
  Lemma mixed_okb_sound fuel : forall ops w, run_okb fuel mixed_opb w ops = true -> PropMixedLazy.run5_ok fn rtl fuel w ops.
  Proof.
    induction ops as [|o r IH]; intros w H; cbn [run_okb PropMixedLazy.run5_ok] in *; [exact I|].
    apply andb_true_iff in H. destruct H as [H H3]. apply andb_true_iff in H. destruct H as [H1 H2].
    split; [apply mixed_opb_sound; exact H1|]. split; [destruct (snd (step1 fn rtl fuel w o)); [discriminate H2|reflexivity]|apply IH; exact H3].
  Qed.
  Definition in_c06_fragment (fuel : nat) (ops : list op) : bool := run_okb fuel mixed_opb world0 ops.

  (* after a history the classifier accepts, ONE evaluateAll brings every property bound through the asked evaluator up to date *)
  Theorem in_c06_fragment_sound fuel ops e id st w' :
    in_c06_fragment fuel ops = true ->
    let w := run fn rtl fuel ops in
    lookup (w_bevs w) e = Some id -> id <> 0 -> nth_error (w_evps w) id = Some st ->
    step1 fn rtl fuel w (BevEvalAll e) = (w', None) ->
    forall rid b, In (rid, b) (ep_registry st) ->
      exists x T q, get_bind w' b = Some x /\ PropSim.abs_tree (b_root x) = Some T /\ b_target x = Some q /\ PropAbs.clean T /\
                    PropMixedLazy.envof w' q = PropAbs.den (PropSim.F1 fn) (PropSim.F2 fn) (PropSim.F3 fn) (PropMixedLazy.envof w') T.
  Proof.
    intros H w He Hid Hst Hs. exact (proj2 (PropMixedPass.mixed_reachable_one_pass fn rtl fuel ops e id st w' (mixed_okb_sound fuel ops world0 H) He Hid Hst Hs)).
  Qed.
End Frag.
