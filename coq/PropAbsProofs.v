From Coq Require Import List Arith ZArith Lia Bool.
From KDB Require Import PropAbs.

Import ListNotations.

Section Proofs.
Variable F1 : nat -> Z -> Z.
Variable F2 : nat -> Z -> Z -> Z.
Variable F3 : nat -> Z -> Z -> Z -> Z.
Variable order : nat -> list (nat * nat).

Notation den := (den F1 F2 F3).
Notation eval := (eval F1 F2 F3).
Notation consis := (consis F1 F2 F3).
Notation deliver := (deliver F1 F2 F3).
Notation notify := (notify F1 F2 F3 order).

(* ---------- tree level ---------- *)
Lemma mark_leaves t lid : leaves (fst (mark t lid)) = leaves t.
Proof.
  induction t as [z|p i d|f d c k IH|f d c k1 IH1 k2 IH2|f d c k1 IH1 k2 IH2 k3 IH3]; cbn; auto.
  - destruct (Nat.eqb i lid), d; reflexivity.
  - destruct (mark k lid) as [k' up]; cbn in *. destruct up, d; cbn; auto.
  - destruct (mark k1 lid) as [k1' up1], (mark k2 lid) as [k2' up2]; cbn in *.
    destruct (up1 || up2), d; cbn; congruence.
  - destruct (mark k1 lid) as [k1' up1], (mark k2 lid) as [k2' up2], (mark k3 lid) as [k3' up3]; cbn in *.
    destruct (up1 || up2 || up3), d; cbn; congruence.
Qed.

Lemma eval_clean e t : clean t -> eval e t = (t, val e t).
Proof.
  destruct t as [z|p i d|f d c k|f d c k1 k2|f d c k1 k2 k3]; cbn; auto.
  - intros ->; reflexivity.
  - intros (-> & _); reflexivity.
  - intros (-> & _); reflexivity.
  - intros (-> & _); reflexivity.
Qed.

Lemma den_ext e e' t : (forall p lid, In (p, lid) (leaves t) -> e' p = e p) -> den e' t = den e t.
Proof.
  induction t as [z|p i d|f d c k IH|f d c k1 IH1 k2 IH2|f d c k1 IH1 k2 IH2 k3 IH3]; cbn; intros H; auto.
  - apply (H p i); left; reflexivity.
  - rewrite IH; auto.
  - rewrite IH1, IH2; auto; intros; apply (H p lid); apply in_or_app; auto.
  - rewrite IH1, IH2, IH3; auto; intros; apply (H p lid); apply in_or_app; auto; right; apply in_or_app; auto.
Qed.

Lemma nopend_mono P P' q t : (forall x, In x P' -> In x P) -> nopend P q t -> nopend P' q t.
Proof. unfold nopend; intros H N p lid Hin Hp. apply (N p lid Hin). auto. Qed.

Lemma cons_mono e P P' q t : (forall x, In x P -> In x P') -> consis e P q t -> consis e P' q t.
Proof.
  intros HP. induction t as [z|p i d|f d c k IH|f d c k1 IH1 k2 IH2|f d c k1 IH1 k2 IH2 k3 IH3]; cbn; auto.
  - intros (Hk & Hc); split; auto. intros N; apply Hc. eapply nopend_mono; eauto.
  - intros (H1 & H2 & Hc); repeat split; auto. intros N; apply Hc. eapply nopend_mono; eauto.
  - intros (H1 & H2 & H3 & Hc); repeat split; auto. intros N; apply Hc. eapply nopend_mono; eauto.
Qed.

(* dropping a pending entry that is not a leaf of this tree (other binding, or lid absent) *)
Lemma cons_drop e P q q' lid t :
  (q' = q -> ~ In lid (map snd (leaves t))) -> consis e ((q', lid) :: P) q t -> consis e P q t.
Proof.
  intros Hn. induction t as [z|p i d|f d c k IH|f d c k1 IH1 k2 IH2|f d c k1 IH1 k2 IH2 k3 IH3]; cbn in *; auto.
  - intros (Hk & Hc); split; auto. intros N; apply Hc.
    intros p i Hin [Heq|Hp]; [|exact (N p i Hin Hp)].
    assert (Hi : lid = i) by congruence; subst i. apply Hn; [congruence|]. apply in_map_iff. exists (p, lid); auto.
  - intros (H1 & H2 & Hc); repeat split.
    + apply IH1; auto. intros Hq Hin. apply Hn; auto. rewrite map_app; apply in_or_app; auto.
    + apply IH2; auto. intros Hq Hin. apply Hn; auto. rewrite map_app; apply in_or_app; auto.
    + intros N; apply Hc.
      intros p i Hin [Heq|Hp]; [|exact (N p i Hin Hp)].
      assert (Hi : lid = i) by congruence; subst i. apply Hn; [congruence|]. apply in_map_iff. exists (p, lid); auto.
  - intros (H1 & H2 & H3 & Hc); repeat split.
    + apply IH1; auto. intros Hq Hin. apply Hn; auto. rewrite !map_app; apply in_or_app; auto.
    + apply IH2; auto. intros Hq Hin. apply Hn; auto. rewrite !map_app; apply in_or_app; right; apply in_or_app; auto.
    + apply IH3; auto. intros Hq Hin. apply Hn; auto. rewrite !map_app; apply in_or_app; right; apply in_or_app; auto.
    + intros N; apply Hc.
      intros p i Hin [Heq|Hp]; [|exact (N p i Hin Hp)].
      assert (Hi : lid = i) by congruence; subst i. apply Hn; [congruence|]. apply in_map_iff. exists (p, lid); auto.
Qed.

Lemma nopend_sub3 P q f d c k1 k2 k3 :
  nopend P q (Tern f d c k1 k2 k3) -> nopend P q k1 /\ nopend P q k2 /\ nopend P q k3.
Proof.
  unfold nopend; cbn; intros N; repeat split; intros p lid Hin; apply (N p lid); apply in_or_app; auto; right; apply in_or_app; auto.
Qed.

Lemma nopend_sub P q f d c k1 k2 :
  nopend P q (Bin f d c k1 k2) -> nopend P q k1 /\ nopend P q k2.
Proof. unfold nopend; cbn; intros N; split; intros p lid Hin; apply (N p lid); apply in_or_app; auto. Qed.

Lemma val_den e P q t : clean t -> consis e P q t -> nopend P q t -> val e t = den e t.
Proof. destruct t; cbn; auto; intros _ H N; apply H; exact N. Qed.

(* markDirty from leaf lid followed by evaluate, on a clean tree that is consistent up to (q,lid)::P *)
Lemma mark_eval e P q lid t :
  clean t -> consis e ((q, lid) :: P) q t ->
  let '(t1, up) := mark t lid in
  let '(t2, v) := eval e t1 in
  clean t2 /\ leaves t2 = leaves t /\ consis e P q t2 /\ v = val e t2 /\
  (up = false -> t1 = t /\ ~ In lid (map snd (leaves t))).
Proof.
  induction t as [z|p i d|f d c k IH|f d c k1 IH1 k2 IH2|f d c k1 IH1 k2 IH2 k3 IH3]; cbn [mark].
  - cbn; intros _ _; repeat split; auto.
  - cbn [clean]; intros -> _. destruct (Nat.eqb_spec i lid) as [->|Hne]; cbn.
    + repeat split; auto; congruence.
    + repeat split; auto. intros [Hx|[]]; auto.
  - cbn [clean PropAbs.consis]; intros (-> & Hk) (Ck & Cc).
    specialize (IH Hk Ck). destruct (mark k lid) as [k' up].
    destruct up.
    + cbn [eval]. destruct (eval e k') as [k'' v]. destruct IH as (Cl & Lv & Cn & Vv & _).
      cbn; repeat split; auto; try congruence.
      intros N. f_equal. rewrite Vv. eapply val_den; eauto.
    + destruct (eval e k') as [k'' v] eqn:Ev. destruct IH as (Cl & Lv & Cn & Vv & Hf).
      destruct (Hf eq_refl) as (-> & Hni).
      rewrite (eval_clean e k Hk) in Ev; inversion Ev; subst k'' v.
      cbn [eval]. cbn; repeat split; auto.
      intros N. apply Cc. intros p i Hin [Heq|Hp]; [assert (Hi : lid = i) by congruence; subst i; apply Hni; apply in_map_iff; exists (p, lid); auto|exact (N p i Hin Hp)].
  - cbn [clean PropAbs.consis]; intros (-> & Hk1 & Hk2) (C1 & C2 & Cc).
    specialize (IH1 Hk1 C1). specialize (IH2 Hk2 C2).
    destruct (mark k1 lid) as [k1' up1], (mark k2 lid) as [k2' up2].
    destruct (eval e k1') as [k1'' v1] eqn:E1, (eval e k2') as [k2'' v2] eqn:E2.
    destruct IH1 as (Cl1 & Lv1 & Cn1 & Vv1 & Hf1), IH2 as (Cl2 & Lv2 & Cn2 & Vv2 & Hf2).
    destruct (up1 || up2) eqn:Hup.
    + cbn [eval]. rewrite E1, E2. cbn; repeat split; auto; try congruence.
      intros N. apply nopend_sub in N as (N1 & N2). f_equal.
      * rewrite Vv1; eapply val_den; eauto.
      * rewrite Vv2; eapply val_den; eauto.
    + apply orb_false_elim in Hup as (-> & ->).
      destruct (Hf1 eq_refl) as (-> & Hn1), (Hf2 eq_refl) as (-> & Hn2).
      cbn [eval]. cbn; repeat split; auto.
      * rewrite (eval_clean e k1 Hk1) in E1; inversion E1; subst. exact Cn1.
      * rewrite (eval_clean e k2 Hk2) in E2; inversion E2; subst. exact Cn2.
      * intros N. apply Cc. intros p i Hin [Heq|Hp]; [|exact (N p i Hin Hp)].
        assert (Hi : lid = i) by congruence; subst i. apply in_app_or in Hin as [Hin|Hin]; [apply Hn1|apply Hn2]; apply in_map_iff; exists (p, lid); auto.
      * rewrite map_app. intros Hin; apply in_app_or in Hin as [Hin|Hin]; auto.
  - cbn [clean PropAbs.consis]; intros (-> & Hk1 & Hk2 & Hk3) (C1 & C2 & C3 & Cc).
    specialize (IH1 Hk1 C1). specialize (IH2 Hk2 C2). specialize (IH3 Hk3 C3).
    destruct (mark k1 lid) as [k1' up1], (mark k2 lid) as [k2' up2], (mark k3 lid) as [k3' up3].
    destruct (eval e k1') as [k1'' v1] eqn:E1, (eval e k2') as [k2'' v2] eqn:E2, (eval e k3') as [k3'' v3] eqn:E3.
    destruct IH1 as (Cl1 & Lv1 & Cn1 & Vv1 & Hf1), IH2 as (Cl2 & Lv2 & Cn2 & Vv2 & Hf2), IH3 as (Cl3 & Lv3 & Cn3 & Vv3 & Hf3).
    destruct (up1 || up2 || up3) eqn:Hup.
    + cbn [eval]. rewrite E1, E2, E3. cbn; repeat split; auto; try congruence.
      intros N. apply nopend_sub3 in N as (N1 & N2 & N3). f_equal.
      * rewrite Vv1; eapply val_den; eauto.
      * rewrite Vv2; eapply val_den; eauto.
      * rewrite Vv3; eapply val_den; eauto.
    + apply orb_false_elim in Hup as (Hup & ->). apply orb_false_elim in Hup as (-> & ->).
      destruct (Hf1 eq_refl) as (-> & Hn1), (Hf2 eq_refl) as (-> & Hn2), (Hf3 eq_refl) as (-> & Hn3).
      cbn [eval]. cbn; repeat split; auto.
      * rewrite (eval_clean e k1 Hk1) in E1; inversion E1; subst. exact Cn1.
      * rewrite (eval_clean e k2 Hk2) in E2; inversion E2; subst. exact Cn2.
      * rewrite (eval_clean e k3 Hk3) in E3; inversion E3; subst. exact Cn3.
      * intros N. apply Cc. intros p i Hin [Heq|Hp]; [|exact (N p i Hin Hp)].
        assert (Hi : lid = i) by congruence; subst i. apply in_app_or in Hin as [Hin|Hin]; [apply Hn1|apply in_app_or in Hin as [Hin|Hin]; [apply Hn2|apply Hn3]]; apply in_map_iff; exists (p, lid); auto.
      * rewrite !map_app. intros Hin; apply in_app_or in Hin as [Hin|Hin]; auto. apply in_app_or in Hin as [Hin|Hin]; auto.
Qed.

(* the environment changes at r; every leaf labelled r is (now) pending *)
Lemma cons_env_change e P q t r v :
  (forall p lid, In (p, lid) (leaves t) -> p = r -> In (q, lid) P) ->
  consis e P q t -> consis (set_env e r v) P q t.
Proof.
  induction t as [z|p i d|f d c k IH|f d c k1 IH1 k2 IH2|f d c k1 IH1 k2 IH2 k3 IH3]; cbn [PropAbs.consis leaves]; auto.
  - intros HL (Ck & Cc); split; auto. intros N.
    assert (Hd : den (set_env e r v) (Un f d c k) = den e (Un f d c k)).
    { apply den_ext. intros p i Hin. unfold set_env. destruct (Nat.eqb_spec p r) as [->|]; auto.
      exfalso. apply (N r i Hin). apply (HL r i Hin eq_refl). }
    rewrite Hd. apply Cc; exact N.
  - intros HL (C1 & C2 & Cc); repeat split.
    + apply IH1; auto. intros; apply (HL p lid); auto. apply in_or_app; auto.
    + apply IH2; auto. intros; apply (HL p lid); auto. apply in_or_app; auto.
    + intros N.
      assert (Hd : den (set_env e r v) (Bin f d c k1 k2) = den e (Bin f d c k1 k2)).
      { apply den_ext. intros p i Hin. unfold set_env. destruct (Nat.eqb_spec p r) as [->|]; auto.
        exfalso. apply (N r i Hin). apply (HL r i Hin eq_refl). }
      rewrite Hd. apply Cc; exact N.
  - intros HL (C1 & C2 & C3 & Cc); repeat split.
    + apply IH1; auto. intros; apply (HL p lid); auto. apply in_or_app; auto.
    + apply IH2; auto. intros; apply (HL p lid); auto. apply in_or_app; right; apply in_or_app; auto.
    + apply IH3; auto. intros; apply (HL p lid); auto. apply in_or_app; right; apply in_or_app; auto.
    + intros N.
      assert (Hd : den (set_env e r v) (Tern f d c k1 k2 k3) = den e (Tern f d c k1 k2 k3)).
      { apply den_ext. intros p i Hin. unfold set_env. destruct (Nat.eqb_spec p r) as [->|]; auto.
        exfalso. apply (N r i Hin). apply (HL r i Hin eq_refl). }
      rewrite Hd. apply Cc; exact N.
Qed.

(* ---------- global invariant ---------- *)
Definition Inv (s : state) (P : list (nat * nat)) : Prop :=
  forall q t, tr s q = Some t ->
    clean t /\ consis (env s) P q t /\ (nopend P q t -> env s q = den (env s) t) /\
    (forall p lid, In (p, lid) (leaves t) -> In (q, lid) (order p)).

Definition rec_ok (R : state -> nat -> state) : Prop :=
  (forall s r, oof s = true -> oof (R s r) = true) /\
  (forall s r P, Inv s (order r ++ P) -> oof (R s r) = false -> Inv (R s r) P).

(* everything but the bound value of r itself, which is about to be overwritten *)
Definition PreInv (s : state) (P : list (nat * nat)) (r : nat) : Prop :=
  forall q t, tr s q = Some t ->
    clean t /\ consis (env s) P q t /\ (q <> r -> nopend P q t -> env s q = den (env s) t) /\
    (forall p lid, In (p, lid) (leaves t) -> In (q, lid) (order p)).

Lemma Inv_env_change s P r v :
  PreInv s P r ->
  (forall t, tr s r = Some t -> nopend P r t -> v = den (env s) t) ->
  Inv {| env := set_env (env s) r v; tr := tr s; oof := false |} (order r ++ P).
Proof.
  intros HI Hv q t Ht. cbn in *. destruct (HI q t Ht) as (Cl & Cn & Cv & Co).
  assert (HL : forall p lid, In (p, lid) (leaves t) -> p = r -> In (q, lid) (order r ++ P)).
  { intros p lid Hin ->. apply in_or_app; left. apply Co; exact Hin. }
  repeat split; auto.
  - apply cons_env_change; auto. eapply cons_mono; [|exact Cn]. intros x Hx; apply in_or_app; auto.
  - intros N.
    assert (NP : nopend P q t) by (eapply nopend_mono; [|exact N]; intros x Hx; apply in_or_app; auto).
    assert (Hden : den (set_env (env s) r v) t = den (env s) t).
    { apply den_ext. intros p i Hin. unfold set_env. destruct (Nat.eqb_spec p r) as [->|]; auto.
      exfalso. apply (N r i Hin). apply (HL r i Hin eq_refl). }
    rewrite Hden. unfold set_env. destruct (Nat.eqb_spec q r) as [->|Hne].
    + apply Hv; auto.
    + apply Cv; auto.
Qed.

Section Step.
  Variable R : state -> nat -> state.
  Hypothesis HR : rec_ok R.

  Lemma deliver_oof s x : oof s = true -> deliver R s x = s.
  Proof. intros H; unfold PropAbs.deliver; rewrite H; reflexivity. Qed.

  Lemma deliver_ok s q lid P :
    Inv s ((q, lid) :: P) -> oof (deliver R s (q, lid)) = false -> Inv (deliver R s (q, lid)) P.
  Proof.
    intros HI. unfold PropAbs.deliver. destruct (oof s) eqn:Ho; [congruence|].
    assert (Hother : forall q' t', (q' = q -> tr s q = None) -> tr s q' = Some t' ->
              clean t' /\ consis (env s) P q' t' /\ (nopend P q' t' -> env s q' = den (env s) t') /\
              (forall p i, In (p, i) (leaves t') -> In (q', i) (order p))).
    { intros q' t' Hne Ht'. destruct (HI q' t' Ht') as (Cl' & Cn' & Cv' & Co'). repeat split; auto.
      - eapply cons_drop; [|exact Cn']. intros Hq; subst q'. rewrite (Hne eq_refl) in Ht'; congruence.
      - intros N; apply Cv'. intros p i Hin [Heq|Hp]; [|exact (N p i Hin Hp)].
        assert (Hq : q' = q) by congruence. subst q'. rewrite (Hne eq_refl) in Ht'; congruence. }
    destruct (tr s q) as [t|] eqn:Ht.
    2:{ intros _ q' t' Ht'. apply Hother; auto. }
    destruct (HI q t Ht) as (Cl & Cn & Cv & Co).
    pose proof (mark_eval (env s) P q lid t Cl Cn) as ME.
    destruct (mark t lid) as [t1 up]. destruct (eval (env s) t1) as [t2 v] eqn:Ev.
    destruct ME as (Cl2 & Lv2 & Cn2 & Vv2 & Hf).
    destruct up.
    - (* reached the binding: re-evaluated to v *)
      assert (Hv : nopend P q t2 -> v = den (env s) t2) by (intros N; rewrite Vv2; eapply val_den; eauto).
      assert (Hco : forall p i, In (p, i) (leaves t2) -> In (q, i) (order p)) by (intros p i Hin; apply Co; rewrite <- Lv2; exact Hin).
      destruct (Z.eqb_spec v (env s q)) as [Heq|Hneq].
      + intros _ q' t' Ht'. cbn in *. unfold set_tr in Ht'. destruct (Nat.eqb_spec q' q) as [->|Hne].
        * inversion Ht'; subst t'. repeat split; auto. intros N; rewrite <- Heq; auto.
        * apply Hother; auto; intros; contradiction.
      + intros Hoof. apply (proj2 HR); [|exact Hoof].
        apply (Inv_env_change {| env := env s; tr := set_tr (tr s) q t2; oof := false |} P q v).
        * intros q' t' Ht'. cbn in *. unfold set_tr in Ht'. destruct (Nat.eqb_spec q' q) as [->|Hne].
          -- inversion Ht'; subst t'. repeat split; auto. intros; contradiction.
          -- destruct (Hother q' t' (fun H => False_ind _ (Hne H)) Ht') as (A & B & C & D). repeat split; auto.
        * cbn. unfold set_tr. rewrite Nat.eqb_refl. intros t' Ht' N; inversion Ht'; subst; auto.
    - destruct (Hf eq_refl) as (-> & Hni). intros _ q' t' Ht'. cbn in *. unfold set_tr in Ht'.
      destruct (Nat.eqb_spec q' q) as [->|Hne].
      + inversion Ht'; subst t'. repeat split; auto.
        * eapply cons_drop; [|exact Cn]. intros _; exact Hni.
        * intros N; apply Cv. intros p i Hin [Heq|Hp]; [|exact (N p i Hin Hp)].
          assert (Hi : lid = i) by congruence; subst i. apply Hni. apply in_map_iff; exists (p, lid); auto.
      + apply Hother; auto; intros; contradiction.
  Qed.

  Lemma loop_oof L : forall s, oof s = true -> fold_left (deliver R) L s = s.
  Proof. induction L as [|x L IH]; cbn; auto. intros s H. rewrite deliver_oof by exact H. apply IH; exact H. Qed.

  Lemma loop_ok L : forall s P,
    Inv s (L ++ P) -> oof (fold_left (deliver R) L s) = false -> Inv (fold_left (deliver R) L s) P.
  Proof.
    induction L as [|[q lid] L IH]; cbn [fold_left app]; intros s P HI Ho; [exact HI|].
    apply IH; [|exact Ho]. apply deliver_ok; [exact HI|].
    destruct (oof (deliver R s (q, lid))) eqn:Hd; [|reflexivity].
    rewrite loop_oof in Ho by exact Hd. congruence.
  Qed.

  Lemma body_ok : rec_ok (notify_body F1 F2 F3 order R).
  Proof.
    split.
    - intros s r H. unfold notify_body. rewrite loop_oof by exact H. exact H.
    - intros s r P HI Ho. unfold notify_body in *. apply loop_ok; assumption.
  Qed.
End Step.

Lemma notify_ok fuel : rec_ok (notify fuel).
Proof.
  induction fuel as [|f IH]; cbn [PropAbs.notify].
  - split; [intros; reflexivity|intros s r P _ H; cbn in H; discriminate].
  - apply body_ok; exact IH.
Qed.

(* C02 on the abstract layer: whenever an assignment to an input returns (no fuel exhaustion = the
   dependency graph has no cycle through the changed input), every bound property whose tree is
   registered equals the denotation of its expression, all nodes are clean, all caches are right. *)
Theorem set_consistent fuel s p v :
  tr s p = None -> oof s = false ->
  Inv s [] -> oof (PropAbs.set F1 F2 F3 order fuel s p v) = false -> Inv (PropAbs.set F1 F2 F3 order fuel s p v) [].
Proof.
  intros Hp Ho HI. unfold PropAbs.set. destruct (Z.eqb v (env s p)); [intros _; exact HI|].
  intros Hf. apply (proj2 (notify_ok fuel)); [|exact Hf].
  rewrite Ho. apply (Inv_env_change s [] p v).
  - intros q t Ht. destruct (HI q t Ht) as (A & B & C & D). repeat split; auto.
  - intros t Ht; congruence.
Qed.
End Proofs.

(* every finite sequence of assignments to unbound inputs *)
Section Sets.
Variable F1 : nat -> Z -> Z.
Variable F2 : nat -> Z -> Z -> Z.
Variable F3 : nat -> Z -> Z -> Z -> Z.
Variable order : nat -> list (nat * nat).

Definition sets (fuel : nat) (s : state) (ws : list (nat * Z)) : state :=
  fold_left (fun s pv => PropAbs.set F1 F2 F3 order fuel s (fst pv) (snd pv)) ws s.

Lemma set_tr fuel s p v : forall q, tr (PropAbs.set F1 F2 F3 order fuel s p v) q = None <-> tr s q = None.
Proof.
  assert (Hdel : forall R, (forall s r q, tr (R s r) q = None <-> tr s q = None) ->
                 forall l s q, tr (fold_left (deliver F1 F2 F3 R) l s) q = None <-> tr s q = None).
  { intros R HR l. induction l as [|[q0 lid] l IH]; intros s0 q; cbn [fold_left]; [tauto|].
    rewrite IH. unfold deliver. destruct (oof s0); [tauto|].
    destruct (tr s0 q0) as [t|] eqn:Ht; [|tauto].
    destruct (mark t lid) as [t1 up]. destruct up.
    - destruct (PropAbs.eval F1 F2 F3 (env s0) t1) as [t2 v0].
      destruct (Z.eqb v0 (env s0 q0)); cbn [tr]; [|rewrite HR; cbn [tr]];
        unfold PropAbs.set_tr; destruct (Nat.eqb_spec q q0) as [->|]; try tauto; rewrite Ht; split; discriminate.
    - cbn [tr]. unfold PropAbs.set_tr. destruct (Nat.eqb_spec q q0) as [->|]; try tauto. rewrite Ht; split; discriminate. }
  assert (Hn : forall fuel s r q, tr (PropAbs.notify F1 F2 F3 order fuel s r) q = None <-> tr s q = None).
  { induction fuel0 as [|f IH]; intros s0 r q; cbn [PropAbs.notify]; [cbn; tauto|].
    unfold notify_body. apply Hdel. exact IH. }
  intros q. unfold PropAbs.set. destruct (Z.eqb v (env s p)); [tauto|]. rewrite Hn. cbn [tr]. tauto.
Qed.

Theorem sets_consistent fuel : forall ws s,
  (forall p v, In (p, v) ws -> tr s p = None) -> oof s = false -> Inv F1 F2 F3 order s [] ->
  oof (sets fuel s ws) = false -> Inv F1 F2 F3 order (sets fuel s ws) [].
Proof.
  induction ws as [|[p v] r IH]; intros s Hin Ho HI Hf; unfold sets in *; cbn [fold_left fst snd] in *; [exact HI|].
  set (s1 := PropAbs.set F1 F2 F3 order fuel s p v) in *.
  assert (Ho1 : oof s1 = false).
  { destruct (oof s1) eqn:E; [|reflexivity]. exfalso.
    assert (Hmono : forall l s0, oof s0 = true -> oof (fold_left (fun s pv => PropAbs.set F1 F2 F3 order fuel s (fst pv) (snd pv)) l s0) = true).
    { induction l as [|[p0 v0] l IHl]; intros s0 H0; cbn [fold_left]; [exact H0|]. apply IHl.
      unfold PropAbs.set. cbn [fst snd]. destruct (Z.eqb v0 (env s0 p0)); [exact H0|].
      apply (proj1 (notify_ok F1 F2 F3 order fuel)). cbn. exact H0. }
    rewrite (Hmono r s1 E) in Hf. discriminate. }
  apply IH.
  - intros q u Hq. apply (set_tr fuel s p v). apply (Hin q u). right; exact Hq.
  - exact Ho1.
  - apply set_consistent; [apply (Hin p v); left; reflexivity|exact Ho|exact HI|exact Ho1].
  - exact Hf.
Qed.
End Sets.
