(* C11 - Moves transfer everything; the source stays usable; dependants follow.
   Proved (signal layer): a move touches no Impl, the destination holds the source's Impl afterwards and the source none,
   belongsTo follows, move assignment is disconnectAll of the destination followed by the move.
   Proved (property layer, coq/PropLinkMove.v): move construction and move assignment of properties keep the link invariant: after
   the move every expression leaf that read the source reads the destination and is subscribed to the destination's signals, the
   readers of the overwritten destination refer to nothing, the moved binding updates the destination, the overwritten binding is
   gone with all its subscriptions.  Values seen by observers and the order of notifications are tied by correspondence and by
   PropCheck.check_c02 on every reached world (tests).  See DESIGN.md 6/C11. *)
From KDB Require Import Util GenIdx GenIdxProofs SigDefs SigInv SigTheorems SigEmit SigDisc.
From KDB Require PropDefs PropFlags PropLink PropLinkTheorems PropLinkMove PropSim PropSimLazy PropGrowLazy PropMove PropMoveLazy.

Theorem C11_signal_move_transfers :
  forall pf R w src dst x, lookup (w_sigs w) src = Some x -> src <> dst ->
    exists w', step1 pf R w (OSigMoveCtor src dst) = (w', None) /\
               w_impls w' = w_impls w /\ w_handles w' = w_handles w /\ w_evs w' = w_evs w /\
               lookup (w_sigs w') dst = Some x /\ lookup (w_sigs w') src = Some None /\
               (forall s, s <> src -> s <> dst -> lookup (w_sigs w') s = lookup (w_sigs w) s).
Proof. exact sig_move_ctor. Qed.
Print Assumptions C11_signal_move_transfers.

Theorem C11_handles_follow :
  forall pf R w src dst x hd, lookup (w_sigs w) src = Some x -> src <> dst ->
    belongs (fst (step1 pf R w (OSigMoveCtor src dst))) hd dst = belongs w hd src.
Proof. exact sig_move_belongs. Qed.
Print Assumptions C11_handles_follow.

Theorem C11_overwrite_is_destroy :
  forall pf R w dst src x y,
    lookup (w_sigs w) dst = Some y -> lookup (w_sigs w) src = Some x -> dst <> src ->
    step1 pf R w (OSigMoveAssign dst src) =
      (let w1 := sig_disconnect_all w dst in
       match lookup (w_sigs w1) src with
       | Some x' => (set_sigs w1 (bind_key (bind_key (w_sigs w1) src None) dst x'), None)
       | None => (w1, Some ExBadScript) end).
Proof. exact sig_move_assign. Qed.
Print Assumptions C11_overwrite_is_destroy.

(* what the destination held is disposed of as if destroyed: empty table, dead Impl (handles inactive), and - because
   every erase dequeues (C05_cancel) - no pending deferred invocation *)
Theorem C11_overwritten_content_gone :
  forall w s i m, winv w -> lookup (w_sigs w) s = Some (Some i) -> get_impl w i = Some m -> i_emitting m = false ->
    exists m', get_impl (sig_disconnect_all w s) i = Some m' /\ i_alive m' = false /\
               (forall k, g_get (i_conns m') k = None) /\
               lookup (w_sigs (sig_disconnect_all w s)) s = Some None.
Proof. exact disconnect_all_empties. Qed.
Print Assumptions C11_overwritten_content_gone.

Example C11_example :
  let w := run (fun _ => []) 8 4 [OSigNew 0 1; OSigNew 1 1; OConnect 0 0 100 1 [] 0; OBlockH 0 true; OSigMoveCtor 0 2;
                                  OBelongs 0 2; OBelongs 0 0; OIsBlockedH 0; OEmit 0 [1%Z]; OConnect 1 1 101 1 [] 0;
                                  OSigMoveAssign 1 2; OActive 1; OActive 0] in
  map (fun e => match e with EvBool b => Some b | _ => None end)
      (filter (fun e => match e with EvBool _ => true | _ => false end) (w_trace w))
  = [Some true; Some false; Some true; Some false; Some true; Some false].
Proof. vm_compute. reflexivity. Qed.

(* scoped connections: move construction / move assignment transfer the guarded connection (no Impl is touched by the transfer
   itself), the source then guards nothing - its expiry is a no-op -, and what the destination guarded before is disconnected
   exactly as if it had expired *)
Theorem C11_scoped_move_construction :
  forall pf R w src dst a, lookup (w_scoped w) src = Some a -> lookup (w_scoped w) dst = None -> src <> dst ->
    exists w', step1 pf R w (OScMoveCtor src dst) = (w', None) /\
               w_impls w' = w_impls w /\ w_evs w' = w_evs w /\
               lookup (w_scoped w') dst = Some a /\ lookup (w_scoped w') src = Some (handle_moved_from a) /\
               handle_disconnect w' (handle_moved_from a) = w'.
Proof. exact scoped_move_ctor. Qed.
Print Assumptions C11_scoped_move_construction.

Theorem C11_scoped_move_assignment :
  forall pf R w src dst a old, lookup (w_scoped w) src = Some a -> lookup (w_scoped w) dst = Some old -> src <> dst ->
    exists w', step1 pf R w (OScMove src dst) = (w', None) /\
               w_impls w' = w_impls (handle_disconnect w old) /\ w_evs w' = w_evs (handle_disconnect w old) /\
               lookup (w_scoped w') dst = Some a /\ lookup (w_scoped w') src = Some (handle_moved_from a).
Proof. exact scoped_move_assign. Qed.
Print Assumptions C11_scoped_move_assignment.

Theorem C11_scoped_expiry_is_disconnect :
  forall pf R w c a, lookup (w_scoped w) c = Some a ->
    exists w', step1 pf R w (OScDrop c) = (w', None) /\ w_impls w' = w_impls (handle_disconnect w a) /\ lookup (w_scoped w') c = None.
Proof. exact scoped_expiry. Qed.
Print Assumptions C11_scoped_expiry_is_disconnect.

(* ---- property layer: the link invariant across both moves (and, by C10_links_hold_in_every_legal_history, across every history) ---- *)
Theorem C11_property_move_construction_keeps_links :
  forall fn rtl fuel w src dst w' e,
    PropLink.pinv w -> PropFlags.NOEMIT w -> PropDefs.step1 fn rtl fuel w (PropDefs.PMoveCtor src dst) = (w', e) -> PropLink.okx e -> PropLink.pinv w'.
Proof. exact PropLinkMove.movector_pinv. Qed.
Print Assumptions C11_property_move_construction_keeps_links.

Theorem C11_property_move_assignment_keeps_links :
  forall fn rtl fuel w dst src w' e,
    PropLink.pinv w -> PropFlags.NOEMIT w -> PropDefs.step1 fn rtl fuel w (PropDefs.PMoveAssign dst src) = (w', e) -> PropLink.okx e -> PropLink.pinv w'.
Proof. exact PropLinkMove.moveassign_pinv. Qed.
Print Assumptions C11_property_move_assignment_keeps_links.

(* no operation leaves a signal marked as emitting (needed above: a move emits the private moved signals) *)
Theorem C11_no_signal_left_emitting :
  forall fn rtl fuel w o, PropFlags.NOEMIT w -> PropFlags.NOEMIT (PropDefs.step fn rtl fuel w o).
Proof. exact PropFlags.step_noemit. Qed.
Print Assumptions C11_no_signal_left_emitting.

(* VALUES across a move construction (PropMove.v): the destination holds the value and the updater of the source, the source keeps
   its value and has no updater, no subscription appears or disappears, every binding is alive as before, and the three public
   signals (with every observer and reader subscribed to them) now belong to the destination, the source has fresh empty ones ... *)
(* (no premise about observers: the subscribers of the private moved signal never act by the link invariant, whatever the observers of the
   public signals do) *)
Theorem C11_property_move_construction_transfers :
  forall fn rtl fuel w src dst w',
    PropLink.pinv w -> PropFlags.NOEMIT w ->
    PropDefs.step1 fn rtl fuel w (PropDefs.PMoveCtor src dst) = (w', None) ->
    exists s0 dn sn,
      lookup (PropDefs.w_props w) src = Some s0 /\ lookup (PropDefs.w_props w) dst = None /\ src <> dst /\
      PropDefs.pr_value dn = PropDefs.pr_value s0 /\ PropDefs.pr_updater dn = PropDefs.pr_updater s0 /\
      PropDefs.pr_value sn = PropDefs.pr_value s0 /\ PropDefs.pr_updater sn = None /\
      (forall q, lookup (PropDefs.w_props w') q = if Nat.eqb q dst then Some dn else if Nat.eqb q src then Some sn else lookup (PropDefs.w_props w) q) /\
      (forall t pos ser s1, PropLink.slot_at w' t pos ser s1 <-> PropLink.slot_at w t pos ser s1) /\
      (forall b, match PropDefs.get_bind w b, PropDefs.get_bind w' b with
                 | Some x, Some x' => PropDefs.b_evp x' = PropDefs.b_evp x /\
                                      PropSim.abs_tree (PropDefs.b_root x') =
                                      option_map (PropMove.aren (PropMove.rn src dst)) (PropSim.abs_tree (PropDefs.b_root x))
                 | None, None => True
                 | _, _ => False end) /\
      (PropDefs.pr_about dn = PropDefs.pr_about s0 /\ PropDefs.pr_changed dn = PropDefs.pr_changed s0 /\
       PropDefs.pr_destroyed dn = PropDefs.pr_destroyed s0 /\
       PropDefs.pr_about sn = None /\ PropDefs.pr_changed sn = None /\ PropDefs.pr_destroyed sn = None) /\
      (forall b x x', PropDefs.get_bind w b = Some x -> PropDefs.get_bind w' b = Some x' ->
         PropDefs.b_target x' = option_map (PropMove.rn src dst) (PropDefs.b_target x) /\
         PropLink.leaves (PropDefs.b_root x') = map (PropLinkMove.mvl src dst) (PropLink.leaves (PropDefs.b_root x))) /\
      PropDefs.w_evps w' = PropDefs.w_evps w /\ length (PropDefs.w_binds w') = length (PropDefs.w_binds w).
Proof. exact PropMove.movector_shape. Qed.
Print Assumptions C11_property_move_construction_transfers.

(* ... and "bindings that read a moved property follow it and keep tracking it", "the binding keeps updating the destination":
   in a world of immediate bindings every bound property still equals its expression over the current inputs after the move, and
   (C02_network_with_moves_consistent) after every later assignment *)
Theorem C11_property_move_construction_keeps_values :
  forall fn rtl fuel w src dst w',
    PropSim.SC w -> PropSim.COH fn w -> PropFlags.NOEMIT w ->
    PropDefs.step1 fn rtl fuel w (PropDefs.PMoveCtor src dst) = (w', None) -> PropSim.SC w' /\ PropSim.COH fn w'.
Proof. exact PropMove.grow_movector. Qed.
Print Assumptions C11_property_move_construction_keeps_values.

(* the same for move ASSIGNMENT over a destination that no live binding reads: "whatever the destination held before is disposed
   of" (its binding is dead, PropLinkMove) and the remaining bound properties still equal their expressions *)
Theorem C11_property_move_assignment_keeps_values :
  forall fn rtl fuel w dst src w',
    PropSim.SC w -> PropSim.COH fn w -> PropFlags.NOEMIT w ->
    (forall b lf, PropLink.has_leaf w b lf -> PropLink.lf_tg lf <> Some dst) ->
    PropDefs.step1 fn rtl fuel w (PropDefs.PMoveAssign dst src) = (w', None) -> PropSim.SC w' /\ PropSim.COH fn w'.
Proof. exact PropMove.grow_moveassign. Qed.
Print Assumptions C11_property_move_assignment_keeps_values.

(* what a legal move ASSIGNMENT over a destination no live binding reads does, field by field: destination = the source's value and
   binding, source left valid and unbound; the bindings that survive read and update what they did with src renamed to dst; the
   destination's OLD binding is dead and has left its evaluator's registry, no other registry changed *)
Theorem C11_property_move_assignment_transfers :
  forall fn rtl fuel w dst src w',
    PropLink.pinv w -> PropFlags.NOEMIT w ->
    (forall b lf, PropLink.has_leaf w b lf -> PropLink.lf_tg lf <> Some dst) ->
    PropDefs.step1 fn rtl fuel w (PropDefs.PMoveAssign dst src) = (w', None) ->
    exists s0 d0 dn sn,
      lookup (PropDefs.w_props w) src = Some s0 /\ lookup (PropDefs.w_props w) dst = Some d0 /\ src <> dst /\
      PropDefs.pr_value dn = PropDefs.pr_value s0 /\ PropDefs.pr_updater dn = PropDefs.pr_updater s0 /\
      PropDefs.pr_value sn = PropDefs.pr_value s0 /\ PropDefs.pr_updater sn = None /\
      (forall q, lookup (PropDefs.w_props w') q = if Nat.eqb q dst then Some dn else if Nat.eqb q src then Some sn else lookup (PropDefs.w_props w) q) /\
      (forall t pos ser s1, PropLink.slot_at w' t pos ser s1 -> PropLink.slot_at w t pos ser s1) /\
      (forall b, PropDefs.pr_updater d0 <> Some b ->
                 match PropDefs.get_bind w b, PropDefs.get_bind w' b with
                 | Some x, Some x' => PropDefs.b_evp x' = PropDefs.b_evp x /\
                                      PropSim.abs_tree (PropDefs.b_root x') =
                                      option_map (PropMove.aren (PropMove.rn src dst)) (PropSim.abs_tree (PropDefs.b_root x))
                 | None, None => True
                 | _, _ => False end) /\
      (forall b x x', PropDefs.pr_updater d0 <> Some b -> PropDefs.get_bind w b = Some x -> PropDefs.get_bind w' b = Some x' ->
         PropDefs.b_target x' = option_map (PropMove.rn src dst) (PropDefs.b_target x) /\
         PropLink.leaves (PropDefs.b_root x') = map (PropLinkMove.mvl src dst) (PropLink.leaves (PropDefs.b_root x))) /\
      match PropDefs.pr_updater d0 with
      | Some bd => exists x, PropDefs.get_bind w bd = Some x /\ PropDefs.get_bind w' bd = None /\
                     PropDefs.w_evps w' =
                     match nth_error (PropDefs.w_evps w) (PropDefs.b_evp x) with
                     | Some ep => Util.upd (PropDefs.w_evps w) (PropDefs.b_evp x)
                                    {| PropDefs.ep_registry := filter (fun q => negb (Nat.eqb (fst q) (PropDefs.b_regid x))) (PropDefs.ep_registry ep);
                                       PropDefs.ep_next := PropDefs.ep_next ep |}
                     | None => PropDefs.w_evps w end
      | None => PropDefs.w_evps w' = PropDefs.w_evps w end /\
      length (PropDefs.w_binds w') = length (PropDefs.w_binds w).
Proof. exact PropMove.moveassign_shape. Qed.
Print Assumptions C11_property_move_assignment_transfers.

(* ... and in worlds of EVALUATOR-DRIVEN bindings (coq/PropMoveLazy.v): a move construction keeps the state conditions of the one-pass
   theorem - so the bindings that read or update the moved property are brought up to date by the next evaluateAll as if nothing
   had moved (C06_network_with_moves_one_pass) *)
Theorem C11_property_move_construction_keeps_evaluator_driven_networks :
  forall fn rtl ev fuel w src dst w',
    PropSimLazy.LSC ev w -> PropGrowLazy.LSND fn w -> PropGrowLazy.LREG ev w -> PropFlags.NOEMIT w ->
    PropDefs.step1 fn rtl fuel w (PropDefs.PMoveCtor src dst) = (w', None) ->
    PropSimLazy.LSC ev w' /\ PropGrowLazy.LSND fn w' /\ PropGrowLazy.LREG ev w'.
Proof. exact PropMoveLazy.lazy_grow_movector. Qed.
Print Assumptions C11_property_move_construction_keeps_evaluator_driven_networks.

(* ... and so does a move ASSIGNMENT over a destination that no live binding reads; the destination's own evaluator-driven binding,
   if it had one, dies and leaves its evaluator's registry (C06_registries_hold_live_bindings_only) *)
Theorem C11_property_move_assignment_keeps_evaluator_driven_networks :
  forall fn rtl ev fuel w dst src w',
    PropSimLazy.LSC ev w -> PropGrowLazy.LSND fn w -> PropGrowLazy.LREG ev w -> PropFlags.NOEMIT w ->
    (forall b lf, PropLink.has_leaf w b lf -> PropLink.lf_tg lf <> Some dst) ->
    PropDefs.step1 fn rtl fuel w (PropDefs.PMoveAssign dst src) = (w', None) ->
    PropSimLazy.LSC ev w' /\ PropGrowLazy.LSND fn w' /\ PropGrowLazy.LREG ev w'.
Proof. exact PropMoveLazy.lazy_grow_moveassign. Qed.
Print Assumptions C11_property_move_assignment_keeps_evaluator_driven_networks.

(* non-vacuity: an input is move-constructed away and then move-assigned over another input of the same binding; legal, invariant
   holds, the binding follows (value 3+3 after the write to the final location), the overwritten input's reader reports
   PropertyDestroyedError only if it is still read: here both leaves end up reading property 5 *)
Example C11_property_example :
  let fn := fun (f : nat) (l : list Z) => Some (fold_right Z.add 0%Z l) in
  let ops := [PropDefs.PNew 0 1%Z; PropDefs.PNew 1 2%Z;
              PropDefs.PBind 2 (PropDefs.EOp2 0 (PropDefs.EProp 0) (PropDefs.EProp 0)) PropDefs.MImmediate;
              PropDefs.PMoveCtor 0 5; PropDefs.PSet 5 3%Z PropDefs.WSet; PropDefs.PGet 2;
              PropDefs.PMoveCtor 2 6; PropDefs.PSet 5 4%Z PropDefs.WSet; PropDefs.PGet 6;
              PropDefs.PMoveAssign 1 5; PropDefs.PSet 1 10%Z PropDefs.WSet; PropDefs.PGet 6] in
  (PropLinkTheorems.run_okb fn true 6 PropDefs.world0 ops, forallb (fun b => b) (PropLink.pinv_b (PropDefs.run fn true 6 ops)),
   map (fun e => match e with PropDefs.EvVal v => v | _ => None end)
       (filter (fun e => match e with PropDefs.EvVal _ => true | _ => false end) (PropDefs.w_trace (PropDefs.run fn true 6 ops))))
  = (true, true, [Some 20%Z; Some 8%Z; Some 6%Z]).
Proof. vm_compute. reflexivity. Qed.
