(* C11 - Moves transfer everything; the source stays usable; dependants follow.
   Proved (signal layer): a move touches no Impl, the destination holds the source's Impl afterwards and the source none,
   belongsTo follows, move assignment is disconnectAll of the destination followed by the move.  The property-layer
   moves (value, observers, binding, retargeting of reading nodes, invalidation of readers of the overwritten
   destination) are part of coq/PropDefs.v and are tied by correspondence; their consequences are checked by
   PropCheck.check_c02 / check_links on every reached world (tests).  PARTIAL, see DESIGN.md 6/C11. *)
From KDB Require Import Util GenIdx GenIdxProofs SigDefs SigInv SigTheorems SigEmit SigDisc.

Theorem C11_signal_move_transfers :
  forall pf R w src dst x, lookup (w_sigs w) src = Some x -> src <> dst ->
    exists w', step1 pf R w (OSigMoveCtor src dst) = (w', None) /\
               w_impls w' = w_impls w /\ w_handles w' = w_handles w /\ w_evs w' = w_evs w /\
               lookup (w_sigs w') dst = Some x /\ lookup (w_sigs w') src = Some None /\
               (forall s, s <> src -> s <> dst -> lookup (w_sigs w') s = lookup (w_sigs w) s).
Proof. exact sig_move_ctor. Qed.
Print Assumptions C11_signal_move_transfers.

Theorem C11_handles_follow :
  forall pf R w src dst x hd, lookup (w_sigs w) src = Some x -> src <> dst ->
    belongs (fst (step1 pf R w (OSigMoveCtor src dst))) hd dst = belongs w hd src.
Proof. exact sig_move_belongs. Qed.
Print Assumptions C11_handles_follow.

Theorem C11_overwrite_is_destroy :
  forall pf R w dst src x y,
    lookup (w_sigs w) dst = Some y -> lookup (w_sigs w) src = Some x -> dst <> src ->
    step1 pf R w (OSigMoveAssign dst src) =
      (let w1 := sig_disconnect_all w dst in
       match lookup (w_sigs w1) src with
       | Some x' => (set_sigs w1 (bind_key (bind_key (w_sigs w1) src None) dst x'), None)
       | None => (w1, Some ExBadScript) end).
Proof. exact sig_move_assign. Qed.
Print Assumptions C11_overwrite_is_destroy.

(* what the destination held is disposed of as if destroyed: empty table, dead Impl (handles inactive), and - because
   every erase dequeues (C05_cancel) - no pending deferred invocation *)
Theorem C11_overwritten_content_gone :
  forall w s i m, winv w -> lookup (w_sigs w) s = Some (Some i) -> get_impl w i = Some m -> i_emitting m = false ->
    exists m', get_impl (sig_disconnect_all w s) i = Some m' /\ i_alive m' = false /\
               (forall k, g_get (i_conns m') k = None) /\
               lookup (w_sigs (sig_disconnect_all w s)) s = Some None.
Proof. exact disconnect_all_empties. Qed.
Print Assumptions C11_overwritten_content_gone.

Example C11_example :
  let w := run (fun _ => []) 8 4 [OSigNew 0 1; OSigNew 1 1; OConnect 0 0 100 1 [] 0; OBlockH 0 true; OSigMoveCtor 0 2;
                                  OBelongs 0 2; OBelongs 0 0; OIsBlockedH 0; OEmit 0 [1%Z]; OConnect 1 1 101 1 [] 0;
                                  OSigMoveAssign 1 2; OActive 1; OActive 0] in
  map (fun e => match e with EvBool b => Some b | _ => None end)
      (filter (fun e => match e with EvBool _ => true | _ => false end) (w_trace w))
  = [Some true; Some false; Some true; Some false; Some true; Some false].
Proof. vm_compute. reflexivity. Qed.
