(* Executable property checkers over worlds of the property-layer model: the property statement itself, evaluated
   on a concrete world (used by the driver on every world reached by a generated script; a TEST, not a proof). *)
From KDB Require Import Util PropDefs.

Section Check.
  Variable fn : nat -> list Z -> option Z.

  (* the value of an expression tree over the current values of its inputs, recomputed from scratch (caches and dirty
     flags ignored); None if an input is gone or a user function throws *)
  Fixpoint den_node (val : nat -> option Z) (t : node) : option Z :=
    match t with
    | NConst v => Some v
    | NProp tg _ _ _ _ _ => match tg with Some p => val p | None => None end
    | NOp1 f _ _ a => match den_node val a with Some va => fn f [va] | None => None end
    | NOp2 f _ _ a b =>
        match den_node val a, den_node val b with Some va, Some vb => fn f [va; vb] | _, _ => None end
    | NOp3 f _ _ a b c =>
        match den_node val a, den_node val b, den_node val c with
        | Some va, Some vb, Some vc => fn f [va; vb; vc] | _, _, _ => None end
    end.

  (* C02: every immediate-mode bound property whose inputs all exist equals its expression over the current values *)
  Definition check_c02 (w : world) : bool :=
    forallb (fun x =>
      if negb (b_alive x) then true else
      if negb (Nat.eqb (b_evp x) 0) then true else
      match b_target x with
      | None => true
      | Some q =>
          match values w q, den_node (values w) (b_root x) with
          | Some vq, Some v => Z.eqb vq v
          | _, _ => true
          end
      end) (w_binds w).

  Fixpoint leaf_targets (t : node) : list (option nat) :=
    match t with
    | NConst _ => []
    | NProp tg _ _ _ _ _ => [tg]
    | NOp1 _ _ _ a => leaf_targets a
    | NOp2 _ _ _ a b => leaf_targets a ++ leaf_targets b
    | NOp3 _ _ _ a b c => leaf_targets a ++ leaf_targets b ++ leaf_targets c
    end.

  (* "created in dependency order": every input of the binding is a plain property, or is bound through the SAME
     evaluator by a binding created earlier whose inputs satisfy the same condition *)
  Fixpoint dep_ordered (fuel : nat) (w : world) (evp rid : nat) (t : node) : bool :=
    match fuel with
    | O => false
    | S f =>
        forallb (fun tg =>
          match tg with
          | None => false
          | Some p =>
              match lookup (w_props w) p with
              | None => false
              | Some pr =>
                  match pr_updater pr with
                  | None => true
                  | Some b' =>
                      match get_bind w b' with
                      | Some x' => Nat.eqb (b_evp x') evp && Nat.ltb (b_regid x') rid && dep_ordered f w evp (b_regid x') (b_root x')
                      | None => false
                      end
                  end
              end
          end) (leaf_targets t)
    end.

  (* C06 (after a completed evaluateAll on the evaluator with private state evp): every binding registered there whose
     inputs were created in dependency order equals its expression over the current values *)
  Definition check_c06_after_evalall (w : world) (evp : nat) : bool :=
    forallb (fun x =>
      if negb (b_alive x) then true else
      if negb (Nat.eqb (b_evp x) evp) then true else
      if negb (dep_ordered 12 w evp (b_regid x) (b_root x)) then true else
      match b_target x with
      | None => true
      | Some q =>
          match values w q, den_node (values w) (b_root x) with
          | Some vq, Some v => Z.eqb vq v
          | _, _ => true
          end
      end) (w_binds w).

  (* structural link invariant of the model (C10): no expression leaf refers to a property that is gone, every
     updater/target pair is mutual *)
  Fixpoint leaves_ok (w : world) (t : node) : bool :=
    match t with
    | NConst _ => true
    | NProp tg _ _ _ _ _ => match tg with Some p => match lookup (w_props w) p with Some _ => true | None => false end | None => true end
    | NOp1 _ _ _ a => leaves_ok w a
    | NOp2 _ _ _ a b => leaves_ok w a && leaves_ok w b
    | NOp3 _ _ _ a b c => leaves_ok w a && leaves_ok w b && leaves_ok w c
    end.

  Definition check_links (w : world) : bool :=
    forallb (fun x => if b_alive x then
                        leaves_ok w (b_root x) &&
                        match b_target x with
                        | Some q => match lookup (w_props w) q with
                                    | Some pr => match pr_updater pr with Some _ => true | None => false end
                                    | None => false end
                        | None => true end
                      else true) (w_binds w).
End Check.

(* C19 on the property layer: what the library holds on behalf of a world - occupied connection slots, live connection tables, live
   bindings, properties, registry entries, user-held bindings, evaluator handles.  Two worlds with the same footprint hold the same
   number of library objects of every kind; the correspondence check compares "footprint unchanged over a repeated cycle" with
   "bytes held by the real library unchanged over the same repetitions" (harness/prop_harness.cpp, -DHEAP_ACCOUNTING). *)
Definition footprint (w : world) : list nat :=
  [ fold_right (fun tb n => n + length (filter (fun s => match s with Some _ => true | None => false end) (t_slots tb))) 0 (w_tables w);
    length (filter (fun tb => t_alive tb) (w_tables w));
    length (filter (fun x => b_alive x) (w_binds w));
    length (w_props w);
    fold_right (fun st n => n + length (ep_registry st)) 0 (w_evps w);
    length (w_held w);
    length (w_bevs w) ].

