(* C08 - Deferred connections are safe across threads under every interleaving.
   PARTIAL with respect to the C++ memory model: the theorems are about (A) the lock-level interleaving semantics of
   the call shapes and (B) histories of atomic critical sections; that a std::recursive_mutex makes the lock-protected
   regions atomic with respect to one another, and that shared_ptr control blocks are thread safe, is assumed.  The IR
   the theorems talk about is regenerated from connection_evaluator.h on every run and compared here (C08_ir_tie);
   randomly timed real-thread executions under ThreadSanitizer are the observation on the implementation side. *)
From KDB Require Import EvalIR ConcModel ConcProofs.
From KDB.generated Require Import EvalIRCurrent.

(* the code as it is now has exactly the IR the theorems were written for; the class has no other data members *)
Theorem C08_ir_tie :
  cur_evaluate = expected_evaluate /\ cur_enqueue = expected_enqueue /\ cur_dequeue = expected_dequeue /\
  cur_fields = expected_fields.
Proof. repeat split; reflexivity. Qed.
Print Assumptions C08_ir_tie.

(* lock discipline: in all three methods queue and flag are touched only while the mutex is held, the user hook is
   called only while it is NOT held, elements are never called in place, nothing unrecognised occurs *)
Theorem C08_lock_discipline :
  disciplined 50 false cur_evaluate = true /\ disciplined 50 false cur_enqueue = true /\ disciplined 50 false cur_dequeue = true.
Proof. vm_compute. repeat split; reflexivity. Qed.
Print Assumptions C08_lock_discipline.

(* the call shapes of the lock-level model are the lock skeletons of the methods (a hook that takes a user lock) *)
Theorem C08_shapes_are_the_code :
  shape CEmit = method_skeleton cur_enqueue /\ shape CDisc = method_skeleton cur_dequeue /\
  shape CEval = method_skeleton cur_evaluate /\ shape CEvalLocked = ([AcqL] ++ method_skeleton cur_evaluate ++ [RelL])%list.
Proof. vm_compute. repeat split; reflexivity. Qed.
Print Assumptions C08_shapes_are_the_code.

(* no deadlock: any number of threads, any sequences of emissions (enqueue + hook taking the user lock), disconnects
   and evaluation passes (plain, or run while holding the user lock), any schedule: while some thread has work left
   some thread can take a step *)
Theorem C08_no_deadlock :
  forall progs sched,
    (exists i t, nth_error (ths (lrun progs sched)) i = Some t /\ finished t = false) ->
    exists i, enabled (lrun progs sched) i = true.
Proof. exact no_deadlock. Qed.
Print Assumptions C08_no_deadlock.

(* histories of atomic sections by any threads *)
Theorem C08_at_most_once : forall h id, runs_of id (arun h) <= 1.
Proof. exact at_most_once. Qed.
Print Assumptions C08_at_most_once.

Theorem C08_exactly_once_when_evaluated :
  forall s t id, AInv s -> In id (map q_id (aq s)) ->
    runs_of id (astep s (t, APass)) = 1 /\ aq (astep s (t, APass)) = [].
Proof. exact pass_runs_pending. Qed.
Print Assumptions C08_exactly_once_when_evaluated.

Theorem C08_slots_on_evaluating_thread :
  forall h t id c, In (t, id, c) (alog (arun h)) -> In (t, APass) h.
Proof. exact slots_on_evaluating_thread. Qed.
Print Assumptions C08_slots_on_evaluating_thread.

(* once disconnect has returned: nothing of that connection is pending, and whatever of it runs later was queued later *)
Theorem C08_disconnect_is_a_barrier :
  forall h2 s t c u id, AInv s ->
    In (u, id, c) (alog (fold_left astep h2 (astep s (t, ADeq c)))) -> In (u, id, c) (alog s) \/ anext s < id.
Proof. exact nothing_old_runs_after_disconnect. Qed.
Print Assumptions C08_disconnect_is_a_barrier.

Theorem C08_invariant_reachable : forall h, AInv (arun h).
Proof. exact AInv_run. Qed.
Print Assumptions C08_invariant_reachable.

(* non-vacuity: two producers and a consumer that evaluates under the user lock *)
Example C08_example :
  let progs := [[CEmit; CDisc; CEmit]; [CEmit; CEmit]; [CEvalLocked; CEval]] in
  let s := lrun progs [0; 1; 0; 2; 2; 1; 2; 0; 1; 2; 0] in
  existsb (enabled s) [0; 1; 2] = true.
Proof. vm_compute. reflexivity. Qed.
