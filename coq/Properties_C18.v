(* C18 - connect adapts any callable shape; ill-formed uses fail to compile.
   PARTIAL by nature: acceptance / rejection by the C++ type system is validated cell by cell on a generated grid
   (harness/c18); the arithmetic of arities and placeholders and the special-member facts are proved over tables
   regenerated from the current headers. *)
From KDB Require Import TablesDefs Tables.
From KDB.generated Require Import ArityTable.
From KDB Require SigDefs.
From Coq Require Import ZArith.
Local Open Scope list_scope.

(* get_arity: one overload for each of the 24 cv / ref / noexcept qualifications of member functions (arguments + 1
   for the object), plain and noexcept function pointers (arguments), and the generic-callable rule; nothing else *)
Theorem C18_arity_table_complete : arity_complete arity_table = true.
Proof. vm_compute. reflexivity. Qed.
Print Assumptions C18_arity_table_complete.

(* bind_first as it is written now: placeholders start at _1, bound values are taken BY VALUE (copied at connect
   time), std::bind receives callable, bound values, placeholders in this order, the number of placeholders is
   get_arity<Func>() - sizeof...(Args), and bind_first itself is nothing but `return bind_first_helper(...)` - no other path builds
   the callable that connect() stores *)
Theorem C18_bind_first_shape :
  placeholder_offset = 1 /\ bound_args_by_value = true /\ bind_argument_order_ok = true /\
  index_count_expr = "get_arity<Func>()-sizeof...(Args)"%string /\ bind_first_is_one_return_of_helper = true.
Proof. vm_compute. repeat split; reflexivity. Qed.
Print Assumptions C18_bind_first_shape.

(* hence (std::bind as in the standard): the callable receives the bound values followed by exactly the first
   arity - |bound| emitted values, in order, unmodified; the rest is discarded *)
Theorem C18_adapt_law :
  forall (V : Type) (dflt : V) arity bound emitted,
    arity - List.length bound <= List.length emitted ->
    map (resolve V dflt emitted) (bind_first_args V placeholder_offset arity bound) = bound ++ firstn (arity - List.length bound) emitted.
Proof. exact bind_first_law. Qed.
Print Assumptions C18_adapt_law.

(* ... which is what the signal model uses (SigDefs.adapt) *)
Theorem C18_model_uses_the_law :
  forall arity bound emitted, KDB.SigDefs.adapt arity bound emitted = (bound ++ firstn (arity - List.length bound) emitted)%list.
Proof. reflexivity. Qed.
Print Assumptions C18_model_uses_the_law.

(* copying signals, properties, bindings, scoped connections (and connection evaluators) is deleted; the static_assert
   rejecting R-value-reference signal parameters is present with its original condition *)
Theorem C18_specials :
  Signal_copy_ctor_deleted && Signal_copy_assign_deleted && Property_copy_ctor_deleted && Property_copy_assign_deleted &&
  ScopedConnection_copy_ctor_deleted && ScopedConnection_copy_assign_deleted && Binding_copy_ctor_deleted &&
  Binding_copy_assign_deleted && rvalue_static_assert_present = true.
Proof. vm_compute. reflexivity. Qed.
Print Assumptions C18_specials.
