(* C02 end to end with writing observers of BOTH signals (coq/PropSimAct2.v): after any history of a growing network (coq/PropMove.v) followed
   by any history that attaches observers - plain ones, observers of valueChanged that write another property, observers of
   valueAboutToChange of UNBOUND properties that write another property - and assigns inputs, every immediately bound property equals its
   expression recomputed over the current values. *)
From Coq Require Import List Arith ZArith Lia Bool.
Import ListNotations.
From KDB Require Import Util UtilProofs PropDefs PropFlags PropLink PropLinkBasics PropLinkOps PropLinkTheorems PropSim PropGrow PropSimAct PropSimAct2 PropGrowAct.
From KDB Require PropLinkMove.
From KDB Require PropAbs PropAbsProofs PropAbsAct PropAbsAct2 PropProofs PropCheck PropGrowMore PropMove.
Module A := PropAbs.

Module AP := PropAbsProofs.
Module C := PropAbsAct.

Lemma kill_tview w ot w1 : kill_table w ot = (w1, None) ->
  forall t sl fr al, tview w1 t = Some (sl, fr, al) -> (ot = Some t -> al = false) /\ (forall sl0 fr0, tview w t = Some (sl0, fr0, false) -> al = false).
Proof.
  unfold kill_table. intros H t sl fr al Hv. destruct ot as [t0|]; [|inversion H; subst; split; [discriminate|intros sl0 fr0 E; rewrite E in Hv; inversion Hv; reflexivity]].
  destruct (get_table w t0) as [tb|] eqn:Ht; [|inversion H; subst; split; [intros E; inversion E; subst; unfold tview in Hv; rewrite Ht in Hv; discriminate Hv|intros sl0 fr0 E; rewrite E in Hv; inversion Hv; reflexivity]].
  destruct (t_emitting tb); [discriminate H|]. inversion H; subst w1; clear H.
  rewrite tview_put_table in Hv. pose proof (get_table_lt _ _ _ Ht) as Hlt. apply Nat.ltb_lt in Hlt. rewrite Hlt in Hv.
  destruct (Nat.eqb_spec t0 t) as [<-|Hne].
  - inversion Hv; subst. split; reflexivity.
  - split; [intros E; inversion E; contradiction|intros sl0 fr0 E; rewrite E in Hv; inversion Hv; reflexivity].
Qed.


Section GrowAct2.
  Variable fn : nat -> list Z -> option Z.
  Variable rtl : bool.
  Notation COH := (PropSim.COH fn).
  Notation SCB := PropSimAct2.SCB.

  Lemma SCB_log e w : SCB w -> SCB (log e w).
  Proof. intros (Hinv & Hna & Hsi). split; [eapply pinv_views; [apply views_log|exact Hinv]|split; [exact Hna|exact Hsi]]. Qed.

  Lemma unbound_sub w p k sub h w1 q : sub_ext w p k sub h w1 -> PropSimAct2.unbound w q -> PropSimAct2.unbound w1 q.
  Proof.
    intros E (v & Pv & Uv). destruct (pview w1 q) as [v1|] eqn:P1.
    - exists v1. split; [exact P1|]. rewrite (se_upd _ _ _ _ _ _ E q v v1 Pv P1). exact Uv.
    - apply (se_pdom _ _ _ _ _ _ E) in P1. congruence.
  Qed.

  (* attaching an observer: plain, writing on valueChanged, or writing on valueAboutToChange of an unbound property *)
  Lemma act2_observe fuel w p k label h act w' :
    SCB w -> COH w ->
    (act = None \/ (exists tgt, act = Some (false, tgt)) /\ (k = KChanged \/ (k = KAbout /\ PropSimAct2.unbound w p))) ->
    step1 fn rtl fuel w (PObserve p k label h act) = (w', None) -> SCB w' /\ COH w'.
  Proof.
    intros (Hinv & Hna & Hsi) HC Hact H.
    assert (Hinv' : pinv w') by (eapply (observe_pinv fn rtl fuel); eauto; exact I).
    cbn [step1] in H. destruct (match k, act with KMoved, _ => true | KDestroyed, Some _ => true | _, _ => false end); [discriminate H|].
    destruct (subscribe w p k (SObs label act)) as [[w1 hd]|] eqn:Hs; [|discriminate H]. inversion H; subst w'.
    pose proof (subscribe_ext _ _ _ _ _ _ Hs (pi_twf _ _ _ _ _ _ _ Hinv) (pi_own _ _ _ _ _ _ _ Hinv)) as E.
    split.
    - split; [exact Hinv'|]. split.
      + intros t pos ser label0 a Hsl. assert (Hsl1 : slot_at w1 t pos ser (SObs label0 (Some a))) by exact Hsl.
        destruct (se_new _ _ _ _ _ _ E _ _ _ _ Hsl1) as [Hold|(Et & _ & _ & Es)].
        * destruct (Hna t pos ser label0 a Hold) as (tgt & p' & Ea & Ho). exists tgt, p'. split; [exact Ea|].
          destruct Ho as [Ho|[Ho Hu]]; [left; exact (se_owns_old _ _ _ _ _ _ E _ _ _ Ho)|right; split; [exact (se_owns_old _ _ _ _ _ _ E _ _ _ Ho)|exact (unbound_sub _ _ _ _ _ _ _ E Hu)]].
        * inversion Es; subst. destruct Hact as [Hn|((tgt & Ea) & Hk)]; [discriminate Hn|]. inversion Ea; subst a. exists tgt, p. split; [reflexivity|].
          destruct Hk as [->|[-> Hu]]; [left; exact (se_owns_h _ _ _ _ _ _ E)|right; split; [exact (se_owns_h _ _ _ _ _ _ E)|exact (unbound_sub _ _ _ _ _ _ _ E Hu)]].
      + exact (PropGrow.sub_SIMPLE _ _ _ _ _ _ E Hsi).
    - exact (PropGrow.sub_COH fn _ _ _ _ _ _ E HC).
  Qed.

  Definition unbound_b (w : world) (p : nat) : bool :=
    match lookup (w_props w) p with Some pr => match pr_updater pr with None => true | Some _ => false end | None => false end.
  Lemma unbound_b_sound w p : unbound_b w p = true -> PropSimAct2.unbound w p.
  Proof.
    unfold unbound_b, PropSimAct2.unbound, pview. destruct (lookup (w_props w) p) as [pr|]; [|discriminate]. destruct (pr_updater pr) eqn:Hu; [discriminate|].
    intros _. exists (psigs_of pr). split; [reflexivity|exact Hu].
  Qed.

  Definition act2_op (w : world) (o : op) : Prop :=
    match o with
    | PObserve p KAbout _ _ (Some (false, _)) => unbound_b w p = true
    | _ => PropGrowAct.act_op o
    end.

  Theorem act2_step fuel w o w' : SCB w -> COH w -> act2_op w o -> step1 fn rtl fuel w o = (w', None) -> SCB w' /\ COH w'.
  Proof.
    intros HSC HC Ho H. destruct o; cbn [act2_op PropGrowAct.act_op] in Ho; try contradiction.
    - (* PSet *) cbn [step1] in H. destruct (lookup (w_props w) p) as [pr|] eqn:Hp; [|discriminate H]. destruct (pr_updater pr) eqn:Hu; [discriminate H|].
      destruct (assignment_coherent_act2 fn rtl fuel w p pr v w' HSC HC Hp Hu H) as (A1 & A2 & _). auto.
    - (* PGet *) cbn [step1] in H. destruct (lookup (w_props w) p); [|discriminate H]. inversion H; subst w'. split; [apply SCB_log; exact HSC|exact HC].
    - (* PHasBinding *) cbn [step1] in H. destruct (lookup (w_props w) p); [|discriminate H]. inversion H; subst w'. split; [apply SCB_log; exact HSC|exact HC].
    - (* PObserve *) destruct act as [[[|] tgt]|].
      + destruct k; contradiction.
      + destruct k; try contradiction.
        * apply (act2_observe fuel w p KAbout label h (Some (false, tgt)) w' HSC HC); [right; split; [exists tgt; reflexivity|right; split; [reflexivity|apply unbound_b_sound; exact Ho]]|exact H].
        * apply (act2_observe fuel w p KChanged label h (Some (false, tgt)) w' HSC HC); [right; split; [exists tgt; reflexivity|left; reflexivity]|exact H].
      + apply (act2_observe fuel w p k label h None w' HSC HC); [left; reflexivity|exact H].
    - (* PAssignFrom *) cbn [step1] in H. destruct (lookup (w_props w) p) as [pr|] eqn:Hp; [|discriminate H]. destruct (lookup (w_props w) q) as [qr|]; [|discriminate H].
      destruct (pr_updater pr) eqn:Hu; [discriminate H|].
      destruct (assignment_coherent_act2 fn rtl fuel w p pr (pr_value qr) w' HSC HC Hp Hu H) as (A1 & A2 & _). auto.
  Qed.

  Fixpoint act2_run_ok (fuel : nat) (w : world) (ops : list op) : Prop :=
    match ops with
    | [] => True
    | o :: r => act2_op w o /\ snd (step1 fn rtl fuel w o) = None /\ act2_run_ok fuel (step fn rtl fuel w o) r
    end.

  Theorem act2_coherent fuel : forall ops w, SCB w -> COH w -> act2_run_ok fuel w ops ->
    SCB (fold_left (step fn rtl fuel) ops w) /\ COH (fold_left (step fn rtl fuel) ops w).
  Proof.
    induction ops as [|o r IH]; intros w HSC HC Hok; cbn [fold_left]; [auto|]. destruct Hok as (Ho & Hn & Hr).
    unfold step in *. destruct (step1 fn rtl fuel w o) as [w1 e] eqn:E. cbn [snd] in Hn. subst e.
    destruct (act2_step fuel w o w1 HSC HC Ho E) as [SC1 COH1].
    apply IH; [apply SCB_log; exact SC1|exact COH1|exact Hr].
  Qed.

  Theorem coherent_bound_equals_expression_act2 w q x pr z :
    SCB w -> COH w -> PropSim.imm_of w q = Some x -> lookup (w_props w) q = Some pr ->
    PropCheck.den_node fn (values w) (b_root x) = Some z -> pr_value pr = z.
  Proof.
    intros (Hinv & Hna & Hsi) (s & HRel & HInv) Hi Hq Hd. pose proof HRel as (R1 & R2 & R3).
    destruct (PropSim.abs_tree (b_root x)) as [T|] eqn:HT; [|exfalso; exact (Hsi _ _ Hi HT)].
    assert (Htr : PropAbs.tr s q = Some T) by (rewrite R2, Hi; exact HT).
    assert (Hb : exists b, get_bind w b = Some x).
    { unfold PropSim.imm_of in Hi. rewrite Hq in Hi. destruct (pr_updater pr) as [b|]; [|discriminate Hi]. exists b.
      destruct (get_bind w b) as [x0|]; [|discriminate Hi]. destruct (Nat.eqb (b_evp x0) 0); [congruence|discriminate Hi]. }
    destruct Hb as (b & Hb).
    rewrite (PropSim.den_node_abs fn (values w) (PropAbs.env s) _ _ _ HT (fun p lid Hi0 => PropSim.values_env w s p lid T b x Hinv HRel Hb HT Hi0) Hd).
    rewrite <- (R1 _ _ Hq). destruct (HInv q T Htr) as (_ & _ & E & _). apply E. intros p0 lid _ [].
  Qed.

  Theorem network_then_observers_of_both_kinds_consistent fuel ops1 ops2 q x pr z :
    PropMove.grow3_run_ok fn rtl fuel world0 ops1 ->
    act2_run_ok fuel (run fn rtl fuel ops1) ops2 ->
    let w := run fn rtl fuel (ops1 ++ ops2) in
    PropSim.imm_of w q = Some x -> lookup (w_props w) q = Some pr ->
    PropCheck.den_node fn (values w) (b_root x) = Some z -> pr_value pr = z.
  Proof.
    intros Hok1 Hok2 w Hi Hq Hd.
    destruct (PropMove.grow3_coherent fn rtl fuel ops1 world0 PropGrow.SC_world0 (PropGrow.COH_world0 fn) (PropMove.NOEMIT_world0) Hok1) as [HSC HC].
    destruct (act2_coherent fuel ops2 _ (SCA_SCB _ (SC_SCA _ HSC)) HC Hok2) as [HSC2 HC2].
    unfold w, run in *. rewrite fold_left_app in *. eapply coherent_bound_equals_expression_act2; eauto.
  Qed.

  (* ------------------------------------------------------------------------------------------------------------------------------ *)
  (* growth in ANY order with writing observers of both signals *)
  Notation F1 := (PropSim.F1 fn).
  Notation F2 := (PropSim.F2 fn).
  Notation F3 := (PropSim.F3 fn).
  Notation abs_tree := PropSim.abs_tree.
  Notation Rel := PropSim.Rel.
  Notation ORD := PropSim.ORD.
  Notation imm := PropSim.imm.
  Notation imm_of := PropSim.imm_of.
  Notation SIMPLE := PropSim.SIMPLE.
  Notation ORD' := PropSimAct.ORD'.
  Notation GR := PropGrow.GR.

  (* no writing observer listens to valueAboutToChange of p *)
  Definition NAB (w : world) (p : nat) : Prop :=
    forall t pos ser label a, owns w p KAbout t -> ~ slot_at w t pos ser (SObs label (Some a)).
  Lemma NAB_ORDA w p : NAB w p -> PropSimAct2.ORDA w p = [].
  Proof.
    intros HN. unfold PropSimAct2.ORDA. destruct (pview w p) as [vq|] eqn:Pv; [|reflexivity]. destruct (ps_about vq) as [t|] eqn:Ea; [|reflexivity].
    destruct (tview w t) as [[[sl fr] al]|] eqn:Tv; [|reflexivity].
    assert (Ho : owns w p KAbout t) by (exists vq; auto).
    unfold PropSimAct2.ord_slotsA. induction (seq 0 (length sl)) as [|x r IH]; cbn [flat_map]; [reflexivity|]. rewrite IH, app_nil_r.
    unfold PropSimAct2.tgt_of. destruct (nth_error sl x) as [[[ser [label [[[|] tgt]|]|b' l]]|]|] eqn:Hx; try reflexivity.
    exfalso. apply (HN t x ser label (false, tgt) Ho). exists sl, fr, al. auto.
  Qed.
  (* building a tree keeps it *)
  Lemma NAB_GR w w1 p : GR w w1 -> pinv w1 -> SCB w -> NAB w p -> pview w p <> None -> NAB w1 p.
  Proof.
    intros (G1 & G2 & G3 & G4 & G5 & G6 & G7) Hinv1 (Hinv & Hna & Hsi) HN Hex t pos ser label a Ho1 Hs1.
    pose proof (G5 _ _ _ _ _ Hs1) as Hs. destruct (Hna t pos ser label a Hs) as (tgt & p0 & Ea & Hor).
    assert (Ho0 : exists k0, owns w p0 k0 t) by (destruct Hor as [Ho|[Ho _]]; eauto). destruct Ho0 as (k0 & Ho0).
    destruct (pi_owninj _ _ _ _ _ _ _ Hinv1 _ _ _ _ _ Ho1 (G6 _ _ _ Ho0)) as (<- & <-).
    exact (HN t pos ser label a Ho0 Hs).
  Qed.

  Lemma GR_SCB w w1 : GR w w1 -> pinv w1 -> SCB w -> SCB w1.
  Proof.
    intros (G1 & G2 & G3 & G4 & G5 & G6 & G7) Hinv1 (Hinv & Hna & Hsi). split; [exact Hinv1|]. split.
    - intros t pos ser label a Hs. destruct (Hna t pos ser label a (G5 _ _ _ _ _ Hs)) as (tgt & p & Ea & Hor). exists tgt, p. split; [exact Ea|].
      destruct Hor as [Ho|[Ho (u & Pu & Uu)]]; [left; exact (G6 _ _ _ Ho)|right; split; [exact (G6 _ _ _ Ho)|]].
      destruct Ho as (vv & Pv & Tv). rewrite Pu in Pv. inversion Pv; subst vv. destruct (G7 p u t Pu Tv) as (v1 & P1 & _ & U1). exists v1. split; [exact P1|congruence].
    - intros q x Hx. rewrite G1 in Hx. eauto.
  Qed.

  Lemma grow_new_b w p v :
    SCB w -> COH w -> lookup (w_props w) p = None ->
    let w' := set_props w (bind_key (w_props w) p (prop_new v)) in SCB w' /\ COH w'.
  Proof.
    intros (Hinv & Hna & Hsi) HC Hp w'.
    assert (Pn : pview w p = None) by (unfold pview; rewrite Hp; reflexivity).
    assert (IO : forall q, imm_of w' q = imm_of w q).
    { intros q. unfold PropSim.imm_of, w'; cbn [set_props w_props]. rewrite lookup_bind. destruct (Nat.eqb_spec q p) as [->|]; [rewrite Hp; reflexivity|reflexivity]. }
    assert (PV : forall p0 vv, pview w p0 = Some vv -> pview w' p0 = Some vv).
    { intros p0 vv Ev. unfold w'. rewrite pview_bind. destruct (Nat.eqb_spec p0 p) as [->|]; [congruence|exact Ev]. }
    split.
    - split; [apply pinv_new_prop; assumption|]. split.
      + intros t pos ser label a Hs. destruct (Hna t pos ser label a Hs) as (tgt & p0 & Ea & Hor). exists tgt, p0. split; [exact Ea|].
        destruct Hor as [(vv & Ev & Es)|[(vv & Ev & Es) (u & Pu & Uu)]]; [left; exists vv; split; [exact (PV _ _ Ev)|exact Es]|right; split; [exists vv; split; [exact (PV _ _ Ev)|exact Es]|exists u; split; [exact (PV _ _ Pu)|exact Uu]]].
      + intros q x Hx. rewrite IO in Hx. eauto.
    - destruct HC as (s & (R1 & R2 & R3) & HInv).
      assert (OR : forall p0 x, In x (ORD w p0) -> In x (ORD w' p0)).
      { intros p0 [q l] Hi. apply PropGrow.in_ORD in Hi. destruct Hi as (t & pos & ser & b & (vv & Ev & Es) & Hs & Hi). apply PropGrow.in_ORD.
        exists t, pos, ser, b. split; [|split; [exact Hs|exact Hi]]. exists vv. split; [exact (PV _ _ Ev)|exact Es]. }
      exists {| A.env := A.set_env (A.env s) p v; A.tr := A.tr s; A.oof := false |}. split.
      + split; [|split; [intros q; rewrite IO; apply R2|reflexivity]].
        intros p0 pr0 Hp0. unfold w' in Hp0; cbn [set_props w_props] in Hp0. rewrite lookup_bind in Hp0. cbn [A.env]. unfold A.set_env.
        destruct (Nat.eqb_spec p0 p) as [->|]; [inversion Hp0; reflexivity|auto].
      + apply (PropGrow.Inv_order_incl fn (ORD w)); [exact OR|].
        assert (Eo : ORD w p = []) by (unfold PropSim.ORD; rewrite Pn; reflexivity).
        pose proof (AP.Inv_env_change F1 F2 F3 (ORD w) s [] p v) as IE. rewrite Eo in IE. cbn [app] in IE. apply IE.
        * intros q t Ht. destruct (HInv q t Ht) as (A1 & A2 & A3 & A4). repeat split; auto.
        * intros t Ht. rewrite R2 in Ht. unfold PropSim.imm_of in Ht. rewrite Hp in Ht. discriminate Ht.
  Qed.

  Lemma assign_fresh_b fuel w p pr b xb T w' :
    SCB w -> COH w -> lookup (w_props w) p = Some pr -> pr_updater pr = None -> NAB w p ->
    get_bind w b = Some xb -> b_evp xb = 0 -> b_target xb = None -> (forall n, lookup (w_held w) n <> Some b) ->
    abs_tree (b_root xb) = Some T ->
    (forall s, Rel w s -> A.clean T /\ A.consis F1 F2 F3 (A.env s) [] p T /\ (forall p0 lid, In (p0, lid) (A.leaves T) -> values w p0 = Some (A.env s p0))) ->
    assign_binding fn rtl fuel w p b = (w', None) -> SCB w' /\ COH w'.
  Proof.
    intros (Hinv & Hna & Hsi) (s & HRel & HInv) Hp Hu Hab Hb Hevp Htg Hheld HT Htree H.
    destruct (Htree s HRel) as (HC & HN & HV). pose proof HRel as (R1 & R2 & R3).
    unfold assign_binding in H. rewrite Hp, Hu in H. cbn [ok] in H. rewrite Hp, Hb in H.
    set (w2 := set_props w (bind_key (w_props w) p (prop_set_updater pr (Some b)))) in *.
    set (xb3 := bind_with_target xb (Some p)) in *.
    set (w3 := put_bind w2 b xb3) in *.
    destruct (get_bind_lt _ _ _ Hb) as [Hlt Hal].
    assert (Bvb : bview w b = Some (leaves (b_root xb), None)) by (unfold bview; rewrite Hb, Htg; reflexivity).
    assert (HNT : NOTARGET p w).
    { intros b' ls E. destruct (pi_tgt _ _ _ _ _ _ _ Hinv _ _ _ E) as (vv & Ev & Eu). unfold pview in Ev. rewrite Hp in Ev. assert (vv = psigs_of pr) by congruence. subst vv. cbn in Eu. congruence. }
    assert (Hinv3 : pinv w3).
    { apply (install_updater w p pr b xb (leaves (b_root xb))); auto.
      eapply pinvg_mono; [| | | | | |exact Hinv]; cbv beta; try (intros x Hx; exact Hx); try (intros x Hx; exact (False_ind _ Hx)). }
    assert (V3 : forall q, values w3 q = values w q).
    { intros q. unfold values. change (w_props w3) with (w_props w2). unfold w2; cbn [set_props w_props]. rewrite lookup_bind.
      destruct (Nat.eqb_spec q p) as [->|]; [rewrite Hp; reflexivity|reflexivity]. }
    destruct (eval fn rtl (values w3) (b_root xb)) as [[t r] l] eqn:He. destruct r as [v|ex]; [|discriminate H].
    assert (HV3 : forall p0 lid, In (p0, lid) (A.leaves T) -> values w3 p0 = Some (A.env s p0)) by (intros; rewrite V3; eauto).
    destruct (sim_eval fn rtl (values w3) (A.env s) _ _ _ _ _ HT HV3 He) as [Et Ev]. rewrite (AP.eval_clean F1 F2 F3 (A.env s) T HC) in Et, Ev. cbn [fst snd] in Et, Ev.
    assert (Hden : v = A.den F1 F2 F3 (A.env s) T) by (rewrite Ev; apply (AP.val_den F1 F2 F3 (A.env s) [] p T HC HN); intros p0 lid _ []).
    assert (Hb3 : get_bind w3 b = Some xb3).
    { unfold get_bind, w3, put_bind; cbn [set_binds w_binds]. change (w_binds w2) with (w_binds w). rewrite nth_upd_same by exact Hlt.
      unfold xb3; cbn [bind_with_target b_alive]. rewrite Hal. reflexivity. }
    pose proof (leaves_eval fn rtl (values w3) (b_root xb)) as Hl. rewrite He in Hl. cbn [fst] in Hl.
    set (w4 := log_fns l (put_bind w3 b (bind_with_root xb3 t))) in *.
    assert (V34 : views_eq w3 w4).
    { eapply views_eq_trans; [apply (views_put_root w3 b xb3 t Hb3); exact Hl|apply views_log_fns]. }
    assert (Hinv4 : pinv w4) by (eapply pinv_views; eauto).
    (* the views of w4 in terms of w *)
    assert (G4 : forall b', get_bind w4 b' = if Nat.eqb b b' then Some (bind_with_root xb3 t) else get_bind w b').
    { intros b'. unfold w4. assert (E : forall w0, get_bind (log_fns l w0) b' = get_bind w0 b') by (clear; induction l as [|g r IH]; intros w0; cbn [log_fns]; [reflexivity|rewrite IH; reflexivity]).
      rewrite E. rewrite (get_bind_put_root _ _ _ _ _ Hb3). destruct (Nat.eqb_spec b b') as [<-|Hne]; [reflexivity|].
      unfold get_bind, w3, put_bind; cbn [set_binds w_binds]. change (w_binds w2) with (w_binds w). rewrite nth_upd_other by exact Hne. reflexivity. }
    assert (P4 : w_props w4 = w_props w2) by (unfold w4; rewrite PropProofs.log_fns_props; reflexivity).
    assert (L4 : forall q, lookup (w_props w4) q = if Nat.eqb q p then Some (prop_set_updater pr (Some b)) else lookup (w_props w) q).
    { intros q. rewrite P4. unfold w2; cbn [set_props w_props]. apply lookup_bind. }
    assert (T4 : forall t0, tview w4 t0 = tview w t0).
    { intros t0. destruct V34 as (_ & T34 & _). rewrite T34. reflexivity. }
    assert (I4 : forall b', imm w4 b' = if Nat.eqb b b' then Some p else imm w b').
    { intros b'. unfold imm. rewrite G4. destruct (Nat.eqb_spec b b') as [<-|]; [|reflexivity]. cbn [bind_with_root xb3 bind_with_target b_evp b_target]. rewrite Hevp. reflexivity. }
    assert (IO4 : forall q, imm_of w4 q = if Nat.eqb q p then Some (bind_with_root xb3 t) else imm_of w q).
    { intros q. unfold imm_of. rewrite L4. destruct (Nat.eqb_spec q p) as [->|Hne].
      - cbn [prop_set_updater pr_updater]. rewrite G4, Nat.eqb_refl. cbn [bind_with_root xb3 bind_with_target b_evp]. rewrite Hevp. reflexivity.
      - destruct (lookup (w_props w) q) as [pr'|] eqn:Hq; [|reflexivity]. destruct (pr_updater pr') as [b'|] eqn:Hu'; [|reflexivity]. rewrite G4.
        destruct (Nat.eqb_spec b b') as [<-|]; [|reflexivity]. exfalso.
        assert (Pv' : pview w q = Some (psigs_of pr')) by (unfold pview; rewrite Hq; reflexivity).
        destruct (pi_upd _ _ _ _ _ _ _ Hinv _ _ _ Pv' Hu' (fun z => z)) as (ls & Eb). congruence. }
    assert (O4 : forall p0 x, In x (ORD w p0) -> In x (ORD w4 p0)).
    { intros p0 [q l0] Hi. apply PropGrow.in_ORD in Hi. destruct Hi as (t0 & pos & ser & b' & (vv & Evv & Es) & Hs & Hi). apply PropGrow.in_ORD. exists t0, pos, ser, b'. split; [|split].
      - unfold owns, pview. rewrite L4. unfold pview in Evv. destruct (Nat.eqb_spec p0 p) as [->|]; [|exists vv; auto].
        rewrite Hp in Evv. assert (vv = psigs_of pr) by congruence. subst vv. eexists. split; [reflexivity|]. rewrite psig_set_updater. exact Es.
      - unfold slot_at. rewrite T4. exact Hs.
      - rewrite I4. destruct (Nat.eqb_spec b b') as [<-|]; [|exact Hi]. unfold imm in Hi. rewrite Hb, Hevp, Htg in Hi. discriminate Hi. }
    set (s4 := {| A.env := A.env s; A.tr := A.set_tr (A.tr s) p T; A.oof := false |}).
    assert (Rel4 : Rel w4 s4).
    { split; [|split; [|reflexivity]].
      - intros q prq Hq. rewrite L4 in Hq. cbn [s4 A.env]. destruct (Nat.eqb_spec q p) as [->|]; [|auto].
        inversion Hq; subst prq. cbn [prop_set_updater pr_value]. exact (R1 _ _ Hp).
      - intros q. cbn [s4 A.tr]. unfold A.set_tr. rewrite IO4. destruct (Nat.eqb_spec q p) as [->|]; [|apply R2].
        cbn [bind_with_root b_root]. symmetry. exact Et. }
    assert (SC4 : SCB w4).
    { split; [exact Hinv4|]. split.
      - assert (OW : forall p0 k0 t0, owns w p0 k0 t0 -> owns w4 p0 k0 t0).
        { intros p0 k0 t0 (vv & Evv & Es). unfold owns, pview. rewrite L4. unfold pview in Evv. destruct (Nat.eqb_spec p0 p) as [->|]; [|exists vv; auto].
          rewrite Hp in Evv. assert (vv = psigs_of pr) by congruence. subst vv. eexists. split; [reflexivity|]. rewrite psig_set_updater. exact Es. }
        intros t0 pos ser label act Hs. unfold slot_at in Hs. rewrite T4 in Hs. destruct (Hna t0 pos ser label act Hs) as (tgt & p0 & Ea & Hor).
        exists tgt, p0. split; [exact Ea|]. destruct Hor as [Ho|[Ho (u & Pu & Uu)]]; [left; exact (OW _ _ _ Ho)|right; split; [exact (OW _ _ _ Ho)|]].
        assert (Hne : p0 <> p).
        { intros ->. exact (Hab t0 pos ser label act Ho Hs). }
        exists u. split; [|exact Uu]. unfold pview in *. rewrite L4. destruct (Nat.eqb_spec p0 p); [contradiction|exact Pu].
      - intros q x Hx. rewrite IO4 in Hx. destruct (Nat.eqb_spec q p) as [->|]; [|eauto]. inversion Hx; subst x. cbn [bind_with_root b_root]. congruence. }
    destruct (sim_set2 fn rtl (ORD' w4) (PropSimAct2.ORDA w4) fuel w4 p v w' s4 SC4 (conj (fun _ => eq_refl) (fun _ => eq_refl)) Rel4 H) as (SC' & FR' & Rel').
    split; [exact SC'|].
    exists (C2.set2 F1 F2 F3 (ORD' w4) (PropSimAct2.ORDA w4) fuel s4 p v). split; [exact Rel'|].
    apply (PropGrow.Inv_order_incl fn (C.lorder (ORD' w4))); [intros p0 x Hi; rewrite (FR_ORD _ _ p0 FR'); rewrite lorder_ORD' in Hi; exact Hi|].
    (* everything but the value of p itself is in order *)
    assert (Pre : AP.PreInv F1 F2 F3 (C.lorder (ORD' w4)) s4 [] p).
    { intros q t0 Ht0. cbn [s4 A.tr A.env] in *. unfold A.set_tr in Ht0. destruct (Nat.eqb_spec q p) as [->|Hne].
      - inversion Ht0; subst t0. split; [exact HC|]. split; [exact HN|]. split; [intros Hx; contradiction|].
        intros p0 lid Hi. destruct (abs_leaf_in _ _ _ _ HT Hi) as (lf & Hlf & Htg0 & Hid).
        assert (Hl4 : has_leaf w4 b lf).
        { exists (leaves t), (Some p). split; [unfold bview; rewrite G4, Nat.eqb_refl; reflexivity|rewrite Hl; exact Hlf]. }
        destruct (pi_leafc _ _ _ _ _ _ _ Hinv4 _ _ _ Hl4 Htg0 (fun z => z)) as [Ho Hv]. rewrite lorder_ORD'. apply PropGrow.in_ORD.
        exists (h_table (lf_hc lf)), (h_pos (lf_hc lf)), (h_serial (lf_hc lf)), b. split; [exact Ho|]. split; [rewrite <- Hid; exact Hv|]. rewrite I4, Nat.eqb_refl. reflexivity.
      - destruct (HInv q t0 Ht0) as (A1 & A2 & A3 & A4). repeat split; auto. intros p0 lid Hi. rewrite lorder_ORD'. apply O4. apply A4. exact Hi. }
    assert (Hv : forall t0, A.tr s4 p = Some t0 -> A.nopend [] p t0 -> v = A.den F1 F2 F3 (A.env s4) t0).
    { intros t0 Ht0 _. cbn [s4 A.tr A.env] in *. unfold A.set_tr in Ht0. rewrite Nat.eqb_refl in Ht0. inversion Ht0; subst t0. exact Hden. }
    (* the fresh property p has no valueAboutToChange table: no about-phase *)
    assert (EA : PropSimAct2.ORDA w4 p = []).
    { apply NAB_ORDA. intros t0 pos ser label a (vv & Evv & Es) Hs4. unfold slot_at in Hs4. rewrite T4 in Hs4.
      apply (Hab t0 pos ser label a); [|exact Hs4]. unfold pview in Evv. rewrite L4, Nat.eqb_refl in Evv. inversion Evv; subst vv.
      exists (psigs_of pr). split; [unfold pview; rewrite Hp; reflexivity|]. rewrite psig_set_updater in Es. exact Es. }
    destruct fuel as [|fuel']; [destruct Rel' as (_ & _ & Q3); cbn in Q3; discriminate Q3|].
    cbn [C2.set2] in *. unfold C2.set_body2 in *. destruct (Z.eqb v (A.env s4 p)) eqn:Ez.
    - apply Z.eqb_eq in Ez. intros q t0 Ht0. destruct (Pre q t0 Ht0) as (A1 & A2 & A3 & A4). repeat split; auto.
      intros Hn. destruct (Nat.eq_dec q p) as [->|Hne]; [|auto]. rewrite <- Ez. apply Hv; assumption.
    - unfold C2.about_body2 in *. rewrite EA in *. cbn [fold_left] in *. change (A.oof s4) with false in *. cbv iota in *.
      pose proof (AP.Inv_env_change F1 F2 F3 (C.lorder (ORD' w4)) s4 [] p v Pre Hv) as IE.
      apply (proj2 (proj1 (proj2 (C2.both_ok F1 F2 F3 (ORD' w4) (PropSimAct2.ORDA w4) (S fuel'))))); [exact IE|]. destruct Rel' as (_ & _ & Q3). exact Q3.
  Qed.

  Lemma grow_bind_b fuel w p e w' :
    SCB w -> COH w -> lookup (w_props w) p = None ->
    step1 fn rtl fuel w (PBind p e MImmediate) = (w', None) -> SCB w' /\ COH w'.
  Proof.
    intros HSC HC Hp H. pose proof HSC as (Hinv & Hna & Hsi). cbn [step1] in H.
    destruct (make_binding fn rtl w e MImmediate) as [[w1 b]|x] eqn:Hm; [|discriminate H].
    destruct (PropGrow.make_binding_grow fn rtl _ _ _ _ Hinv Hm) as (G & Eb & xb & Hxb & Hevp & Htg & Htree).
    destruct (make_binding_pinv _ _ _ _ _ _ _ Hinv Hm) as (Hinv1 & _ & Hheld).
    assert (Vp : values w1 p = None) by (destruct G as (_ & _ & G3 & _); rewrite G3; unfold values; rewrite Hp; reflexivity).
    assert (Hp1 : lookup (w_props w1) p = None) by (unfold values in Vp; destruct (lookup (w_props w1) p); [discriminate Vp|reflexivity]).
    rewrite Hp1 in H.
    pose proof (GR_SCB _ _ G Hinv1 HSC) as SC1. pose proof (PropGrow.GR_COH fn _ _ G HC) as COH1.
    destruct (grow_new_b w1 p 0%Z SC1 COH1 Hp1) as (SCn & COHn).
    set (w1n := set_props w1 (bind_key (w_props w1) p (prop_new 0%Z))) in *.
    set (env0 := fun p0 => match values w p0 with Some v => v | None => 0%Z end).
    destruct (Htree env0 p) as (T & HT & _); [intros p0 v0 E; unfold env0; rewrite E; reflexivity|].
    apply (assign_fresh_b fuel w1n p (prop_new 0%Z) b xb T w' SCn COHn); auto.
    - unfold w1n; cbn [set_props w_props]. apply lookup_bind_same.
    - (* a freshly created property has no valueAboutToChange table at all *)
      intros t pos ser label a (vv & Evv & Es) _. unfold pview, w1n in Evv; cbn [set_props w_props] in Evv. rewrite lookup_bind_same in Evv.
      inversion Evv; subst vv. discriminate Es.
    - intros s (R1 & R2 & R3).
      destruct (Htree (A.env s) p) as (T' & HT' & C' & N' & V').
      { intros p0 v0 E. destruct G as (_ & _ & G3 & _). rewrite <- G3 in E. apply PropGrow.values_lookup in E. destruct E as (pr0 & Hp0 & Ev).
        assert (Hne : p0 <> p) by (intros ->; congruence).
        rewrite <- Ev. apply R1. unfold w1n; cbn [set_props w_props]. rewrite lookup_bind_other by exact Hne. exact Hp0. }
      assert (T' = T) by congruence. subst T'. split; [exact C'|]. split; [exact N'|].
      intros p0 lid Hi. specialize (V' p0 lid Hi). assert (Hne : p0 <> p) by (intros ->; congruence).
      unfold values, w1n; cbn [set_props w_props]. rewrite lookup_bind_other by exact Hne. exact V'.
  Qed.

  (* binding an EXISTING unbound property (it may have readers and observers, but no writing observer of valueAboutToChange) *)
  Lemma grow_bind_unbound_b fuel w p pr e w' :
    SCB w -> COH w -> lookup (w_props w) p = Some pr -> pr_updater pr = None -> NAB w p ->
    step1 fn rtl fuel w (PBind p e MImmediate) = (w', None) -> SCB w' /\ COH w'.
  Proof.
    intros HSC HC Hp Hu HN H. pose proof HSC as (Hinv & Hna & Hsi). cbn [step1] in H.
    destruct (make_binding fn rtl w e MImmediate) as [[w1 b]|x] eqn:Hm; [|discriminate H].
    destruct (PropGrow.make_binding_grow fn rtl _ _ _ _ Hinv Hm) as (G & Eb & xb & Hxb & Hevp & Htg & Htree).
    destruct (make_binding_pinv _ _ _ _ _ _ _ Hinv Hm) as (Hinv1 & _ & Hheld).
    pose proof (PropGrowMore.make_binding_updaters fn rtl _ _ _ _ _ Hinv Hm p) as Eu.
    assert (Pp : pview w p = Some (psigs_of pr)) by (unfold pview; rewrite Hp; reflexivity). rewrite Pp in Eu. cbn in Eu.
    destruct (lookup (w_props w1) p) as [pr1|] eqn:Hp1; [|unfold pview in Eu; rewrite Hp1 in Eu; discriminate Eu].
    assert (Hu1 : pr_updater pr1 = None) by (unfold pview in Eu; rewrite Hp1 in Eu; cbn in Eu; congruence).
    pose proof (GR_SCB _ _ G Hinv1 HSC) as SC1. pose proof (PropGrow.GR_COH fn _ _ G HC) as COH1.
    assert (HN1 : NAB w1 p) by (apply (NAB_GR w w1 p G Hinv1 HSC HN); rewrite Pp; discriminate).
    set (env0 := fun p0 => match values w p0 with Some v => v | None => 0%Z end).
    destruct (Htree env0 p) as (T & HT & _); [intros p0 v0 E; unfold env0; rewrite E; reflexivity|].
    apply (assign_fresh_b fuel w1 p pr1 b xb T w' SC1 COH1); auto.
    intros s (R1 & R2 & R3).
    destruct (Htree (A.env s) p) as (T' & HT' & C' & N' & V').
    { intros p0 v0 E. destruct G as (_ & _ & G3 & _). rewrite <- G3 in E. apply PropGrow.values_lookup in E. destruct E as (pr0 & Hp0 & Ev). rewrite <- Ev. apply R1. exact Hp0. }
    assert (T' = T) by congruence. subst T'. auto.
  Qed.

  Definition bound_b (w : world) (p : nat) : bool :=
    match lookup (w_props w) p with Some pr => match pr_updater pr with Some _ => true | None => false end | None => false end.
  Definition nab_b (w : world) (p : nat) : bool :=
    match lookup (w_props w) p with
    | Some pr => match pr_about pr with
                 | Some t => match get_table w t with
                             | Some tb => forallb (fun x => match x with Some (_, SObs _ (Some _)) => false | _ => true end) (t_slots tb)
                             | None => true end
                 | None => true end
    | None => true end.
  Lemma nab_b_sound w p : nab_b w p = true -> NAB w p.
  Proof.
    unfold nab_b. intros H t pos ser label a (vv & Evv & Es) (sl & fr & al & Et & En). unfold pview in Evv.
    destruct (lookup (w_props w) p) as [pr|]; [|discriminate Evv]. inversion Evv; subst vv. cbn in Es. rewrite Es in H.
    unfold tview in Et. destruct (get_table w t) as [tb|]; [|discriminate Et]. inversion Et; subst sl fr al.
    rewrite forallb_forall in H. specialize (H _ (nth_error_In _ _ En)). discriminate H.
  Qed.

  Lemma grow_reset_b fuel w p w' :
    SCB w -> COH w -> step1 fn rtl fuel w (PReset p) = (w', None) -> SCB w' /\ COH w'.
  Proof.
    intros (Hinv & Hna & Hsi) (s & (R1 & R2 & R3) & HInv) H. pose proof H as H0. cbn [step1] in H.
    destruct (lookup (w_props w) p) as [pr|] eqn:Hp; [|discriminate H].
    destruct (pr_updater pr) as [b|] eqn:Hu.
    2:{ inversion H; subst. split; [exact (conj Hinv (conj Hna Hsi))|]. exists s. split; [exact (conj R1 (conj R2 R3))|exact HInv]. }
    destruct (destroy_binding w b) as [w2 [ex|]] eqn:Hd; [discriminate H|].
    destruct (reset_pinv _ _ _ _ _ Hinv Hp Hu Hd) as (Hp2 & Hinv' & Hns & Hb2 & Hbo & Hpr & Hlen). rewrite Hp2 in H. inversion H; subst w'; clear H.
    set (w' := set_props w2 (bind_key (w_props w2) p (prop_set_updater pr None))) in *.
    destruct (destroy_binding_pinvg _ _ _ _ _ _ _ _ _ Hinv (fun z => z) Hd) as (_ & _ & _ & _ & _ & _ & _ & _ & _ & Hsl & _).
    pose proof (PropGrowMore.destroy_binding_get_bind _ _ _ _ Hd) as Gb.
    assert (Pq : pview w p = Some (psigs_of pr)) by (unfold pview; rewrite Hp; reflexivity).
    destruct (pi_upd _ _ _ _ _ _ _ Hinv _ _ _ Pq Hu (fun z => z)) as (lsb & Ebw).
    assert (IO : forall q, imm_of w' q = if Nat.eqb q p then None else imm_of w q).
    { assert (Gw : forall b', get_bind w' b' = get_bind w2 b') by reflexivity.
      intros q. unfold imm_of. change (w_props w') with (bind_key (w_props w2) p (prop_set_updater pr None)). rewrite lookup_bind. destruct (Nat.eqb_spec q p) as [->|Hne]; [reflexivity|].
      rewrite Hpr. destruct (lookup (w_props w) q) as [pr'|] eqn:Hq; [|reflexivity]. destruct (pr_updater pr') as [b'|] eqn:Hu'; [|reflexivity].
      rewrite Gw, Gb; [reflexivity|]. intros ->.
      assert (Pq' : pview w q = Some (psigs_of pr')) by (unfold pview; rewrite Hq; reflexivity).
      destruct (pi_upd _ _ _ _ _ _ _ Hinv _ _ _ Pq' Hu' (fun z => z)) as (ls & Eb). congruence. }
    set (s' := {| A.env := A.env s; A.tr := fun q => if Nat.eqb q p then None else A.tr s q; A.oof := false |}).
    assert (Rel' : Rel w' s').
    { split; [|split; [|reflexivity]].
      - intros q prq Hq. unfold w' in Hq; cbn [set_props w_props] in Hq. rewrite lookup_bind, Hpr in Hq. cbn [s' A.env].
        destruct (Nat.eqb_spec q p) as [->|]; [inversion Hq; subst prq; exact (R1 _ _ Hp)|auto].
      - intros q. cbn [s' A.tr]. rewrite IO. destruct (Nat.eqb q p); [reflexivity|apply R2]. }
    split.
    - split; [exact Hinv'|]. split.
      + assert (PVW : forall p0 vv, pview w p0 = Some vv -> exists vv', pview w' p0 = Some vv' /\ (forall k0, psig vv' k0 = psig vv k0) /\ (ps_updater vv = None -> ps_updater vv' = None)).
        { intros p0 vv Ev. unfold pview in *. change (w_props w') with (bind_key (w_props w2) p (prop_set_updater pr None)). rewrite lookup_bind.
          destruct (Nat.eqb_spec p0 p) as [->|Hne].
          - rewrite Hp in Ev. inversion Ev; subst vv. eexists. split; [reflexivity|]. split; [intros k0; apply psig_set_updater|intros _; reflexivity].
          - rewrite Hpr. exists vv. auto. }
        intros t pos ser label a Hs. change (slot_at w2 t pos ser (SObs label (Some a))) in Hs. destruct (Hna t pos ser label a (Hsl _ _ _ _ Hs)) as (tgt & p0 & Ea & Hor).
        exists tgt, p0. split; [exact Ea|].
        destruct Hor as [(vv & Ev & Es)|[(vv & Ev & Es) (u & Pu & Uu)]].
        * left. destruct (PVW _ _ Ev) as (vv' & Ev' & Es' & _). exists vv'. split; [exact Ev'|rewrite Es'; exact Es].
        * right. destruct (PVW _ _ Ev) as (vv' & Ev' & Es' & Eu'). split; [exists vv'; split; [exact Ev'|rewrite Es'; exact Es]|].
          exists vv'. split; [exact Ev'|]. apply Eu'. rewrite Pu in Ev. inversion Ev; subst. exact Uu.
      + intros q x Hx. rewrite IO in Hx. destruct (Nat.eqb q p); [discriminate Hx|eauto].
    - exists s'. split; [exact Rel'|]. apply (PropGrowMore.Inv_from_parts fn); [exact Hinv'|exact Rel'|].
      intros q t Ht. cbn [s' A.tr A.env] in *. destruct (Nat.eqb q p); [discriminate Ht|]. destruct (HInv q t Ht) as (A1 & A2 & A3 & _). auto.
  Qed.

  Lemma grow_rebind_b fuel w p pr old e w' :
    SCB w -> COH w -> lookup (w_props w) p = Some pr -> pr_updater pr = Some old ->
    step1 fn rtl fuel w (PBind p e MImmediate) = (w', None) -> SCB w' /\ COH w'.
  Proof.
    intros HSC HC Hp Hu H. pose proof HSC as (Hinv & Hna & Hsi). cbn [step1] in H.
    destruct (make_binding fn rtl w e MImmediate) as [[w1 b]|x] eqn:Hm; [|discriminate H].
    destruct (PropGrow.make_binding_grow fn rtl _ _ _ _ Hinv Hm) as (G & Eb & xb & Hxb & Hevp & Htg & Htree).
    destruct (make_binding_pinv _ _ _ _ _ _ _ Hinv Hm) as (Hinv1 & _ & Hheld).
    pose proof (PropGrowMore.make_binding_updaters fn rtl _ _ _ _ _ Hinv Hm p) as Eu.
    assert (Pp : pview w p = Some (psigs_of pr)) by (unfold pview; rewrite Hp; reflexivity). rewrite Pp in Eu. cbn in Eu.
    destruct (lookup (w_props w1) p) as [pr1|] eqn:Hp1; [|unfold pview in Eu; rewrite Hp1 in Eu; discriminate Eu].
    assert (Hu1 : pr_updater pr1 = Some old) by (unfold pview in Eu; rewrite Hp1 in Eu; cbn in Eu; congruence).
    pose proof (GR_SCB _ _ G Hinv1 HSC) as SC1. pose proof (PropGrow.GR_COH fn _ _ G HC) as COH1.
    (* the replaced binding goes first: exactly what reset() does *)
    destruct (destroy_binding w1 old) as [w2 [ex|]] eqn:Hd.
    { unfold assign_binding in H. rewrite Hp1, Hu1, Hd in H. discriminate H. }
    assert (Hpr2 : w_props w2 = w_props w1) by (pose proof (PropProofs.destroy_binding_props w1 old) as [E _]; rewrite Hd in E; exact E).
    assert (Hne : b <> old).
    { intros ->. assert (P1 : pview w1 p = Some (psigs_of pr1)) by (unfold pview; rewrite Hp1; reflexivity).
      destruct (pi_upd _ _ _ _ _ _ _ Hinv1 _ _ _ P1 Hu1 (fun z => z)) as (ls & E). unfold bview in E. rewrite Hxb, Htg in E. discriminate E. }
    assert (Hb2 : get_bind w2 b = Some xb) by (rewrite (PropGrowMore.destroy_binding_get_bind _ _ _ _ Hd b Hne); exact Hxb).
    rewrite (PropGrowMore.assign_over_bound fn rtl fuel w1 p pr1 old w2 b xb Hp1 Hu1 Hd Hpr2 Hb2) in H.
    set (wr := set_props w2 (bind_key (w_props w2) p (prop_set_updater pr1 None))) in *.
    assert (Hreset : step1 fn rtl fuel w1 (PReset p) = (wr, None)).
    { cbn [step1]. rewrite Hp1, Hu1, Hd. rewrite Hpr2, Hp1. unfold wr. rewrite Hpr2. reflexivity. }
    destruct (grow_reset_b fuel w1 p wr SC1 COH1 Hreset) as [SCr COHr].
    assert (Hbr : get_bind wr b = Some xb) by exact Hb2.
    assert (Hheldr : forall n, lookup (w_held wr) n <> Some b).
    { pose proof (PropProofs.destroy_binding_props w1 old) as _. intros n. change (w_held wr) with (w_held w2).
      destruct (destroy_binding_pinvg _ _ _ _ _ _ _ _ _ Hinv1 (fun z => z) Hd) as (_ & _ & _ & _ & _ & _ & E & _). rewrite E. apply Hheld. }
    assert (Vr : forall q, values wr q = values w1 q).
    { intros q. unfold values, wr; cbn [set_props w_props]. rewrite lookup_bind, Hpr2. destruct (Nat.eqb_spec q p) as [->|]; [rewrite Hp1; reflexivity|reflexivity]. }
    set (env0 := fun p0 => match values w p0 with Some v => v | None => 0%Z end).
    destruct (Htree env0 p) as (T & HT & _); [intros p0 v0 E; unfold env0; rewrite E; reflexivity|].
    (* the property was bound: no writing observer listens to its valueAboutToChange *)
    assert (HNr : NAB wr p).
    { intros t pos ser label a (vv & Evv & Es) Hs.
      assert (Ho1 : owns w1 p KAbout t).
      { unfold pview, wr in Evv; cbn [set_props w_props] in Evv. rewrite lookup_bind_same in Evv. inversion Evv; subst vv. rewrite psig_set_updater in Es.
        exists (psigs_of pr1). split; [unfold pview; rewrite Hp1; reflexivity|exact Es]. }
      destruct (destroy_binding_pinvg _ _ _ _ _ _ _ _ _ Hinv1 (fun z => z) Hd) as (_ & _ & _ & _ & _ & _ & _ & _ & _ & Hsl & _).
      assert (Hs1 : slot_at w1 t pos ser (SObs label (Some a))) by (apply Hsl; exact Hs).
      destruct SC1 as (_ & Hna1 & _). destruct (Hna1 t pos ser label a Hs1) as (tgt & p0 & _ & Hor).
      destruct Hor as [Hc|[Hab (u & Pu & Uu)]].
      - destruct (pi_owninj _ _ _ _ _ _ _ Hinv1 _ _ _ _ _ Ho1 Hc) as (_ & E). discriminate E.
      - destruct (pi_owninj _ _ _ _ _ _ _ Hinv1 _ _ _ _ _ Ho1 Hab) as (E & _). subst p0. unfold pview in Pu. rewrite Hp1 in Pu. inversion Pu; subst u. cbn in Uu. congruence. }
    apply (assign_fresh_b fuel wr p (prop_set_updater pr1 None) b xb T w' SCr COHr); auto.
    - unfold wr; cbn [set_props w_props]. apply lookup_bind_same.
    - intros s (R1 & R2 & R3).
      destruct (Htree (A.env s) p) as (T' & HT' & C' & N' & V').
      { intros p0 v0 E. destruct G as (_ & _ & G3 & _). rewrite <- G3, <- Vr in E. apply PropGrow.values_lookup in E. destruct E as (pr0 & Hp0 & Ev). rewrite <- Ev. apply R1. exact Hp0. }
      assert (T' = T) by congruence. subst T'. split; [exact C'|]. split; [exact N'|]. intros p0 lid Hi. rewrite Vr. exact (V' p0 lid Hi).
  Qed.

  (* move construction of ANY property while writing observers exist: the three public signals - with every observer - now belong to the
     destination, which takes the updater too, so "listens to valueChanged of some property / to valueAboutToChange of an unbound one"
     survives with the source renamed to the destination *)
  Lemma grow_movector_b fuel w src dst w' :
    SCB w -> COH w -> NOEMIT w -> step1 fn rtl fuel w (PMoveCtor src dst) = (w', None) -> SCB w' /\ COH w'.
  Proof.
    intros (Hinv & Hna & Hsi) (s & HRel & HInv) HNE H.
    pose proof (PropLinkMove.movector_pinv fn rtl fuel w src dst w' None Hinv HNE H I) as Hinv'.
    destruct (PropMove.movector_shape fn rtl fuel w src dst w' Hinv HNE H) as (s0 & dn & sn & Hs & Hd & Hne & Vd & Ud & Vs & Us & PW & Sw & HB & SIG & _).
    destruct SIG as (Sa & Sc & Sd & _).
    destruct (PropMove.coh_renamed_core fn w w' s src dst s0 dn sn Hinv Hsi HRel HInv Hinv' Hne Hs) as [Hsi' HC']; auto.
    { intros b lf Hl Ht. apply (pi_leafx _ _ _ _ _ _ _ Hinv _ _ _ Hl Ht). unfold pview. rewrite Hd. reflexivity. }
    { intros t pos ser s1 Hsl. apply Sw. exact Hsl. }
    { intros b _. apply HB. }
    split; [|exact HC']. split; [exact Hinv'|split; [|exact Hsi']].
    assert (OW : forall p k t, (k = KChanged \/ k = KAbout) -> owns w p k t -> owns w' (PropMove.rn src dst p) k t).
    { intros p k t Hk (vv & Ev & Es). unfold owns, pview, PropMove.rn in *. destruct (lookup (w_props w) p) as [pr0|] eqn:Hp0; [|discriminate Ev]. inversion Ev; subst vv.
      destruct (Nat.eqb_spec p src) as [->|Hps].
      - rewrite Hs in Hp0. inversion Hp0; subst pr0. rewrite PW, Nat.eqb_refl. eexists. split; [reflexivity|].
        destruct Hk as [->| ->]; cbn in *; congruence.
      - assert (Hpd : p <> dst) by (intros ->; congruence). rewrite PW. destruct (Nat.eqb_spec p dst); [contradiction|]. destruct (Nat.eqb_spec p src); [contradiction|].
        rewrite Hp0. eexists. split; [reflexivity|exact Es]. }
    assert (UB : forall p, PropSimAct2.unbound w p -> PropSimAct2.unbound w' (PropMove.rn src dst p)).
    { intros p (vv & Ev & Uv). unfold PropSimAct2.unbound, pview, PropMove.rn in *. destruct (lookup (w_props w) p) as [pr0|] eqn:Hp0; [|discriminate Ev]. inversion Ev; subst vv.
      destruct (Nat.eqb_spec p src) as [->|Hps].
      - rewrite Hs in Hp0. inversion Hp0; subst pr0. rewrite PW, Nat.eqb_refl. eexists. split; [reflexivity|]. cbn in *. congruence.
      - assert (Hpd : p <> dst) by (intros ->; congruence). rewrite PW. destruct (Nat.eqb_spec p dst); [contradiction|]. destruct (Nat.eqb_spec p src); [contradiction|].
        rewrite Hp0. eexists. split; [reflexivity|exact Uv]. }
    intros t pos ser label a Hsl. apply Sw in Hsl. destruct (Hna t pos ser label a Hsl) as (tgt & p & Ea & Hor). exists tgt, (PropMove.rn src dst p). split; [exact Ea|].
    destruct Hor as [Ho|[Ho Hu]]; [left; apply OW; auto|right; split; [apply OW; auto|apply UB; exact Hu]].
  Qed.

  (* move assignment over a destination that no live binding reads, while writing observers exist: the source's observers (writing ones
     included) now belong to the destination, those of the overwritten destination are gone with its dead tables *)
  Lemma grow_moveassign_b fuel w dst src w' :
    SCB w -> COH w -> NOEMIT w -> (forall b lf, has_leaf w b lf -> lf_tg lf <> Some dst) ->
    step1 fn rtl fuel w (PMoveAssign dst src) = (w', None) -> SCB w' /\ COH w'.
  Proof.
    intros (Hinv & Hna & Hsi) (s & HRel & HInv) HNE Hnr H.
    pose proof (PropLinkMove.moveassign_pinv fn rtl fuel w dst src w' None Hinv HNE H I) as Hinv'.
    destruct (PropMove.moveassign_shape2 fn rtl fuel w dst src w' Hinv HNE Hnr H) as (s0 & d0 & dn & sn & Hs & Hd & Hne & Vd & Ud & Vs & Us & PW & Sw & HB & _ & _ & _ & (Sa & Sc) & DD).
    destruct (PropMove.coh_renamed_core fn w w' s src dst s0 dn sn Hinv Hsi HRel HInv Hinv' Hne Hs) as [Hsi' HC']; auto.
    { intros b Hb. apply HB. apply Hb. exact Hd. }
    split; [|exact HC']. split; [exact Hinv'|split; [|exact Hsi']].
    assert (OW : forall p k t, (k = KChanged \/ k = KAbout) -> p <> dst -> owns w p k t -> owns w' (PropMove.rn src dst p) k t).
    { intros p k t Hk Hpd (vv & Ev & Es). unfold owns, pview, PropMove.rn in *. destruct (lookup (w_props w) p) as [pr0|] eqn:Hp0; [|discriminate Ev]. inversion Ev; subst vv.
      destruct (Nat.eqb_spec p src) as [->|Hps].
      - rewrite Hs in Hp0. inversion Hp0; subst pr0. rewrite PW, Nat.eqb_refl. eexists. split; [reflexivity|].
        destruct Hk as [->| ->]; cbn in *; congruence.
      - rewrite PW. destruct (Nat.eqb_spec p dst); [contradiction|]. destruct (Nat.eqb_spec p src); [contradiction|].
        rewrite Hp0. eexists. split; [reflexivity|exact Es]. }
    assert (UB : forall p, p <> dst -> PropSimAct2.unbound w p -> PropSimAct2.unbound w' (PropMove.rn src dst p)).
    { intros p Hpd (vv & Ev & Uv). unfold PropSimAct2.unbound, pview, PropMove.rn in *. destruct (lookup (w_props w) p) as [pr0|] eqn:Hp0; [|discriminate Ev]. inversion Ev; subst vv.
      destruct (Nat.eqb_spec p src) as [->|Hps].
      - rewrite Hs in Hp0. inversion Hp0; subst pr0. rewrite PW, Nat.eqb_refl. eexists. split; [reflexivity|]. cbn in *. congruence.
      - rewrite PW. destruct (Nat.eqb_spec p dst); [contradiction|]. destruct (Nat.eqb_spec p src); [contradiction|].
        rewrite Hp0. eexists. split; [reflexivity|exact Uv]. }
    intros t pos ser label a Hsl. pose proof (Sw _ _ _ _ Hsl) as Hs0. destruct (Hna t pos ser label a Hs0) as (tgt & p & Ea & Hor).
    assert (Hpd : p <> dst).
    { intros ->. destruct Hsl as (sl & fr & al & Et & En).
      assert (Ht : pr_changed d0 = Some t \/ pr_about d0 = Some t).
      { destruct Hor as [(vv & Ev & Es)|[(vv & Ev & Es) _]]; unfold pview in Ev; rewrite Hd in Ev; inversion Ev; subst vv; cbn in Es; auto. }
      destruct (DD t Ht) as (sl1 & fr1 & E1). rewrite E1 in Et. inversion Et; subst sl1 fr1 al.
      pose proof (pi_dead _ _ _ _ _ _ _ Hinv' _ _ _ _ _ E1 En) as E. discriminate E. }
    exists tgt, (PropMove.rn src dst p). split; [exact Ea|].
    destruct Hor as [Ho|[Ho Hu]]; [left; apply OW; auto|right; split; [apply OW; auto|apply UB; auto]].
  Qed.

  (* after ~Property the tables of the public change signals of the dead property are dead *)
  Lemma del_dead fuel w p pr w' :
    lookup (w_props w) p = Some pr -> step1 fn rtl fuel w (PDel p) = (w', None) ->
    forall t, (pr_changed pr = Some t \/ pr_about pr = Some t) -> forall sl fr al, tview w' t = Some (sl, fr, al) -> al = false.
  Proof.
    intros Hp H t Ht sl fr al Hv. cbn [step1] in H. unfold destroy_prop in H. rewrite Hp in H.
    destruct (emit fn rtl (set_helper fn rtl fuel) w (pr_destroyed pr) p KDestroyed []) as [w1 [e|]]; [discriminate H|].
    destruct (match pr_updater pr with Some b => destroy_binding w1 b | None => ok w1 end) as [w2 [e|]]; [discriminate H|].
    destruct (kill_table w2 (pr_destroyed pr)) as [w3 [e|]] eqn:K3; [discriminate H|].
    destruct (kill_table w3 (pr_moved pr)) as [w4 [e|]] eqn:K4; [discriminate H|].
    destruct (kill_table w4 (pr_changed pr)) as [w5 [e|]] eqn:K5; [discriminate H|].
    destruct (kill_table w5 (pr_about pr)) as [w6 [e|]] eqn:K6; [discriminate H|]. inversion H; subst w'; clear H.
    change (tview w6 t = Some (sl, fr, al)) in Hv.
    destruct (kill_tview w5 _ w6 K6 t sl fr al Hv) as [A6 B6].
    destruct Ht as [Hc|Ha]; [|exact (A6 Ha)].
    (* the valueChanged table was killed one step earlier and stays dead *)
    destruct (tview w5 t) as [[[sl5 fr5] al5]|] eqn:T5.
    - destruct (kill_tview w4 _ w5 K5 t sl5 fr5 al5 T5) as [A5 _]. apply (B6 sl5 fr5). rewrite (A5 Hc). reflexivity.
    - (* no such table before the last step: the last step does not create one *)
      exfalso. unfold kill_table in K6. destruct (pr_about pr) as [ta|]; [|inversion K6; subst w6; congruence].
      destruct (get_table w5 ta) as [tb|] eqn:Hg; [|inversion K6; subst w6; congruence].
      destruct (t_emitting tb); [discriminate K6|]. inversion K6; subst w6. rewrite tview_put_table in Hv.
      destruct (Nat.eqb_spec ta t) as [<-|Hne]; [unfold tview in T5; rewrite Hg in T5; discriminate T5|congruence].
  Qed.

  (* destruction of a property that no live binding reads, while writing observers exist: its observers die with its tables *)
  Lemma grow_del_b fuel w p w' :
    SCB w -> COH w -> (forall b lf, has_leaf w b lf -> lf_tg lf <> Some p) ->
    step1 fn rtl fuel w (PDel p) = (w', None) -> SCB w' /\ COH w'.
  Proof.
    intros (Hinv & Hna & Hsi) HC Hnr H.
    pose proof (destroy_prop_pinv fn rtl fuel w p w' None Hinv H I) as Hinv'.
    destruct (PropGrowMore.grow_del_core fn rtl fuel w p w' Hinv Hsi HC Hnr H) as (Hsi' & HC' & Sw & Pw).
    split; [|exact HC']. split; [exact Hinv'|split; [|exact Hsi']].
    assert (Hp : exists pr, lookup (w_props w) p = Some pr).
    { cbn [step1] in H. unfold destroy_prop in H. destruct (lookup (w_props w) p) as [pr|]; [exists pr; reflexivity|discriminate H]. }
    destruct Hp as (pr & Hp).
    assert (PV : forall p0 vv, p0 <> p -> pview w p0 = Some vv -> pview w' p0 = Some vv).
    { intros p0 vv Hne Ev. unfold pview in *. rewrite Pw, lookup_remove_other by exact Hne. exact Ev. }
    intros t pos ser label a Hsl. pose proof (Sw _ _ _ _ Hsl) as Hs0. destruct (Hna t pos ser label a Hs0) as (tgt & p0 & Ea & Hor).
    assert (Hne : p0 <> p).
    { intros ->. destruct Hsl as (sl & fr & al & Et & En).
      assert (Hal : al = false).
      { refine (del_dead fuel w p pr w' Hp H t _ sl fr al Et).
        destruct Hor as [(vv & Ev & Es)|[(vv & Ev & Es) _]]; unfold pview in Ev; rewrite Hp in Ev; inversion Ev; subst vv; cbn in Es; auto. }
      subst al. pose proof (pi_dead _ _ _ _ _ _ _ Hinv' _ _ _ _ _ Et En) as E. discriminate E. }
    exists tgt, p0. split; [exact Ea|].
    destruct Hor as [(vv & Ev & Es)|[(vv & Ev & Es) (u & Pu & Uu)]]; [left; exists vv; split; [exact (PV _ _ Hne Ev)|exact Es]|right; split; [exists vv; split; [exact (PV _ _ Hne Ev)|exact Es]|exists u; split; [exact (PV _ _ Hne Pu)|exact Uu]]].
  Qed.

  Definition grow_act2_op (w : world) (o : op) : Prop :=
    match o with
    | PNew _ _ => True
    | PBind p _ MImmediate => lookup (w_props w) p = None \/ (unbound_b w p = true /\ nab_b w p = true) \/ bound_b w p = true
    | PReset _ => True
    | PMoveCtor _ _ => True
    | PDel p => PropGrowMore.no_reader_b w p = true
    | PMoveAssign dst _ => PropGrowMore.no_reader_b w dst = true
    | _ => act2_op w o
    end.

  Theorem grow_act2_step fuel w o w' : SCB w -> COH w -> NOEMIT w -> grow_act2_op w o -> step1 fn rtl fuel w o = (w', None) -> SCB w' /\ COH w'.
  Proof.
    intros HSC HC HNE Ho H. destruct o; cbn [grow_act2_op] in Ho; try (exact (act2_step fuel w _ w' HSC HC Ho H)).
    - (* PNew *) cbn [step1] in H. destruct (lookup (w_props w) p) eqn:Hp; [discriminate H|]. inversion H; subst w'. apply grow_new_b; assumption.
    - (* PDel *) apply (grow_del_b fuel w p w' HSC HC (PropGrowMore.no_reader_sound w p Ho) H).
    - (* PBind *) destruct m; [|destruct Ho]. destruct Ho as [Ho|[[Hub Hnb]|Hbd]]; [apply (grow_bind_b fuel w p e w'); assumption| |].
      + unfold unbound_b in Hub. destruct (lookup (w_props w) p) as [pr|] eqn:Hp; [|discriminate Hub]. destruct (pr_updater pr) eqn:Hu; [discriminate Hub|].
        apply (grow_bind_unbound_b fuel w p pr e w' HSC HC Hp Hu (nab_b_sound w p Hnb) H).
      + unfold bound_b in Hbd. destruct (lookup (w_props w) p) as [pr|] eqn:Hp; [|discriminate Hbd]. destruct (pr_updater pr) as [old|] eqn:Hu; [|discriminate Hbd].
        apply (grow_rebind_b fuel w p pr old e w' HSC HC Hp Hu H).
    - (* PReset *) apply (grow_reset_b fuel w p w'); assumption.
    - (* PMoveCtor *) apply (grow_movector_b fuel w src dst w'); assumption.
    - (* PMoveAssign *) apply (grow_moveassign_b fuel w dst src w' HSC HC HNE (PropGrowMore.no_reader_sound w dst Ho) H).
  Qed.

  Fixpoint grow_act2_run_ok (fuel : nat) (w : world) (ops : list op) : Prop :=
    match ops with
    | [] => True
    | o :: r => grow_act2_op w o /\ snd (step1 fn rtl fuel w o) = None /\ grow_act2_run_ok fuel (step fn rtl fuel w o) r
    end.

  Theorem grow_act2_coherent fuel : forall ops w, SCB w -> COH w -> NOEMIT w -> grow_act2_run_ok fuel w ops ->
    SCB (fold_left (step fn rtl fuel) ops w) /\ COH (fold_left (step fn rtl fuel) ops w).
  Proof.
    induction ops as [|o r IH]; intros w HSC HC HNE Hok; cbn [fold_left]; [auto|]. destruct Hok as (Ho & Hn & Hr).
    pose proof (step_noemit fn rtl fuel w o HNE) as HNE1.
    unfold step in *. destruct (step1 fn rtl fuel w o) as [w1 e] eqn:E. cbn [snd] in Hn. subst e.
    destruct (grow_act2_step fuel w o w1 HSC HC HNE Ho E) as [SC1 COH1].
    apply IH; [apply SCB_log; exact SC1|exact COH1|exact HNE1|exact Hr].
  Qed.

  (* C02 for networks growing in ANY order with writing observers of both signals *)
  Theorem grow_act2_reachable_consistent fuel ops q x pr z :
    grow_act2_run_ok fuel world0 ops ->
    let w := run fn rtl fuel ops in
    PropSim.imm_of w q = Some x -> lookup (w_props w) q = Some pr ->
    PropCheck.den_node fn (values w) (b_root x) = Some z -> pr_value pr = z.
  Proof.
    intros Hok w Hi Hq Hd.
    destruct (grow_act2_coherent fuel ops world0 (SCA_SCB _ (SC_SCA _ PropGrow.SC_world0)) (PropGrow.COH_world0 fn) PropMove.NOEMIT_world0 Hok) as [HSC HC].
    eapply coherent_bound_equals_expression_act2; eauto.
  Qed.
End GrowAct2.
