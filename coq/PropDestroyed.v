(* C10: "A destroyed property announces destroyed() exactly once (a moved-from one not at all)".
   ~Property emits destroyed() over the table of its destroyed signal: every observer connected there is called exactly once, in
   connection order, seeing the value the property still has; the bindings that read it are re-targeted without a trace; nothing
   else is recorded by the rest of the destructor; afterwards the property is gone (it cannot be destroyed again, its tables are
   dead: C10_destroyed_signal_handles_inactive).  A moved-from property has no destroyed signal and no binding: its destructor
   records nothing at all. *)
From KDB Require Import Util UtilProofs PropDefs PropProofs PropFlags PropLink PropLinkBasics PropLinkOps PropLinkTheorems.

Section Destroyed.
  Variable fn : nat -> list Z -> option Z.
  Variable rtl : bool.

  Definition quiet_tb (tb : table) : Prop :=
    forall x ser s, nth_error (t_slots tb) x = Some (Some (ser, s)) -> (exists label, s = SObs label None) \/ (exists b l, s = SNode b l).

  Lemma get_bind_put_some w b x y c : get_bind w b = Some x -> b_alive y = true -> (get_bind (put_bind w b y) c = None <-> get_bind w c = None).
  Proof.
    intros Hb Hy. unfold get_bind, put_bind; cbn [set_binds w_binds].
    assert (Hlt : b < length (w_binds w)).
    { apply nth_error_Some. unfold get_bind in Hb. destruct (nth_error (w_binds w) b); [discriminate|discriminate Hb]. }
    destruct (Nat.eq_dec b c) as [<-|Hne].
    - rewrite (nth_upd_same _ _ _ Hlt), Hy. unfold get_bind in Hb. destruct (nth_error (w_binds w) b) as [z|]; [|discriminate Hb].
      destruct (b_alive z); [split; intros; discriminate|discriminate Hb].
    - rewrite (nth_upd_other _ _ _ _ Hne). tauto.
  Qed.

  Lemma walk_destroyed R t p tb : quiet_tb tb -> forall idxs w,
    get_table w t = Some tb ->
    (forall x ser b l, In x idxs -> nth_error (t_slots tb) x = Some (Some (ser, SNode b l)) -> get_bind w b <> None) ->
    exists w', walk fn rtl R w t p KDestroyed [] idxs = (w', None) /\
      w_trace w' = rev (map (fun label => EvNotify label KDestroyed [] (values w p)) (labels_at tb idxs)) ++ w_trace w /\
      w_tables w' = w_tables w /\ w_props w' = w_props w /\ w_evps w' = w_evps w /\ (forall b, get_bind w' b = None <-> get_bind w b = None).
  Proof.
    intros Hq. induction idxs as [|x r IH]; intros w Ht Hb; cbn [walk labels_at flat_map].
    - exists w. repeat split; auto.
    - rewrite Ht. destruct (nth_error (t_slots tb) x) as [[[ser s]|]|] eqn:Hx; [|apply IH; [exact Ht|intros; eapply Hb; eauto; right; assumption]..].
      destruct (Hq _ _ _ Hx) as [(label & ->)|(b & l & ->)]; cbn [deliver].
      + set (w1 := log (EvNotify label KDestroyed [] (values w p)) w).
        destruct (IH w1 Ht) as (w' & Hw & Htr & Htb & Hpr & Hev & Hbs); [intros; eapply Hb; eauto; right; assumption|].
        exists w'. split; [exact Hw|]. split; [|auto].
        rewrite Htr. cbn [app map rev]. rewrite <- app_assoc. reflexivity.
      + destruct (get_bind w b) as [y|] eqn:Hy; [|exfalso; exact (Hb x ser b l (or_introl eq_refl) Hx Hy)].
        set (w1 := put_bind w b (bind_with_root y (retarget (b_root y) l (fun _ => None)))).
        assert (Hal : b_alive (bind_with_root y (retarget (b_root y) l (fun _ => None))) = true).
        { unfold get_bind in Hy. destruct (nth_error (w_binds w) b) as [z|]; [|discriminate Hy]. destruct (b_alive z) eqn:Ez; [|discriminate Hy].
          inversion Hy; subst z. destruct y; exact Ez. }
        assert (K : forall c, get_bind w1 c = None <-> get_bind w c = None) by (intros c; apply (get_bind_put_some w b y _ c Hy Hal)).
        destruct (IH w1 Ht) as (w' & Hw & Htr & Htb & Hpr & Hev & Hbs).
        { intros x' ser' b' l' Hi Hx' Hn. apply (Hb x' ser' b' l' (or_intror Hi) Hx'). apply K. exact Hn. }
        exists w'. split; [exact Hw|]. split; [exact Htr|]. split; [exact Htb|]. split; [exact Hpr|]. split; [exact Hev|].
        intros c. rewrite Hbs. apply K.
  Qed.

  Lemma unsubscribe_trace w h : w_trace (fst (unsubscribe w h)) = w_trace w.
  Proof.
    unfold unsubscribe. destruct (get_table w (h_table h)) as [tb|]; [|reflexivity]. destruct (negb (t_alive tb)); [reflexivity|].
    destruct (nth_error (t_slots tb) (h_pos h)) as [[[ser s]|]|]; try reflexivity. destruct (Nat.eqb ser (h_serial h)); [|reflexivity].
    destruct (t_emitting tb); reflexivity.
  Qed.
  Lemma unsubscribe_props w h : w_props (fst (unsubscribe w h)) = w_props w.
  Proof.
    unfold unsubscribe. destruct (get_table w (h_table h)) as [tb|]; [|reflexivity]. destruct (negb (t_alive tb)); [reflexivity|].
    destruct (nth_error (t_slots tb) (h_pos h)) as [[[ser s]|]|]; try reflexivity. destruct (Nat.eqb ser (h_serial h)); [|reflexivity].
    destruct (t_emitting tb); reflexivity.
  Qed.
  Lemma unsubscribe_all_trace : forall hs w, w_trace (fst (unsubscribe_all w hs)) = w_trace w /\ w_props (fst (unsubscribe_all w hs)) = w_props w.
  Proof.
    induction hs as [|h r IH]; intros w; cbn [unsubscribe_all]; [split; reflexivity|].
    pose proof (unsubscribe_trace w h) as E. pose proof (unsubscribe_props w h) as E2. destruct (unsubscribe w h) as [w1 [e|]]; cbn [fst] in *; [split; assumption|].
    destruct (IH w1) as [A B]. rewrite A, B. split; assumption.
  Qed.
  Lemma destroy_binding_trace w b : w_trace (fst (destroy_binding w b)) = w_trace w /\ w_props (fst (destroy_binding w b)) = w_props w.
  Proof.
    unfold destroy_binding. destruct (get_bind w b) as [x|]; [|split; reflexivity].
    match goal with |- context [unsubscribe_all ?W ?H] => destruct (unsubscribe_all_trace H W) as [A B]; rewrite A, B end.
    destruct (nth_error (w_evps w) (b_evp x)); split; reflexivity.
  Qed.
  Lemma kill_table_trace w ot : w_trace (fst (kill_table w ot)) = w_trace w /\ w_props (fst (kill_table w ot)) = w_props w.
  Proof. unfold kill_table. destruct ot as [t|]; [|split; reflexivity]. destruct (get_table w t) as [tb|]; [|split; reflexivity]. destruct (t_emitting tb); split; reflexivity. Qed.

  (* ~Property *)
  Theorem destroy_announces_once fuel w p pr w' :
    pinv w -> NOEMIT w -> lookup (w_props w) p = Some pr -> step1 fn rtl fuel w (PDel p) = (w', None) ->
    w_trace w' = rev (map (fun label => EvNotify label KDestroyed [] (Some (pr_value pr))) (all_labels w (pr_destroyed pr))) ++ w_trace w /\
    lookup (w_props w') p = None.
  Proof.
    intros Hinv HNE Hp H. cbn [step1] in H. unfold destroy_prop in H. rewrite Hp in H.
    assert (Hv : values w p = Some (pr_value pr)) by (unfold values; rewrite Hp; reflexivity).
    assert (He : exists w1, emit fn rtl (set_helper fn rtl fuel) w (pr_destroyed pr) p KDestroyed [] = (w1, None) /\
                   w_trace w1 = rev (map (fun label => EvNotify label KDestroyed [] (Some (pr_value pr))) (all_labels w (pr_destroyed pr))) ++ w_trace w /\
                   w_props w1 = w_props w).
    { destruct (pr_destroyed pr) as [t|] eqn:Hd; cbn [emit all_labels]; [|exists w; repeat split; reflexivity].
      assert (Pv : pview w p = Some (psigs_of pr)) by (unfold pview; rewrite Hp; reflexivity).
      assert (Ow : owns w p KDestroyed t) by (exists (psigs_of pr); split; [exact Pv|cbn; exact Hd]).
      destruct (pi_own _ _ _ _ _ _ _ Hinv p KDestroyed t Ow (fun z => z)) as (sl & fr & Htv).
      unfold tview in Htv. destruct (get_table w t) as [tb|] eqn:Ht; [|discriminate Htv].
      assert (Hem : t_emitting tb = false).
      { destruct (t_emitting tb) eqn:E; [|reflexivity]. exfalso. apply (HNE t). unfold emitting. rewrite Ht. exists tb. split; [reflexivity|exact E]. }
      rewrite Hem.
      set (tb1 := {| t_slots := t_slots tb; t_free := t_free tb; t_emitting := true; t_alive := t_alive tb |}).
      set (w1 := put_table w t tb1).
      assert (Hlt : t < length (w_tables w)) by (apply nth_error_Some; unfold get_table in Ht; congruence).
      assert (Ht1 : get_table w1 t = Some tb1) by (unfold get_table, w1, put_table; cbn; apply nth_upd_same; assumption).
      assert (Hq : quiet_tb tb1).
      { intros x ser s Hx. apply (pi_quiet _ _ _ _ _ _ _ Hinv p KDestroyed t x ser s Ow (or_introl eq_refl)).
        exists (t_slots tb), (t_free tb), (t_alive tb). split; [unfold tview; rewrite Ht; reflexivity|exact Hx]. }
      assert (Hbs : forall x ser b l, In x (seq 0 (length (t_slots tb))) -> nth_error (t_slots tb1) x = Some (Some (ser, SNode b l)) -> get_bind w1 b <> None).
      { intros x ser b l _ Hx.
        assert (Hs : slot_at w t x ser (SNode b l)) by (exists (t_slots tb), (t_free tb), (t_alive tb); split; [unfold tview; rewrite Ht; reflexivity|exact Hx]).
        destruct (no_orphan_subscription w t x ser b l Hinv Hs) as (y & _ & Hy & _). change (get_bind w1 b) with (get_bind w b). rewrite Hy. discriminate. }
      destruct (walk_destroyed (set_helper fn rtl fuel) t p tb1 Hq (seq 0 (length (t_slots tb))) w1 Ht1 Hbs) as (w2 & Hw & Htr & Htb & Hpr & _).
      rewrite Hw. unfold get_table. rewrite Htb. fold (get_table w1 t). rewrite Ht1.
      eexists. split; [reflexivity|]. cbn [put_table set_tables w_trace w_props]. split; [|rewrite Hpr; reflexivity].
      rewrite Htr. change (values w1 p) with (values w p). rewrite Hv. reflexivity. }
    destruct He as (w1 & Hemit & Htr1 & Hpr1). rewrite Hemit in H.
    set (r2 := match pr_updater pr with Some b => destroy_binding w1 b | None => ok w1 end) in *.
    assert (T2 : w_trace (fst r2) = w_trace w1 /\ w_props (fst r2) = w_props w1) by (unfold r2; destruct (pr_updater pr); [apply destroy_binding_trace|split; reflexivity]).
    destruct r2 as [w2 [e|]]; [discriminate H|]. cbn [fst] in T2.
    pose proof (kill_table_trace w2 (pr_destroyed pr)) as T3. destruct (kill_table w2 (pr_destroyed pr)) as [w3 [e|]]; [discriminate H|]. cbn [fst] in T3.
    pose proof (kill_table_trace w3 (pr_moved pr)) as T4. destruct (kill_table w3 (pr_moved pr)) as [w4 [e|]]; [discriminate H|]. cbn [fst] in T4.
    pose proof (kill_table_trace w4 (pr_changed pr)) as T5. destruct (kill_table w4 (pr_changed pr)) as [w5 [e|]]; [discriminate H|]. cbn [fst] in T5.
    pose proof (kill_table_trace w5 (pr_about pr)) as T6. destruct (kill_table w5 (pr_about pr)) as [w6 [e|]]; [discriminate H|]. cbn [fst] in T6.
    inversion H; subst w'. cbn [set_props w_trace w_props]. split.
    - destruct T2 as [A2 _], T3 as [A3 _], T4 as [A4 _], T5 as [A5 _], T6 as [A6 _]. rewrite A6, A5, A4, A3, A2. exact Htr1.
    - apply lookup_remove_same.
  Qed.

  (* a property without destroyed signal and without binding - what a move leaves behind (C11_property_move_construction_transfers) -
     records nothing when it is destroyed *)
  Corollary moved_from_announces_nothing fuel w p pr w' :
    pinv w -> NOEMIT w -> lookup (w_props w) p = Some pr -> pr_destroyed pr = None ->
    step1 fn rtl fuel w (PDel p) = (w', None) -> w_trace w' = w_trace w /\ lookup (w_props w') p = None.
  Proof.
    intros Hinv HNE Hp Hd H. destruct (destroy_announces_once fuel w p pr w' Hinv HNE Hp H) as [A B]. rewrite Hd in A. cbn in A. auto.
  Qed.
End Destroyed.
