(* The concrete interpretation of user functions used by the correspondence harness (harness/prop_harness.cpp has
   the same table).  Theorems never depend on it: they hold for every interpretation. *)
From KDB Require Import Util PropDefs.
Local Open Scope Z_scope.

Definition fn_std (f : nat) (args : list Z) : option Z :=
  let a := nth 0 args 0 in let b := nth 1 args 0 in let c := nth 2 args 0 in
  (* ids >= 100: the library's own operators and declared functions on int (the harness builds these nodes with the real overloads of
     node_operators.h / node_functions.h): 100 +  101 -  102 ^  103 &  104 |  110 unary -  111 ~  112 unary +  113 abs *)
  if Nat.leb 100 f then
    Some (match Nat.sub f 100 with
          | 0%nat => a + b | 1%nat => a - b | 2%nat => Z.lxor a b | 3%nat => Z.land a b | 4%nat => Z.lor a b
          | 10%nat => - a | 11%nat => Z.lnot a | 12%nat => a | _ => Z.abs a
          end)
  else
  if Nat.leb 50 f && Z.eqb a 13 then None else
  Some (match Nat.modulo f 5 with
        | O => a + b + c + Z.of_nat f
        | 1%nat => a - b + 2 * c
        | 2%nat => Z.max a (Z.max b c)
        | 3%nat => if Z.eqb a b then c + 1 else a - 1
        | _ => Z.rem (a * b) 97 - c
        end).
