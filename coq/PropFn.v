(* The concrete interpretation of user functions used by the correspondence harness (harness/prop_harness.cpp has
   the same table).  Theorems never depend on it: they hold for every interpretation. *)
From KDB Require Import Util PropDefs.
Local Open Scope Z_scope.

Definition fn_std (f : nat) (args : list Z) : option Z :=
  let a := nth 0 args 0 in let b := nth 1 args 0 in let c := nth 2 args 0 in
  if Nat.leb 50 f && Z.eqb a 13 then None else
  Some (match Nat.modulo f 5 with
        | O => a + b + c + Z.of_nat f
        | 1%nat => a - b + 2 * c
        | 2%nat => Z.max a (Z.max b c)
        | 3%nat => if Z.eqb a b then c + 1 else a - 1
        | _ => Z.rem (a * b) 97 - c
        end).
