(* Blocking (C15): the per-connection switch, rejection on inactive handles, scoped blockers for every nesting. *)
From KDB Require Import Util UtilProofs GenIdx GenIdxProofs SigDefs SigInv SigTheorems SigEmit.

Definition blocked_of (w : world) (i : nat) (k : gidx) : option bool := option_map c_blocked (conn_of w i k).

Section Blk.
  Variable pass_fuel : nat.
  Variable R : world -> nat -> res.

  (* an inactive handle: block / isBlocked / blocker construction raise out_of_range and change nothing *)
  Theorem inactive_rejected w h hd b bl :
    lookup (w_handles w) h = Some hd -> checked_lock w hd = None ->
    step1 pass_fuel R w (OBlockH h b) = (w, Some ExOutOfRange) /\
    step1 pass_fuel R w (OIsBlockedH h) = (w, Some ExOutOfRange) /\
    step1 pass_fuel R w (OBlNew bl h) = (w, Some ExOutOfRange).
  Proof. intros Hh Hc. cbn [step1]. unfold with_handle. rewrite Hh, Hc. auto. Qed.

  (* an active handle: block returns the previous setting and sets the flag *)
  Theorem block_active w h hd i k b m c :
    winv w -> lookup (w_handles w) h = Some hd -> checked_lock w hd = Some (i, k) ->
    get_impl w i = Some m -> g_get (i_conns m) k = Some c ->
    step1 pass_fuel R w (OBlockH h b) = (log (EvBool (c_blocked c)) (fst (impl_block w i k b)), None) /\
    blocked_of (fst (impl_block w i k b)) i k = Some b.
  Proof.
    intros Hw Hh Hc Hm Hg. cbn [step1]. unfold with_handle. rewrite Hh, Hc.
    destruct (block_effect w i k b m c Hw Hm Hg) as (Hr & Hget & _).
    destruct (impl_block w i k b) as [w1 r] eqn:Hb. cbn [fst snd] in *. subst r.
    split; [reflexivity|]. unfold blocked_of. rewrite Hget, gidx_eqb_refl. reflexivity.
  Qed.
End Blk.

(* ---------------------------------------------------------------------------------------------- *)
(* scoped blockers *)

(* what matters about a world for blockers: blocked flags, the blocker table; everything else is untouched *)
Lemma blnew_effect pf R w b h hd i k m c :
  winv w -> lookup (w_handles w) h = Some hd -> checked_lock w hd = Some (i, k) ->
  get_impl w i = Some m -> g_get (i_conns m) k = Some c ->
  exists w', step1 pf R w (OBlNew b h) = (w', None) /\
    lookup (w_blockers w') b = Some (hd, c_blocked c) /\
    (forall b', b' <> b -> lookup (w_blockers w') b' = lookup (w_blockers w) b') /\
    (forall i' k', blocked_of w' i' k' = if Nat.eqb i i' && gidx_eqb k k' then Some true else blocked_of w i' k') /\
    w_handles w' = w_handles w /\ w_sigs w' = w_sigs w /\
    (forall i' k', conn_of w' i' k' = None <-> conn_of w i' k' = None) /\
    (forall j mj, get_impl w' j = Some mj -> exists mj0, get_impl w j = Some mj0 /\ i_alive mj = i_alive mj0).
Proof.
  intros Hw Hh Hc Hm Hg. cbn [step1]. unfold with_handle. rewrite Hh, Hc.
  destruct (block_effect w i k true m c Hw Hm Hg) as (Hr & Hget & Hoth).
  unfold impl_block in *. rewrite Hm, Hg in *. cbn [fst snd] in *.
  eexists; split; [reflexivity|]. cbn [set_blockers w_blockers w_handles w_sigs].
  split; [apply lookup_bind_same|]. split; [intros b' Hb'; apply lookup_bind_other; assumption|].
  split; [|split; [reflexivity|split; [reflexivity|split]]].
  - intros i' k'. unfold blocked_of, conn_of.
    change (get_impl (set_blockers ?x _) i') with (get_impl x i').
    destruct (Nat.eqb_spec i i') as [<-|Hne]; cbn [andb].
    + specialize (Hget k'). unfold conn_of in Hget. rewrite Hget. destruct (gidx_eqb k k'); reflexivity.
    + rewrite (Hoth i') by auto. reflexivity.
  - intros i' k'. unfold conn_of. change (get_impl (set_blockers ?x _) i') with (get_impl x i').
    destruct (Nat.eq_dec i i') as [<-|Hne].
    + specialize (Hget k'). unfold conn_of in Hget. rewrite Hget, Hm.
      destruct (gidx_eqb k k') eqn:E; [|reflexivity]. apply gidx_eqb_eq in E; subst k'. rewrite Hg. split; discriminate.
    + rewrite (Hoth i') by auto. reflexivity.
  - intros j mj. change (get_impl (set_blockers ?x _) j) with (get_impl x j).
    destruct (Nat.eq_dec i j) as [<-|Hne].
    + rewrite (get_put_same _ _ _ _ Hm). intros E; inversion E; subst. exists m; split; [assumption|reflexivity].
    + rewrite get_put_other by assumption. intros E; exists mj; auto.
Qed.

Lemma checked_lock_block w i k b m c hd :
  winv w -> get_impl w i = Some m -> g_get (i_conns m) k = Some c ->
  checked_lock (fst (impl_block w i k b)) hd = checked_lock w hd.
Proof.
  intros Hw Hm Hg. pose proof (Hw _ _ Hm) as (Hwf & _).
  destruct (update_spec _ k (conn_set_blocked c b) Hwf) as (_ & Hget & _).
  unfold impl_block. rewrite Hm, Hg. cbn [fst].
  unfold checked_lock, lock. destruct (h_id hd) as [k'|]; [|reflexivity].
  destruct (h_impl hd) as [j|]; [|reflexivity].
  destruct (Nat.eq_dec i j) as [<-|Hne].
  - rewrite (get_put_same _ _ _ _ Hm), Hm. cbn [i_alive impl_with_conns]. destruct (i_alive m); [|reflexivity].
    rewrite (get_put_same _ _ _ _ Hm), Hm. cbn [i_conns impl_with_conns]. rewrite Hget, Hg.
    destruct (gidx_eqb k k') eqn:E; [|reflexivity]. apply gidx_eqb_eq in E; subst k'. rewrite Hg. reflexivity.
  - rewrite get_put_other by assumption. destruct (get_impl w j) as [mj|]; [|reflexivity].
    destruct (i_alive mj); [|reflexivity]. rewrite get_put_other by assumption. reflexivity.
Qed.

Section Nest.
  Variable tbl : nat -> list op.
  Variable pass_fuel fuel : nat.
  Notation stepf := (step tbl pass_fuel fuel).

  (* well-nested sequences of blocker constructions / destructions, with the blocker names they use *)
  Inductive bal : list nat -> list op -> Prop :=
  | bal_nil : bal [] []
  | bal_app ids1 ids2 l1 l2 : bal ids1 l1 -> bal ids2 l2 -> (forall b, In b ids1 -> ~ In b ids2) -> bal (ids1 ++ ids2) (l1 ++ l2)
  | bal_wrap b h ids l : bal ids l -> ~ In b ids -> bal (b :: ids) (OBlNew b h :: l ++ [OBlDrop b]).

  Definition restored (w w' : world) : Prop :=
    winv w' /\ w_handles w' = w_handles w /\
    (forall hd, checked_lock w' hd = checked_lock w hd) /\
    (forall i k, blocked_of w' i k = blocked_of w i k) /\
    (forall b, lookup (w_blockers w') b = lookup (w_blockers w) b).

  Lemma restored_refl w : winv w -> restored w w.
  Proof. intros H. split; [assumption|]. repeat split; reflexivity. Qed.

  Lemma restored_log w e : winv w -> restored w (log e w).
  Proof. intros H. split; [same_impls|]. repeat split; reflexivity. Qed.

  Lemma restored_trans a b c : restored a b -> restored b c -> restored a c.
  Proof.
    intros (H1 & A1 & B1 & C1 & D1) (H2 & A2 & B2 & C2 & D2).
    split; [assumption|]. split; [rewrite A2; exact A1|]. split; [|split].
    - intros hd. rewrite B2; apply B1.
    - intros i k. rewrite C2; apply C1.
    - intros b0. rewrite D2; apply D1.
  Qed.

  (* C15: for EVERY nesting of scoped blockers on any connections (active or not), once all of them are gone every
     connection has exactly the blocked setting it had before, and constructing/destroying them never fails beyond
     the out_of_range of constructing one on an inactive handle *)
  Theorem blockers_restore ids l : bal ids l -> forall w,
    winv w -> (forall b, In b ids -> lookup (w_blockers w) b = None) -> restored w (fold_left stepf l w).
  Proof.
    induction 1 as [|ids1 ids2 l1 l2 H1 IH1 H2 IH2 Hdis|b h ids l Hb IH Hnin]; intros w Hw Hfree.
    - apply restored_refl; assumption.
    - rewrite fold_left_app.
      assert (R1 : restored w (fold_left stepf l1 w)) by (apply IH1; [assumption|intros b Hb; apply Hfree, in_or_app; auto]).
      eapply restored_trans; [exact R1|]. destruct R1 as (Hw1 & _ & _ & _ & D1).
      apply IH2; [assumption|]. intros b Hb. rewrite D1. apply Hfree, in_or_app; auto.
    - cbn [fold_left]. rewrite fold_left_app. cbn [fold_left].
      assert (Hfb : lookup (w_blockers w) b = None) by (apply Hfree; left; reflexivity).
      (* construction *)
      set (w1 := stepf w (OBlNew b h)).
      assert (Hcase :
        (restored w w1) \/
        (exists hd i k m c, lookup (w_handles w) h = Some hd /\ checked_lock w hd = Some (i, k) /\
            get_impl w i = Some m /\ g_get (i_conns m) k = Some c /\
            winv w1 /\ w_handles w1 = w_handles w /\ (forall hd', checked_lock w1 hd' = checked_lock w hd') /\
            lookup (w_blockers w1) b = Some (hd, c_blocked c) /\
            (forall b', b' <> b -> lookup (w_blockers w1) b' = lookup (w_blockers w) b') /\
            (forall i' k', blocked_of w1 i' k' = if Nat.eqb i i' && gidx_eqb k k' then Some true else blocked_of w i' k'))).
      { unfold w1, step. cbn [step1]. unfold with_handle.
        destruct (lookup (w_handles w) h) as [hd|] eqn:Hh; [|left; apply restored_log; assumption].
        destruct (checked_lock w hd) as [[i k]|] eqn:Hc; [|left; apply restored_log; assumption].
        right.
        assert (Hmc : exists m c, get_impl w i = Some m /\ g_get (i_conns m) k = Some c).
        { unfold checked_lock in Hc. destruct (h_id hd) as [k0|]; [|discriminate].
          destruct (lock w (h_impl hd)) as [i0|]; [|discriminate].
          destruct (get_impl w i0) as [m0|] eqn:Hm0; [|discriminate].
          destruct (g_get (i_conns m0) k0) as [c0|] eqn:Hg0; [|discriminate]. inversion Hc; subst. eauto. }
        destruct Hmc as (m & c & Hm & Hg).
        exists hd, i, k, m, c. repeat (split; [first [assumption|reflexivity]|]).
        destruct (block_effect w i k true m c Hw Hm Hg) as (Hr & Hget & Hoth).
        pose proof (checked_lock_block w i k true m c) as Hcl.
        pose proof (impl_block_ok w i k true Hw) as [Hwb _].
        unfold impl_block in *. rewrite Hm, Hg in *. cbn [fst snd] in *. unfold ok. cbv beta iota.
        split; [same_impls|]. split; [reflexivity|]. split; [intros hd'; apply (Hcl hd' Hw eq_refl eq_refl)|].
        cbn [log set_blockers w_blockers]. split; [apply lookup_bind_same|].
        split; [intros b' Hb'; apply lookup_bind_other; assumption|].
        intros i' k'. unfold blocked_of, conn_of.
        change (get_impl (log _ (set_blockers ?x _)) i') with (get_impl x i').
        destruct (Nat.eqb_spec i i') as [<-|Hne]; cbn [andb].
        - specialize (Hget k'). unfold conn_of in Hget. rewrite Hget. destruct (gidx_eqb k k'); reflexivity.
        - rewrite (Hoth i') by auto. reflexivity. }
      destruct Hcase as [R1 | (hd & i & k & m & c & Hh & Hc & Hm & Hg & Hw1 & Hh1 & Hcl1 & Hb1 & Hbo1 & Hfl1)].
      + (* no blocker was created: the inner sequence and the (missing) destruction restore everything *)
        pose proof R1 as (Hw1 & _ & _ & _ & D1).
        assert (R2 : restored w1 (fold_left stepf l w1)).
        { apply IH; [assumption|]. intros b' Hb'. rewrite D1. apply Hfree; right; assumption. }
        eapply restored_trans; [exact R1|]. eapply restored_trans; [exact R2|].
        destruct R2 as (Hw2 & _ & _ & _ & D2).
        set (w2 := fold_left stepf l w1) in *.
        assert (Hb2 : lookup (w_blockers w2) b = None) by (rewrite D2, D1; assumption).
        unfold step. cbn [step1]. rewrite Hb2. apply restored_log; assumption.
      + assert (R2 : restored w1 (fold_left stepf l w1)).
        { apply IH; [assumption|]. intros b' Hb'. rewrite Hbo1 by (intros ->; contradiction). apply Hfree; right; assumption. }
        destruct R2 as (Hw2 & Hh2 & Hcl2 & Hfl2 & D2).
        set (w2 := fold_left stepf l w1) in *.
        assert (Hb2 : lookup (w_blockers w2) b = Some (hd, c_blocked c)) by (rewrite D2; assumption).
        assert (Hc2 : checked_lock w2 hd = Some (i, k)) by (rewrite Hcl2, Hcl1; assumption).
        assert (Hmc2 : exists m2 c2, get_impl w2 i = Some m2 /\ g_get (i_conns m2) k = Some c2).
        { unfold checked_lock in Hc2. destruct (h_id hd) as [k0|]; [|discriminate].
          destruct (lock w2 (h_impl hd)) as [i0|]; [|discriminate].
          destruct (get_impl w2 i0) as [m0|] eqn:Hm0; [|discriminate].
          destruct (g_get (i_conns m0) k0) as [c0|] eqn:Hg0; [|discriminate]. inversion Hc2; subst. eauto. }
        destruct Hmc2 as (m2 & c2 & Hm2 & Hg2).
        destruct (block_effect w2 i k (c_blocked c) m2 c2 Hw2 Hm2 Hg2) as (_ & Hget & Hoth).
        pose proof (checked_lock_block w2 i k (c_blocked c) m2 c2) as Hclb.
        pose proof (impl_block_ok w2 i k (c_blocked c) Hw2) as [Hwb _].
        unfold step. cbn [step1]. rewrite Hb2, Hc2.
        unfold impl_block in *. rewrite Hm2, Hg2 in *. cbn [fst snd] in *. unfold ok. cbv beta iota.
        split; [same_impls|]. split; [cbn; congruence|].
        split; [intros hd'; cbn [log]; change (checked_lock (log ?e ?x) hd') with (checked_lock x hd');
                change (checked_lock (set_blockers ?x ?y) hd') with (checked_lock x hd');
                rewrite (Hclb hd' Hw2 eq_refl eq_refl), Hcl2; apply Hcl1|].
        split.
        * intros i' k'. unfold blocked_of at 1, conn_of.
          change (get_impl (log _ (set_blockers ?x _)) i') with (get_impl x i').
          destruct (Nat.eq_dec i i') as [<-|Hne].
          -- specialize (Hget k'). unfold conn_of in Hget. rewrite Hget.
             destruct (gidx_eqb k k') eqn:E.
             ++ apply gidx_eqb_eq in E; subst k'. cbn. unfold blocked_of, conn_of. rewrite Hm, Hg. reflexivity.
             ++ fold (conn_of w2 i k'). fold (blocked_of w2 i k'). rewrite Hfl2, Hfl1, Nat.eqb_refl, E. reflexivity.
          -- rewrite (Hoth i') by auto. fold (conn_of w2 i' k'). fold (blocked_of w2 i' k').
             rewrite Hfl2, Hfl1. destruct (Nat.eqb_spec i i'); [contradiction|reflexivity].
        * intros b'. cbn [log set_blockers w_blockers].
          destruct (Nat.eq_dec b' b) as [->|Hne].
          -- rewrite lookup_remove_same. symmetry; assumption.
          -- rewrite lookup_remove_other by assumption. rewrite D2. apply Hbo1; assumption.
  Qed.
End Nest.

(* destroying a blocker never raises, whatever happened to its connection in the meantime; if the connection is
   gone nothing but the blocker table changes *)
Theorem bldrop_total pf R w b : snd (step1 pf R w (OBlDrop b)) = None.
Proof. cbn [step1]. destruct (lookup (w_blockers w) b) as [[hd was]|]; reflexivity. Qed.

Theorem bldrop_gone pf R w b hd was :
  lookup (w_blockers w) b = Some (hd, was) -> checked_lock w hd = None ->
  step1 pf R w (OBlDrop b) = (set_blockers w (remove_key (w_blockers w) b), None).
Proof. intros Hb Hc. cbn [step1]. rewrite Hb, Hc. reflexivity. Qed.

Theorem blocked_fires_nothing i args k c : c_blocked c = true -> fire_events i args (k, c) = [].
Proof. intros H. unfold fire_events. rewrite H. reflexivity. Qed.
