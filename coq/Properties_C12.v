(* C12 - A handle designates its own connection forever, only within its own signal.
   Only statements, closed by `exact`, each followed by Print Assumptions.  Model: GenIdx.v + SigDefs.v.
   The bound "fewer than 2^gen_bits ids issued by one Signal::Impl" is built into the model: do_connect stops
   with ExWrap instead of issuing the id that could wrap, so every reachable world satisfies it. *)
From KDB Require Import Util GenIdx GenIdxProofs SigDefs SigInv SigTheorems.

(* every id ever issued by an Impl is different from all ids it issued before, in every reachable world
   (any history of top-level calls, any re-entrant slot bodies, any nesting depth) *)
Theorem C12_ids_never_reissued :
  forall tbl pass_fuel fuel ops i m,
    get_impl (run tbl pass_fuel fuel ops) i = Some m -> NoDup (i_issued m).
Proof. exact issued_ids_distinct. Qed.
Print Assumptions C12_ids_never_reissued.

(* an id that was issued is in the table or stale, never anything else *)
Theorem C12_issued_live_or_stale :
  forall tbl pass_fuel fuel ops i m k,
    get_impl (run tbl pass_fuel fuel ops) i = Some m -> In k (i_issued m) ->
    g_get (i_conns m) k <> None \/ stale_in (run tbl pass_fuel fuel ops) i k.
Proof. exact issued_live_or_stale_in. Qed.
Print Assumptions C12_issued_live_or_stale.

(* a stale id stays stale after every further history, however often its position is recycled *)
Theorem C12_stale_forever :
  forall tbl pass_fuel fuel ops w i k,
    winv w -> stale_in w i k -> stale_in (fold_left (step tbl pass_fuel fuel) ops w) i k.
Proof. exact stale_forever. Qed.
Print Assumptions C12_stale_forever.

(* a handle carrying a stale id is inactive: isActive answers false, block/isBlocked/blocker construction raise *)
Theorem C12_stale_never_active :
  forall w i k, winv w -> stale_in w i k -> checked_lock w {| h_impl := Some i; h_id := Some k |} = None.
Proof. exact stale_in_not_active. Qed.
Print Assumptions C12_stale_never_active.

(* disconnecting through a stale id erases nothing *)
Theorem C12_stale_disconnect_noop :
  forall w i k, winv w -> stale_in w i k ->
    impl_disconnect w i k = put_impl w i match get_impl w i with Some m => m | None => impl_new end.
Proof. exact stale_disconnect_noop. Qed.
Print Assumptions C12_stale_disconnect_noop.

(* what is in a table was issued by that very Impl *)
Theorem C12_live_was_issued :
  forall tbl pass_fuel fuel ops i m k c,
    get_impl (run tbl pass_fuel fuel ops) i = Some m -> g_get (i_conns m) k = Some c -> In k (i_issued m).
Proof. exact live_was_issued. Qed.
Print Assumptions C12_live_was_issued.

(* operator== : same Impl and same id, or both empty *)
Theorem C12_eq_is_identity :
  forall w a b, handle_eqb w a b = true ->
    (exists i, lock w (h_impl a) = Some i /\ lock w (h_impl b) = Some i /\ h_id a = h_id b) \/
    (lock w (h_impl a) = None /\ lock w (h_impl b) = None /\ h_id a = None /\ h_id b = None).
Proof. exact handle_eqb_spec. Qed.
Print Assumptions C12_eq_is_identity.

(* the bound is tight (known finding KF-C12-wrap): after exactly 2^gen_bits recyclings of one position the id
   issued first designates the value inserted last *)
Theorem C12_wrap_refuted :
  forall (v0 vnew : nat),
    let '(a, k) := cycles (N.to_nat W) (fun _ => vnew) (g_insert g_empty v0) in
    k = snd (g_insert g_empty v0) /\ g_get a (snd (g_insert g_empty v0)) = Some vnew.
Proof. exact (@wrap_aliases nat). Qed.
Print Assumptions C12_wrap_refuted.

(* non-vacuity: a concrete reachable world with a stale id whose position was recycled *)
Example C12_stale_example :
  let w := run (fun _ => []) 8 4 [OSigNew 0 1; OConnect 0 0 100 1 [] 0; ODiscH 0; OConnect 0 1 101 1 [] 0] in
  stale_in w 0 {| gi_index := 0; gi_gen := 0 |} /\
  checked_lock w {| h_impl := Some 0; h_id := Some {| gi_index := 0; gi_gen := 1 |} |} <> None.
Proof.
  split.
  - eexists; split; [vm_compute; reflexivity|]. eexists; split; [vm_compute; reflexivity|]. left; vm_compute; reflexivity.
  - vm_compute; discriminate.
Qed.
