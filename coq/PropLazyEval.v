(* C13 at the level of one expression tree, exactly: starting from a clean tree (what a successful evaluation leaves), after change
   notifications for a set L of its input leaves, the next successful evaluation runs the function of an operator node if and only
   if a leaf of L lies beneath that node - each such function once, children before parents.  (One notification per changed leaf:
   the statement for single notification paths; PropertyNode ids are unique in a tree.) *)
From KDB Require Import Util PropDefs.

Fixpoint lids (t : node) : list nat :=
  match t with
  | NConst _ => []
  | NProp _ _ l _ _ _ => [l]
  | NOp1 _ _ _ a => lids a
  | NOp2 _ _ _ a b => lids a ++ lids b
  | NOp3 _ _ _ a b e => lids a ++ lids b ++ lids e
  end.

Fixpoint cleanN (t : node) : Prop :=
  match t with
  | NConst _ => True
  | NProp _ d _ _ _ _ => d = false
  | NOp1 _ d _ a => d = false /\ cleanN a
  | NOp2 _ d _ a b => d = false /\ cleanN a /\ cleanN b
  | NOp3 _ d _ a b e => d = false /\ cleanN a /\ cleanN b /\ cleanN e
  end.

Definition memb (l : nat) (L : list nat) : bool := existsb (Nat.eqb l) L.
(* a leaf of L lies beneath t *)
Definition hit (L : list nat) (t : node) : bool := existsb (fun l => memb l L) (lids t).

(* the dirty flags after notifications for exactly the leaves L, from a clean tree *)
Fixpoint agree (L : list nat) (t : node) : Prop :=
  match t with
  | NConst _ => True
  | NProp _ d l _ _ _ => d = memb l L
  | NOp1 _ d _ a => d = hit L a /\ agree L a
  | NOp2 _ d _ a b => d = (hit L a || hit L b) /\ agree L a /\ agree L b
  | NOp3 _ d _ a b e => d = (hit L a || hit L b || hit L e) /\ agree L a /\ agree L b /\ agree L e
  end.

Lemma memb_In l L : memb l L = true <-> In l L.
Proof.
  unfold memb. rewrite existsb_exists. split; [intros (x & Hx & E); apply Nat.eqb_eq in E; subst; exact Hx|intros H; exists l; split; [exact H|apply Nat.eqb_refl]].
Qed.
Lemma memb_cons l l0 L : memb l (l0 :: L) = Nat.eqb l l0 || memb l L.
Proof. reflexivity. Qed.
Lemma hit_app L a b : existsb (fun l => memb l L) (a ++ b) = existsb (fun l => memb l L) a || existsb (fun l => memb l L) b.
Proof. apply existsb_app. Qed.

Lemma agree_nil t : cleanN t -> agree [] t.
Proof.
  assert (H0 : forall t, hit [] t = false) by (intros t0; unfold hit; induction (lids t0) as [|x r IH]; cbn; [reflexivity|exact IH]).
  induction t as [v|tg d l hc hm hd|f d c a IHa|f d c a IHa b IHb|f d c a IHa b IHb e IHe]; cbn [cleanN agree]; try tauto.
  - intros [-> Ha]. rewrite H0. auto.
  - intros (-> & Ha & Hb). rewrite !H0. auto.
  - intros (-> & Ha & Hb & He). rewrite !H0. auto.
Qed.

(* a notification for a leaf that is not in the tree finds nothing; adding it to L changes nothing in the tree *)
Lemma mark_none : forall t l, ~ In l (lids t) -> mark t l = None.
Proof.
  induction t as [v|tg d l0 hc hm hd|f d c a IHa|f d c a IHa b IHb|f d c a IHa b IHb e IHe]; intros l Hn; cbn [mark lids] in *.
  - reflexivity.
  - destruct (Nat.eqb_spec l0 l) as [->|]; [exfalso; apply Hn; left; reflexivity|reflexivity].
  - rewrite IHa by exact Hn. reflexivity.
  - rewrite IHa, IHb; [reflexivity| |]; intros Hi; apply Hn; apply in_or_app; auto.
  - rewrite IHa, IHb, IHe; [reflexivity| | |]; intros Hi; apply Hn; apply in_or_app; auto; right; apply in_or_app; auto.
Qed.
Lemma hit_cons_out L l t : ~ In l (lids t) -> hit (l :: L) t = hit L t.
Proof.
  unfold hit. induction (lids t) as [|x r IH]; intros Hn; cbn [existsb]; [reflexivity|].
  rewrite memb_cons. destruct (Nat.eqb_spec x l) as [->|]; [exfalso; apply Hn; left; reflexivity|]. cbn [orb]. rewrite IH; [reflexivity|]. intros Hi; apply Hn; right; exact Hi.
Qed.
Lemma hit_cons_in L l t : In l (lids t) -> hit (l :: L) t = true.
Proof. intros Hi. unfold hit. apply existsb_exists. exists l. split; [exact Hi|]. rewrite memb_cons, Nat.eqb_refl. reflexivity. Qed.
Lemma agree_cons_out L l : forall t, ~ In l (lids t) -> agree L t -> agree (l :: L) t.
Proof.
  induction t as [v|tg d l0 hc hm hd|f d c a IHa|f d c a IHa b IHb|f d c a IHa b IHb e IHe]; intros Hn H; cbn [agree lids] in *.
  - exact I.
  - rewrite memb_cons. destruct (Nat.eqb_spec l0 l) as [->|]; [exfalso; apply Hn; left; reflexivity|exact H].
  - destruct H as [Hd Ha]. split; [rewrite hit_cons_out by exact Hn; exact Hd|auto].
  - destruct H as (Hd & Ha & Hb). assert (Na : ~ In l (lids a)) by (intros Hi; apply Hn; apply in_or_app; auto). assert (Nb : ~ In l (lids b)) by (intros Hi; apply Hn; apply in_or_app; auto).
    split; [rewrite !hit_cons_out by assumption; exact Hd|auto].
  - destruct H as (Hd & Ha & Hb & He). assert (Na : ~ In l (lids a)) by (intros Hi; apply Hn; apply in_or_app; auto).
    assert (Nb : ~ In l (lids b)) by (intros Hi; apply Hn; apply in_or_app; right; apply in_or_app; auto).
    assert (Ne : ~ In l (lids e)) by (intros Hi; apply Hn; apply in_or_app; right; apply in_or_app; auto).
    split; [rewrite !hit_cons_out by assumption; exact Hd|auto].
Qed.

Lemma nd_app_l {X} (l1 l2 : list X) : NoDup (l1 ++ l2) -> NoDup l1.
Proof. induction l1 as [|a l IH]; cbn; intros H; [constructor|]. inversion H; subst. constructor; [intros Hi; apply H2; apply in_or_app; auto|auto]. Qed.
Lemma nd_app_r {X} (l1 l2 : list X) : NoDup (l1 ++ l2) -> NoDup l2.
Proof. induction l1 as [|a l IH]; cbn; intros H; [exact H|]. inversion H; subst. auto. Qed.
Lemma nd_app_disj {X} (l1 l2 : list X) x : NoDup (l1 ++ l2) -> In x l1 -> ~ In x l2.
Proof. induction l1 as [|a l IH]; cbn; intros H Hi; [destruct Hi|]. inversion H; subst. destruct Hi as [->|Hi]; [intros H2'; apply H2; apply in_or_app; auto|auto]. Qed.

Lemma hit_op2 L f d c a b : hit L (NOp2 f d c a b) = hit L a || hit L b.
Proof. unfold hit; cbn [lids]. apply existsb_app. Qed.
Lemma hit_op3 L f d c a b e : hit L (NOp3 f d c a b e) = hit L a || hit L b || hit L e.
Proof. unfold hit; cbn [lids]. rewrite !existsb_app, Bool.orb_assoc. reflexivity. Qed.

(* one notification: the flags along the path from the leaf to the root are raised (as far up as they were not raised yet), and the
   walk reports whether it reached the root *)
Lemma mark_agree L l : forall t, NoDup (lids t) -> In l (lids t) -> agree L t ->
  exists t', mark t l = Some (t', negb (hit L t)) /\ agree (l :: L) t' /\ lids t' = lids t.
Proof.
  induction t as [v|tg d l0 hc hm hd|f d c a IHa|f d c a IHa b IHb|f d c a IHa b IHb e IHe]; intros ND Hi H; cbn [mark lids agree] in *.
  - destruct Hi.
  - destruct Hi as [->|[]]. rewrite Nat.eqb_refl. unfold hit; cbn [lids existsb]. rewrite Bool.orb_false_r. subst d.
    destruct (memb l L) eqn:Hm; cbn [negb]; eexists; (split; [reflexivity|]); cbn [agree lids]; (split; [|reflexivity]); rewrite memb_cons, Nat.eqb_refl; reflexivity.
  - destruct H as [Hd Ha]. destruct (IHa ND Hi Ha) as (a' & Hm & Ha' & La). rewrite Hm. change (hit L (NOp1 f d c a)) with (hit L a). subst d.
    assert (Hh' : hit (l :: L) a' = true) by (unfold hit; rewrite La; apply (hit_cons_in L l a Hi)).
    destruct (hit L a) eqn:Hh; cbn [negb]; eexists; (split; [reflexivity|]); cbn [agree lids]; (split; [|exact La]); (split; [|exact Ha']); symmetry; exact Hh'.
  - destruct H as (Hd & Ha & Hb). rewrite hit_op2. apply in_app_or in Hi. destruct Hi as [Hi|Hi].
    + destruct (IHa (nd_app_l _ _ ND) Hi Ha) as (a' & Hm & Ha' & La). rewrite Hm.
      pose proof (nd_app_disj _ _ l ND Hi) as Nb.
      assert (Hh' : hit (l :: L) a' = true) by (unfold hit; rewrite La; apply (hit_cons_in L l a Hi)).
      subst d. destruct (hit L a) eqn:H1, (hit L b) eqn:H2; cbn [negb orb]; eexists; (split; [reflexivity|]); cbn [agree lids]; (split; [|rewrite La; reflexivity]);
        (split; [rewrite Hh'; reflexivity|]); (split; [exact Ha'|apply agree_cons_out; assumption]).
    + assert (Na : ~ In l (lids a)) by (intros Hia; exact (nd_app_disj _ _ l ND Hia Hi)). rewrite (mark_none a l Na).
      destruct (IHb (nd_app_r _ _ ND) Hi Hb) as (b' & Hm & Hb' & Lb). rewrite Hm.
      assert (Hh' : hit (l :: L) b' = true) by (unfold hit; rewrite Lb; apply (hit_cons_in L l b Hi)).
      subst d. destruct (hit L a) eqn:H1, (hit L b) eqn:H2; cbn [negb orb]; eexists; (split; [reflexivity|]); cbn [agree lids]; (split; [|rewrite Lb; reflexivity]);
        (split; [rewrite Hh', Bool.orb_true_r; reflexivity|]); (split; [apply agree_cons_out; assumption|exact Hb']).
  - destruct H as (Hd & Ha & Hb & He). rewrite hit_op3. pose proof (nd_app_l _ _ ND) as NDa. pose proof (nd_app_r _ _ ND) as NDbe.
    apply in_app_or in Hi. destruct Hi as [Hi|Hi].
    + destruct (IHa NDa Hi Ha) as (a' & Hm & Ha' & La). rewrite Hm.
      pose proof (nd_app_disj _ _ l ND Hi) as Nbe.
      assert (Nb : ~ In l (lids b)) by (intros X; apply Nbe; apply in_or_app; auto). assert (Ne : ~ In l (lids e)) by (intros X; apply Nbe; apply in_or_app; auto).
      assert (Hh' : hit (l :: L) a' = true) by (unfold hit; rewrite La; apply (hit_cons_in L l a Hi)).
      subst d. destruct (hit L a) eqn:H1, (hit L b) eqn:H2, (hit L e) eqn:H3; cbn [negb orb]; eexists; (split; [reflexivity|]); cbn [agree lids]; (split; [|rewrite La; reflexivity]);
        (split; [rewrite Hh'; reflexivity|]); (split; [exact Ha'|split; apply agree_cons_out; assumption]).
    + assert (Na : ~ In l (lids a)) by (intros Hia; exact (nd_app_disj _ _ l ND Hia Hi)). rewrite (mark_none a l Na).
      apply in_app_or in Hi. destruct Hi as [Hi|Hi].
      * destruct (IHb (nd_app_l _ _ NDbe) Hi Hb) as (b' & Hm & Hb' & Lb). rewrite Hm.
        pose proof (nd_app_disj _ _ l NDbe Hi) as Ne.
        assert (Hh' : hit (l :: L) b' = true) by (unfold hit; rewrite Lb; apply (hit_cons_in L l b Hi)).
        subst d. destruct (hit L a) eqn:H1, (hit L b) eqn:H2, (hit L e) eqn:H3; cbn [negb orb]; eexists; (split; [reflexivity|]); cbn [agree lids]; (split; [|rewrite Lb; reflexivity]);
          (split; [rewrite Hh', ?Bool.orb_true_r; reflexivity|]); (split; [apply agree_cons_out; assumption|split; [exact Hb'|apply agree_cons_out; assumption]]).
      * assert (Nb : ~ In l (lids b)) by (intros Hib; exact (nd_app_disj _ _ l NDbe Hib Hi)). rewrite (mark_none b l Nb).
        destruct (IHe (nd_app_r _ _ NDbe) Hi He) as (e' & Hm & He' & Le). rewrite Hm.
        assert (Hh' : hit (l :: L) e' = true) by (unfold hit; rewrite Le; apply (hit_cons_in L l e Hi)).
        subst d. destruct (hit L a) eqn:H1, (hit L b) eqn:H2, (hit L e) eqn:H3; cbn [negb orb]; eexists; (split; [reflexivity|]); cbn [agree lids]; (split; [|rewrite Le; reflexivity]);
          (split; [rewrite Hh', ?Bool.orb_true_r; reflexivity|]); (split; [apply agree_cons_out; assumption|split; [apply agree_cons_out; assumption|exact He']]).
Qed.

(* notifications for the leaves of L, one after the other *)
Fixpoint marks (t : node) (L : list nat) : option node :=
  match L with
  | [] => Some t
  | l :: r => match marks t r with Some t1 => option_map fst (mark t1 l) | None => None end
  end.

Lemma marks_agree : forall L t, cleanN t -> NoDup (lids t) -> (forall l, In l L -> In l (lids t)) ->
  exists t1, marks t L = Some t1 /\ agree L t1 /\ lids t1 = lids t.
Proof.
  induction L as [|l r IH]; intros t Hc ND HL; cbn [marks].
  - exists t. split; [reflexivity|]. split; [apply agree_nil; exact Hc|reflexivity].
  - destruct (IH t Hc ND (fun x Hx => HL x (or_intror Hx))) as (t1 & Hm & Ha & Ll). rewrite Hm.
    assert (ND1 : NoDup (lids t1)) by (rewrite Ll; exact ND). assert (Hi : In l (lids t1)) by (rewrite Ll; apply HL; left; reflexivity).
    destruct (mark_agree r l t1 ND1 Hi Ha) as (t2 & Hm2 & Ha2 & L2). rewrite Hm2. exists t2. split; [reflexivity|]. split; [exact Ha2|congruence].
Qed.

Lemma agree_nohit_clean L : forall t, agree L t -> hit L t = false -> cleanN t.
Proof.
  induction t as [v|tg d l0 hc hm hd|f d c a IHa|f d c a IHa b IHb|f d c a IHa b IHb e IHe]; intros H Hh; cbn [agree cleanN] in *.
  - exact I.
  - unfold hit in Hh; cbn [lids existsb] in Hh. rewrite Bool.orb_false_r in Hh. congruence.
  - destruct H as [Hd Ha]. change (hit L (NOp1 f d c a)) with (hit L a) in Hh. split; [congruence|auto].
  - destruct H as (Hd & Ha & Hb). rewrite hit_op2 in Hh. apply Bool.orb_false_iff in Hh. destruct Hh as [H1 H2]. split; [rewrite Hd, H1, H2; reflexivity|auto].
  - destruct H as (Hd & Ha & Hb & He). rewrite hit_op3 in Hh. apply Bool.orb_false_iff in Hh. destruct Hh as [H12 H3]. apply Bool.orb_false_iff in H12. destruct H12 as [H1 H2].
    split; [rewrite Hd, H1, H2, H3; reflexivity|auto].
Qed.

Section Exact.
  Variable fn : nat -> list Z -> option Z.
  Variable val : nat -> option Z.

  (* the functions of the operator nodes that have a leaf of L beneath them, children first (in the evaluation order of the build) *)
  Fixpoint expected (rtl : bool) (L : list nat) (t : node) : list nat :=
    match t with
    | NConst _ | NProp _ _ _ _ _ _ => []
    | NOp1 f _ _ a => if hit L a then expected rtl L a ++ [f] else []
    | NOp2 f _ _ a b => if hit L a || hit L b
                        then (if rtl then expected rtl L b ++ expected rtl L a ++ [f] else expected rtl L a ++ expected rtl L b ++ [f]) else []
    | NOp3 f _ _ a b e => if hit L a || hit L b || hit L e
                          then (if rtl then expected rtl L e ++ expected rtl L b ++ expected rtl L a ++ [f] else expected rtl L a ++ expected rtl L b ++ expected rtl L e ++ [f]) else []
    end.

  Theorem eval_exact rtl L : forall t t' v lg, agree L t -> eval fn rtl val t = (t', inl v, lg) ->
    lg = expected rtl L t /\ cleanN t' /\ lids t' = lids t.
  Proof.
    induction t as [z|tg d l0 hc hm hd|f d c a IHa|f d c a IHa b IHb|f d c a IHa b IHb e IHe]; intros t' v lg H He; cbn [eval agree expected] in *.
    - inversion He; subst. auto.
    - destruct tg as [p|]; [|discriminate He]. destruct (val p); inversion He; subst. cbn. auto.
    - destruct H as [Hd Ha]. subst d. destruct (hit L a) eqn:Hh.
      + destruct (eval fn _ val a) as [[a' ra] la] eqn:Ea. destruct ra as [va|x]; [|discriminate He].
        destruct (IHa _ _ _ Ha eq_refl) as (E1 & C1 & L1). destruct (fn f [va]); inversion He; subst. cbn [cleanN lids]. auto.
      + inversion He; subst. split; [reflexivity|]. split; [|reflexivity]. apply (agree_nohit_clean L); [cbn [agree]; rewrite Hh; auto|exact Hh].
    - destruct H as (Hd & Ha & Hb). subst d. destruct (hit L a || hit L b) eqn:Hh.
      + destruct rtl.
        * destruct (eval fn _ val b) as [[b' rb] lb] eqn:Eb. destruct rb as [vb|x]; [|discriminate He].
          destruct (eval fn _ val a) as [[a' ra] la] eqn:Ea. destruct ra as [va|x]; [|discriminate He].
          destruct (IHa _ _ _ Ha eq_refl) as (E1 & C1 & L1). destruct (IHb _ _ _ Hb eq_refl) as (E2 & C2 & L2).
          destruct (fn f [va; vb]); inversion He; subst. cbn [cleanN lids]. rewrite L1, L2. repeat split; auto.
        * destruct (eval fn _ val a) as [[a' ra] la] eqn:Ea. destruct ra as [va|x]; [|discriminate He].
          destruct (eval fn _ val b) as [[b' rb] lb] eqn:Eb. destruct rb as [vb|x]; [|discriminate He].
          destruct (IHa _ _ _ Ha eq_refl) as (E1 & C1 & L1). destruct (IHb _ _ _ Hb eq_refl) as (E2 & C2 & L2).
          destruct (fn f [va; vb]); inversion He; subst. cbn [cleanN lids]. rewrite L1, L2. repeat split; auto.
      + inversion He; subst. split; [reflexivity|]. split; [|reflexivity]. apply (agree_nohit_clean L); [cbn [agree]; rewrite Hh; auto|rewrite hit_op2; exact Hh].
    - destruct H as (Hd & Ha & Hb & Hee). subst d. destruct (hit L a || hit L b || hit L e) eqn:Hh.
      + destruct rtl.
        * destruct (eval fn _ val e) as [[e' re] le] eqn:Ee. destruct re as [ve|x]; [|discriminate He].
          destruct (eval fn _ val b) as [[b' rb] lb] eqn:Eb. destruct rb as [vb|x]; [|discriminate He].
          destruct (eval fn _ val a) as [[a' ra] la] eqn:Ea. destruct ra as [va|x]; [|discriminate He].
          destruct (IHa _ _ _ Ha eq_refl) as (E1 & C1 & L1). destruct (IHb _ _ _ Hb eq_refl) as (E2 & C2 & L2). destruct (IHe _ _ _ Hee eq_refl) as (E3 & C3 & L3).
          destruct (fn f [va; vb; ve]); inversion He; subst. cbn [cleanN lids]. rewrite L1, L2, L3. repeat split; auto.
        * destruct (eval fn _ val a) as [[a' ra] la] eqn:Ea. destruct ra as [va|x]; [|discriminate He].
          destruct (eval fn _ val b) as [[b' rb] lb] eqn:Eb. destruct rb as [vb|x]; [|discriminate He].
          destruct (eval fn _ val e) as [[e' re] le] eqn:Ee. destruct re as [ve|x]; [|discriminate He].
          destruct (IHa _ _ _ Ha eq_refl) as (E1 & C1 & L1). destruct (IHb _ _ _ Hb eq_refl) as (E2 & C2 & L2). destruct (IHe _ _ _ Hee eq_refl) as (E3 & C3 & L3).
          destruct (fn f [va; vb; ve]); inversion He; subst. cbn [cleanN lids]. rewrite L1, L2, L3. repeat split; auto.
      + inversion He; subst. split; [reflexivity|]. split; [|reflexivity]. apply (agree_nohit_clean L); [cbn [agree]; rewrite Hh; auto|rewrite hit_op3; exact Hh].
  Qed.

  (* C13 for one tree: clean tree, notifications for the leaves L, one successful evaluation *)
  Theorem lazy_eval_exact rtl L t :
    cleanN t -> NoDup (lids t) -> (forall l, In l L -> In l (lids t)) ->
    exists t1, marks t L = Some t1 /\
      forall t2 v lg, eval fn rtl val t1 = (t2, inl v, lg) -> lg = expected rtl L t /\ cleanN t2.
  Proof.
    intros Hc ND HL. destruct (marks_agree L t Hc ND HL) as (t1 & Hm & Ha & Ll). exists t1. split; [exact Hm|].
    intros t2 v lg He. destruct (eval_exact rtl L t1 t2 v lg Ha He) as (E & C & _). split; [|exact C]. rewrite E.
    (* expected depends on the shape only *)
    clear -Ll Ha Hm. revert t1 Hm Ha Ll. assert (G : forall r t t1, marks t r = Some t1 -> forall K, expected rtl K t1 = expected rtl K t); [|intros t1 Hm _ _; exact (G L t t1 Hm L)].
    assert (M1 : forall t0 l t' up K, mark t0 l = Some (t', up) -> expected rtl K t' = expected rtl K t0 /\ lids t' = lids t0).
    { induction t0 as [z|tg d l0 hc hm hd|f d c a IHa|f d c a IHa b IHb|f d c a IHa b IHb e IHe]; intros l t' up K Hm; cbn [mark] in Hm.
      - discriminate Hm.
      - destruct (Nat.eqb l0 l); [|discriminate Hm]. destruct d; inversion Hm; subst; auto.
      - destruct (mark a l) as [[a' u]|] eqn:Ea; [|discriminate Hm]. destruct (IHa _ _ _ K Ea) as [E1 L1].
        assert (Hh : hit K a' = hit K a) by (unfold hit; rewrite L1; reflexivity).
        destruct u, d; inversion Hm; subst; cbn [expected lids]; rewrite ?Hh, ?E1; auto.
      - destruct (mark a l) as [[a' u]|] eqn:Ea.
        + destruct (IHa _ _ _ K Ea) as [E1 L1]. assert (Hh : hit K a' = hit K a) by (unfold hit; rewrite L1; reflexivity).
          destruct u, d; inversion Hm; subst; cbn [expected lids]; rewrite ?Hh, ?E1, ?L1; auto.
        + destruct (mark b l) as [[b' u]|] eqn:Eb; [|discriminate Hm]. destruct (IHb _ _ _ K Eb) as [E1 L1].
          assert (Hh : hit K b' = hit K b) by (unfold hit; rewrite L1; reflexivity).
          destruct u, d; inversion Hm; subst; cbn [expected lids]; rewrite ?Hh, ?E1, ?L1; auto.
      - destruct (mark a l) as [[a' u]|] eqn:Ea.
        + destruct (IHa _ _ _ K Ea) as [E1 L1]. assert (Hh : hit K a' = hit K a) by (unfold hit; rewrite L1; reflexivity).
          destruct u, d; inversion Hm; subst; cbn [expected lids]; rewrite ?Hh, ?E1, ?L1; auto.
        + destruct (mark b l) as [[b' u]|] eqn:Eb.
          * destruct (IHb _ _ _ K Eb) as [E1 L1]. assert (Hh : hit K b' = hit K b) by (unfold hit; rewrite L1; reflexivity).
            destruct u, d; inversion Hm; subst; cbn [expected lids]; rewrite ?Hh, ?E1, ?L1; auto.
          * destruct (mark e l) as [[e' u]|] eqn:Ee; [|discriminate Hm]. destruct (IHe _ _ _ K Ee) as [E1 L1].
            assert (Hh : hit K e' = hit K e) by (unfold hit; rewrite L1; reflexivity).
            destruct u, d; inversion Hm; subst; cbn [expected lids]; rewrite ?Hh, ?E1, ?L1; auto. }
    induction r as [|l r IH]; intros t3 t1 Hm K; cbn [marks] in Hm; [inversion Hm; reflexivity|].
    destruct (marks t3 r) as [t0|] eqn:E0; [|discriminate Hm]. destruct (mark t0 l) as [[t' u]|] eqn:E1; [|discriminate Hm]. cbn in Hm. inversion Hm; subst t'.
    rewrite (proj1 (M1 _ _ _ _ K E1)). exact (IH t3 t0 E0 K).
  Qed.
End Exact.
