(* C02 - An immediate-mode bound property always equals its expression over its inputs.
   PARTIAL (see DESIGN.md 6/C02): the theorem is proved on the abstract propagation model coq/PropAbs.v - markDirty with
   early return, cached re-evaluation, setHelper with equality suppression, nested notification - for EVERY network of
   unary/binary operator trees, EVERY interpretation of the user functions and EVERY delivery order of every
   valueChanged signal.  The executable model coq/PropDefs.v (tables, handles, moves, rebinding, n-ary operators) is
   tied to the code by correspondence and checked against the property statement itself (PropCheck.check_c02) on every
   world reached by the generated histories; its refinement to PropAbs is not proved. *)
From Coq Require Import List ZArith.
Import ListNotations.
From KDB Require Import PropAbs PropAbsProofs.

(* Inv s [] says: every node of every binding is clean, every cached result is the denotation of its subtree, every
   bound property equals the denotation of its expression, every leaf is subscribed to its input. *)
Theorem C02_immediate_consistent_partial :
  forall F1 F2 order fuel s p v,
    tr s p = None -> oof s = false -> Inv F1 F2 order s [] ->
    oof (PropAbs.set F1 F2 order fuel s p v) = false ->
    Inv F1 F2 order (PropAbs.set F1 F2 order fuel s p v) [].
Proof. exact set_consistent. Qed.
Print Assumptions C02_immediate_consistent_partial.

(* ... after every finite sequence of assignments to inputs *)
Theorem C02_histories_partial :
  forall F1 F2 order fuel ws s,
    (forall p v, In (p, v) ws -> tr s p = None) -> oof s = false -> Inv F1 F2 order s [] ->
    oof (sets F1 F2 order fuel s ws) = false -> Inv F1 F2 order (sets F1 F2 order fuel s ws) [].
Proof. exact sets_consistent. Qed.
Print Assumptions C02_histories_partial.

(* what the invariant gives for a bound property *)
Theorem C02_bound_equals_expression :
  forall F1 F2 order s q t, Inv F1 F2 order s [] -> tr s q = Some t -> env s q = den F1 F2 (env s) t.
Proof.
  intros F1 F2 order s q t HI Ht. destruct (HI q t Ht) as (_ & _ & H & _). apply H. intros p lid _ [].
Qed.
Print Assumptions C02_bound_equals_expression.
