(* C02 - An immediate-mode bound property always equals its expression over its inputs.
   (see DESIGN.md 6/C02)  Two layers:
   1. the abstract propagation model coq/PropAbs.v - markDirty with early return, cached re-evaluation, setHelper with equality
      suppression, nested notification: consistency after every assignment for EVERY network of operator trees (arity 1-3), EVERY
      interpretation of the user functions and EVERY delivery order of every valueChanged signal (C02_*_partial below);
   2. the executable model coq/PropDefs.v (tables, handles, observers, logs, the model that is run against the library): on worlds
      whose immediate bindings are operator trees (arity 1-3) and whose observers do not act, Property::setHelper IS the abstract
      `set` (refinement, coq/PropSim.v: C02_set_helper_refines_abstract_set), hence a coherent world stays coherent under every
      assignment that returns normally and every immediately bound property equals its expression recomputed from scratch over the
      current values (C02_assignment_keeps_coherence, C02_bound_equals_expression_recomputed).
   3. coherence is established and kept by every history of a GROWING network (coq/PropGrow.v): new properties, plain observers,
      fresh properties bound with immediate evaluation to operator expressions (arity 1-3) over existing properties (bound ones
      included, the same input any number of times), assignments to inputs - in every world such a history reaches, every bound
      property equals its expression recomputed from scratch (C02_growing_network_consistent).
   4. the same for histories that also bind EXISTING properties - unbound ones (which may already have readers) and bound ones
      (the binding they had is destroyed first, exactly as reset() does: PropGrowMore.assign_over_bound) - and call reset()
      (coq/PropGrowMore.v: C02_network_with_late_bindings_and_resets_consistent).
   Such histories may also destroy properties that no binding reads (bound ones included: PropGrowMore.grow_del) - a property
   that IS read can not be destroyed without leaving a binding whose inputs no longer all exist, which C02 does not speak about.
   5. Move CONSTRUCTION of any property - an input with readers, a bound property, one with observers - keeps coherence
      (coq/PropMove.v: a re-targeting changes nothing of a tree but its leaf targets, so every tree abstracts to the old abstraction
      with the source renamed to the destination, and the abstract invariant is stable under that renaming):
      C02_move_construction_keeps_coherence, C02_network_with_moves_consistent. Move ASSIGNMENT over a destination that no live
      binding reads (whatever it holds: observers, a binding of its own) likewise: C02_move_assignment_keeps_coherence; assigning
      over a property that IS read leaves readers whose inputs no longer all exist (PropertyDestroyedError, C10/C11).
   6. MIXED worlds (coq/PropMixed.v): the histories may also create evaluators, bind fresh properties THROUGH an evaluator and call
      evaluateAll - an evaluator-driven property is, for the immediate bindings that read it, an input that changes when its
      evaluator is asked: C02_mixed_worlds_consistent.
   PARTIAL: observers that write are covered by
   PropCheck.check_c02 on every world reached by the generated histories and by correspondence, not by the refinement. *)
From Coq Require Import List ZArith.
Import ListNotations.
From KDB Require Import PropAbs PropAbsProofs.
From KDB Require Util PropDefs PropFlags PropLink PropCheck PropSim PropGrow PropGrowMore PropMove PropMixed.
From KDB Require TablesDefs Tables PropAbsAct PropSimAct PropGrowAct PropAbsAct2 PropSimAct2 PropGrowAct2.
From KDB.generated Require OpsTable.

(* Inv s [] says: every node of every binding is clean, every cached result is the denotation of its subtree, every
   bound property equals the denotation of its expression, every leaf is subscribed to its input. *)
Theorem C02_immediate_consistent_partial :
  forall F1 F2 F3 order fuel s p v,
    tr s p = None -> oof s = false -> Inv F1 F2 F3 order s [] ->
    oof (PropAbs.set F1 F2 F3 order fuel s p v) = false ->
    Inv F1 F2 F3 order (PropAbs.set F1 F2 F3 order fuel s p v) [].
Proof. exact set_consistent. Qed.
Print Assumptions C02_immediate_consistent_partial.

(* ... after every finite sequence of assignments to inputs *)
Theorem C02_histories_partial :
  forall F1 F2 F3 order fuel ws s,
    (forall p v, In (p, v) ws -> tr s p = None) -> oof s = false -> Inv F1 F2 F3 order s [] ->
    oof (sets F1 F2 F3 order fuel s ws) = false -> Inv F1 F2 F3 order (sets F1 F2 F3 order fuel s ws) [].
Proof. exact sets_consistent. Qed.
Print Assumptions C02_histories_partial.

(* what the invariant gives for a bound property *)
Theorem C02_bound_equals_expression :
  forall F1 F2 F3 order s q t, Inv F1 F2 F3 order s [] -> tr s q = Some t -> env s q = den F1 F2 F3 (env s) t.
Proof.
  intros F1 F2 F3 order s q t HI Ht. destruct (HI q t Ht) as (_ & _ & H & _). apply H. intros p lid _ [].
Qed.
Print Assumptions C02_bound_equals_expression.

(* ---- the executable model ---- *)

(* Property::setHelper on the executable model is the abstract assignment: worlds related by Rel (same values, the trees of the
   immediate bindings are the abstract trees) stay related; SC = link invariant + no acting observer + operator trees; FR = the
   assignment changes no subscription, no binding structure, no signal ownership *)
Theorem C02_set_helper_refines_abstract_set :
  forall fn rtl order f w q v w' s,
    PropSim.SC w -> PropSim.ORDOK order w -> PropSim.Rel w s -> PropDefs.set_helper fn rtl f w q v = (w', None) ->
    PropSim.SC w' /\ PropSim.FR w w' /\ PropSim.Rel w' (PropAbs.set (PropSim.F1 fn) (PropSim.F2 fn) (PropSim.F3 fn) order f s q v).
Proof. exact PropSim.sim_set. Qed.
Print Assumptions C02_set_helper_refines_abstract_set.

(* COH w: the abstraction of w satisfies the abstract invariant for the delivery order of w itself *)
Theorem C02_assignment_keeps_coherence :
  forall fn rtl f w p pr v w',
    PropSim.SC w -> PropSim.COH fn w -> Util.lookup (PropDefs.w_props w) p = Some pr -> PropDefs.pr_updater pr = None ->
    PropDefs.set_helper fn rtl f w p v = (w', None) -> PropSim.SC w' /\ PropSim.COH fn w' /\ PropSim.FR w w'.
Proof. exact PropSim.assignment_coherent. Qed.
Print Assumptions C02_assignment_keeps_coherence.

(* in a coherent world every immediately bound property holds what its expression gives when recomputed from scratch (caches and
   dirty flags ignored) over the current values of its inputs *)
Theorem C02_bound_equals_expression_recomputed :
  forall fn w q x pr z,
    PropSim.SC w -> PropSim.COH fn w -> PropSim.imm_of w q = Some x -> Util.lookup (PropDefs.w_props w) q = Some pr ->
    PropCheck.den_node fn (PropDefs.values w) (PropDefs.b_root x) = Some z -> PropDefs.pr_value pr = z.
Proof. exact PropSim.coherent_bound_equals_expression. Qed.
Print Assumptions C02_bound_equals_expression_recomputed.

(* every history of a growing network (the operations allowed by grow_op, each returning normally) keeps SC and COH ... *)
Theorem C02_growing_network_coherent :
  forall fn rtl fuel ops w, PropSim.SC w -> PropSim.COH fn w -> PropGrow.grow_run_ok fn rtl fuel w ops ->
    PropSim.SC (fold_left (PropDefs.step fn rtl fuel) ops w) /\ PropSim.COH fn (fold_left (PropDefs.step fn rtl fuel) ops w).
Proof. exact PropGrow.grow_coherent. Qed.
Print Assumptions C02_growing_network_coherent.

(* ... hence, from the empty world: every immediately bound property equals its expression over the current values *)
Theorem C02_growing_network_consistent :
  forall fn rtl fuel ops q x pr z,
    PropGrow.grow_run_ok fn rtl fuel PropDefs.world0 ops ->
    PropSim.imm_of (PropDefs.run fn rtl fuel ops) q = Some x -> Util.lookup (PropDefs.w_props (PropDefs.run fn rtl fuel ops)) q = Some pr ->
    PropCheck.den_node fn (PropDefs.values (PropDefs.run fn rtl fuel ops)) (PropDefs.b_root x) = Some z -> PropDefs.pr_value pr = z.
Proof. exact PropGrow.grow_reachable_consistent. Qed.
Print Assumptions C02_growing_network_consistent.

(* ... and for histories in which existing properties (possibly with readers already, possibly bound already) are bound later, bound
   properties are reset and properties nobody reads are destroyed: grow_op2 = new property, assignment, read, plain observer,
   immediate binding of ANY property, reset, destruction of a property no live binding reads *)
Theorem C02_network_with_late_bindings_and_resets_consistent :
  forall fn rtl fuel ops q x pr z,
    PropGrowMore.grow2_run_ok fn rtl fuel PropDefs.world0 ops ->
    PropSim.imm_of (PropDefs.run fn rtl fuel ops) q = Some x -> Util.lookup (PropDefs.w_props (PropDefs.run fn rtl fuel ops)) q = Some pr ->
    PropCheck.den_node fn (PropDefs.values (PropDefs.run fn rtl fuel ops)) (PropDefs.b_root x) = Some z -> PropDefs.pr_value pr = z.
Proof. exact PropGrowMore.grow2_reachable_consistent. Qed.
Print Assumptions C02_network_with_late_bindings_and_resets_consistent.

(* move construction of ANY property of a coherent world whose observers do not act (NOEMIT: no signal is in the middle of an
   emission - true between top-level calls, PropFlags.step_noemit) *)
Theorem C02_move_construction_keeps_coherence :
  forall fn rtl fuel w src dst w',
    PropSim.SC w -> PropSim.COH fn w -> PropFlags.NOEMIT w ->
    PropDefs.step1 fn rtl fuel w (PropDefs.PMoveCtor src dst) = (w', None) -> PropSim.SC w' /\ PropSim.COH fn w'.
Proof. exact PropMove.grow_movector. Qed.
Print Assumptions C02_move_construction_keeps_coherence.

(* move assignment over a destination that no live binding reads *)
Theorem C02_move_assignment_keeps_coherence :
  forall fn rtl fuel w dst src w',
    PropSim.SC w -> PropSim.COH fn w -> PropFlags.NOEMIT w ->
    (forall b lf, PropLink.has_leaf w b lf -> PropLink.lf_tg lf <> Some dst) ->
    PropDefs.step1 fn rtl fuel w (PropDefs.PMoveAssign dst src) = (w', None) -> PropSim.SC w' /\ PropSim.COH fn w'.
Proof. exact PropMove.grow_moveassign. Qed.
Print Assumptions C02_move_assignment_keeps_coherence.

(* ... hence, from the empty world: histories of grow_op3 = grow_op2 + move construction + move assignment over unread destinations *)
Theorem C02_network_with_moves_consistent :
  forall fn rtl fuel ops q x pr z,
    PropMove.grow3_run_ok fn rtl fuel PropDefs.world0 ops ->
    PropSim.imm_of (PropDefs.run fn rtl fuel ops) q = Some x -> Util.lookup (PropDefs.w_props (PropDefs.run fn rtl fuel ops)) q = Some pr ->
    PropCheck.den_node fn (PropDefs.values (PropDefs.run fn rtl fuel ops)) (PropDefs.b_root x) = Some z -> PropDefs.pr_value pr = z.
Proof. exact PropMove.grow3_reachable_consistent. Qed.
Print Assumptions C02_network_with_moves_consistent.

(* non-vacuity: a chain with a diamond (input 0 reaches property 3 directly and through property 2) and an observer: the history is
   a growing-network history, and after the assignment property 3 holds (5 + 2) + 5 *)
Example C02_growing_example :
  let fn := fun (f : nat) (l : list Z) => Some (fold_right Z.add 0%Z l) in
  let ops := [PropDefs.PNew 0 1%Z; PropDefs.PNew 1 2%Z;
              PropDefs.PBind 2 (PropDefs.EOp2 0 (PropDefs.EProp 0) (PropDefs.EProp 1)) PropDefs.MImmediate;
              PropDefs.PBind 3 (PropDefs.EOp2 1 (PropDefs.EProp 2) (PropDefs.EProp 0)) PropDefs.MImmediate;
              PropDefs.PObserve 3 PropDefs.KChanged 7 0 None; PropDefs.PSet 0 5%Z PropDefs.WSet; PropDefs.PGet 3] in
  PropGrow.grow_run_ok fn true 8 PropDefs.world0 ops /\
  hd_error (PropDefs.w_trace (PropDefs.run fn true 8 ops)) = Some (PropDefs.EvDone None) /\
  nth_error (PropDefs.w_trace (PropDefs.run fn true 8 ops)) 1 = Some (PropDefs.EvVal (Some 12%Z)).
Proof. vm_compute. repeat split; reflexivity. Qed.

(* non-vacuity of the rebinding case: property 2 = p0 + p1 is read by property 3, then bound anew to p1 + p1 while 3 reads it;
   the history is a grow_op2 history, no step throws, and after p1 := 10 property 3 holds (10 + 10) + 1 *)
Example C02_rebinding_example :
  let fn := fun (f : nat) (l : list Z) => Some (fold_right Z.add 0%Z l) in
  let ops := [PropDefs.PNew 0 1%Z; PropDefs.PNew 1 2%Z;
              PropDefs.PBind 2 (PropDefs.EOp2 0 (PropDefs.EProp 0) (PropDefs.EProp 1)) PropDefs.MImmediate;
              PropDefs.PBind 3 (PropDefs.EOp2 1 (PropDefs.EProp 2) (PropDefs.EProp 0)) PropDefs.MImmediate;
              PropDefs.PBind 2 (PropDefs.EOp2 0 (PropDefs.EProp 1) (PropDefs.EProp 1)) PropDefs.MImmediate;
              PropDefs.PSet 1 10%Z PropDefs.WSet; PropDefs.PGet 3] in
  PropGrowMore.grow2_run_ok fn true 8 PropDefs.world0 ops /\
  hd_error (PropDefs.w_trace (PropDefs.run fn true 8 ops)) = Some (PropDefs.EvDone None) /\
  nth_error (PropDefs.w_trace (PropDefs.run fn true 8 ops)) 1 = Some (PropDefs.EvVal (Some 21%Z)).
Proof. vm_compute. repeat split; reflexivity. Qed.

(* non-vacuity of the destruction case: the end of a chain (a bound property with an observer) is destroyed, the rest keeps
   working; destroying 2 while 3 reads it would not be a grow_op2 history *)
Example C02_destruction_example :
  let fn := fun (f : nat) (l : list Z) => Some (fold_right Z.add 0%Z l) in
  let ops := [PropDefs.PNew 0 1%Z; PropDefs.PNew 1 2%Z;
              PropDefs.PBind 2 (PropDefs.EOp2 0 (PropDefs.EProp 0) (PropDefs.EProp 1)) PropDefs.MImmediate;
              PropDefs.PBind 3 (PropDefs.EOp2 1 (PropDefs.EProp 2) (PropDefs.EProp 0)) PropDefs.MImmediate;
              PropDefs.PObserve 3 PropDefs.KChanged 7 0 None; PropDefs.PDel 3; PropDefs.PSet 0 5%Z PropDefs.WSet; PropDefs.PGet 2] in
  PropGrowMore.grow2_run_ok fn true 8 PropDefs.world0 ops /\
  nth_error (PropDefs.w_trace (PropDefs.run fn true 8 ops)) 1 = Some (PropDefs.EvVal (Some 7%Z)) /\
  PropGrowMore.no_reader_b (PropDefs.run fn true 8 (firstn 5 ops)) 2 = false.
Proof. vm_compute. repeat split; reflexivity. Qed.

(* non-vacuity of the move case: input 0 (read twice by 2, once by 3) and the bound property 2 (read by 3) are move-constructed to
   10 and 12; assigning to the NEW input updates the chain: 13 = (p10 + p1) + p10 *)
Example C02_move_example :
  let fn := fun (f : nat) (l : list Z) => Some (fold_right Z.add 0%Z l) in
  let ops := [PropDefs.PNew 0 1%Z; PropDefs.PNew 1 2%Z;
              PropDefs.PBind 2 (PropDefs.EOp2 0 (PropDefs.EProp 0) (PropDefs.EProp 1)) PropDefs.MImmediate;
              PropDefs.PBind 3 (PropDefs.EOp2 1 (PropDefs.EProp 2) (PropDefs.EProp 0)) PropDefs.MImmediate;
              PropDefs.PMoveCtor 0 10; PropDefs.PMoveCtor 2 12; PropDefs.PSet 10 5%Z PropDefs.WSet; PropDefs.PGet 3; PropDefs.PGet 12] in
  PropMove.grow3_run_ok fn true 8 PropDefs.world0 ops /\
  nth_error (PropDefs.w_trace (PropDefs.run fn true 8 ops)) 1 = Some (PropDefs.EvVal (Some 7%Z)) /\
  nth_error (PropDefs.w_trace (PropDefs.run fn true 8 ops)) 3 = Some (PropDefs.EvVal (Some 12%Z)).
Proof. vm_compute. repeat split; reflexivity. Qed.

(* non-vacuity of move assignment: the bound property 3 (end of the chain, observed) is overwritten by the plain property 9;
   input 0 is overwritten by ... nothing: it is read, so that would not be a grow_op3 history *)
Example C02_move_assignment_example :
  let fn := fun (f : nat) (l : list Z) => Some (fold_right Z.add 0%Z l) in
  let ops := [PropDefs.PNew 0 1%Z; PropDefs.PNew 1 2%Z; PropDefs.PNew 9 40%Z;
              PropDefs.PBind 2 (PropDefs.EOp2 0 (PropDefs.EProp 0) (PropDefs.EProp 1)) PropDefs.MImmediate;
              PropDefs.PBind 3 (PropDefs.EOp2 1 (PropDefs.EProp 2) (PropDefs.EProp 0)) PropDefs.MImmediate;
              PropDefs.PObserve 3 PropDefs.KChanged 7 0 None;
              PropDefs.PMoveAssign 3 9; PropDefs.PSet 0 5%Z PropDefs.WSet; PropDefs.PGet 3; PropDefs.PGet 2] in
  PropMove.grow3_run_ok fn true 8 PropDefs.world0 ops /\
  nth_error (PropDefs.w_trace (PropDefs.run fn true 8 ops)) 1 = Some (PropDefs.EvVal (Some 7%Z)) /\
  nth_error (PropDefs.w_trace (PropDefs.run fn true 8 ops)) 3 = Some (PropDefs.EvVal (Some 40%Z)) /\
  PropGrowMore.no_reader_b (PropDefs.run fn true 8 (firstn 6 ops)) 0 = false.
Proof. vm_compute. repeat split; reflexivity. Qed.

(* histories of grow_op4 = grow_op3 + evaluator objects + fresh properties bound through an evaluator + evaluateAll: every
   IMMEDIATELY bound property equals its expression over the current values (those of evaluator-driven properties as they stand) *)
Theorem C02_mixed_worlds_consistent :
  forall fn rtl fuel ops q x pr z,
    PropMixed.grow4_run_ok fn rtl fuel PropDefs.world0 ops ->
    PropSim.imm_of (PropDefs.run fn rtl fuel ops) q = Some x -> Util.lookup (PropDefs.w_props (PropDefs.run fn rtl fuel ops)) q = Some pr ->
    PropCheck.den_node fn (PropDefs.values (PropDefs.run fn rtl fuel ops)) (PropDefs.b_root x) = Some z -> PropDefs.pr_value pr = z.
Proof. exact PropMixed.grow4_reachable_consistent. Qed.
Print Assumptions C02_mixed_worlds_consistent.

(* non-vacuity: p1 = f1(p0) through an evaluator, p2 = f2(p1) immediately: after p0 := 10 nothing moves (p2 = 2 + (1 + 1) = 4);
   evaluateAll updates p1 to 11 and with it, immediately, p2 to 13 *)
Example C02_mixed_example :
  let fn := fun (f : nat) (l : list Z) => Some (fold_right Z.add (Z.of_nat f) l) in
  let ops := [PropDefs.PNew 0 1%Z; PropDefs.BevNew 0;
              PropDefs.PBind 1 (PropDefs.EOp1 1 (PropDefs.EProp 0)) (PropDefs.MEvaluator 0);
              PropDefs.PBind 2 (PropDefs.EOp1 2 (PropDefs.EProp 1)) PropDefs.MImmediate;
              PropDefs.PSet 0 10%Z PropDefs.WSet; PropDefs.PGet 2; PropDefs.BevEvalAll 0; PropDefs.PGet 2] in
  PropMixed.grow4_run_ok fn true 8 PropDefs.world0 ops /\
  map (fun e => match e with PropDefs.EvVal v => v | _ => None end)
      (filter (fun e => match e with PropDefs.EvVal _ => true | _ => false end) (PropDefs.w_trace (PropDefs.run fn true 8 ops)))
  = [Some 13%Z; Some 4%Z].
Proof. split; [vm_compute; repeat split; reflexivity|vm_compute; reflexivity]. Qed.

(* 7. "every expression shape - nested operators and functions": an expression WRITTEN with the library's operators (`a + b`, `-a`, ...)
   must become an operator node whose operands ARE the properties / sub-expressions / constants written, in source order - a property
   operand read once at construction time would be a constant for ever (seeded change C02-5).  The table of all operator overloads is
   regenerated from node_operators.h on every run (translate/opstable.py); every entry passes the wiring check of coq/Tables.v, hence
   (Tables.entry_ok_sound, C14_binary_and_unary_wiring) for every interpretation of the operators the node computes OP over its operands
   as given.  The correspondence runs nodes built by these very overloads (function ids >= 100 of the scripts) against the model. *)
Theorem C02_operator_expressions_wire_their_operands :
  forallb KDB.Tables.entry_ok KDB.generated.OpsTable.ops_table = true /\ KDB.Tables.table_complete KDB.generated.OpsTable.ops_table = true.
Proof. split; vm_compute; reflexivity. Qed.
Print Assumptions C02_operator_expressions_wire_their_operands.

(* 8. ACTING OBSERVERS on the abstract layer (coq/PropAbsAct.v): subscribers of valueChanged may also be observers that assign the
   announced value to another property from inside the notification (a complete nested assignment while the outer emission still has
   subscribers to serve).  For every network, every placement of such observers and every delivery order: whenever an assignment - or a
   whole sequence of assignments - returns normally, every bound property equals its expression over the current values.  The executable
   model refines this layer too (section 9 below, coq/PropSimAct.v). *)
Theorem C02_consistent_with_acting_observers_abstract :
  forall F1 F2 F3 (order' : nat -> list PropAbsAct.sub) fuel s p v,
    tr s p = None -> oof s = false -> Inv F1 F2 F3 (PropAbsAct.lorder order') s [] ->
    oof (PropAbsAct.set' F1 F2 F3 order' fuel s p v) = false ->
    Inv F1 F2 F3 (PropAbsAct.lorder order') (PropAbsAct.set' F1 F2 F3 order' fuel s p v) [].
Proof. exact PropAbsAct.set'_consistent. Qed.
Print Assumptions C02_consistent_with_acting_observers_abstract.

Theorem C02_histories_with_acting_observers_abstract :
  forall F1 F2 F3 (order' : nat -> list PropAbsAct.sub) fuel ws s,
    (forall p v, In (p, v) ws -> tr s p = None) -> oof s = false -> Inv F1 F2 F3 (PropAbsAct.lorder order') s [] ->
    oof (PropAbsAct.sets' F1 F2 F3 order' fuel s ws) = false ->
    Inv F1 F2 F3 (PropAbsAct.lorder order') (PropAbsAct.sets' F1 F2 F3 order' fuel s ws) [].
Proof. exact PropAbsAct.sets'_consistent. Qed.
Print Assumptions C02_histories_with_acting_observers_abstract.

(* non-vacuity: b = x + y; the subscribers of x are b's leaf and then an observer doing y.set(v); x := 5 re-evaluates b to 6, the observer
   then makes y 5, whose notification re-evaluates b to 10 - the initial state satisfies the invariant, the assignment returns normally *)
Example C02_acting_observer_example :
  let F2x := fun (f : nat) (a b : Z) => (a + b)%Z in
  let ordx := fun p : nat => match p with 0 => [PropAbsAct.SLeaf 2 0; PropAbsAct.SAct 1] | 1 => [PropAbsAct.SLeaf 2 1] | _ => [] end in
  let s0 := {| env := fun p => match p with 2 => 2%Z | _ => 1%Z end;
               tr := fun q => match q with 2 => Some (Bin 0 false 2%Z (Leaf 0 0 false) (Leaf 1 1 false)) | _ => None end; oof := false |} in
  Inv (fun _ a => a) F2x (fun _ a b c => (a + b + c)%Z) (PropAbsAct.lorder ordx) s0 [] /\
  let s1 := PropAbsAct.set' (fun _ a => a) F2x (fun _ a b c => (a + b + c)%Z) ordx 5 s0 0 5%Z in
  oof s1 = false /\ env s1 1 = 5%Z /\ env s1 2 = 10%Z.
Proof.
  split; [|vm_compute; repeat split; reflexivity].
  intros q t H. destruct q as [|[|[|q]]]; cbn in H; try discriminate. inversion H; subst t; clear H.
  cbn. repeat split; auto.
  intros p lid [E|[E|[]]]; inversion E; subst; cbn; auto.
Qed.

(* 9. ACTING OBSERVERS on the executable model (coq/PropSimAct.v, coq/PropGrowAct.v): on worlds whose acting observers are subscribers of
   valueChanged that assign the announced value to another property (the `pobsset ... 1 ...` observers of the scripts), Property::setHelper
   IS the abstract assignment of section 8 (the slot's q.set(v) is the nested abstract assignment; a vanished target is skipped on both sides; a
   bound target raises ReadOnlyProperty, so the call does not return normally); hence coherence - the same notion as in sections 2-6 - is kept
   by every assignment that returns normally ... *)
Theorem C02_set_helper_refines_abstract_set_with_acting_observers :
  forall fn rtl order' f w q v w' s,
    PropSimAct.SCA w -> PropSimAct.ORDOK' order' w -> PropSim.Rel w s -> PropDefs.set_helper fn rtl f w q v = (w', None) ->
    PropSimAct.SCA w' /\ PropSim.FR w w' /\
    PropSim.Rel w' (PropAbsAct.set' (PropSim.F1 fn) (PropSim.F2 fn) (PropSim.F3 fn) order' f s q v).
Proof. exact PropSimAct.sim_set'. Qed.
Print Assumptions C02_set_helper_refines_abstract_set_with_acting_observers.

Theorem C02_assignment_with_acting_observers_keeps_coherence :
  forall fn rtl f w p pr v w',
    PropSimAct.SCA w -> PropSim.COH fn w -> Util.lookup (PropDefs.w_props w) p = Some pr -> PropDefs.pr_updater pr = None ->
    PropDefs.set_helper fn rtl f w p v = (w', None) -> PropSimAct.SCA w' /\ PropSim.COH fn w' /\ PropSim.FR w w'.
Proof. exact PropSimAct.assignment_coherent_act. Qed.
Print Assumptions C02_assignment_with_acting_observers_keeps_coherence.

(* ... and end to end: after ANY history of a growing network (section 5: new properties, plain observers, immediate bindings - fresh, late,
   rebinding -, reset(), destruction of unread properties, both moves, assignments) followed by ANY history that attaches observers - plain
   ones and observers of valueChanged that write another property - and assigns inputs (set, operator=, p = q.get()), with every call
   returning normally: every immediately bound property holds exactly its expression recomputed from scratch over the current values *)
Theorem C02_network_then_acting_observers_consistent :
  forall fn rtl fuel ops1 ops2 q x pr z,
    PropMove.grow3_run_ok fn rtl fuel PropDefs.world0 ops1 ->
    PropGrowAct.act_run_ok fn rtl fuel (PropDefs.run fn rtl fuel ops1) ops2 ->
    let w := PropDefs.run fn rtl fuel (ops1 ++ ops2) in
    PropSim.imm_of w q = Some x -> Util.lookup (PropDefs.w_props w) q = Some pr ->
    PropCheck.den_node fn (PropDefs.values w) (PropDefs.b_root x) = Some z -> PropDefs.pr_value pr = z.
Proof. exact PropGrowAct.network_then_acting_observers_consistent. Qed.
Print Assumptions C02_network_then_acting_observers_consistent.

(* non-vacuity: 2 = x + y over inputs 0 and 1; an observer of 0's valueChanged writes 1 := v; an observer of 1 writes 3 := v, and 4 = 3 + 2;
   the assignment 0 := 5 re-evaluates 2 to 6, then the first observer makes 1 = 5 (2 becomes 10), whose observer makes 3 = 5 (4 becomes 15) *)
Example C02_acting_observers_executable_example :
  let fn := fun (f : nat) (l : list Z) => Some (fold_right Z.add 0%Z l) in
  let ops1 := [PropDefs.PNew 0 1%Z; PropDefs.PNew 1 1%Z; PropDefs.PNew 3 0%Z;
               PropDefs.PBind 2 (PropDefs.EOp2 0 (PropDefs.EProp 0) (PropDefs.EProp 1)) PropDefs.MImmediate;
               PropDefs.PBind 4 (PropDefs.EOp2 1 (PropDefs.EProp 3) (PropDefs.EProp 2)) PropDefs.MImmediate] in
  let ops2 := [PropDefs.PObserve 0 PropDefs.KChanged 100 0 (Some (false, 1)); PropDefs.PObserve 1 PropDefs.KChanged 101 1 (Some (false, 3));
               PropDefs.PSet 0 5%Z PropDefs.WSet] in
  PropMove.grow3_run_ok fn true 8 PropDefs.world0 ops1 /\
  PropGrowAct.act_run_ok fn true 8 (PropDefs.run fn true 8 ops1) ops2 /\
  map (PropDefs.values (PropDefs.run fn true 8 (ops1 ++ ops2))) [0; 1; 2; 3; 4] = [Some 5%Z; Some 5%Z; Some 10%Z; Some 5%Z; Some 15%Z].
Proof. vm_compute. repeat split; reflexivity. Qed.

(* ... and in ANY order (coq/PropGrowAct.v, second half): histories that create properties, attach observers - plain ones and observers of
   valueChanged that write another property -, bind fresh properties with immediate evaluation to expressions over any existing properties
   (also once writing observers exist: the growth lemmas of section 3 hold with `writing observers allowed` in place of `no observer acts`),
   and assign inputs by every path *)
Theorem C02_growing_network_with_acting_observers_consistent :
  forall fn rtl fuel ops q x pr z,
    PropGrowAct.grow_act_run_ok fn rtl fuel PropDefs.world0 ops ->
    let w := PropDefs.run fn rtl fuel ops in
    PropSim.imm_of w q = Some x -> Util.lookup (PropDefs.w_props w) q = Some pr ->
    PropCheck.den_node fn (PropDefs.values w) (PropDefs.b_root x) = Some z -> PropDefs.pr_value pr = z.
Proof. exact PropGrowAct.grow_act_reachable_consistent. Qed.
Print Assumptions C02_growing_network_with_acting_observers_consistent.

(* non-vacuity: the observers exist BEFORE the bindings that read their targets: 0 --observer--> 1, 2 = 0 + 1, 1 --observer--> 3, 4 = 3 + 2 *)
Example C02_acting_observers_any_order_example :
  let fn := fun (f : nat) (l : list Z) => Some (fold_right Z.add 0%Z l) in
  let ops := [PropDefs.PNew 0 1%Z; PropDefs.PNew 1 1%Z; PropDefs.PObserve 0 PropDefs.KChanged 100 0 (Some (false, 1));
              PropDefs.PBind 2 (PropDefs.EOp2 0 (PropDefs.EProp 0) (PropDefs.EProp 1)) PropDefs.MImmediate;
              PropDefs.PNew 3 0%Z; PropDefs.PObserve 1 PropDefs.KChanged 101 1 (Some (false, 3)); PropDefs.PSet 0 2%Z PropDefs.WSet;
              PropDefs.PBind 4 (PropDefs.EOp2 1 (PropDefs.EProp 3) (PropDefs.EProp 2)) PropDefs.MImmediate;
              PropDefs.PSet 0 5%Z PropDefs.WSet] in
  PropGrowAct.grow_act_run_ok fn true 8 PropDefs.world0 ops /\
  map (PropDefs.values (PropDefs.run fn true 8 ops)) [0; 1; 2; 3; 4] = [Some 5%Z; Some 5%Z; Some 10%Z; Some 5%Z; Some 15%Z].
Proof. vm_compute. repeat split; reflexivity. Qed.

(* 10. observers of valueAboutToChange that write (coq/PropAbsAct2.v, coq/PropSimAct2.v, coq/PropGrowAct2.v): before the new value of an UNBOUND
   property is stored, such an observer assigns the old value to another property - a complete nested assignment running while the outer
   assignment has not stored anything yet.  (On a BOUND property such an observer would run between the re-evaluation of the binding and the
   store; a dependency cycle through it is not detected by the library - DESIGN.md 7 - and such observers are excluded.)
   Abstract layer, every network and delivery order: *)
Theorem C02_consistent_with_writing_observers_of_both_signals_abstract :
  forall F1 F2 F3 (order' : nat -> list PropAbsAct.sub) (orderA : nat -> list nat) fuel s p v,
    tr s p = None -> oof s = false -> Inv F1 F2 F3 (PropAbsAct.lorder order') s [] ->
    oof (PropAbsAct2.set2 F1 F2 F3 order' orderA fuel s p v) = false ->
    Inv F1 F2 F3 (PropAbsAct.lorder order') (PropAbsAct2.set2 F1 F2 F3 order' orderA fuel s p v) [].
Proof. exact PropAbsAct2.set2_consistent. Qed.
Print Assumptions C02_consistent_with_writing_observers_of_both_signals_abstract.

(* the executable Property::setHelper refines it ... *)
Theorem C02_set_helper_refines_abstract_set_with_writing_observers_of_both_signals :
  forall fn rtl order' orderA f w q v w' s,
    PropSimAct2.SCB w -> PropSimAct2.ORDOKB order' orderA w -> PropSim.Rel w s -> PropDefs.set_helper fn rtl f w q v = (w', None) ->
    PropSimAct2.SCB w' /\ PropSim.FR w w' /\
    PropSim.Rel w' (PropAbsAct2.set2 (PropSim.F1 fn) (PropSim.F2 fn) (PropSim.F3 fn) order' orderA f s q v).
Proof. exact PropSimAct2.sim_set2. Qed.
Print Assumptions C02_set_helper_refines_abstract_set_with_writing_observers_of_both_signals.

(* ... so that after ANY history of a growing network followed by ANY history that attaches observers - plain, writing on valueChanged, writing
   on valueAboutToChange of an unbound property - and assigns inputs, every immediately bound property equals its expression *)
Theorem C02_network_then_writing_observers_of_both_signals_consistent :
  forall fn rtl fuel ops1 ops2 q x pr z,
    PropMove.grow3_run_ok fn rtl fuel PropDefs.world0 ops1 ->
    PropGrowAct2.act2_run_ok fn rtl fuel (PropDefs.run fn rtl fuel ops1) ops2 ->
    let w := PropDefs.run fn rtl fuel (ops1 ++ ops2) in
    PropSim.imm_of w q = Some x -> Util.lookup (PropDefs.w_props w) q = Some pr ->
    PropCheck.den_node fn (PropDefs.values w) (PropDefs.b_root x) = Some z -> PropDefs.pr_value pr = z.
Proof. exact PropGrowAct2.network_then_observers_of_both_kinds_consistent. Qed.
Print Assumptions C02_network_then_writing_observers_of_both_signals_consistent.

(* non-vacuity: 2 = x + y; an observer of x.valueAboutToChange writes the OLD value of x into y before x is stored: after x := 5 (old value 1),
   y = 1 and 2 = 5 + 1; after x := 7 (old value 5), y = 5 and 2 = 12 *)
Example C02_about_to_change_writer_example :
  let fn := fun (f : nat) (l : list Z) => Some (fold_right Z.add 0%Z l) in
  let ops1 := [PropDefs.PNew 0 1%Z; PropDefs.PNew 1 0%Z;
               PropDefs.PBind 2 (PropDefs.EOp2 0 (PropDefs.EProp 0) (PropDefs.EProp 1)) PropDefs.MImmediate] in
  let ops2 := [PropDefs.PObserve 0 PropDefs.KAbout 100 0 (Some (false, 1)); PropDefs.PSet 0 5%Z PropDefs.WSet; PropDefs.PSet 0 7%Z PropDefs.WSet] in
  PropMove.grow3_run_ok fn true 8 PropDefs.world0 ops1 /\
  PropGrowAct2.act2_run_ok fn true 8 (PropDefs.run fn true 8 ops1) ops2 /\
  map (PropDefs.values (PropDefs.run fn true 8 (ops1 ++ ops2))) [0; 1; 2] = [Some 7%Z; Some 5%Z; Some 12%Z].
Proof. vm_compute. repeat split; reflexivity. Qed.

(* ... and, as in section 9, also when everything is interleaved in ANY order: new properties, observers of every kind above, reset(), immediate bindings of fresh properties, of existing unbound ones (which may have readers and observers, but no writing observer of valueAboutToChange) and of bound ones (rebinding), move construction of any property (its observers, writing ones included, move with it), destruction of a property no live binding reads (its observers, writing ones included, die with it: grow_del_b), move assignment over such a property (the source's observers now belong to it, its own are gone with its dead tables: grow_moveassign_b), fresh immediately
   bound properties, assignments (the growth lemmas once more, with `writing observers of both signals allowed`; a freshly created
   property has no valueAboutToChange table, so binding it puts no writing observer on a bound property) *)
Theorem C02_growing_network_with_writing_observers_of_both_signals_consistent :
  forall fn rtl fuel ops q x pr z,
    PropGrowAct2.grow_act2_run_ok fn rtl fuel PropDefs.world0 ops ->
    let w := PropDefs.run fn rtl fuel ops in
    PropSim.imm_of w q = Some x -> Util.lookup (PropDefs.w_props w) q = Some pr ->
    PropCheck.den_node fn (PropDefs.values w) (PropDefs.b_root x) = Some z -> PropDefs.pr_value pr = z.
Proof. exact PropGrowAct2.grow_act2_reachable_consistent. Qed.
Print Assumptions C02_growing_network_with_writing_observers_of_both_signals_consistent.

Example C02_writers_of_both_signals_any_order_example :
  let fn := fun (f : nat) (l : list Z) => Some (fold_right Z.add 0%Z l) in
  let ops := [PropDefs.PNew 0 1%Z; PropDefs.PNew 1 0%Z; PropDefs.PObserve 0 PropDefs.KAbout 100 0 (Some (false, 1));
              PropDefs.PBind 2 (PropDefs.EOp2 0 (PropDefs.EProp 0) (PropDefs.EProp 1)) PropDefs.MImmediate;
              PropDefs.PNew 3 0%Z; PropDefs.PObserve 1 PropDefs.KChanged 101 1 (Some (false, 3)); PropDefs.PSet 0 5%Z PropDefs.WSet;
              PropDefs.PBind 4 (PropDefs.EOp2 1 (PropDefs.EProp 3) (PropDefs.EProp 2)) PropDefs.MImmediate;
              PropDefs.PSet 0 7%Z PropDefs.WSet] in
  PropGrowAct2.grow_act2_run_ok fn true 8 PropDefs.world0 ops /\
  map (PropDefs.values (PropDefs.run fn true 8 ops)) [0; 1; 2; 3; 4] = [Some 7%Z; Some 5%Z; Some 12%Z; Some 5%Z; Some 17%Z].
Proof. vm_compute. repeat split; try (left; reflexivity); reflexivity. Qed.

(* non-vacuity of the destruction case: property 3 carries a writing observer (writes 1), a binding is built, then 3 is destroyed while
   the writer exists; later assignments keep every binding at its expression's value *)
Example C02_destruction_with_writing_observers_example :
  let fn := fun (f : nat) (l : list Z) => Some (fold_right Z.add 0%Z l) in
  let ops := [PropDefs.PNew 0 1%Z; PropDefs.PNew 1 0%Z; PropDefs.PNew 3 0%Z;
              PropDefs.PObserve 3 PropDefs.KChanged 100 0 (Some (false, 1));
              PropDefs.PObserve 0 PropDefs.KChanged 101 1 (Some (false, 3));
              PropDefs.PBind 2 (PropDefs.EOp2 0 (PropDefs.EProp 0) (PropDefs.EProp 1)) PropDefs.MImmediate;
              PropDefs.PSet 0 5%Z PropDefs.WSet; PropDefs.PDel 3; PropDefs.PSet 0 7%Z PropDefs.WSet] in
  PropGrowAct2.grow_act2_run_ok fn true 8 PropDefs.world0 ops /\
  map (PropDefs.values (PropDefs.run fn true 8 ops)) [0; 1; 2; 3] = [Some 7%Z; Some 5%Z; Some 12%Z; None].
Proof. vm_compute. repeat split; try (left; reflexivity); reflexivity. Qed.

(* non-vacuity of the move-assignment case: 0 carries a writer (to 3); 5 - itself with a writer (to 1) that must be gone afterwards - is
   move-assigned from 0: the binding that read 0 now reads 5, assignments to 5 reach 3 through the moved writer and no longer reach 1 *)
Example C02_move_assignment_with_writing_observers_example :
  let fn := fun (f : nat) (l : list Z) => Some (fold_right Z.add 0%Z l) in
  let ops := [PropDefs.PNew 0 1%Z; PropDefs.PNew 1 0%Z; PropDefs.PNew 3 0%Z; PropDefs.PNew 5 9%Z;
              PropDefs.PObserve 0 PropDefs.KChanged 100 0 (Some (false, 3));
              PropDefs.PObserve 5 PropDefs.KChanged 101 1 (Some (false, 1));
              PropDefs.PBind 2 (PropDefs.EOp2 0 (PropDefs.EProp 0) (PropDefs.EProp 1)) PropDefs.MImmediate;
              PropDefs.PMoveAssign 5 0; PropDefs.PSet 5 7%Z PropDefs.WSet] in
  PropGrowAct2.grow_act2_run_ok fn true 8 PropDefs.world0 ops /\
  map (PropDefs.values (PropDefs.run fn true 8 ops)) [1; 2; 3; 5] = [Some 0%Z; Some 7%Z; Some 7%Z; Some 7%Z].
Proof. vm_compute. repeat split; try (left; reflexivity); reflexivity. Qed.
