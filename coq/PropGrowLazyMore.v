(* Evaluator-driven networks with Property::reset() and destruction of unread properties: the state conditions of the one-pass
   theorem (LSC, LSND, LREG) are kept; the destroyed binding leaves the registry, so it is never evaluated again. *)
From KDB Require Import Util UtilProofs PropDefs PropFlags PropLink PropLinkBasics PropLinkOps PropLinkTheorems PropSim PropGrow PropSimLazy PropGrowLazy PropGrowMore.
From KDB Require PropAbs PropAbsProofs PropAbsLazy PropProofs PropCheck.
Module L := PropAbsLazy.

(* l' is l with some elements deleted *)
Inductive Sub {X} : list X -> list X -> Prop :=
| Sub_nil : Sub [] []
| Sub_keep a l' l : Sub l' l -> Sub (a :: l') (a :: l)
| Sub_drop a l' l : Sub l' l -> Sub l' (a :: l).
Lemma Sub_In {X} (l' l : list X) : Sub l' l -> forall x, In x l' -> In x l.
Proof. induction 1 as [|a l' l _ IH|a l' l _ IH]; intros x Hx; [exact Hx| |right; auto]. destruct Hx as [<-|Hx]; [left; reflexivity|right; auto]. Qed.
Lemma Sub_NoDup {X} (l' l : list X) : Sub l' l -> NoDup l -> NoDup l'.
Proof.
  induction 1 as [|a l' l S IH|a l' l S IH]; intros H; [constructor| |]; inversion H as [|? ? Ha Hl]; subst; [|auto].
  constructor; [intros Hi; apply Ha; eapply Sub_In; eauto|auto].
Qed.
Lemma Sub_app {X} (a' a b' b : list X) : Sub a' a -> Sub b' b -> Sub (a' ++ b') (a ++ b).
Proof. induction 1; cbn; intros Hb; [exact Hb|constructor; auto|constructor; auto]. Qed.
Lemma Sub_refl {X} (l : list X) : Sub l l.
Proof. induction l; constructor; auto. Qed.
Lemma Sub_nil_l {X} (l : list X) : Sub [] l.
Proof. induction l; constructor; auto. Qed.

Section MoreLazy.
  Variable fn : nat -> list Z -> option Z.
  Variable rtl : bool.
  Variable ev : nat.
  Hypothesis ev_pos : ev <> 0.
  Notation F1 := (PropSim.F1 fn).
  Notation F2 := (PropSim.F2 fn).
  Notation F3 := (PropSim.F3 fn).
  Notation LSC := (PropSimLazy.LSC ev).
  Notation LSND := (PropGrowLazy.LSND fn).
  Notation LREG := (PropGrowLazy.LREG ev).

  Lemma unsubscribe_evps w h : w_evps (fst (unsubscribe w h)) = w_evps w /\ w_bevs (fst (unsubscribe w h)) = w_bevs w.
  Proof.
    unfold unsubscribe. destruct (get_table w (h_table h)) as [tb|]; [|auto]. destruct (negb (t_alive tb)); [auto|].
    destruct (nth_error (t_slots tb) (h_pos h)) as [[[ser s]|]|]; auto. destruct (Nat.eqb ser (h_serial h)); [|auto]. destruct (t_emitting tb); auto.
  Qed.
  Lemma unsubscribe_all_evps hs : forall w, w_evps (fst (unsubscribe_all w hs)) = w_evps w /\ w_bevs (fst (unsubscribe_all w hs)) = w_bevs w.
  Proof.
    induction hs as [|h r IH]; intros w; cbn [unsubscribe_all]; [auto|]. pose proof (unsubscribe_evps w h) as [E1 E2].
    destruct (unsubscribe w h) as [w1 [e|]]; cbn [fst] in *; [auto|]. destruct (IH w1) as [E3 E4]. split; congruence.
  Qed.

  (* what ~Binding leaves behind: the registry without its entry, the binding record dead and without target *)
  Lemma destroy_shape w b x w2 e :
    get_bind w b = Some x -> destroy_binding w b = (w2, e) ->
    w_evps w2 = match nth_error (w_evps w) (b_evp x) with
                | Some ep => upd (w_evps w) (b_evp x)
                               {| ep_registry := filter (fun q => negb (Nat.eqb (fst q) (b_regid x))) (ep_registry ep); ep_next := ep_next ep |}
                | None => w_evps w end /\
    w_bevs w2 = w_bevs w /\
    get_bind w2 b = None.
  Proof.
    intros Hb H. unfold destroy_binding in H. rewrite Hb in H.
    match type of H with unsubscribe_all ?W ?HS = _ =>
      pose proof (unsubscribe_all_evps HS W) as [E1 E2]; pose proof (PropGrowMore.unsubscribe_all_binds HS W) as E3; rewrite H in E1, E2, E3; cbn [fst] in E1, E2, E3 end.
    assert (Hlt : b < length (w_binds w)) by (unfold get_bind in Hb; apply nth_error_Some; destruct (nth_error (w_binds w) b); congruence).
    split; [rewrite E1; destruct (nth_error (w_evps w) (b_evp x)); reflexivity|]. split; [rewrite E2; destruct (nth_error (w_evps w) (b_evp x)); reflexivity|].
    unfold get_bind. rewrite E3. unfold put_bind; cbn [set_binds w_binds].
    destruct (nth_error (w_evps w) (b_evp x)); cbn [set_evps w_binds]; rewrite nth_upd_same by exact Hlt; reflexivity.
  Qed.

  Lemma regs_sub w w' f : (forall b', lz w' b' = None \/ lz w' b' = lz w b') ->
    forall reg, Sub (regs_of w' (filter f reg)) (regs_of w reg).
  Proof.
    intros HL. induction reg as [|rb r IH]; [constructor|].
    assert (E1 : regs_of w (rb :: r) = (match lz w (snd rb) with Some q => [q] | None => [] end) ++ regs_of w r) by reflexivity.
    rewrite E1. cbn [filter]. destruct (f rb).
    - assert (E2 : regs_of w' (rb :: filter f r) = (match lz w' (snd rb) with Some q => [q] | None => [] end) ++ regs_of w' (filter f r)) by reflexivity.
      rewrite E2. apply Sub_app; [|exact IH]. destruct (HL (snd rb)) as [E|E]; rewrite E; [apply Sub_nil_l|apply Sub_refl].
    - change (regs_of w' (filter f r)) with ([] ++ regs_of w' (filter f r)). apply Sub_app; [apply Sub_nil_l|exact IH].
  Qed.

  Lemma regs_of_In w l q : In q (regs_of w l) -> exists rb, In rb l /\ lz w (snd rb) = Some q.
  Proof.
    unfold regs_of. intros H. apply in_flat_map in H. destruct H as (rb & Hrb & Hq). exists rb. split; [exact Hrb|].
    destruct (lz w (snd rb)) as [q'|]; [destruct Hq as [<-|[]]; reflexivity|destruct Hq].
  Qed.

  Lemma lchain_sub w w' : forall l' l, Sub l' l -> lchain w l -> (forall q, In q l' -> lz_of w' q = lz_of w q) -> lchain w' l'.
  Proof.
    induction 1 as [|a l' l S IH|a l' l S IH]; intros HC HE; cbn [lchain] in *; [exact I| |].
    - destruct HC as [HA HC]. split; [|apply IH; [exact HC|intros q Hq; apply HE; right; exact Hq]].
      intros x lf p0 Hx Hi Ht Hin. rewrite (HE a (or_introl eq_refl)) in Hx. apply (HA x lf p0 Hx Hi Ht).
      destruct Hin as [<-|Hin]; [left; reflexivity|right; eapply Sub_In; eauto].
    - destruct HC as [_ HC]. apply IH; [exact HC|exact HE].
  Qed.

  (* the registry invariant after a binding b (whose property was p) died: the registry of ev is a filtered copy of the old one,
     b has no target any more, p is not lazily bound any more, nothing else changed *)
  Lemma LREG_filtered w w' b p (f : nat * nat -> bool) :
    pinv w -> LREG w ->
    (forall b', lz w' b' = if Nat.eqb b' b then None else lz w b') ->
    (forall q, lz_of w' q = if Nat.eqb q p then None else lz_of w q) ->
    nth_error (w_evps w') ev = option_map (fun st => {| ep_registry := filter f (ep_registry st); ep_next := ep_next st |}) (nth_error (w_evps w) ev) ->
    length (w_binds w') = length (w_binds w) ->
    (forall q, q <> p -> lookup (w_props w) q <> None -> lookup (w_props w') q <> None) ->
    (forall b', b' <> b -> lz w b' <> Some p) ->
    LREG w'.
  Proof.
    intros Hinv HR LZ LO Hev' Hlen HP Honly. unfold PropGrowLazy.LREG in *. rewrite Hev'.
    destruct (nth_error (w_evps w) ev) as [st|] eqn:Hst; [|exact I]. cbn [option_map ep_registry].
    destruct HR as (ND & HC & HB & HE).
    assert (HLZ : forall b', lz w' b' = None \/ lz w' b' = lz w b') by (intros b'; rewrite LZ; destruct (Nat.eqb b' b); auto).
    pose proof (regs_sub w w' f HLZ (ep_registry st)) as HSub.
    assert (Hnp : forall q, In q (regs_of w' (filter f (ep_registry st))) -> q <> p).
    { intros q Hq ->. destruct (regs_of_In _ _ _ Hq) as (rb & _ & Hz). rewrite LZ in Hz. destruct (Nat.eqb_spec (snd rb) b) as [|Hne]; [discriminate Hz|].
      exact (Honly _ Hne Hz). }
    split; [exact (Sub_NoDup _ _ HSub ND)|]. split; [|split].
    - apply (lchain_sub w w' _ _ HSub HC). intros q Hq. rewrite LO. destruct (Nat.eqb_spec q p) as [->|]; [exfalso; exact (Hnp p Hq eq_refl)|reflexivity].
    - intros rb Hi. apply filter_In in Hi. destruct Hi as [Hi _]. rewrite Hlen. auto.
    - intros q Hq. apply HP; [exact (Hnp q Hq)|]. exact (HE q (Sub_In _ _ HSub q Hq)).
  Qed.

  (* the registry of ev after ~Binding of a binding x of any evaluator *)
  Lemma evps_after_destroy (evps : list evpriv) x :
    exists f : nat * nat -> bool,
      nth_error (match nth_error evps (b_evp x) with
                 | Some ep => upd evps (b_evp x) {| ep_registry := filter (fun q => negb (Nat.eqb (fst q) (b_regid x))) (ep_registry ep); ep_next := ep_next ep |}
                 | None => evps end) ev =
      option_map (fun st => {| ep_registry := filter f (ep_registry st); ep_next := ep_next st |}) (nth_error evps ev).
  Proof.
    assert (Ef : forall l : list (nat * nat), filter (fun _ => true) l = l) by (induction l as [|a l IH]; cbn; [reflexivity|rewrite IH; reflexivity]).
    destruct (nth_error evps (b_evp x)) as [ep0|] eqn:He0.
    - destruct (Nat.eq_dec (b_evp x) ev) as [E|Hne].
      + exists (fun q => negb (Nat.eqb (fst q) (b_regid x))). rewrite <- E, He0. rewrite nth_upd_same by (apply nth_error_Some; congruence). reflexivity.
      + exists (fun _ => true). rewrite nth_upd_other by exact Hne. destruct (nth_error evps ev) as [[rg nx]|]; [|reflexivity]. cbn [option_map ep_registry ep_next]. rewrite Ef. reflexivity.
    - exists (fun _ => true). destruct (nth_error evps ev) as [[rg nx]|]; [|reflexivity]. cbn [option_map ep_registry ep_next]. rewrite Ef. reflexivity.
  Qed.

  (* ---- Property::reset() of a property bound through the evaluator ---- *)
  Lemma lazy_grow_reset fuel w p w' :
    LSC w -> LSND w -> LREG w -> step1 fn rtl fuel w (PReset p) = (w', None) -> LSC w' /\ LSND w' /\ LREG w'.
  Proof.
    intros HSC HSN HR H. pose proof HSC as (Hinv & Hna & Hsi & Hal). pose proof HSN as (s & (R1 & R2) & HS). cbn [step1] in H.
    destruct (lookup (w_props w) p) as [pr|] eqn:Hp; [|discriminate H].
    destruct (pr_updater pr) as [b|] eqn:Hu.
    2:{ inversion H; subst. auto. }
    destruct (destroy_binding w b) as [w2 [ex|]] eqn:Hd; [discriminate H|].
    destruct (reset_pinv _ _ _ _ _ Hinv Hp Hu Hd) as (Hp2 & Hinv' & Hns & Hb2 & Hbo & Hpr & Hlen). rewrite Hp2 in H. inversion H; subst w'; clear H.
    set (w' := set_props w2 (bind_key (w_props w2) p (prop_set_updater pr None))) in *.
    destruct (destroy_binding_pinvg _ _ _ _ _ _ _ _ _ Hinv (fun z => z) Hd) as (_ & _ & _ & _ & _ & _ & _ & _ & _ & Hsl & _).
    pose proof (PropGrowMore.destroy_binding_get_bind _ _ _ _ Hd) as Gb.
    assert (Pq : pview w p = Some (psigs_of pr)) by (unfold pview; rewrite Hp; reflexivity).
    destruct (pi_upd _ _ _ _ _ _ _ Hinv _ _ _ Pq Hu (fun z => z)) as (lsb & Ebw).
    destruct (get_bind w b) as [x|] eqn:Hbx; [|unfold bview in Ebw; rewrite Hbx in Ebw; discriminate Ebw].
    assert (Htx : b_target x = Some p) by (unfold bview in Ebw; rewrite Hbx in Ebw; congruence).
    destruct (destroy_shape w b x w2 None Hbx Hd) as (Ev2 & Bev2 & Gb2).
    assert (Gw : forall b', get_bind w' b' = get_bind w2 b') by reflexivity.
    assert (LZ : forall b', lz w' b' = if Nat.eqb b' b then None else lz w b').
    { intros b'. unfold lz. rewrite Gw. destruct (Nat.eqb_spec b' b) as [->|Hne]; [rewrite Gb2; reflexivity|rewrite Gb by exact Hne; reflexivity]. }
    assert (LO : forall q, lz_of w' q = if Nat.eqb q p then None else lz_of w q).
    { intros q. unfold lz_of. change (w_props w') with (bind_key (w_props w2) p (prop_set_updater pr None)). rewrite lookup_bind.
      destruct (Nat.eqb_spec q p) as [->|Hne]; [reflexivity|].
      rewrite Hpr. destruct (lookup (w_props w) q) as [pr'|] eqn:Hq; [|reflexivity]. destruct (pr_updater pr') as [b'|] eqn:Hu'; [|reflexivity].
      rewrite Gw, Gb; [reflexivity|]. intros ->.
      assert (Pq' : pview w q = Some (psigs_of pr')) by (unfold pview; rewrite Hq; reflexivity).
      destruct (pi_upd _ _ _ _ _ _ _ Hinv _ _ _ Pq' Hu' (fun z => z)) as (ls & Eb). congruence. }
    assert (HSC' : LSC w').
    { split; [exact Hinv'|]. split; [|split].
      - intros t pos ser label act Hs. change (slot_at w2 t pos ser (SObs label act)) in Hs. eapply Hna. apply Hsl. exact Hs.
      - intros q x0 Hx. rewrite LO in Hx. destruct (Nat.eqb q p); [discriminate Hx|eauto].
      - split; [exact (proj1 Hal)|]. intros b' x0 Hx. rewrite Gw in Hx. destruct (Nat.eq_dec b' b) as [->|Hne]; [rewrite Gb2 in Hx; discriminate Hx|]. rewrite Gb in Hx by exact Hne. exact (proj2 Hal _ _ Hx). }
    split; [exact HSC'|]. split.
    - exists {| L.lenv := L.lenv s; L.ltr := fun q => if Nat.eqb q p then None else L.ltr s q |}. split; [split|].
      + intros q prq Hq. unfold w' in Hq; cbn [set_props w_props] in Hq. rewrite lookup_bind, Hpr in Hq. cbn [L.lenv].
        destruct (Nat.eqb_spec q p) as [->|]; [inversion Hq; subst prq; exact (R1 _ _ Hp)|auto].
      + intros q. cbn [L.ltr]. rewrite LO. destruct (Nat.eqb q p); [reflexivity|apply R2].
      + intros q t Ht. cbn [L.ltr L.lenv] in *. destruct (Nat.eqb q p); [discriminate Ht|eauto].
    - destruct (evps_after_destroy (w_evps w) x) as (f & Hf).
      apply (LREG_filtered w w' b p f Hinv HR LZ LO).
      + change (w_evps w') with (w_evps w2). rewrite Ev2. exact Hf.
      + change (w_binds w') with (w_binds w2). exact Hlen.
      + intros q Hq Hex. unfold w'; cbn [set_props w_props]. rewrite lookup_bind, Hpr. destruct (Nat.eqb q p); [discriminate|exact Hex].
      + intros b' Hne Hz. unfold lz in Hz. destruct (get_bind w b') as [x'|] eqn:Hx'; [|discriminate Hz].
        assert (Eb' : bview w b' = Some (leaves (b_root x'), Some p)) by (unfold bview; rewrite Hx', Hz; reflexivity).
        destruct (pi_tgt _ _ _ _ _ _ _ Hinv _ _ _ Eb') as (v & Pv & Uv). rewrite Pq in Pv. inversion Pv; subst v. cbn in Uv. congruence.
  Qed.

  (* ... and the reset binding is never evaluated again: it is not in the registry evaluateAll iterates *)
  Lemma reset_leaves_registry fuel w p pr b w' :
    LSC w -> lookup (w_props w) p = Some pr -> pr_updater pr = Some b -> step1 fn rtl fuel w (PReset p) = (w', None) ->
    get_bind w' b = None /\ forall st, nth_error (w_evps w') ev = Some st -> ~ In p (regs_of w' (ep_registry st)).
  Proof.
    intros HSC Hp Hu H. pose proof HSC as (Hinv & Hna & Hsi & Hal). cbn [step1] in H. rewrite Hp, Hu in H.
    destruct (destroy_binding w b) as [w2 [ex|]] eqn:Hd; [discriminate H|].
    destruct (reset_pinv _ _ _ _ _ Hinv Hp Hu Hd) as (Hp2 & Hinv' & Hns & Hb2 & Hbo & Hpr & Hlen). rewrite Hp2 in H. inversion H; subst w'; clear H.
    assert (Pq : pview w p = Some (psigs_of pr)) by (unfold pview; rewrite Hp; reflexivity).
    destruct (pi_upd _ _ _ _ _ _ _ Hinv _ _ _ Pq Hu (fun z => z)) as (lsb & Ebw).
    destruct (get_bind w b) as [x|] eqn:Hbx; [|unfold bview in Ebw; rewrite Hbx in Ebw; discriminate Ebw].
    destruct (destroy_shape w b x w2 None Hbx Hd) as (Ev2 & Bev2 & Gb2).
    split; [exact Gb2|]. intros st Hst Hin. destruct (regs_of_In _ _ _ Hin) as (rb & _ & Hz).
    unfold lz in Hz. match type of Hz with match ?G with _ => _ end = _ => destruct G as [x'|] eqn:Hx' end; [|discriminate Hz].
    assert (Eb' : bview (set_props w2 (bind_key (w_props w2) p (prop_set_updater pr None))) (snd rb) = Some (leaves (b_root x'), Some p))
      by (unfold bview; rewrite Hx', Hz; reflexivity).
    destruct (pi_tgt _ _ _ _ _ _ _ Hinv' _ _ _ Eb') as (v & Pv & Uv).
    unfold pview in Pv; cbn [set_props w_props] in Pv. rewrite lookup_bind_same in Pv. inversion Pv; subst v. cbn in Uv. discriminate Uv.
  Qed.

  (* ---- ~Property of a property that no binding reads (bound through an evaluator, or unbound) ---- *)
  Lemma lazy_grow_del fuel w p w' :
    LSC w -> LSND w -> LREG w -> (forall b lf, has_leaf w b lf -> lf_tg lf <> Some p) ->
    step1 fn rtl fuel w (PDel p) = (w', None) -> LSC w' /\ LSND w' /\ LREG w'.
  Proof.
    intros HSC HSN HR Hnr H. pose proof HSC as (Hinv & Hna & Hsi & Hal). pose proof HSN as (s & (R1 & R2) & HS).
    pose proof (destroy_prop_pinv fn rtl fuel w p w' None Hinv H I) as Hinv'.
    destruct (PropGrowMore.del_shape fn rtl fuel w p w' Hinv Hnr H) as (pr & Hp & Pw & Gw & Sw & Hlen & Hevs).
    assert (Pq : pview w p = Some (psigs_of pr)) by (unfold pview; rewrite Hp; reflexivity).
    (* lz and lz_of after the destruction *)
    assert (Gu : forall bp, pr_updater pr = Some bp -> get_bind w' bp = None /\ exists x, get_bind w bp = Some x /\ b_target x = Some p /\
                   exists f : nat * nat -> bool, nth_error (w_evps w') ev =
                     option_map (fun st => {| ep_registry := filter f (ep_registry st); ep_next := ep_next st |}) (nth_error (w_evps w) ev)).
    { intros bp Hu. rewrite Hu in Hevs. destruct Hevs as (w1 & E1 & G1 & Ev & Gb).
      destruct (pi_upd _ _ _ _ _ _ _ Hinv _ _ _ Pq Hu (fun z => z)) as (lsb & Ebw).
      destruct (get_bind w bp) as [x|] eqn:Hbx; [|unfold bview in Ebw; rewrite Hbx in Ebw; discriminate Ebw].
      assert (Htx : b_target x = Some p) by (unfold bview in Ebw; rewrite Hbx in Ebw; congruence).
      destruct (destroy_binding w1 bp) as [w2 e2] eqn:Hd. cbn [fst] in Ev, Gb.
      destruct (destroy_shape w1 bp x w2 e2 G1 Hd) as (Ev2 & _ & Gb2).
      split; [rewrite Gb; exact Gb2|]. exists x. split; [reflexivity|]. split; [exact Htx|].
      destruct (evps_after_destroy (w_evps w) x) as (f & Hf). exists f. rewrite Ev, Ev2, E1. exact Hf. }
    assert (LZ : forall b', lz w' b' = if opt_eqb Nat.eqb (pr_updater pr) (Some b') then None else lz w b').
    { intros b'. unfold lz. destruct (pr_updater pr) as [bp|] eqn:Hu; cbn [opt_eqb].
      - destruct (Nat.eqb_spec bp b') as [<-|Hne]; [destruct (Gu bp eq_refl) as [E _]; rewrite E; reflexivity|rewrite Gw by congruence; reflexivity].
      - rewrite Gw by discriminate. reflexivity. }
    assert (LO : forall q, lz_of w' q = if Nat.eqb q p then None else lz_of w q).
    { intros q. unfold lz_of. rewrite Pw. destruct (Nat.eqb_spec q p) as [->|Hne]; [rewrite lookup_remove_same; reflexivity|].
      rewrite lookup_remove_other by exact Hne. destruct (lookup (w_props w) q) as [pr'|] eqn:Hq; [|reflexivity]. destruct (pr_updater pr') as [b'|] eqn:Hu'; [|reflexivity].
      rewrite Gw; [reflexivity|]. intros Hb.
      assert (Pq' : pview w q = Some (psigs_of pr')) by (unfold pview; rewrite Hq; reflexivity).
      destruct (pi_upd _ _ _ _ _ _ _ Hinv _ _ _ Pq' Hu' (fun z => z)) as (ls & Eb).
      destruct (pi_upd _ _ _ _ _ _ _ Hinv _ _ _ Pq Hb (fun z => z)) as (ls' & Eb'). rewrite Eb in Eb'. inversion Eb'. contradiction. }
    assert (HSC' : LSC w').
    { split; [exact Hinv'|]. split; [|split].
      - intros t pos ser label act Hs. eapply Hna. apply Sw. exact Hs.
      - intros q x0 Hx. rewrite LO in Hx. destruct (Nat.eqb q p); [discriminate Hx|eauto].
      - split; [exact (proj1 Hal)|]. intros b' x0 Hx. destruct (pr_updater pr) as [bp|] eqn:Hu.
        + destruct (Nat.eq_dec b' bp) as [->|Hne]; [destruct (Gu bp eq_refl) as [E _]; rewrite E in Hx; discriminate Hx|].
          rewrite Gw in Hx by congruence. exact (proj2 Hal _ _ Hx).
        + rewrite Gw in Hx by discriminate. exact (proj2 Hal _ _ Hx). }
    split; [exact HSC'|]. split.
    - exists {| L.lenv := L.lenv s; L.ltr := fun q => if Nat.eqb q p then None else L.ltr s q |}. split; [split|].
      + intros q prq Hq. rewrite Pw in Hq. cbn [L.lenv]. destruct (Nat.eq_dec q p) as [->|Hne]; [rewrite lookup_remove_same in Hq; discriminate Hq|].
        rewrite lookup_remove_other in Hq by exact Hne. auto.
      + intros q. cbn [L.ltr]. rewrite LO. destruct (Nat.eqb q p); [reflexivity|apply R2].
      + intros q t Ht. cbn [L.ltr L.lenv] in *. destruct (Nat.eqb q p); [discriminate Ht|eauto].
    - assert (HPx : forall q, q <> p -> lookup (w_props w) q <> None -> lookup (w_props w') q <> None).
      { intros q Hq Hex. rewrite Pw, lookup_remove_other by exact Hq. exact Hex. }
      destruct (pr_updater pr) as [bp|] eqn:Hu.
      + destruct (Gu bp eq_refl) as (_ & x & Hbx & Htx & f & Hf).
        apply (LREG_filtered w w' bp p f Hinv HR).
        * intros b'. rewrite LZ. cbn [opt_eqb]. rewrite (Nat.eqb_sym b' bp). reflexivity.
        * exact LO.
        * exact Hf.
        * exact Hlen.
        * exact HPx.
        * intros b' Hne Hz. unfold lz in Hz. destruct (get_bind w b') as [x'|] eqn:Hx'; [|discriminate Hz].
          assert (Eb' : bview w b' = Some (leaves (b_root x'), Some p)) by (unfold bview; rewrite Hx', Hz; reflexivity).
          destruct (pi_tgt _ _ _ _ _ _ _ Hinv _ _ _ Eb') as (v & Pv & Uv). rewrite Pq in Pv. inversion Pv; subst v. cbn in Uv. congruence.
      + (* an unbound property: the registry and every binding are as before; p was nobody's target *)
        assert (Ef : forall l : list (nat * nat), filter (fun _ => true) l = l) by (induction l as [|a l IH]; cbn; [reflexivity|rewrite IH; reflexivity]).
        apply (LREG_filtered w w' (length (w_binds w)) p (fun _ => true) Hinv HR).
        * intros b'. rewrite LZ. cbn [opt_eqb]. destruct (Nat.eqb_spec b' (length (w_binds w))) as [->|]; [|reflexivity].
          unfold lz, get_bind. replace (nth_error (w_binds w) (length (w_binds w))) with (@None binding); [reflexivity|symmetry; apply nth_error_None; lia].
        * exact LO.
        * rewrite Hevs. destruct (nth_error (w_evps w) ev) as [[rg nx]|]; [|reflexivity]. cbn [option_map ep_registry ep_next]. rewrite Ef. reflexivity.
        * exact Hlen.
        * exact HPx.
        * intros b' _ Hz. unfold lz in Hz. destruct (get_bind w b') as [x'|] eqn:Hx'; [|discriminate Hz].
          assert (Eb' : bview w b' = Some (leaves (b_root x'), Some p)) by (unfold bview; rewrite Hx', Hz; reflexivity).
          destruct (pi_tgt _ _ _ _ _ _ _ Hinv _ _ _ Eb') as (v & Pv & Uv). rewrite Pq in Pv. inversion Pv; subst v. cbn in Uv. congruence.
  Qed.

  (* ---- histories with resets ---- *)
  Definition grow_op_lazy2 (w : world) (o : op) : Prop :=
    match o with
    | PReset _ => True
    | PDel p => PropGrowMore.no_reader_b w p = true
    | _ => PropGrowLazy.grow_op_lazy w o end.

  Theorem lazy_grow2_step f w o w' :
    LSC w -> LSND w -> LREG w -> grow_op_lazy2 w o -> step1 fn rtl (S f) w o = (w', None) -> LSC w' /\ LSND w' /\ LREG w'.
  Proof.
    intros HSC HS HR Ho H. destruct o; cbn [grow_op_lazy2] in Ho;
      try (exact (PropGrowLazy.lazy_grow_step fn rtl ev ev_pos f w _ w' HSC HS HR Ho H)).
    - eapply lazy_grow_del; eauto. apply PropGrowMore.no_reader_sound. exact Ho.
    - eapply lazy_grow_reset; eauto.
  Qed.

  Fixpoint lazy_run2_ok (f : nat) (w : world) (ops : list op) : Prop :=
    match ops with
    | [] => True
    | o :: r => grow_op_lazy2 w o /\ snd (step1 fn rtl (S f) w o) = None /\ lazy_run2_ok f (step fn rtl (S f) w o) r
    end.

  Theorem lazy_grow2_coherent f : forall ops w, LSC w -> LSND w -> LREG w -> lazy_run2_ok f w ops ->
    LSC (fold_left (step fn rtl (S f)) ops w) /\ LSND (fold_left (step fn rtl (S f)) ops w) /\ LREG (fold_left (step fn rtl (S f)) ops w).
  Proof.
    induction ops as [|o r IH]; intros w HSC HS HR Hok; cbn [fold_left]; [auto|]. destruct Hok as (Ho & Hn & Hr).
    unfold step in *. destruct (step1 fn rtl (S f) w o) as [w1 e] eqn:E. cbn [snd] in Hn. subst e.
    destruct (lazy_grow2_step f w o w1 HSC HS HR Ho E) as (SC1 & S1 & R1).
    apply IH; [| | |exact Hr].
    - eapply (PropGrowLazy.LSC_views ev w1); eauto. apply views_log.
    - eapply (PropGrowLazy.LSND_views fn w1); eauto.
    - apply (PropGrowLazy.LREG_REQ ev w1); [|exact R1]. apply PropGrowLazy.REQ_same; auto.
  Qed.

  (* C06 end to end with resets: after any such history ONE evaluateAll makes every registered bound property equal to its
     expression recomputed from scratch *)
  Theorem lazy2_reachable_one_pass f ops e w' :
    lazy_run2_ok f world0 ops ->
    let w := run fn rtl (S f) ops in
    lookup (w_bevs w) e = Some ev ->
    step1 fn rtl (S f) w (BevEvalAll e) = (w', None) ->
    forall st, nth_error (w_evps w) ev = Some st ->
    forall q x pr z, In q (regs_of w (ep_registry st)) -> lz_of w' q = Some x -> lookup (w_props w') q = Some pr ->
      PropCheck.den_node fn (values w') (b_root x) = Some z -> pr_value pr = z.
  Proof.
    intros Hok w He H st Hst.
    destruct (lazy_grow2_coherent f ops world0 (PropGrowLazy.LSC_world0 ev ev_pos) (PropGrowLazy.LSND_world0 fn) (PropGrowLazy.LREG_world0 ev ev_pos) Hok) as (HSC & HS & HR).
    change (LSC w) in HSC. change (LSND w) in HS. change (LREG w) in HR. unfold PropGrowLazy.LREG in HR. rewrite Hst in HR. destruct HR as (ND & HC & _ & _).
    destruct (lazy_evalall_consistent fn rtl ev (S f) w e st w' HSC (PropGrowLazy.LCOH_of_LSND fn ev ev_pos w (proj1 HSC) HS) He Hst ND HC H) as (_ & _ & R). exact R.
  Qed.
End MoreLazy.
