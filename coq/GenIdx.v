(* Executable model of src/kdbindings/genindex_array.h:
   GenerationalIndex, GenerationalIndexAllocator, GenerationalIndexArray<T>.
   Every definition mirrors one member function, line by line.  Generation
   arithmetic is uint32_t: (g + 1) mod 2^gen_bits, with gen_bits regenerated from
   the source by translate/genwidth.py.  No proofs in this file. *)
From KDB Require Export Util.
From KDB.generated Require Import GenWidth.

Definition W : N := (2 ^ gen_bits)%N.

Record gidx := { gi_index : nat; gi_gen : N }.
Definition gidx_eqb (a b : gidx) : bool :=
  Nat.eqb (gi_index a) (gi_index b) && N.eqb (gi_gen a) (gi_gen b).

Record aentry := { ae_live : bool; ae_gen : N }.
(* ga_free: head of the list = back() of the std::vector (LIFO reuse) *)
Record galloc := { ga_entries : list aentry; ga_free : list nat }.
Definition ga_empty : galloc := {| ga_entries := []; ga_free := [] |}.

(* GenerationalIndexAllocator::allocate (the length_error guard at 2^32-1 entries is not modelled) *)
Definition ga_allocate (a : galloc) : galloc * gidx :=
  match ga_free a with
  | i :: f =>
      let g := match nth_error (ga_entries a) i with
               | Some e => ((ae_gen e + 1) mod W)%N
               | None => 0%N end in
      ({| ga_entries := upd (ga_entries a) i {| ae_live := true; ae_gen := g |}; ga_free := f |},
       {| gi_index := i; gi_gen := g |})
  | [] =>
      ({| ga_entries := ga_entries a ++ [{| ae_live := true; ae_gen := 0 |}]; ga_free := [] |},
       {| gi_index := length (ga_entries a); gi_gen := 0%N |})
  end.

Definition ga_isLive (a : galloc) (k : gidx) : bool :=
  match nth_error (ga_entries a) (gi_index k) with
  | Some e => N.eqb (ae_gen e) (gi_gen k) && ae_live e
  | None => false
  end.

Definition ga_deallocate (a : galloc) (k : gidx) : galloc * bool :=
  if ga_isLive a k then
    match nth_error (ga_entries a) (gi_index k) with
    | Some e => ({| ga_entries := upd (ga_entries a) (gi_index k) {| ae_live := false; ae_gen := ae_gen e |};
                    ga_free := gi_index k :: ga_free a |}, true)
    | None => (a, false)
    end
  else (a, false).

Record garray (T : Type) := { g_slots : list (option (N * T)); g_alloc : galloc }.
Arguments g_slots {T}. Arguments g_alloc {T}. Arguments Build_garray {T}.
Definition g_empty {T} : garray T := {| g_slots := []; g_alloc := ga_empty |}.

Definition g_set {T} (a : garray T) (k : gidx) (v : T) : garray T :=
  {| g_slots := upd (pad (g_slots a) (S (gi_index k))) (gi_index k) (Some (gi_gen k, v));
     g_alloc := g_alloc a |}.

Definition g_insert {T} (a : garray T) (v : T) : garray T * gidx :=
  let '(al, k) := ga_allocate (g_alloc a) in
  (g_set {| g_slots := g_slots a; g_alloc := al |} k v, k).

Definition g_erase {T} (a : garray T) (k : gidx) : garray T :=
  let '(al, ok) := ga_deallocate (g_alloc a) k in
  if ok then {| g_slots := upd (g_slots a) (gi_index k) None; g_alloc := al |} else a.

Definition g_get {T} (a : garray T) (k : gidx) : option T :=
  match nth_error (g_slots a) (gi_index k) with
  | Some (Some (g, v)) => if N.eqb g (gi_gen k) then Some v else None
  | _ => None
  end.

(* overwrite the value stored under k (what writing through the pointer returned by get() does) *)
Definition g_update {T} (a : garray T) (k : gidx) (v : T) : garray T :=
  match g_get a k with
  | Some _ => {| g_slots := upd (g_slots a) (gi_index k) (Some (gi_gen k, v)); g_alloc := g_alloc a |}
  | None => a
  end.

Definition g_size {T} (a : garray T) : nat := length (g_slots a).

Definition g_indexAt {T} (a : garray T) (i : nat) : option gidx :=
  match nth_error (g_slots a) i with
  | Some (Some (g, _)) =>
      let k := {| gi_index := i; gi_gen := g |} in
      if ga_isLive (g_alloc a) k then Some k else None
  | _ => None
  end.

Definition g_clear {T} (a : garray T) : garray T :=
  fold_left (fun acc i => match g_indexAt acc i with Some k => g_erase acc k | None => acc end)
            (seq 0 (g_size a)) a.

(* the live contents in entry order: what an emission walk sees *)
Definition g_live {T} (a : garray T) : list (gidx * T) :=
  flat_map (fun i => match g_indexAt a i with
                     | Some k => match g_get a k with Some v => [(k, v)] | None => [] end
                     | None => [] end) (seq 0 (g_size a)).
