(* C14 - Binding operators and functions compute exactly what the C++ operator computes.
   The library's contribution is WIRING: which operator the lambda applies, to which operands, in which order, and
   which expression the declared result type is the type of.  The table is regenerated from the current source on
   every run (translate/opstable.py, translate/fntable.py); the theorems quantify over EVERY interpretation `cop` of
   the C++ operators and every operand value.  What the C++ compiler makes of the operands (promotions, the type of a
   mixed expression) is validated on a finite grid of types and values by the harness (harness/c14_grid). *)
From KDB Require Import TablesDefs Tables.
From KDB.generated Require Import OpsTable FnTable.

(* every overload found in node_operators.h passes the wiring check (a finite sweep, evaluated by the kernel) *)
Theorem C14_all_entries_checked : forallb entry_ok ops_table = true.
Proof. vm_compute. reflexivity. Qed.
Print Assumptions C14_all_entries_checked.

(* hence: for every overload, every interpretation of the operators and all operand values, the node's value is
   OP applied to the operands in source order, and the declared result type is decltype of the same expression *)
Theorem C14_binary_and_unary_wiring :
  forall (V : Type) (dflt : V) (cop : String.string -> list V -> V) e operands,
    In e ops_table -> List.length operands = List.length (oe_kinds e) ->
    sem V dflt cop e operands = cop (oe_op e) operands /\
    oe_ret_op e = oe_op e /\ oe_ret_args e = ids (List.length (oe_kinds e)) /\
    list_eqb oacc_eqb (oe_ret_acc e) (map acc_of (oe_kinds e)) = true.
Proof.
  intros V dflt cop e operands Hin Hlen. apply entry_ok_sound; [|exact Hlen].
  exact (proj1 (forallb_forall entry_ok ops_table) C14_all_entries_checked e Hin).
Qed.
Print Assumptions C14_binary_and_unary_wiring.

(* exactly 4 unary operators x {Property, Node} and 18 binary operators x 8 operand-kind combinations, no more *)
Theorem C14_complete : table_complete ops_table = true.
Proof. vm_compute. reflexivity. Qed.
Print Assumptions C14_complete.

(* the predeclared functions: each exported name forwards all its arguments, in order, to the function of the same
   name (std::NAME), through a functor with a deduced (auto) result type *)
Theorem C14_functions : forallb fn_entry_ok fn_table = true /\ fn_names fn_table = expected_fn_names.
Proof. vm_compute. split; reflexivity. Qed.
Print Assumptions C14_functions.
