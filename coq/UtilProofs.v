(* Lemmas about the utilities of Util.v *)
From KDB Require Import Util.

Lemma upd_length {A} (l : list A) i x : length (upd l i x) = length l.
Proof. revert i; induction l as [|h t IH]; intros [|j]; simpl; auto. Qed.

Lemma nth_upd_same {A} (l : list A) i x : i < length l -> nth_error (upd l i x) i = Some x.
Proof. revert i; induction l as [|h t IH]; intros [|j] H; simpl in *; try lia; auto. apply IH; lia. Qed.

Lemma nth_upd_other {A} (l : list A) i j x : i <> j -> nth_error (upd l i x) j = nth_error l j.
Proof. revert i j; induction l as [|h t IH]; intros [|i] [|j] H; simpl; auto; try congruence. Qed.

Lemma nth_upd {A} (l : list A) i j x :
  nth_error (upd l i x) j = if Nat.eqb i j then (if Nat.ltb i (length l) then Some x else None) else nth_error l j.
Proof.
  destruct (Nat.eqb_spec i j) as [->|Hne].
  - destruct (Nat.ltb_spec j (length l)) as [Hlt|Hge].
    + apply nth_upd_same; assumption.
    + apply nth_error_None. rewrite upd_length; assumption.
  - apply nth_upd_other; assumption.
Qed.

Lemma upd_beyond {A} (l : list A) i x : length l <= i -> upd l i x = l.
Proof. revert i; induction l as [|h t IH]; intros [|j] H; simpl in *; try lia; auto. f_equal; apply IH; lia. Qed.

Lemma pad_length {A} (l : list (option A)) n : length (pad l n) = Nat.max (length l) n.
Proof. unfold pad. rewrite app_length, repeat_length. lia. Qed.

Lemma pad_nth_old {A} (l : list (option A)) n i : i < length l -> nth_error (pad l n) i = nth_error l i.
Proof. intros H. unfold pad. apply nth_error_app1; assumption. Qed.

Lemma pad_nth_new {A} (l : list (option A)) n i : length l <= i -> i < n -> nth_error (pad l n) i = Some None.
Proof.
  intros H1 H2. unfold pad. rewrite nth_error_app2 by assumption.
  apply nth_error_repeat. lia.
Qed.

Lemma pad_noop {A} (l : list (option A)) n : n <= length l -> pad l n = l.
Proof. intros H. unfold pad. replace (n - length l) with 0 by lia. simpl. apply app_nil_r. Qed.

(* nmap *)
Lemma lookup_remove_same {X} (m : nmap X) k : lookup (remove_key m k) k = None.
Proof.
  induction m as [|[k' x] t IH]; simpl; auto.
  destruct (Nat.eqb_spec k k') as [->|Hne]; auto. simpl.
  destruct (Nat.eqb_spec k k'); [contradiction|assumption].
Qed.

Lemma lookup_remove_other {X} (m : nmap X) k j : j <> k -> lookup (remove_key m k) j = lookup m j.
Proof.
  intros Hne. induction m as [|[k' x] t IH]; simpl; auto.
  destruct (Nat.eqb_spec k k') as [->|Hne'].
  - destruct (Nat.eqb_spec j k'); [contradiction|assumption].
  - simpl. destruct (Nat.eqb_spec j k'); auto.
Qed.

Lemma lookup_bind_same {X} (m : nmap X) k x : lookup (bind_key m k x) k = Some x.
Proof. unfold bind_key; simpl. rewrite Nat.eqb_refl; reflexivity. Qed.

Lemma lookup_bind_other {X} (m : nmap X) k j x : j <> k -> lookup (bind_key m k x) j = lookup m j.
Proof.
  intros Hne. unfold bind_key; simpl.
  destruct (Nat.eqb_spec j k); [contradiction|]. apply lookup_remove_other; assumption.
Qed.

Lemma lookup_bind {X} (m : nmap X) k j x :
  lookup (bind_key m k x) j = if Nat.eqb j k then Some x else lookup m j.
Proof.
  destruct (Nat.eqb_spec j k) as [->|Hne]; [apply lookup_bind_same|apply lookup_bind_other; assumption].
Qed.

Lemma lookup_In {X} (m : nmap X) k x : lookup m k = Some x -> In (k, x) m.
Proof.
  induction m as [|[k' y] t IH]; simpl; [discriminate|].
  destruct (Nat.eqb_spec k k') as [->|Hne]; intros H.
  - inversion H; subst; left; reflexivity.
  - right; apply IH; assumption.
Qed.

Lemma In_remove_key {X} (m : nmap X) k j x : In (j, x) (remove_key m k) -> In (j, x) m /\ j <> k.
Proof.
  induction m as [|[k' y] t IH]; simpl; [contradiction|].
  destruct (Nat.eqb_spec k k') as [->|Hne]; intros H.
  - destruct (IH H); split; auto.
  - destruct H as [H|H].
    + inversion H; subst. split; [left; reflexivity|congruence].
    + destruct (IH H); split; auto.
Qed.

Lemma In_bind_key {X} (m : nmap X) k j x y : In (j, y) (bind_key m k x) -> (j = k /\ y = x) \/ (In (j, y) m /\ j <> k).
Proof.
  unfold bind_key; intros [H|H].
  - inversion H; subst; left; auto.
  - right; apply In_remove_key in H; assumption.
Qed.

Lemma nth_error_ext_eq' {A} (l l' : list A) : (forall n, nth_error l n = nth_error l' n) -> l = l'.
Proof.
  revert l'; induction l as [|h t IH]; intros [|h' t'] H; auto.
  - specialize (H 0); discriminate.
  - specialize (H 0); discriminate.
  - pose proof (H 0) as H0; simpl in H0; inversion H0; subst. f_equal. apply IH. intros n. apply (H (S n)).
Qed.

Lemma NoDup_app_intro {A} (l1 l2 : list A) :
  NoDup l1 -> NoDup l2 -> (forall x, In x l1 -> ~ In x l2) -> NoDup (l1 ++ l2).
Proof.
  induction l1 as [|a t IH]; intros H1 H2 Hd; [assumption|].
  inversion H1 as [|? ? Ha Ht]; subst. simpl. constructor.
  - intros Hin. apply in_app_or in Hin. destruct Hin as [Hin|Hin]; [contradiction|]. eapply Hd; [left; reflexivity|exact Hin].
  - apply IH; [assumption|assumption|]. intros x Hx. apply Hd. right; assumption.
Qed.

Lemma upd_upd {A} (l : list A) i x y : upd (upd l i x) i y = upd l i y.
Proof. revert i; induction l as [|h t IH]; intros [|j]; simpl; auto. f_equal; apply IH. Qed.

Lemma upd_same {A} (l : list A) i x : nth_error l i = Some x -> upd l i x = l.
Proof. revert i; induction l as [|h t IH]; intros [|j] H; simpl in *; try discriminate; auto; [inversion H; reflexivity|f_equal; apply IH; assumption]. Qed.
