(* C20 - Building connections and bindings never alters the caller's l-value arguments.
   PARTIAL: the facts are extracted by a static analysis over clang's AST (translate/forwarding.py: every std::move /
   std::forward applied to a reference parameter of a library function reachable from binding.h, the kind of that
   parameter, the sink of moves out of forwarding references); the run-time grid (harness/c20) searches for a concrete
   altered argument. *)
From KDB Require Import TablesDefs Tables.
From KDB.generated Require Import Forwarding ArityTable.

(* every site passes the check ... *)
Theorem C20_all_sites_checked : forallb site_harmless fwd_sites = true.
Proof. vm_compute. reflexivity. Qed.
Print Assumptions C20_all_sites_checked.

(* ... hence no l-value handed in by the caller is ever turned into an r-value that initialises a library object *)
Theorem C20_no_stealing :
  forall s, In s fwd_sites -> pkind_caller_lvalue (fs_pkind s) = true ->
    steals (after (fs_how s) LValue) (fs_sink s) = false.
Proof.
  intros s Hin Hk. apply site_harmless_sound; [|exact Hk].
  exact (proj1 (forallb_forall site_harmless fwd_sites) C20_all_sites_checked s Hin).
Qed.
Print Assumptions C20_no_stealing.

(* the library keeps DECAYED COPIES: of the callable in an OperatorNode, of a constant in a ConstantNode, of bound
   connect arguments (bind_first_helper takes them by value) *)
Theorem C20_library_owns_copies :
  operator_node_stores_decayed_copy && constant_node_stores_decayed_copy && bound_args_by_value = true.
Proof. vm_compute. reflexivity. Qed.
Print Assumptions C20_library_owns_copies.

(* non-vacuity: the table does contain moves out of forwarding references (the case the check is about) *)
Example C20_table_nontrivial :
  existsb (fun s => match fs_pkind s, fs_how s with PForwarding, HMove => true | _, _ => false end) fwd_sites = true /\
  60 <= List.length fwd_sites.
Proof. vm_compute. split; [reflexivity|]. repeat constructor. Qed.
