(* C09 - Slots may manipulate their signal's connections safely during an emission.
   All statements are for ARBITRARY slot bodies (any table `tbl` of re-entrant actions, any nesting depth `fuel`):
   disconnect / block of any connection by any route, disconnectAll, scoped-connection expiry, emission of other
   signals, evaluation passes. *)
From KDB Require Import Util GenIdx GenIdxProofs SigDefs SigInv SigTheorems SigEmit.

(* in one emission no connection of the emitting signal is invoked twice *)
Theorem C09_at_most_once :
  forall tbl pass_fuel fuel w s args i,
    winv w -> lookup (w_sigs w) s = Some (Some i) ->
    exists l, w_trace (fst (sig_emit (script tbl pass_fuel fuel) w s args)) = l ++ w_trace w /\ NoDup (dkeys i l).
Proof. exact script_emit_at_most_once. Qed.
Print Assumptions C09_at_most_once.

(* while the walk runs, whatever the slots do, no entry of the emitting Impl is erased or replaced (only flags
   change) and the Impl stays emitting, hence alive: no executing callable is destroyed, no freed table is walked *)
Theorem C09_table_stable_during_walk :
  forall tbl pass_fuel fuel w i args idxs m,
    winv w -> get_impl w i = Some m -> i_emitting m = true ->
    exists m', get_impl (fst (walk (script tbl pass_fuel fuel) w i args idxs)) i = Some m' /\
               keys (i_conns m') = keys (i_conns m) /\ g_alloc (i_conns m') = g_alloc (i_conns m) /\ i_emitting m' = true.
Proof. intros tbl pf fuel. exact (emit_table_stable _ (script_good tbl pf fuel)). Qed.
Print Assumptions C09_table_stable_during_walk.

(* when emit returns - normally or with a library exception - every requested disconnection has been carried out *)
Theorem C09_effects_complete_on_return :
  forall tbl pass_fuel fuel w s args i m' k c,
    winv w -> lookup (w_sigs w) s = Some (Some i) ->
    (forall m, get_impl w i = Some m -> i_emitting m = false) ->
    get_impl (fst (sig_emit (script tbl pass_fuel fuel) w s args)) i = Some m' -> g_get (i_conns m') k = Some c ->
    c_tbd c = false /\ i_emitting m' = false.
Proof. intros tbl pf fuel. exact (emit_effects_complete _ (script_good tbl pf fuel)). Qed.
Print Assumptions C09_effects_complete_on_return.

(* "... and exactly once if its connection stayed connected and unblocked throughout": for ARBITRARY slot bodies R that obey the
   library's contract (good: every script does, SigInv.script_good) and leave the entry (i, k) as it is whenever they run
   (keeps_conn: they may disconnect / block OTHER connections of the same signal, emit other signals, run passes ...): an emission
   that returns normally has invoked the direct connection k (In) and has not invoked it twice (NoDup) *)
Theorem C09_exactly_once_if_kept :
  forall R, good R -> forall i k c, keeps_conn R i k c ->
  forall w s args m w',
    winv w -> lookup (w_sigs w) s = Some (Some i) -> get_impl w i = Some m -> i_emitting m = false ->
    g_get (i_conns m) k = Some c -> c_blocked c = false -> c_tbd c = false -> (forall e, c_kind c <> KDeferred e) ->
    sig_emit R w s args = (w', None) ->
    exists l, w_trace w' = l ++ w_trace w /\ In k (dkeys i l) /\ NoDup (dkeys i l).
Proof. exact emit_exactly_once_if_kept. Qed.
Print Assumptions C09_exactly_once_if_kept.

(* its hypotheses are met by bodies that act on the emitting signal: slots that each disconnect another connection k2 *)
Theorem C09_exactly_once_premises_met :
  forall i k2 k c, k2 <> k -> good (disc_other i k2) /\ keeps_conn (disc_other i k2) i k c.
Proof. intros i k2 k c Hne. split; [apply disc_other_good|apply disc_other_keeps; exact Hne]. Qed.
Print Assumptions C09_exactly_once_premises_met.

Theorem C09_nothing_pending_between_calls :
  forall tbl pass_fuel fuel ops i m k c,
    get_impl (run tbl pass_fuel fuel ops) i = Some m -> g_get (i_conns m) k = Some c -> c_tbd c = false.
Proof. exact no_pending_disconnects. Qed.
Print Assumptions C09_nothing_pending_between_calls.

Theorem C09_invariant_reachable : forall tbl pass_fuel fuel ops, winv (run tbl pass_fuel fuel ops).
Proof. exact run_winv. Qed.
Print Assumptions C09_invariant_reachable.

(* a connection disconnected EARLIER IN THE SAME EMISSION - by another slot, by a scoped connection expiring, by the destruction of whatever
   owned it - is not invoked any more when the walk reaches it (its entry is still there, marked, until the emission ends): fix F12 *)
Theorem C09_disconnected_earlier_in_the_emission_is_skipped :
  forall R w i args x r m k c,
    get_impl w i = Some m -> g_indexAt (i_conns m) x = Some k -> g_get (i_conns m) k = Some c -> c_tbd c = true ->
    walk R w i args (x :: r) = walk R w i args r.
Proof. exact walk_marked_skipped. Qed.
Print Assumptions C09_disconnected_earlier_in_the_emission_is_skipped.

(* non-vacuity: slot 100 disconnects everything: slot 101, later in the walk, is as good as gone and is not invoked any more (its entry is
   only marked until the emission ends - fix F12: whoever disconnected it may have destroyed what the slot refers to); afterwards both
   connections are gone *)
Example C09_example :
  let tbl := fun sid => match sid with 1 => [ODiscAll 0] | _ => [] end in
  let w := run tbl 8 4 [OSigNew 0 1; OConnect 0 0 100 1 [] 1; OConnect 0 1 101 1 [] 0; OEmit 0 [7%Z]; OActive 1] in
  firstn 4 (w_trace w) = [EvDone None; EvBool false; EvDone None;
                          EvSlot (Some (0, {| gi_index := 0; gi_gen := 0 |})) true 100 [7%Z]] /\
  (* a slot that disconnects only ITSELF does not stop the later ones *)
  let tbl2 := fun sid => match sid with 1 => [ODiscH 0] | _ => [] end in
  let w2 := run tbl2 8 4 [OSigNew 0 1; OHNew 0; OHNew 1; OConnect 0 0 100 1 [] 1; OConnect 0 1 101 1 [] 0; OEmit 0 [7%Z]] in
  firstn 3 (w_trace w2) = [EvDone None;
                           EvSlot (Some (0, {| gi_index := 1; gi_gen := 0 |})) true 101 [7%Z];
                           EvSlot (Some (0, {| gi_index := 0; gi_gen := 0 |})) true 100 [7%Z]].
Proof. vm_compute. split; reflexivity. Qed.
