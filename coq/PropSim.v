(* Refinement: on networks of immediate-mode bindings over unary / binary operator trees, one assignment in the executable
   model (coq/PropDefs.v: tables, handles, observers, logs) is one assignment of the abstract propagation model
   (coq/PropAbs.v), whose consistency theorem (coq/PropAbsProofs.v) therefore holds for the executable model. *)
From KDB Require Import Util UtilProofs PropDefs PropFlags PropLink PropLinkBasics PropLinkOps PropLinkTheorems.
From KDB Require PropAbs PropAbsProofs PropProofs PropCheck.
Module A := PropAbs.

Lemma NoDup_app_l {X} (l1 l2 : list X) : NoDup (l1 ++ l2) -> NoDup l1.
Proof. induction l1 as [|x r IH]; cbn; intros H; [constructor|]. inversion H; subst. constructor; [rewrite in_app_iff in *; tauto|auto]. Qed.
Lemma NoDup_app_r {X} (l1 l2 : list X) : NoDup (l1 ++ l2) -> NoDup l2.
Proof. induction l1 as [|x r IH]; cbn; intros H; [exact H|]. inversion H; subst. auto. Qed.
Lemma NoDup_app_disj {X} (l1 l2 : list X) x : NoDup (l1 ++ l2) -> In x l1 -> ~ In x l2.
Proof.
  induction l1 as [|y r IH]; cbn; intros H Hi; [destruct Hi|]. inversion H; subst. destruct Hi as [->|Hi]; [|auto].
  intros Hb. apply H2. apply in_or_app. auto.
Qed.

Section Sim.
  Variable fn : nat -> list Z -> option Z.
  Variable rtl : bool.

  Definition F1 (f : nat) (z : Z) : Z := match fn f [z] with Some v => v | None => 0%Z end.
  Definition F2 (f : nat) (y z : Z) : Z := match fn f [y; z] with Some v => v | None => 0%Z end.
  Definition F3 (f : nat) (x y z : Z) : Z := match fn f [x; y; z] with Some v => v | None => 0%Z end.

  Fixpoint abs_tree (t : node) : option A.tree :=
    match t with
    | NConst v => Some (A.Const v)
    | NProp (Some p) d l _ _ _ => Some (A.Leaf p l d)
    | NProp None _ _ _ _ _ => None
    | NOp1 f d c a => match abs_tree a with Some a' => Some (A.Un f d c a') | None => None end
    | NOp2 f d c a b => match abs_tree a, abs_tree b with Some a', Some b' => Some (A.Bin f d c a' b') | _, _ => None end
    | NOp3 f d c a b e => match abs_tree a, abs_tree b, abs_tree e with Some a', Some b', Some e' => Some (A.Tern f d c a' b' e') | _, _, _ => None end
    end.

  Lemma abs_leaves : forall t T, abs_tree t = Some T -> map (fun lf => lf_id lf) (leaves t) = map snd (A.leaves T).
  Proof.
    induction t as [v|tg d l hc hm hd|f d c a IHa|f d c a IHa b IHb|f d c a IHa b IHb e IHe]; intros T H; cbn [abs_tree] in H.
    - inversion H; reflexivity.
    - destruct tg; inversion H; reflexivity.
    - destruct (abs_tree a) as [a'|]; [|discriminate H]. inversion H; subst. cbn. auto.
    - destruct (abs_tree a) as [a'|]; [|discriminate H]. destruct (abs_tree b) as [b'|]; [|discriminate H]. inversion H; subst.
      cbn [leaves A.leaves]. rewrite !map_app. rewrite (IHa _ eq_refl), (IHb _ eq_refl). reflexivity.
    - destruct (abs_tree a) as [a'|]; [|discriminate H]. destruct (abs_tree b) as [b'|]; [|discriminate H]. destruct (abs_tree e) as [e'|]; [|discriminate H].
      inversion H; subst. cbn [leaves A.leaves]. rewrite !map_app. rewrite (IHa _ eq_refl), (IHb _ eq_refl), (IHe _ eq_refl). reflexivity.
  Qed.

  (* markDirty: the abstract version walks both children, the concrete one stops at the first that contains the leaf *)
  Lemma amark_notin : forall T lid, ~ In lid (map snd (A.leaves T)) -> A.mark T lid = (T, false).
  Proof.
    induction T as [z|p i d|f d c k IH|f d c k1 IH1 k2 IH2|f d c k1 IH1 k2 IH2 k3 IH3]; intros lid Hn; cbn [A.mark].
    - reflexivity.
    - destruct (Nat.eqb_spec i lid) as [->|]; [exfalso; apply Hn; left; reflexivity|reflexivity].
    - rewrite IH by exact Hn. reflexivity.
    - cbn [A.leaves] in Hn. rewrite map_app, in_app_iff in Hn. rewrite IH1, IH2 by tauto. reflexivity.
    - cbn [A.leaves] in Hn. rewrite !map_app, !in_app_iff in Hn. rewrite IH1, IH2, IH3 by tauto. reflexivity.
  Qed.

  Lemma mark_none : forall t T lid, abs_tree t = Some T -> mark t lid = None -> ~ In lid (map snd (A.leaves T)).
  Proof.
    induction t as [v|tg d l hc hm hd|f d c a IHa|f d c a IHa b IHb|f d c a IHa b IHb e IHe]; intros T lid H Hm; cbn [abs_tree mark] in *.
    - inversion H; subst. intros [].
    - destruct tg; inversion H; subst. cbn. destruct (Nat.eqb_spec l lid); [destruct d; discriminate Hm|]. intros [E|[]]. contradiction.
    - destruct (abs_tree a) as [a'|]; [|discriminate H]. inversion H; subst. cbn. destruct (mark a lid) as [[a1 u]|] eqn:E; [discriminate Hm|]. eauto.
    - destruct (abs_tree a) as [a'|]; [|discriminate H]. destruct (abs_tree b) as [b'|]; [|discriminate H]. inversion H; subst.
      cbn [A.leaves]. rewrite map_app, in_app_iff.
      destruct (mark a lid) as [[a1 u]|] eqn:Ea; [discriminate Hm|]. destruct (mark b lid) as [[b1 u]|] eqn:Eb; [discriminate Hm|].
      intros [Hi|Hi]; [eapply IHa; eauto|eapply IHb; eauto].
    - destruct (abs_tree a) as [a'|]; [|discriminate H]. destruct (abs_tree b) as [b'|]; [|discriminate H]. destruct (abs_tree e) as [e'|]; [|discriminate H].
      inversion H; subst. cbn [A.leaves]. rewrite !map_app, !in_app_iff.
      destruct (mark a lid) as [[a1 u]|] eqn:Ea; [discriminate Hm|]. destruct (mark b lid) as [[b1 u]|] eqn:Eb; [discriminate Hm|].
      destruct (mark e lid) as [[e1 u]|] eqn:Ee; [discriminate Hm|].
      intros [Hi|[Hi|Hi]]; [eapply IHa; eauto|eapply IHb; eauto|eapply IHe; eauto].
  Qed.

  Lemma mark_some : forall t T lid r, abs_tree t = Some T -> mark t lid = Some r -> In lid (map snd (A.leaves T)).
  Proof.
    induction t as [v|tg d l hc hm hd|f d c a IHa|f d c a IHa b IHb|f d c a IHa b IHb e IHe]; intros T lid r H Hm; cbn [abs_tree mark] in *.
    - discriminate Hm.
    - destruct tg; inversion H; subst. cbn. destruct (Nat.eqb_spec l lid); [auto|discriminate Hm].
    - destruct (abs_tree a) as [a'|]; [|discriminate H]. inversion H; subst. cbn. destruct (mark a lid) as [[a1 u]|] eqn:E; [|discriminate Hm]. eauto.
    - destruct (abs_tree a) as [a'|]; [|discriminate H]. destruct (abs_tree b) as [b'|]; [|discriminate H]. inversion H; subst.
      cbn [A.leaves]. rewrite map_app, in_app_iff.
      destruct (mark a lid) as [[a1 u]|] eqn:Ea; [left; eauto|]. destruct (mark b lid) as [[b1 u]|] eqn:Eb; [right; eauto|discriminate Hm].
    - destruct (abs_tree a) as [a'|]; [|discriminate H]. destruct (abs_tree b) as [b'|]; [|discriminate H]. destruct (abs_tree e) as [e'|]; [|discriminate H].
      inversion H; subst. cbn [A.leaves]. rewrite !map_app, !in_app_iff.
      destruct (mark a lid) as [[a1 u]|] eqn:Ea; [left; eauto|]. destruct (mark b lid) as [[b1 u]|] eqn:Eb; [right; left; eauto|].
      destruct (mark e lid) as [[e1 u]|] eqn:Ee; [right; right; eauto|discriminate Hm].
  Qed.

  Lemma sim_mark : forall t T lid t' up, abs_tree t = Some T -> NoDup (map snd (A.leaves T)) -> mark t lid = Some (t', up) ->
    abs_tree t' = Some (fst (A.mark T lid)) /\ up = snd (A.mark T lid).
  Proof.
    induction t as [v|tg d l hc hm hd|f d c a IHa|f d c a IHa b IHb|f d c a IHa b IHb e IHe]; intros T lid t' up H ND Hm; cbn [abs_tree mark] in *.
    - discriminate Hm.
    - destruct tg as [p|]; inversion H; subst. cbn [A.mark]. destruct (Nat.eqb l lid); [|discriminate Hm].
      destruct d; inversion Hm; subst; cbn; auto.
    - destruct (abs_tree a) as [a'|] eqn:Ea; [|discriminate H]. inversion H; subst. cbn [A.mark A.leaves] in *.
      destruct (mark a lid) as [[a1 u]|] eqn:Em; [|discriminate Hm]. destruct (IHa _ _ _ _ eq_refl ND Em) as [E1 E2].
      destruct (A.mark a' lid) as [k' up']. cbn [fst snd] in *. subst u.
      destruct up', d; inversion Hm; subst; cbn [abs_tree fst snd]; rewrite E1; auto.
    - destruct (abs_tree a) as [a'|] eqn:Ea; [|discriminate H]. destruct (abs_tree b) as [b'|] eqn:Eb; [|discriminate H]. inversion H; subst.
      cbn [A.mark A.leaves] in *. rewrite map_app in ND.
      destruct (mark a lid) as [[a1 u]|] eqn:Em.
      + assert (NDa : NoDup (map snd (A.leaves a'))) by (eapply NoDup_app_l; eauto).
        destruct (IHa _ _ _ _ eq_refl NDa Em) as [E1 E2].
        assert (Hin : In lid (map snd (A.leaves a'))) by (eapply mark_some; eauto).
        assert (Hnb : ~ In lid (map snd (A.leaves b'))).
        { eapply NoDup_app_disj; eauto. }
        rewrite (amark_notin _ _ Hnb). destruct (A.mark a' lid) as [k' up']. cbn [fst snd] in *. subst u. rewrite orb_false_r.
        destruct up', d; inversion Hm; subst; cbn [abs_tree fst snd]; rewrite E1, Eb; auto.
      + destruct (mark b lid) as [[b1 u]|] eqn:Emb; [|discriminate Hm].
        assert (NDb : NoDup (map snd (A.leaves b'))) by (eapply NoDup_app_r; eauto).
        destruct (IHb _ _ _ _ eq_refl NDb Emb) as [E1 E2].
        rewrite (amark_notin _ _ (mark_none _ _ _ Ea Em)). destruct (A.mark b' lid) as [k' up']. cbn [fst snd orb] in *. subst u.
        destruct up', d; inversion Hm; subst; cbn [abs_tree fst snd]; rewrite Ea, E1; auto.
    - destruct (abs_tree a) as [a'|] eqn:Ea; [|discriminate H]. destruct (abs_tree b) as [b'|] eqn:Eb; [|discriminate H].
      destruct (abs_tree e) as [e'|] eqn:Ee; [|discriminate H]. inversion H; subst.
      cbn [A.mark A.leaves] in *. rewrite !map_app in ND.
      assert (NDa : NoDup (map snd (A.leaves a'))) by (eapply NoDup_app_l; eauto).
      assert (NDbe : NoDup (map snd (A.leaves b') ++ map snd (A.leaves e'))) by (eapply NoDup_app_r; eauto).
      assert (NDb : NoDup (map snd (A.leaves b'))) by (eapply NoDup_app_l; eauto).
      assert (NDe : NoDup (map snd (A.leaves e'))) by (eapply NoDup_app_r; eauto).
      destruct (mark a lid) as [[a1 u]|] eqn:Em.
      + destruct (IHa _ _ _ _ eq_refl NDa Em) as [E1 E2].
        assert (Hin : In lid (map snd (A.leaves a'))) by (eapply mark_some; eauto).
        assert (Hnbe : ~ In lid (map snd (A.leaves b') ++ map snd (A.leaves e'))) by (eapply NoDup_app_disj; eauto).
        rewrite in_app_iff in Hnbe.
        rewrite (amark_notin b' lid) by tauto. rewrite (amark_notin e' lid) by tauto.
        destruct (A.mark a' lid) as [k' up']. cbn [fst snd] in *. subst u. rewrite !orb_false_r.
        destruct up', d; inversion Hm; subst; cbn [abs_tree fst snd]; rewrite E1, Eb, Ee; auto.
      + pose proof (mark_none _ _ _ Ea Em) as Hna. rewrite (amark_notin a' lid Hna).
        destruct (mark b lid) as [[b1 u]|] eqn:Emb.
        * destruct (IHb _ _ _ _ eq_refl NDb Emb) as [E1 E2].
          assert (Hin : In lid (map snd (A.leaves b'))) by (eapply mark_some; eauto).
          assert (Hne : ~ In lid (map snd (A.leaves e'))) by (eapply NoDup_app_disj; eauto).
          rewrite (amark_notin e' lid Hne).
          destruct (A.mark b' lid) as [k' up']. cbn [fst snd orb] in *. subst u. rewrite orb_false_r.
          destruct up', d; inversion Hm; subst; cbn [abs_tree fst snd]; rewrite Ea, E1, Ee; auto.
        * pose proof (mark_none _ _ _ Eb Emb) as Hnb. rewrite (amark_notin b' lid Hnb).
          destruct (mark e lid) as [[e1 u]|] eqn:Eme; [|discriminate Hm].
          destruct (IHe _ _ _ _ eq_refl NDe Eme) as [E1 E2].
          destruct (A.mark e' lid) as [k' up']. cbn [fst snd orb] in *. subst u.
          destruct up', d; inversion Hm; subst; cbn [abs_tree fst snd]; rewrite Ea, Eb, E1; auto.
  Qed.

  Lemma sim_eval val env : forall t T t' v l,
    abs_tree t = Some T -> (forall p lid, In (p, lid) (A.leaves T) -> val p = Some (env p)) ->
    eval fn rtl val t = (t', inl v, l) ->
    abs_tree t' = Some (fst (A.eval F1 F2 F3 env T)) /\ v = snd (A.eval F1 F2 F3 env T).
  Proof.
    induction t as [z|tg d l0 hc hm hd|f d c a IHa|f d c a IHa b IHb|f d c a IHa b IHb e IHe]; intros T t' v l H Hv He; cbn [abs_tree eval] in *.
    - inversion H; inversion He; subst. cbn. auto.
    - destruct tg as [p|]; inversion H; subst. cbn [A.eval A.leaves] in *. rewrite (Hv p l0 (or_introl eq_refl)) in He. inversion He; subst. cbn. auto.
    - destruct (abs_tree a) as [a'|] eqn:Ea; [|discriminate H]. inversion H; subst. cbn [A.eval A.leaves] in *.
      destruct d; [|inversion He; subst; cbn [abs_tree]; rewrite Ea; auto].
      destruct (eval fn rtl val a) as [[a1 ra] la] eqn:Eva. destruct ra as [va|x]; [|discriminate He].
      destruct (IHa _ _ _ _ eq_refl Hv eq_refl) as [E1 E2]. destruct (A.eval F1 F2 F3 env a') as [k' vk]. cbn [fst snd] in *. subst vk.
      unfold F1. destruct (fn f [va]) as [r|]; [|discriminate He]. inversion He; subst. cbn [abs_tree fst snd]. rewrite E1. auto.
    - destruct (abs_tree a) as [a'|] eqn:Ea; [|discriminate H]. destruct (abs_tree b) as [b'|] eqn:Eb; [|discriminate H]. inversion H; subst.
      cbn [A.eval A.leaves] in *.
      destruct d; [|inversion He; subst; cbn [abs_tree]; rewrite Ea, Eb; auto].
      assert (Hva : forall p lid, In (p, lid) (A.leaves a') -> val p = Some (env p)) by (intros; apply (Hv p lid); apply in_or_app; auto).
      assert (Hvb : forall p lid, In (p, lid) (A.leaves b') -> val p = Some (env p)) by (intros; apply (Hv p lid); apply in_or_app; auto).
      destruct (eval fn rtl val a) as [[a1 ra] la] eqn:Eva, (eval fn rtl val b) as [[b1 rb] lb] eqn:Evb.
      assert (Hab : exists va vb r, ra = inl va /\ rb = inl vb /\ fn f [va; vb] = Some r /\ t' = NOp2 f false r a1 b1 /\ v = r).
      { destruct rtl.
        - destruct rb as [vb|x]; [|discriminate He]. destruct ra as [va|x]; [|discriminate He]. destruct (fn f [va; vb]) as [r|] eqn:Ef; [|discriminate He].
          inversion He; subst. eauto 10.
        - destruct ra as [va|x]; [|discriminate He]. destruct rb as [vb|x]; [|discriminate He]. destruct (fn f [va; vb]) as [r|] eqn:Ef; [|discriminate He].
          inversion He; subst. eauto 10. }
      destruct Hab as (va & vb & r & -> & -> & Ef & -> & ->).
      destruct (IHa _ _ _ _ eq_refl Hva eq_refl) as [E1 E2]. destruct (IHb _ _ _ _ eq_refl Hvb eq_refl) as [E3 E4].
      destruct (A.eval F1 F2 F3 env a') as [k1 v1], (A.eval F1 F2 F3 env b') as [k2 v2]. cbn [fst snd] in *. subst v1 v2.
      unfold F2. rewrite Ef. cbn [abs_tree fst snd]. rewrite E1, E3. auto.
    - destruct (abs_tree a) as [a'|] eqn:Ea; [|discriminate H]. destruct (abs_tree b) as [b'|] eqn:Eb; [|discriminate H].
      destruct (abs_tree e) as [e'|] eqn:Ee; [|discriminate H]. inversion H; subst. cbn [A.eval A.leaves] in *.
      destruct d; [|inversion He; subst; cbn [abs_tree]; rewrite Ea, Eb, Ee; auto].
      assert (Hva : forall p lid, In (p, lid) (A.leaves a') -> val p = Some (env p)) by (intros; apply (Hv p lid); apply in_or_app; auto).
      assert (Hvb : forall p lid, In (p, lid) (A.leaves b') -> val p = Some (env p)) by (intros; apply (Hv p lid); apply in_or_app; right; apply in_or_app; auto).
      assert (Hve : forall p lid, In (p, lid) (A.leaves e') -> val p = Some (env p)) by (intros; apply (Hv p lid); apply in_or_app; right; apply in_or_app; auto).
      destruct (eval fn rtl val a) as [[a1 ra] la] eqn:Eva, (eval fn rtl val b) as [[b1 rb] lb] eqn:Evb, (eval fn rtl val e) as [[e1 re] le] eqn:Eve.
      assert (Hab : exists va vb ve r, ra = inl va /\ rb = inl vb /\ re = inl ve /\ fn f [va; vb; ve] = Some r /\ t' = NOp3 f false r a1 b1 e1 /\ v = r).
      { destruct rtl.
        - destruct re as [ve|x]; [|discriminate He]. destruct rb as [vb|x]; [|discriminate He]. destruct ra as [va|x]; [|discriminate He].
          destruct (fn f [va; vb; ve]) as [r|] eqn:Ef; [|discriminate He]. inversion He; subst. eauto 12.
        - destruct ra as [va|x]; [|discriminate He]. destruct rb as [vb|x]; [|discriminate He]. destruct re as [ve|x]; [|discriminate He].
          destruct (fn f [va; vb; ve]) as [r|] eqn:Ef; [|discriminate He]. inversion He; subst. eauto 12. }
      destruct Hab as (va & vb & ve & r & -> & -> & -> & Ef & -> & ->).
      destruct (IHa _ _ _ _ eq_refl Hva eq_refl) as [E1 E2]. destruct (IHb _ _ _ _ eq_refl Hvb eq_refl) as [E3 E4]. destruct (IHe _ _ _ _ eq_refl Hve eq_refl) as [E5 E6].
      destruct (A.eval F1 F2 F3 env a') as [k1 v1], (A.eval F1 F2 F3 env b') as [k2 v2], (A.eval F1 F2 F3 env e') as [k3 v3]. cbn [fst snd] in *. subst v1 v2 v3.
      unfold F3. rewrite Ef. cbn [abs_tree fst snd]. rewrite E1, E3, E5. auto.
  Qed.

  (* ---------------------------------------------------------------------------------------------- *)
  (* worlds *)

  (* the property an immediate-mode binding updates *)
  Definition imm (w : world) (b : nat) : option nat :=
    match get_bind w b with Some x => if Nat.eqb (b_evp x) 0 then b_target x else None | None => None end.
  (* the immediate-mode binding that updates q *)
  Definition imm_of (w : world) (q : nat) : option binding :=
    match lookup (w_props w) q with
    | Some pr => match pr_updater pr with
                 | Some b => match get_bind w b with Some x => if Nat.eqb (b_evp x) 0 then Some x else None | None => None end
                 | None => None end
    | None => None end.

  Definition ord_slots (w : world) (sl : list (option (nat * subscriber))) (idxs : list nat) : list (nat * nat) :=
    flat_map (fun x => match nth_error sl x with
                       | Some (Some (_, SNode b l)) => match imm w b with Some q => [(q, l)] | None => [] end
                       | _ => [] end) idxs.
  Definition ORD (w : world) (p : nat) : list (nat * nat) :=
    match pview w p with
    | Some v => match ps_changed v with
                | Some t => match tview w t with Some (sl, _, _) => ord_slots w sl (seq 0 (length sl)) | None => [] end
                | None => [] end
    | None => [] end.

  Definition Rel (w : world) (s : A.state) : Prop :=
    (forall p pr, lookup (w_props w) p = Some pr -> A.env s p = pr_value pr) /\
    (forall q, A.tr s q = match imm_of w q with Some x => abs_tree (b_root x) | None => None end) /\
    A.oof s = false.

  Definition NOACT (w : world) : Prop := forall t pos ser label act, slot_at w t pos ser (SObs label act) -> act = None.
  Definition SIMPLE (w : world) : Prop := forall q x, imm_of w q = Some x -> abs_tree (b_root x) <> None.
  Definition SC (w : world) : Prop := pinv w /\ NOACT w /\ SIMPLE w.

  (* what a propagation leaves alone *)
  Definition FR (w w' : world) : Prop :=
    (forall b, imm w' b = imm w b) /\ (forall t, tview w' t = tview w t) /\ (forall p, pview w' p = pview w p) /\
    (forall b, bview w' b = bview w b) /\ w_obs w' = w_obs w /\ w_held w' = w_held w /\ w_serial w' = w_serial w /\
    length (w_binds w') = length (w_binds w).
  Lemma FR_refl w : FR w w.
  Proof. repeat split. Qed.
  Lemma FR_trans a b c : FR a b -> FR b c -> FR a c.
  Proof.
    intros (A1 & A2 & A3 & A4 & A5 & A6 & A7 & A8) (B1 & B2 & B3 & B4 & B5 & B6 & B7 & B8).
    repeat split; intros; congruence.
  Qed.
  Lemma FR_views w w' : FR w w' -> views_eq w w'.
  Proof. intros (A1 & A2 & A3 & A4 & A5 & A6 & A7 & A8). repeat split; auto. Qed.
  Lemma FR_ORD w w' p : FR w w' -> ORD w' p = ORD w p.
  Proof.
    intros (A1 & A2 & A3 & _). unfold ORD. rewrite A3. destruct (pview w p) as [v|]; [|reflexivity]. destruct (ps_changed v) as [t|]; [|reflexivity].
    rewrite A2. destruct (tview w t) as [[[sl fr] al]|]; [|reflexivity]. unfold ord_slots. apply flat_map_ext. intros x.
    destruct (nth_error sl x) as [[[ser [label act|b l]]|]|]; try reflexivity. rewrite A1. reflexivity.
  Qed.

  Lemma get_bind_put_root w b x t b' :
    get_bind w b = Some x -> get_bind (put_bind w b (bind_with_root x t)) b' = if Nat.eqb b b' then Some (bind_with_root x t) else get_bind w b'.
  Proof.
    intros Hb. destruct (get_bind_lt _ _ _ Hb) as [Hlt Hal]. unfold get_bind, put_bind; cbn [set_binds w_binds]. rewrite nth_upd.
    destruct (Nat.eqb b b'); [|reflexivity]. apply Nat.ltb_lt in Hlt. rewrite Hlt. cbn [bind_with_root b_alive]. rewrite Hal. reflexivity.
  Qed.

  Lemma put_root_FR w b x t : get_bind w b = Some x -> leaves t = leaves (b_root x) -> FR w (put_bind w b (bind_with_root x t)).
  Proof.
    intros Hb Hl. pose proof (views_put_root w b x t Hb Hl) as (V1 & V2 & V3 & V4 & V5 & V6 & V7).
    split; [|repeat split; auto].
    intros b'. unfold imm. rewrite (get_bind_put_root _ _ _ _ _ Hb). destruct (Nat.eqb_spec b b') as [<-|]; [|reflexivity]. rewrite Hb. reflexivity.
  Qed.

  (* the tree of an immediate binding that updates q is replaced *)
  Lemma put_root_Rel_imm w s b x t T' q :
    pinv w -> Rel w s -> get_bind w b = Some x -> imm w b = Some q -> abs_tree t = Some T' ->
    Rel (put_bind w b (bind_with_root x t)) {| A.env := A.env s; A.tr := A.set_tr (A.tr s) q T'; A.oof := false |}.
  Proof.
    intros Hinv (R1 & R2 & R3) Hb Hi Ht. unfold imm in Hi. rewrite Hb in Hi. destruct (Nat.eqb (b_evp x) 0) eqn:Eevp; [|discriminate Hi].
    assert (Bv : bview w b = Some (leaves (b_root x), Some q)) by (unfold bview; rewrite Hb, Hi; reflexivity).
    destruct (pi_tgt _ _ _ _ _ _ _ Hinv _ _ _ Bv) as (v & Ev & Eu).
    split; [|split; [|reflexivity]].
    - intros p pr Hp. cbn [A.env]. apply R1. exact Hp.
    - intros q'. cbn [A.tr]. unfold A.set_tr, imm_of. change (w_props (put_bind w b (bind_with_root x t))) with (w_props w).
      destruct (Nat.eqb_spec q' q) as [->|Hne].
      + unfold pview in Ev. destruct (lookup (w_props w) q) as [pr|]; [|discriminate Ev]. assert (v = psigs_of pr) by congruence. subst v. cbn in Eu. rewrite Eu.
        rewrite (get_bind_put_root _ _ _ _ _ Hb), Nat.eqb_refl. cbn [bind_with_root b_evp b_root]. rewrite Eevp. symmetry. exact Ht.
      + rewrite R2. unfold imm_of. destruct (lookup (w_props w) q') as [pr'|] eqn:Hp'; [|reflexivity]. destruct (pr_updater pr') as [b'|] eqn:Hu'; [|reflexivity].
        rewrite (get_bind_put_root _ _ _ _ _ Hb). destruct (Nat.eqb_spec b b') as [<-|]; [|reflexivity].
        exfalso. assert (Pv' : pview w q' = Some (psigs_of pr')) by (unfold pview; rewrite Hp'; reflexivity).
        destruct (pi_upd _ _ _ _ _ _ _ Hinv _ _ _ Pv' Hu' (fun z => z)) as (ls & Eb). congruence.
  Qed.

  (* the tree of any other binding is replaced *)
  Lemma put_root_Rel_other w s b x t :
    pinv w -> Rel w s -> get_bind w b = Some x -> imm w b = None -> Rel (put_bind w b (bind_with_root x t)) s.
  Proof.
    intros Hinv (R1 & R2 & R3) Hb Hi. split; [exact R1|split; [|exact R3]].
    intros q'. rewrite R2. unfold imm_of. change (w_props (put_bind w b (bind_with_root x t))) with (w_props w).
    destruct (lookup (w_props w) q') as [pr'|] eqn:Hp'; [|reflexivity]. destruct (pr_updater pr') as [b'|] eqn:Hu'; [|reflexivity].
    rewrite (get_bind_put_root _ _ _ _ _ Hb). destruct (Nat.eqb_spec b b') as [<-|]; [|reflexivity].
    rewrite Hb. cbn [bind_with_root b_evp]. destruct (Nat.eqb (b_evp x) 0) eqn:Eevp; [|reflexivity].
    exfalso. assert (Pv' : pview w q' = Some (psigs_of pr')) by (unfold pview; rewrite Hp'; reflexivity).
    destruct (pi_upd _ _ _ _ _ _ _ Hinv _ _ _ Pv' Hu' (fun z => z)) as (ls & Eb). unfold bview in Eb. rewrite Hb in Eb.
    unfold imm in Hi. rewrite Hb, Eevp in Hi. congruence.
  Qed.

  Lemma SC_FR w w' : FR w w' -> pinv w -> NOACT w -> pinv w' /\ NOACT w'.
  Proof.
    intros F Hinv Hn. split; [eapply pinv_views; [apply FR_views; exact F|exact Hinv]|].
    intros t pos ser label act Hs. destruct F as (_ & T & _). unfold slot_at in Hs. rewrite T in Hs. eapply Hn; eauto.
  Qed.

  Lemma abs_leaf_in : forall t T p lid, abs_tree t = Some T -> In (p, lid) (A.leaves T) ->
    exists lf, In lf (leaves t) /\ lf_tg lf = Some p /\ lf_id lf = lid.
  Proof.
    induction t as [v|tg d l hc hm hd|f d c a IHa|f d c a IHa b0 IHb|f d c a IHa b0 IHb e IHe]; intros T p lid Ht Hi; cbn [abs_tree] in Ht.
    - inversion Ht; subst. destruct Hi.
    - destruct tg as [p0|]; inversion Ht; subst. destruct Hi as [E|[]]. inversion E; subst. eexists. split; [left; reflexivity|auto].
    - destruct (abs_tree a) as [a'|]; [|discriminate Ht]. inversion Ht; subst. cbn in Hi. destruct (IHa _ _ _ eq_refl Hi) as (lf & H1 & H2). eauto.
    - destruct (abs_tree a) as [a'|]; [|discriminate Ht]. destruct (abs_tree b0) as [b'|]; [|discriminate Ht]. inversion Ht; subst.
      cbn [A.leaves] in Hi. apply in_app_iff in Hi. destruct Hi as [Hi|Hi].
      + destruct (IHa _ _ _ eq_refl Hi) as (lf & H1 & H2). exists lf. split; [cbn [leaves]; apply in_or_app; auto|exact H2].
      + destruct (IHb _ _ _ eq_refl Hi) as (lf & H1 & H2). exists lf. split; [cbn [leaves]; apply in_or_app; auto|exact H2].
    - destruct (abs_tree a) as [a'|]; [|discriminate Ht]. destruct (abs_tree b0) as [b'|]; [|discriminate Ht]. destruct (abs_tree e) as [e'|]; [|discriminate Ht].
      inversion Ht; subst. cbn [A.leaves] in Hi. apply in_app_iff in Hi. destruct Hi as [Hi|Hi]; [|apply in_app_iff in Hi; destruct Hi as [Hi|Hi]].
      + destruct (IHa _ _ _ eq_refl Hi) as (lf & H1 & H2). exists lf. split; [cbn [leaves]; apply in_or_app; auto|exact H2].
      + destruct (IHb _ _ _ eq_refl Hi) as (lf & H1 & H2). exists lf. split; [cbn [leaves]; apply in_or_app; right; apply in_or_app; auto|exact H2].
      + destruct (IHe _ _ _ eq_refl Hi) as (lf & H1 & H2). exists lf. split; [cbn [leaves]; apply in_or_app; right; apply in_or_app; auto|exact H2].
  Qed.

  Lemma values_env w s p lid T b x :
    pinv w -> Rel w s -> get_bind w b = Some x -> abs_tree (b_root x) = Some T -> In (p, lid) (A.leaves T) -> values w p = Some (A.env s p).
  Proof.
    intros Hinv (R1 & _) Hb Ht Hi. destruct (abs_leaf_in _ _ _ _ Ht Hi) as (lf & Hlf & Htg & _).
    destruct (leaf_target_exists w b x lf p Hinv Hb Hlf Htg) as (pr & Hp & _).
    unfold values. rewrite Hp. cbn. rewrite (R1 _ _ Hp). reflexivity.
  Qed.

  Lemma abs_nodup w b x T : pinv w -> get_bind w b = Some x -> abs_tree (b_root x) = Some T -> NoDup (map snd (A.leaves T)).
  Proof.
    intros Hinv Hb Ht. rewrite <- (abs_leaves _ _ Ht). eapply (pi_leafids _ _ _ _ _ _ _ Hinv b). unfold bview. rewrite Hb. reflexivity.
  Qed.

  Lemma FR_log_fns lg : forall w0, FR w0 (log_fns lg w0).
  Proof. induction lg as [|g r IH]; intros w0; cbn [log_fns]; [apply FR_refl|]. eapply FR_trans; [|apply IH]. repeat split. Qed.
  Lemma imm_of_log_fns lg : forall w0 q', imm_of (log_fns lg w0) q' = imm_of w0 q'.
  Proof. induction lg as [|g r IH]; intros w0 q'; cbn [log_fns]; [reflexivity|]. rewrite IH. reflexivity. Qed.
  Lemma Rel_log_fns lg w0 s : Rel w0 s -> Rel (log_fns lg w0) s.
  Proof.
    intros (Q1 & Q2 & Q3). split; [|split; [|exact Q3]].
    - intros p0 pr0 Hp0. rewrite PropProofs.log_fns_props in Hp0. auto.
    - intros q'. rewrite imm_of_log_fns. apply Q2.
  Qed.
  Lemma SIMPLE_log_fns lg w0 : SIMPLE w0 -> SIMPLE (log_fns lg w0).
  Proof. intros H q' x' Hx'. rewrite imm_of_log_fns in Hx'. eauto. Qed.

  Section Deliver.
    Variable order : nat -> list (nat * nat).
    Variable f : nat.
    Variable R : world -> nat -> Z -> res.
    Definition ORDOK (w : world) : Prop := forall p, order p = ORD w p.
    Lemma ORDOK_FR w w' : FR w w' -> ORDOK w -> ORDOK w'.
    Proof. intros F H p. rewrite (FR_ORD _ _ p F). apply H. Qed.
    Hypothesis HR : forall w q v w' s, SC w -> ORDOK w -> Rel w s -> R w q v = (w', None) ->
                      SC w' /\ FR w w' /\ Rel w' (A.set F1 F2 F3 order f s q v).

    Definition adeliver (w : world) (s : A.state) (sub : subscriber) : A.state :=
      match sub with
      | SNode b l => match imm w b with Some q => A.deliver F1 F2 F3 (A.notify F1 F2 F3 order f) s (q, l) | None => s end
      | SObs _ _ => s
      end.

    Lemma sim_deliver w s p v0 sub w' :
      SC w -> ORDOK w -> Rel w s -> (forall label act, sub = SObs label act -> act = None) ->
      deliver fn rtl R w p KChanged [v0] sub = (w', None) ->
      SC w' /\ FR w w' /\ Rel w' (adeliver w s sub).
    Proof.
      intros (Hinv & Hna & Hsi) Hord HRel Hact H. destruct sub as [label act|b l]; cbn [deliver adeliver] in *.
      - (* a plain observer: it only records what it was told *)
        rewrite (Hact _ _ eq_refl) in H. inversion H; subst.
        split; [exact (conj (pinv_views _ _ (views_log _ w) Hinv) (conj Hna Hsi))|]. split; [repeat split|exact HRel].
      - destruct (get_bind w b) as [x|] eqn:Hb; [|discriminate H].
        destruct (mark (b_root x) l) as [[t1 up]|] eqn:Hm; [|discriminate H].
        pose proof (leaves_mark _ _ _ _ Hm) as Hl1.
        set (w1 := put_bind w b (bind_with_root x t1)) in *.
        pose proof (put_root_FR w b x t1 Hb Hl1) as FR1.
        destruct (SC_FR _ _ FR1 Hinv Hna) as [Hinv1 Hna1].
        destruct (imm w b) as [q|] eqn:Hi.
        + (* an immediate-mode binding that updates q *)
          assert (Hevp : Nat.eqb (b_evp x) 0 = true /\ b_target x = Some q).
          { unfold imm in Hi. rewrite Hb in Hi. destruct (Nat.eqb (b_evp x) 0); [auto|discriminate Hi]. }
          destruct Hevp as [Hevp Htg].
          assert (Bv : bview w b = Some (leaves (b_root x), Some q)) by (unfold bview; rewrite Hb, Htg; reflexivity).
          destruct (pi_tgt _ _ _ _ _ _ _ Hinv _ _ _ Bv) as (vq & Evq & Euq).
          assert (Himm : imm_of w q = Some x).
          { unfold imm_of. unfold pview in Evq. destruct (lookup (w_props w) q) as [pr|]; [|discriminate Evq]. assert (vq = psigs_of pr) by congruence. subst vq.
            cbn in Euq. rewrite Euq, Hb, Hevp. reflexivity. }
          destruct HRel as (R1 & R2 & R3).
          destruct (abs_tree (b_root x)) as [T|] eqn:HT; [|exfalso; exact (Hsi _ _ Himm HT)].
          assert (Htr : A.tr s q = Some T) by (rewrite R2, Himm; exact HT).
          destruct (sim_mark _ _ _ _ _ HT (abs_nodup _ _ _ _ Hinv Hb HT) Hm) as [Et1 Eup].
          unfold A.deliver. rewrite R3, Htr. destruct (A.mark T l) as [T1 up'] eqn:HmT. cbn [fst snd] in *. subst up'.
          assert (Hsi1 : forall t T', abs_tree t = Some T' -> leaves t = leaves (b_root x) -> SIMPLE (put_bind w b (bind_with_root x t))).
          { intros t T' Ht _ q' x' Hx'. unfold imm_of in Hx'. change (w_props (put_bind w b (bind_with_root x t))) with (w_props w) in Hx'.
            destruct (lookup (w_props w) q') as [pr'|] eqn:Hp'; [|discriminate Hx']. destruct (pr_updater pr') as [b'|] eqn:Hu'; [|discriminate Hx'].
            rewrite (get_bind_put_root _ _ _ _ _ Hb) in Hx'. destruct (Nat.eqb_spec b b') as [<-|Hne].
            - cbn [bind_with_root b_evp] in Hx'. rewrite Hevp in Hx'. inversion Hx'; subst. cbn [bind_with_root b_root]. congruence.
            - apply (Hsi q' x'). unfold imm_of. rewrite Hp', Hu'. exact Hx'. }
          destruct up.
          * (* the walk reached the root: Binding::markDirty evaluates at once *)
            rewrite Hevp in H. unfold binding_evaluate in H.
            assert (Hb1 : get_bind w1 b = Some (bind_with_root x t1)) by (unfold w1; rewrite (get_bind_put_root _ _ _ _ _ Hb), Nat.eqb_refl; reflexivity).
            rewrite Hb1 in H. cbn [bind_with_root b_root b_target] in H.
            destruct (eval fn rtl (values w1) t1) as [[t2 r] lg] eqn:He. destruct r as [v'|ex]; [|discriminate H].
            rewrite Htg in H.
            assert (Rel1 : Rel w1 {| A.env := A.env s; A.tr := A.set_tr (A.tr s) q T1; A.oof := false |}).
            { apply (put_root_Rel_imm w s b x t1 T1 q Hinv (conj R1 (conj R2 R3)) Hb Hi Et1). }
            assert (Hval : forall p0 lid, In (p0, lid) (A.leaves T1) -> values w1 p0 = Some (A.env s p0)).
            { intros p0 lid Hin. change (values w1 p0) with (values w p0). eapply (values_env w s p0 lid T b x Hinv (conj R1 (conj R2 R3)) Hb HT).
              pose proof (PropAbsProofs.mark_leaves T l) as ML. rewrite HmT in ML. cbn [fst] in ML. rewrite <- ML. exact Hin. }
            destruct (sim_eval (values w1) (A.env s) t1 T1 t2 v' lg Et1 Hval He) as [Et2 Ev'].
            destruct (A.eval F1 F2 F3 (A.env s) T1) as [T2 vT] eqn:HeT. cbn [fst snd] in *. subst vT.
            pose proof (leaves_eval fn rtl (values w1) t1) as Hl2. rewrite He in Hl2. cbn [fst] in Hl2.
            set (w2 := log_fns lg (put_bind w1 b (bind_with_root (bind_with_root x t1) t2))) in *.
            assert (Eq2 : put_bind w1 b (bind_with_root (bind_with_root x t1) t2) = put_bind w b (bind_with_root x t2)).
            { unfold w1, put_bind; cbn [set_binds w_binds w_tables w_props w_evps w_bevs w_obs w_held w_serial w_trace bind_with_root b_root b_evp b_regid b_target b_alive].
              rewrite upd_upd. reflexivity. }
            assert (Hl2' : leaves t2 = leaves (b_root x)) by congruence.
            pose proof (put_root_FR w b x t2 Hb Hl2') as FR2.
            assert (FR2' : FR w w2) by (eapply FR_trans; [exact FR2|]; unfold w2; rewrite Eq2; apply FR_log_fns).
            destruct (SC_FR _ _ FR2' Hinv Hna) as [Hinv2 Hna2].
            assert (Rel2 : Rel w2 {| A.env := A.env s; A.tr := A.set_tr (A.tr s) q T2; A.oof := false |}).
            { unfold w2. rewrite Eq2. apply Rel_log_fns. apply (put_root_Rel_imm w s b x t2 T2 q Hinv (conj R1 (conj R2 R3)) Hb Hi Et2). }
            assert (Hsi2 : SIMPLE w2) by (unfold w2; rewrite Eq2; apply SIMPLE_log_fns; exact (Hsi1 t2 T2 Et2 Hl2')).
            destruct (HR _ _ _ _ _ (conj Hinv2 (conj Hna2 Hsi2)) (ORDOK_FR _ _ FR2' Hord) Rel2 H) as (SC' & FR' & Rel').
            split; [exact SC'|]. split; [eapply FR_trans; eauto|]. exact Rel'.
          * (* the walk stopped at a node that was dirty already *)
            inversion H; subst w'. split; [exact (conj Hinv1 (conj Hna1 (Hsi1 t1 T1 Et1 Hl1)))|]. split; [exact FR1|].
            apply (put_root_Rel_imm w s b x t1 T1 q Hinv (conj R1 (conj R2 R3)) Hb Hi Et1).
        + (* an evaluator-driven binding, or a binding that updates nothing *)
          assert (Hsi1 : forall t, SIMPLE (put_bind w b (bind_with_root x t))).
          { intros t q' x' Hx'. unfold imm_of in Hx'. change (w_props (put_bind w b (bind_with_root x t))) with (w_props w) in Hx'.
            destruct (lookup (w_props w) q') as [pr'|] eqn:Hp'; [|discriminate Hx']. destruct (pr_updater pr') as [b'|] eqn:Hu'; [|discriminate Hx'].
            rewrite (get_bind_put_root _ _ _ _ _ Hb) in Hx'. destruct (Nat.eqb_spec b b') as [<-|Hne].
            - exfalso. cbn [bind_with_root b_evp] in Hx'. destruct (Nat.eqb (b_evp x) 0) eqn:Eevp; [|discriminate Hx'].
              assert (Pv' : pview w q' = Some (psigs_of pr')) by (unfold pview; rewrite Hp'; reflexivity).
              destruct (pi_upd _ _ _ _ _ _ _ Hinv _ _ _ Pv' Hu' (fun z => z)) as (ls & Eb). unfold bview in Eb. rewrite Hb in Eb.
              unfold imm in Hi. rewrite Hb, Eevp in Hi. congruence.
            - apply (Hsi q' x'). unfold imm_of. rewrite Hp', Hu'. exact Hx'. }
          destruct up.
          * destruct (Nat.eqb (b_evp x) 0) eqn:Eevp.
            -- (* immediate, but the update function is the default one: evaluate, nothing else *)
               unfold binding_evaluate in H.
               assert (Hb1 : get_bind w1 b = Some (bind_with_root x t1)) by (unfold w1; rewrite (get_bind_put_root _ _ _ _ _ Hb), Nat.eqb_refl; reflexivity).
               rewrite Hb1 in H. cbn [bind_with_root b_root b_target] in H.
               destruct (eval fn rtl (values w1) t1) as [[t2 r] lg] eqn:He. destruct r as [v'|ex]; [|discriminate H].
               assert (Htg : b_target x = None) by (unfold imm in Hi; rewrite Hb, Eevp in Hi; exact Hi). rewrite Htg in H. inversion H; subst w'.
               pose proof (leaves_eval fn rtl (values w1) t1) as Hl2. rewrite He in Hl2. cbn [fst] in Hl2.
               assert (Eq2 : put_bind w1 b (bind_with_root (bind_with_root x t1) t2) = put_bind w b (bind_with_root x t2)).
               { unfold w1, put_bind; cbn [set_binds w_binds w_tables w_props w_evps w_bevs w_obs w_held w_serial w_trace bind_with_root b_root b_evp b_regid b_target b_alive].
                 rewrite upd_upd. reflexivity. }
               rewrite Eq2. assert (Hl2' : leaves t2 = leaves (b_root x)) by congruence.
               pose proof (put_root_FR w b x t2 Hb Hl2') as FR2.
               assert (FR2' : FR w (log_fns lg (put_bind w b (bind_with_root x t2)))) by (eapply FR_trans; [exact FR2|apply FR_log_fns]).
               destruct (SC_FR _ _ FR2' Hinv Hna) as [Hinv2 Hna2].
               split; [split; [exact Hinv2|split; [exact Hna2|apply SIMPLE_log_fns; apply Hsi1]]|split; [exact FR2'|]].
               apply Rel_log_fns. apply (put_root_Rel_other w s b x t2 Hinv HRel Hb Hi).
            -- inversion H; subst w'. split; [exact (conj Hinv1 (conj Hna1 (Hsi1 t1)))|]. split; [exact FR1|].
               apply (put_root_Rel_other w s b x t1 Hinv HRel Hb Hi).
          * inversion H; subst w'. split; [exact (conj Hinv1 (conj Hna1 (Hsi1 t1)))|]. split; [exact FR1|].
            apply (put_root_Rel_other w s b x t1 Hinv HRel Hb Hi).
    Qed.

    Lemma ord_slots_FR w w' sl idxs : FR w w' -> ord_slots w' sl idxs = ord_slots w sl idxs.
    Proof.
      intros (A1 & _). unfold ord_slots. apply flat_map_ext. intros x. destruct (nth_error sl x) as [[[ser [label act|b l]]|]|]; try reflexivity.
      rewrite A1. reflexivity.
    Qed.

    Lemma sim_walk t p v0 sl fr al : forall idxs w s w',
      SC w -> ORDOK w -> Rel w s -> tview w t = Some (sl, fr, al) ->
      walk fn rtl R w t p KChanged [v0] idxs = (w', None) ->
      SC w' /\ FR w w' /\ Rel w' (fold_left (A.deliver F1 F2 F3 (A.notify F1 F2 F3 order f)) (ord_slots w sl idxs) s).
    Proof.
      induction idxs as [|x r IH]; intros w s w' HSC Hord HRel Ht H; cbn [walk ord_slots flat_map] in *.
      - inversion H; subst. split; [exact HSC|]. split; [apply FR_refl|exact HRel].
      - apply tview_Some in Ht. destruct Ht as (tb & Hgt & Esl & Efr & Eal). rewrite Hgt, Esl in H.
        assert (Tv : tview w t = Some (sl, fr, al)) by (unfold tview; rewrite Hgt; congruence).
        destruct (nth_error sl x) as [[[ser sub]|]|] eqn:Hx.
        + destruct (deliver fn rtl R w p KChanged [v0] sub) as [w1 [ex|]] eqn:Hd; [discriminate H|].
          destruct (sim_deliver w s p v0 sub w1 HSC Hord HRel) as (SC1 & FR1 & Rel1); [|exact Hd|].
          { intros label act ->. destruct HSC as (_ & Hna & _). eapply (Hna t x ser label act). exists sl, fr, al. auto. }
          assert (Tv1 : tview w1 t = Some (sl, fr, al)) by (destruct FR1 as (_ & T1 & _); rewrite T1; exact Tv).
          destruct (IH w1 _ w' SC1 (ORDOK_FR _ _ FR1 Hord) Rel1 Tv1 H) as (SC' & FR' & Rel').
          split; [exact SC'|]. split; [eapply FR_trans; eauto|].
          rewrite (ord_slots_FR _ _ sl r FR1) in Rel'. rewrite fold_left_app.
          replace (fold_left (A.deliver F1 F2 F3 (A.notify F1 F2 F3 order f)) match sub with SNode b l => match imm w b with Some q => [(q, l)] | None => [] end | SObs _ _ => [] end s)
            with (adeliver w s sub); [exact Rel'|].
          destruct sub as [label act|b l]; [reflexivity|]. cbn [adeliver]. destruct (imm w b); reflexivity.
        + cbn [app]. apply IH; auto.
        + cbn [app]. apply IH; auto.
    Qed.

    Lemma sim_emit_changed w s p v0 ot w' :
      SC w -> ORDOK w -> Rel w s -> (exists vp, pview w p = Some vp /\ ps_changed vp = ot) ->
      emit fn rtl R w ot p KChanged [v0] = (w', None) ->
      SC w' /\ FR w w' /\ Rel w' (A.notify_body F1 F2 F3 order (A.notify F1 F2 F3 order f) s p).
    Proof.
      intros HSC Hord HRel (vp & Hvp & Hch) H. unfold A.notify_body. rewrite (Hord p). unfold ORD. rewrite Hvp, Hch.
      unfold emit in H. destruct ot as [t|]; [|inversion H; subst; split; [exact HSC|split; [apply FR_refl|exact HRel]]].
      destruct (get_table w t) as [tb|] eqn:Hgt; [|discriminate H]. destruct (t_emitting tb) eqn:Hem; [discriminate H|].
      assert (Tv : tview w t = Some (t_slots tb, t_free tb, t_alive tb)) by (unfold tview; rewrite Hgt; reflexivity). rewrite Tv.
      set (w1 := put_table w t _) in *.
      pose proof (views_put_flag w t tb true Hgt) as (V1 & V2 & V3 & V4 & V5 & V6 & V7).
      assert (F1' : FR w w1) by (split; [intros b; reflexivity|repeat split; auto]).
      destruct HSC as (Hinv & Hna & Hsi). destruct (SC_FR _ _ F1' Hinv Hna) as [Hinv1 Hna1].
      assert (Rel1 : Rel w1 s) by exact HRel.
      assert (Tv1 : tview w1 t = Some (t_slots tb, t_free tb, t_alive tb)) by (rewrite V2; exact Tv).
      destruct (walk fn rtl R w1 t p KChanged [v0] (seq 0 (length (t_slots tb)))) as [w2 e2] eqn:Hw.
      destruct e2 as [ex|]; [destruct (get_table w2 t); inversion H|].
      destruct (sim_walk t p v0 _ _ _ _ w1 s w2 (conj Hinv1 (conj Hna1 Hsi)) (ORDOK_FR _ _ F1' Hord) Rel1 Tv1 Hw) as (SC2 & FR2 & Rel2).
      rewrite (ord_slots_FR _ _ _ _ F1') in Rel2.
      destruct (get_table w2 t) as [tb2|] eqn:Hgt2; inversion H; subst w'.
      - pose proof (views_put_flag w2 t tb2 false Hgt2) as (U1 & U2 & U3 & U4 & U5 & U6 & U7).
        assert (F3 : FR w2 (put_table w2 t {| t_slots := t_slots tb2; t_free := t_free tb2; t_emitting := false; t_alive := t_alive tb2 |}))
          by (split; [intros b; reflexivity|repeat split; auto]).
        destruct SC2 as (Hinv2 & Hna2 & Hsi2). destruct (SC_FR _ _ F3 Hinv2 Hna2) as [Hinv3 Hna3].
        split; [exact (conj Hinv3 (conj Hna3 Hsi2))|]. split; [eapply FR_trans; [exact F1'|eapply FR_trans; eauto]|exact Rel2].
      - split; [exact SC2|]. split; [eapply FR_trans; eauto|exact Rel2].
    Qed.
  End Deliver.

  (* the about-to-change emission: under NOACT only plain observers hear it *)
  Lemma about_walk R t p payload : forall idxs w s w',
    SC w -> Rel w s -> walk fn rtl R w t p KAbout payload idxs = (w', None) -> SC w' /\ FR w w' /\ Rel w' s /\ w_props w' = w_props w.
  Proof.
    induction idxs as [|x r IH]; intros w s w' HSC HRel H; cbn [walk] in H.
    - inversion H; subst. split; [exact HSC|split; [apply FR_refl|split; [exact HRel|reflexivity]]].
    - destruct (get_table w t) as [tb|] eqn:Hgt; [|discriminate H].
      destruct (nth_error (t_slots tb) x) as [[[ser sub]|]|] eqn:Hx; try (eapply IH; eauto; fail).
      destruct sub as [label act|b l].
      + assert (act = None).
        { destruct HSC as (_ & Hna & _). eapply (Hna t x ser label act). exists (t_slots tb), (t_free tb), (t_alive tb). split; [unfold tview; rewrite Hgt; reflexivity|exact Hx]. }
        subst act. cbn [deliver] in H. destruct payload as [|v0 pl]; cbn in H.
        * destruct HSC as (Hinv & Hna & Hsi).
          destruct (IH _ s w' (conj (pinv_views _ _ (views_log _ w) Hinv) (conj Hna Hsi)) HRel H) as (A1 & A2 & A3 & A4).
          split; [exact A1|]. split; [eapply FR_trans; [|exact A2]; repeat split|split; [exact A3|exact A4]].
        * destruct HSC as (Hinv & Hna & Hsi).
          destruct (IH _ s w' (conj (pinv_views _ _ (views_log _ w) Hinv) (conj Hna Hsi)) HRel H) as (A1 & A2 & A3 & A4).
          split; [exact A1|]. split; [eapply FR_trans; [|exact A2]; repeat split|split; [exact A3|exact A4]].
      + cbn [deliver] in H. destruct (get_bind w b); discriminate H.
  Qed.

  Lemma about_emit R w s p payload ot w' :
    SC w -> Rel w s -> emit fn rtl R w ot p KAbout payload = (w', None) -> SC w' /\ FR w w' /\ Rel w' s /\ w_props w' = w_props w.
  Proof.
    intros HSC HRel H. unfold emit in H. destruct ot as [t|]; [|inversion H; subst; split; [exact HSC|split; [apply FR_refl|split; [exact HRel|reflexivity]]]].
    destruct (get_table w t) as [tb|] eqn:Hgt; [|discriminate H]. destruct (t_emitting tb); [discriminate H|].
    set (w1 := put_table w t _) in *.
    pose proof (views_put_flag w t tb true Hgt) as (V1 & V2 & V3 & V4 & V5 & V6 & V7).
    assert (F1' : FR w w1) by (split; [intros b; reflexivity|repeat split; auto]).
    destruct HSC as (Hinv & Hna & Hsi). destruct (SC_FR _ _ F1' Hinv Hna) as [Hinv1 Hna1].
    destruct (walk fn rtl R w1 t p KAbout payload (seq 0 (length (t_slots tb)))) as [w2 e2] eqn:Hw.
    destruct e2 as [ex|]; [destruct (get_table w2 t); inversion H|].
    destruct (about_walk R t p payload _ w1 s w2 (conj Hinv1 (conj Hna1 Hsi)) HRel Hw) as (SC2 & FR2 & Rel2 & P2).
    destruct (get_table w2 t) as [tb2|] eqn:Hgt2; inversion H; subst w'.
    - pose proof (views_put_flag w2 t tb2 false Hgt2) as (U1 & U2 & U3 & U4 & U5 & U6 & U7).
      assert (F3 : FR w2 (put_table w2 t {| t_slots := t_slots tb2; t_free := t_free tb2; t_emitting := false; t_alive := t_alive tb2 |}))
        by (split; [intros b; reflexivity|repeat split; auto]).
      destruct SC2 as (Hinv2 & Hna2 & Hsi2). destruct (SC_FR _ _ F3 Hinv2 Hna2) as [Hinv3 Hna3].
      split; [exact (conj Hinv3 (conj Hna3 Hsi2))|]. split; [eapply FR_trans; [exact F1'|eapply FR_trans; eauto]|split; [exact Rel2|exact P2]].
    - split; [exact SC2|]. split; [eapply FR_trans; eauto|split; [exact Rel2|exact P2]].
  Qed.

  (* Property::setHelper is the abstract `set` *)
  Theorem sim_set order : forall f w q v w' s,
    SC w -> ORDOK order w -> Rel w s -> set_helper fn rtl f w q v = (w', None) ->
    SC w' /\ FR w w' /\ Rel w' (A.set F1 F2 F3 order f s q v).
  Proof.
    induction f as [|f IH]; intros w q v w' s HSC Hord HRel H; cbn [set_helper] in H; [discriminate H|].
    destruct (lookup (w_props w) q) as [pr|] eqn:Hq; [|discriminate H].
    destruct HRel as (R1 & R2 & R3). unfold A.set. rewrite (R1 _ _ Hq).
    destruct (Z.eqb v (pr_value pr)) eqn:Ev.
    - inversion H; subst. split; [exact HSC|split; [apply FR_refl|exact (conj R1 (conj R2 R3))]].
    - destruct (emit fn rtl (set_helper fn rtl f) w (pr_about pr) q KAbout [pr_value pr; v]) as [w1 [ex|]] eqn:He1; [discriminate H|].
      destruct (about_emit _ _ _ _ _ _ _ HSC (conj R1 (conj R2 R3)) He1) as (SC1 & FR1 & Rel1 & P1).
      assert (Hq1 : lookup (w_props w1) q = Some pr) by (rewrite P1; exact Hq).
      rewrite Hq1 in H.
      set (w2 := set_props w1 (bind_key (w_props w1) q (prop_set_value pr v))) in *.
      assert (F2' : FR w1 w2).
      { pose proof (views_set_value w1 q pr v Hq1) as (V1 & V2 & V3 & V4 & V5 & V6 & V7). split; [intros b; reflexivity|repeat split; auto]. }
      destruct SC1 as (Hinv1 & Hna1 & Hsi1). destruct (SC_FR _ _ F2' Hinv1 Hna1) as [Hinv2 Hna2].
      assert (IO : forall q', imm_of w2 q' = imm_of w1 q').
      { intros q'. unfold imm_of, w2; cbn [set_props w_props]. rewrite lookup_bind. destruct (Nat.eqb_spec q' q) as [->|]; [|reflexivity].
        rewrite Hq1. reflexivity. }
      assert (Hsi2 : SIMPLE w2) by (intros q' x' Hx'; rewrite IO in Hx'; eauto).
      set (s2 := {| A.env := A.set_env (A.env s) q v; A.tr := A.tr s; A.oof := A.oof s |}).
      assert (Rel2 : Rel w2 s2).
      { destruct Rel1 as (Q1 & Q2 & Q3). split; [|split; [|exact Q3]].
        - intros p0 pr0 Hp0. unfold w2 in Hp0; cbn [set_props w_props] in Hp0. rewrite lookup_bind in Hp0. cbn [s2 A.env]. unfold A.set_env.
          destruct (Nat.eqb_spec p0 q) as [->|]; [inversion Hp0; reflexivity|auto].
        - intros q'. rewrite IO. apply Q2. }
      assert (Hord2 : ORDOK order w2) by (eapply ORDOK_FR; [|exact Hord]; eapply FR_trans; eauto).
      destruct (sim_emit_changed order f (set_helper fn rtl f) IH w2 s2 q v (pr_changed pr) w' (conj Hinv2 (conj Hna2 Hsi2)) Hord2 Rel2) as (SC' & FR' & Rel').
      { exists (psigs_of (prop_set_value pr v)). split; [|reflexivity]. unfold pview, w2; cbn [set_props w_props]. rewrite lookup_bind_same. reflexivity. }
      { exact H. }
      split; [exact SC'|]. split; [eapply FR_trans; [exact FR1|eapply FR_trans; eauto]|exact Rel'].
  Qed.

  (* ---------------------------------------------------------------------------------------------- *)
  (* coherence of a world: its abstraction satisfies the invariant of the abstract model (every node of every immediate
     binding clean, every cache the denotation of its subtree, every bound value the denotation of its expression, every leaf
     subscribed) - with the delivery order of the world itself *)
  Definition COH (w : world) : Prop := exists s, Rel w s /\ PropAbsProofs.Inv F1 F2 F3 (ORD w) s [].

  Lemma Inv_order_ext (o o' : nat -> list (nat * nat)) s P :
    (forall p, o' p = o p) -> PropAbsProofs.Inv F1 F2 F3 o s P -> PropAbsProofs.Inv F1 F2 F3 o' s P.
  Proof.
    intros E H q t Ht. destruct (H q t Ht) as (A1 & A2 & A3 & A4). repeat split; auto. intros p lid Hi. rewrite E. auto.
  Qed.

  (* C02, one assignment to an unbound input that returns normally: coherence is kept *)
  Theorem assignment_coherent f w p pr v w' :
    SC w -> COH w -> lookup (w_props w) p = Some pr -> pr_updater pr = None ->
    set_helper fn rtl f w p v = (w', None) -> SC w' /\ COH w' /\ FR w w'.
  Proof.
    intros HSC (s & HRel & HInv) Hp Hu H.
    destruct (sim_set (ORD w) f w p v w' s HSC (fun _ => eq_refl) HRel H) as (SC' & FR' & Rel').
    split; [exact SC'|]. split; [|exact FR'].
    exists (A.set F1 F2 F3 (ORD w) f s p v). split; [exact Rel'|].
    apply (Inv_order_ext (ORD w)); [intros p0; apply FR_ORD; exact FR'|].
    destruct HRel as (R1 & R2 & R3). apply PropAbsProofs.set_consistent; auto.
    - rewrite R2. unfold imm_of. rewrite Hp, Hu. reflexivity.
    - destruct Rel' as (_ & _ & Q3). exact Q3.
  Qed.

  (* what coherence says about a bound property, in the vocabulary of the executable model: its value is what its expression
     gives when recomputed from scratch over the current values of its inputs *)
  Lemma den_node_abs val env : forall t T z,
    abs_tree t = Some T -> (forall p lid, In (p, lid) (A.leaves T) -> val p = Some (env p)) ->
    PropCheck.den_node fn val t = Some z -> z = A.den F1 F2 F3 env T.
  Proof.
    induction t as [c|tg d l0 hc hm hd|g d c a IHa|g d c a IHa b IHb|g d c a IHa b IHb e IHe]; intros T z H Hv Hd; cbn [abs_tree PropCheck.den_node] in *.
    - inversion H; subst. inversion Hd; reflexivity.
    - destruct tg as [p|]; inversion H; subst. cbn [A.den A.leaves] in *. rewrite (Hv p l0 (or_introl eq_refl)) in Hd. inversion Hd; reflexivity.
    - destruct (abs_tree a) as [a'|]; [|discriminate H]. inversion H; subst. cbn [A.den A.leaves] in *.
      destruct (PropCheck.den_node fn val a) as [va|]; [|discriminate Hd]. rewrite <- (IHa _ _ eq_refl Hv eq_refl). unfold F1. rewrite Hd. reflexivity.
    - destruct (abs_tree a) as [a'|]; [|discriminate H]. destruct (abs_tree b) as [b'|]; [|discriminate H]. inversion H; subst. cbn [A.den A.leaves] in *.
      destruct (PropCheck.den_node fn val a) as [va|]; [|discriminate Hd]. destruct (PropCheck.den_node fn val b) as [vb|]; [|discriminate Hd].
      rewrite <- (IHa _ _ eq_refl (fun p lid Hi => Hv p lid (in_or_app _ _ _ (or_introl Hi))) eq_refl).
      rewrite <- (IHb _ _ eq_refl (fun p lid Hi => Hv p lid (in_or_app _ _ _ (or_intror Hi))) eq_refl). unfold F2. rewrite Hd. reflexivity.
    - destruct (abs_tree a) as [a'|]; [|discriminate H]. destruct (abs_tree b) as [b'|]; [|discriminate H]. destruct (abs_tree e) as [e'|]; [|discriminate H].
      inversion H; subst. cbn [A.den A.leaves] in *.
      destruct (PropCheck.den_node fn val a) as [va|]; [|discriminate Hd]. destruct (PropCheck.den_node fn val b) as [vb|]; [|discriminate Hd].
      destruct (PropCheck.den_node fn val e) as [ve|]; [|discriminate Hd].
      rewrite <- (IHa _ _ eq_refl (fun p lid Hi => Hv p lid (in_or_app _ _ _ (or_introl Hi))) eq_refl).
      rewrite <- (IHb _ _ eq_refl (fun p lid Hi => Hv p lid (in_or_app _ _ _ (or_intror (in_or_app _ _ _ (or_introl Hi))))) eq_refl).
      rewrite <- (IHe _ _ eq_refl (fun p lid Hi => Hv p lid (in_or_app _ _ _ (or_intror (in_or_app _ _ _ (or_intror Hi))))) eq_refl).
      unfold F3. rewrite Hd. reflexivity.
  Qed.

  Theorem coherent_bound_equals_expression w q x pr z :
    SC w -> COH w -> imm_of w q = Some x -> lookup (w_props w) q = Some pr ->
    PropCheck.den_node fn (values w) (b_root x) = Some z -> pr_value pr = z.
  Proof.
    intros (Hinv & Hna & Hsi) (s & HRel & HInv) Hi Hq Hd. pose proof HRel as (R1 & R2 & R3).
    destruct (abs_tree (b_root x)) as [T|] eqn:HT; [|exfalso; exact (Hsi _ _ Hi HT)].
    assert (Htr : A.tr s q = Some T) by (rewrite R2, Hi; exact HT).
    assert (Hb : exists b, get_bind w b = Some x).
    { unfold imm_of in Hi. rewrite Hq in Hi. destruct (pr_updater pr) as [b|]; [|discriminate Hi]. exists b.
      destruct (get_bind w b) as [x0|]; [|discriminate Hi]. destruct (Nat.eqb (b_evp x0) 0); [congruence|discriminate Hi]. }
    destruct Hb as (b & Hb).
    rewrite (den_node_abs (values w) (A.env s) _ _ _ HT (fun p lid Hi0 => values_env w s p lid T b x Hinv HRel Hb HT Hi0) Hd).
    rewrite <- (R1 _ _ Hq). destruct (HInv q T Htr) as (_ & _ & E & _). apply E. intros p0 lid _ [].
  Qed.
End Sim.
