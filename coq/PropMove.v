(* Move construction of a property in a coherent world of immediate bindings: coherence (PropSim.COH) is kept. The link structure
   across the move is PropLinkMove (leaves subscribed to the source are re-targeted to the destination, which takes over value,
   signals and updater); here the VALUES: a re-targeting changes nothing of a tree but the leaf targets (its skeleton), so the
   abstraction of every tree is the old one with the source renamed to the destination, and the abstract invariant is stable
   under that renaming. *)
From KDB Require Import Util UtilProofs PropDefs PropFlags PropLink PropLinkBasics PropLinkOps PropLinkMove PropLinkTheorems PropSim PropGrow PropGrowMore PropDead.
From KDB Require PropGrowLazyMore.
From KDB Require PropAbs PropAbsProofs PropProofs PropCheck.
Module A := PropAbs.
Module AP := PropAbsProofs.

(* ---- what re-targeting can not change: everything but the targets ---- *)
Fixpoint skel (t : node) : node :=
  match t with
  | NConst v => NConst v
  | NProp _ d l hc hm hd => NProp None d l hc hm hd
  | NOp1 g d c a => NOp1 g d c (skel a)
  | NOp2 g d c a b => NOp2 g d c (skel a) (skel b)
  | NOp3 g d c a b e => NOp3 g d c (skel a) (skel b) (skel e)
  end.

Lemma skel_retarget t l f : skel (retarget t l f) = skel t.
Proof.
  induction t as [v|tg d l0 hc hm hd|g d c a IHa|g d c a IHa b IHb|g d c a IHa b IHb e IHe]; cbn [retarget skel].
  - reflexivity.
  - destruct (Nat.eqb l0 l); reflexivity.
  - rewrite IHa; reflexivity.
  - rewrite IHa, IHb; reflexivity.
  - rewrite IHa, IHb, IHe; reflexivity.
Qed.

Lemma skel_leaves_len : forall t t', skel t' = skel t -> length (leaves t') = length (leaves t).
Proof.
  induction t as [v|tg d l0 hc hm hd|g d c a IHa|g d c a IHa b IHb|g d c a IHa b IHb e IHe]; intros t' H;
    destruct t' as [v'|tg' d' l' hc' hm' hd'|g' d' c' a'|g' d' c' a' b'|g' d' c' a' b' e']; cbn [skel] in H; try discriminate H; inversion H; subst; cbn [leaves].
  - reflexivity.
  - reflexivity.
  - auto.
  - rewrite !app_length. rewrite (IHa a'), (IHb b'); auto.
  - rewrite !app_length. rewrite (IHa a'), (IHb b'), (IHe e'); auto.
Qed.

Lemma app_split_len {X} (a a' b b' : list X) : length a = length a' -> a ++ b = a' ++ b' -> a = a' /\ b = b'.
Proof.
  revert a'. induction a as [|x r IH]; intros [|x' r'] Hl H; cbn in *; try discriminate Hl; [auto|].
  inversion H; subst. destruct (IH r' ltac:(lia) H2) as [-> ->]. auto.
Qed.

(* renaming of the properties a tree reads *)
Fixpoint aren (rho : nat -> nat) (t : A.tree) : A.tree :=
  match t with
  | A.Const z => A.Const z
  | A.Leaf p l d => A.Leaf (rho p) l d
  | A.Un f d c k => A.Un f d c (aren rho k)
  | A.Bin f d c k1 k2 => A.Bin f d c (aren rho k1) (aren rho k2)
  | A.Tern f d c k1 k2 k3 => A.Tern f d c (aren rho k1) (aren rho k2) (aren rho k3)
  end.

Section AbsSkel.
  Variable fn : nat -> list Z -> option Z.
  Notation abs_tree := PropSim.abs_tree.

  Lemma abs_of_skel (rho : nat -> nat) (g : leaf -> leaf) : forall t t',
    skel t' = skel t -> leaves t' = map g (leaves t) ->
    (forall lf, In lf (leaves t) -> lf_tg (g lf) = option_map rho (lf_tg lf)) ->
    abs_tree t' = option_map (aren rho) (abs_tree t).
  Proof.
    induction t as [v|tg d l0 hc hm hd|f d c a IHa|f d c a IHa b IHb|f d c a IHa b IHb e IHe]; intros t' H HL HG;
      destruct t' as [v'|tg' d' l' hc' hm' hd'|f' d' c' a'|f' d' c' a' b'|f' d' c' a' b' e']; cbn [skel] in H; try discriminate H; inversion H; subst;
      cbn [leaves map] in HL; cbn [abs_tree].
    - reflexivity.
    - inversion HL as [E]. pose proof (HG _ (or_introl eq_refl)) as Et. rewrite <- E in Et. cbn [lf_tg] in Et. rewrite Et.
      destruct tg; reflexivity.
    - rewrite (IHa a'); auto. destruct (abs_tree a); reflexivity.
    - rewrite map_app in HL.
      assert (Ea : length (leaves a') = length (map g (leaves a))) by (rewrite map_length; apply skel_leaves_len; assumption).
      destruct (app_split_len _ _ _ _ Ea HL) as [La Lb].
      rewrite (IHa a'), (IHb b'); auto; try (intros lf Hi; apply HG; cbn [leaves]; apply in_or_app; auto).
      destruct (abs_tree a), (abs_tree b); reflexivity.
    - rewrite !map_app in HL.
      assert (Ea : length (leaves a') = length (map g (leaves a))) by (rewrite map_length; apply skel_leaves_len; assumption).
      assert (Eb : length (leaves b') = length (map g (leaves b))) by (rewrite map_length; apply skel_leaves_len; assumption).
      destruct (app_split_len _ _ _ _ Ea HL) as [La Lr]. destruct (app_split_len _ _ _ _ Eb Lr) as [Lb Le].
      rewrite (IHa a'), (IHb b'), (IHe e'); auto; try (intros lf Hi; apply HG; cbn [leaves]; apply in_or_app; auto; right; apply in_or_app; auto).
      destruct (abs_tree a), (abs_tree b), (abs_tree e); reflexivity.
  Qed.
End AbsSkel.

(* ---- the walk over the private moved signal keeps the skeleton and the evaluator of every binding ---- *)
Definition sk_rel (x x' : binding) : Prop := skel (b_root x') = skel (b_root x) /\ b_evp x' = b_evp x.
Definition SKB (w w' : world) : Prop :=
  forall b, match get_bind w b, get_bind w' b with
            | Some x, Some x' => sk_rel x x'
            | None, None => True
            | _, _ => False end.
Lemma SKB_refl w : SKB w w.
Proof. intros b. destruct (get_bind w b); [split; reflexivity|exact I]. Qed.
Lemma SKB_trans a b c : SKB a b -> SKB b c -> SKB a c.
Proof.
  intros H1 H2 n. specialize (H1 n). specialize (H2 n). destruct (get_bind a n), (get_bind b n), (get_bind c n); try tauto.
  destruct H1 as [A1 A2], H2 as [B1 B2]. split; congruence.
Qed.
Lemma SKB_binds w w' : w_binds w' = w_binds w -> SKB w w'.
Proof. intros E b. unfold get_bind. rewrite E. destruct (nth_error (w_binds w) b) as [x|]; [|exact I]. destruct (b_alive x); [split; reflexivity|exact I]. Qed.

Lemma get_bind_put_bind w b y b' :
  b < length (w_binds w) -> get_bind (put_bind w b y) b' = if Nat.eqb b b' then (if b_alive y then Some y else None) else get_bind w b'.
Proof.
  intros Hlt. unfold get_bind, put_bind; cbn [set_binds w_binds]. destruct (Nat.eqb_spec b b') as [<-|Hne].
  - rewrite nth_upd_same by exact Hlt. reflexivity.
  - rewrite nth_upd_other by exact Hne. reflexivity.
Qed.

Section MovedSkel.
  Variable fn : nat -> list Z -> option Z.
  Variable rtl : bool.
  Variable R : world -> nat -> Z -> res.
  Variables (p dst t : nat) (tb : table).
  Hypothesis Hna : forall x ser label act, nth_error (t_slots tb) x = Some (Some (ser, SObs label act)) -> act = None.

  Lemma walk_moved_skel : forall idxs w w',
    get_table w t = Some tb -> walk fn rtl R w t p KMoved [Z.of_nat dst] idxs = (w', None) ->
    SKB w w' /\ w_tables w' = w_tables w /\ w_props w' = w_props w /\ w_evps w' = w_evps w.
  Proof.
    induction idxs as [|x r IH]; intros w w' Ht H; cbn [walk] in H.
    - inversion H; subst. split; [apply SKB_refl|auto].
    - rewrite Ht in H. destruct (nth_error (t_slots tb) x) as [[[ser s]|]|] eqn:Hx; try exact (IH w w' Ht H).
      destruct s as [label act|b l].
      + rewrite (Hna _ _ _ _ Hx) in H. rewrite (deliver_moved_obs fn rtl R w p dst label) in H.
        destruct (IH (log (EvNotify label KMoved [Z.of_nat dst] (values w p)) w) w' Ht H) as (A1 & A2 & A3 & A4). split; [|auto]. eapply SKB_trans; [|exact A1]. apply SKB_binds. reflexivity.
      + destruct (get_bind w b) as [xb|] eqn:Hgb.
        * rewrite (deliver_moved_node fn rtl R w p dst b l xb Hgb) in H.
          destruct (get_bind_lt _ _ _ Hgb) as [Hlt Hal].
          set (w1 := put_bind w b (bind_with_root xb (retarget (b_root xb) l (f_moved dst)))) in *.
          assert (Ht1 : get_table w1 t = Some tb) by exact Ht.
          destruct (IH w1 w' Ht1 H) as (A1 & A2 & A3 & A4). split; [|split; [rewrite A2; reflexivity|split; [rewrite A3; reflexivity|rewrite A4; reflexivity]]].
          eapply SKB_trans; [|exact A1]. intros b'. unfold w1. rewrite get_bind_put_bind by exact Hlt. cbn [bind_with_root b_alive]. rewrite Hal.
          destruct (Nat.eqb_spec b b') as [<-|Hne].
          -- rewrite Hgb. split; [cbn [b_root]; apply skel_retarget|reflexivity].
          -- destruct (get_bind w b'); [split; reflexivity|exact I].
        * cbn [deliver] in H. rewrite Hgb in H. discriminate H.
  Qed.
End MovedSkel.

Lemma emit_moved_skel fn rtl R w ot p dst w' :
  (forall t pos ser label act, ot = Some t -> slot_at w t pos ser (SObs label act) -> act = None) ->
  emit fn rtl R w ot p KMoved [Z.of_nat dst] = (w', None) -> SKB w w' /\ w_props w' = w_props w /\ (forall t, tview w' t = tview w t) /\ w_evps w' = w_evps w.
Proof.
  intros Hna H. destruct ot as [t|]; [|inversion H; subst; split; [apply SKB_refl|split; [reflexivity|split; reflexivity]]].
  unfold emit in H. destruct (get_table w t) as [tb|] eqn:Ht; [|discriminate H]. destruct (t_emitting tb); [discriminate H|].
  set (tb1 := {| t_slots := t_slots tb; t_free := t_free tb; t_emitting := true; t_alive := t_alive tb |}) in *.
  set (w1 := put_table w t tb1) in *.
  assert (Hlt : t < length (w_tables w)) by (apply nth_error_Some; unfold get_table in Ht; congruence).
  assert (Ht1 : get_table w1 t = Some tb1) by (unfold get_table, w1, put_table; cbn [set_tables w_tables]; apply nth_upd_same; exact Hlt).
  destruct (walk fn rtl R w1 t p KMoved [Z.of_nat dst] (seq 0 (length (t_slots tb)))) as [w2 e] eqn:Hw.
  assert (e = None) by (destruct (get_table w2 t); inversion H; reflexivity). subst e.
  destruct (walk_moved_skel fn rtl R p dst t tb1) with (idxs := seq 0 (length (t_slots tb))) (w := w1) (w' := w2) as (A1 & A2 & A3 & A4); [|exact Ht1|exact Hw|].
  { intros x ser label act Hn. apply (Hna t x ser label act eq_refl). exists (t_slots tb), (t_free tb), (t_alive tb). split; [unfold tview; rewrite Ht; reflexivity|exact Hn]. }
  assert (S1 : SKB w w1) by (apply SKB_binds; reflexivity).
  assert (Ht2 : get_table w2 t = Some tb1) by (unfold get_table; rewrite A2; exact Ht1).
  rewrite Ht2 in H. inversion H; subst w'. split; [|split; [exact A3|split; [|exact A4]]].
  - eapply SKB_trans; [exact S1|]. eapply SKB_trans; [exact A1|]. apply SKB_binds. reflexivity.
  - intros t'. rewrite tview_put_table. assert (Hl2 : length (w_tables w2) = length (w_tables w)) by (rewrite A2; unfold w1, put_table; cbn [set_tables w_tables]; apply upd_length).
    rewrite Hl2. apply Nat.ltb_lt in Hlt. rewrite Hlt. cbn [tb1 t_slots t_free t_alive]. destruct (Nat.eqb_spec t t') as [<-|Hne].
    + unfold tview. rewrite Ht. reflexivity.
    + unfold tview, get_table. rewrite A2. unfold w1, put_table; cbn [set_tables w_tables]. rewrite nth_upd_other by exact Hne. reflexivity.
Qed.

(* ---- the abstract invariant under renaming ---- *)
Lemma aren_clean rho t : A.clean (aren rho t) <-> A.clean t.
Proof. induction t; cbn [aren A.clean]; tauto. Qed.

Section Rename.
  Variable fn : nat -> list Z -> option Z.
  Notation F1 := (PropSim.F1 fn).
  Notation F2 := (PropSim.F2 fn).
  Notation F3 := (PropSim.F3 fn).
  Variables (rho : nat -> nat) (e e' : nat -> Z).

  Lemma aren_den : forall t, (forall p lid, In (p, lid) (A.leaves t) -> e' (rho p) = e p) -> A.den F1 F2 F3 e' (aren rho t) = A.den F1 F2 F3 e t.
  Proof.
    induction t as [z|p l d|f d c k IH|f d c k1 IH1 k2 IH2|f d c k1 IH1 k2 IH2 k3 IH3]; intros H; cbn [aren A.den A.leaves] in *.
    - reflexivity.
    - apply (H p l). left; reflexivity.
    - rewrite IH by exact H. reflexivity.
    - rewrite IH1, IH2; [reflexivity| |]; intros p lid Hi; apply (H p lid); apply in_or_app; auto.
    - rewrite IH1, IH2, IH3; [reflexivity| | |]; intros p lid Hi; apply (H p lid); apply in_or_app; auto; right; apply in_or_app; auto.
  Qed.

  Lemma aren_consis q q' : forall t, (forall p lid, In (p, lid) (A.leaves t) -> e' (rho p) = e p) ->
    A.consis F1 F2 F3 e [] q t -> A.consis F1 F2 F3 e' [] q' (aren rho t).
  Proof.
    assert (NP : forall q0 t0, A.nopend [] q0 t0) by (intros q0 t0 p lid _ []).
    induction t as [z|p l d|f d c k IH|f d c k1 IH1 k2 IH2|f d c k1 IH1 k2 IH2 k3 IH3]; intros H HC; cbn [aren A.consis] in *; try exact I.
    - destruct HC as [C1 C2]. split; [apply IH; assumption|]. intros _. rewrite (C2 (NP _ _)).
      symmetry. exact (aren_den (A.Un f d c k) H).
    - destruct HC as (C1 & C2 & C3). cbn [A.leaves] in H.
      split; [apply IH1; [intros p lid Hi; apply (H p lid); apply in_or_app; auto|assumption]|].
      split; [apply IH2; [intros p lid Hi; apply (H p lid); apply in_or_app; auto|assumption]|].
      intros _. rewrite (C3 (NP _ _)). symmetry. exact (aren_den (A.Bin f d c k1 k2) H).
    - destruct HC as (C1 & C2 & C3 & C4). cbn [A.leaves] in H.
      split; [apply IH1; [intros p lid Hi; apply (H p lid); apply in_or_app; auto|assumption]|].
      split; [apply IH2; [intros p lid Hi; apply (H p lid); apply in_or_app; right; apply in_or_app; auto|assumption]|].
      split; [apply IH3; [intros p lid Hi; apply (H p lid); apply in_or_app; right; apply in_or_app; auto|assumption]|].
      intros _. rewrite (C4 (NP _ _)). symmetry. exact (aren_den (A.Tern f d c k1 k2 k3) H).
  Qed.
End Rename.

Lemma fixtarget_get w d dst b :
  get_bind (fixtarget w d dst) b =
  match get_bind w b with
  | Some x => Some (if opt_eqb Nat.eqb (pr_updater d) (Some b) then bind_with_target x (Some dst) else x)
  | None => None end.
Proof.
  unfold fixtarget. destruct (pr_updater d) as [bu|]; cbn [opt_eqb]; [|destruct (get_bind w b); reflexivity].
  destruct (get_bind w bu) as [xu|] eqn:Hu.
  - destruct (get_bind_lt _ _ _ Hu) as [Hlt Hal]. rewrite get_bind_put_bind by exact Hlt. cbn [bind_with_target b_alive]. rewrite Hal.
    destruct (Nat.eqb_spec bu b) as [<-|Hne]; [rewrite Hu; reflexivity|destruct (get_bind w b); reflexivity].
  - destruct (Nat.eqb_spec bu b) as [<-|Hne]; [rewrite Hu; reflexivity|destruct (get_bind w b); reflexivity].
Qed.

Section MoveCtor.
  Variable fn : nat -> list Z -> option Z.
  Variable rtl : bool.
  Notation F1 := (PropSim.F1 fn).
  Notation F2 := (PropSim.F2 fn).
  Notation F3 := (PropSim.F3 fn).
  Notation COH := (PropSim.COH fn).
  Notation abs_tree := PropSim.abs_tree.

  (* the subscribers of the private moved signal never act (the link invariant says so: QUIET) *)
  Lemma quiet_moved w p t pos ser label act : pinv w -> owns w p KMoved t -> slot_at w t pos ser (SObs label act) -> act = None.
  Proof.
    intros Hinv Ho Hs. destruct (pi_quiet _ _ _ _ _ _ _ Hinv p KMoved t pos ser _ Ho (or_intror eq_refl) Hs) as [(l' & E)|(b & l & E)]; [inversion E; reflexivity|discriminate E].
  Qed.

  Definition rn (src dst q : nat) : nat := if Nat.eqb q src then dst else q.

  (* what a move construction leaves behind: the destination has the value and the updater of the source, the source keeps its value
     and has no updater, no subscription appears or disappears, every binding is alive as before with the same evaluator and its
     tree abstracts to the old abstraction with src renamed to dst *)
  Lemma movector_shape fuel w src dst w' :
    pinv w -> NOEMIT w -> step1 fn rtl fuel w (PMoveCtor src dst) = (w', None) ->
    exists s0 dn sn,
      lookup (w_props w) src = Some s0 /\ lookup (w_props w) dst = None /\ src <> dst /\
      pr_value dn = pr_value s0 /\ pr_updater dn = pr_updater s0 /\ pr_value sn = pr_value s0 /\ pr_updater sn = None /\
      (forall q, lookup (w_props w') q = if Nat.eqb q dst then Some dn else if Nat.eqb q src then Some sn else lookup (w_props w) q) /\
      (forall t pos ser s1, slot_at w' t pos ser s1 <-> slot_at w t pos ser s1) /\
      (forall b, match get_bind w b, get_bind w' b with
                 | Some x, Some x' => b_evp x' = b_evp x /\ abs_tree (b_root x') = option_map (aren (rn src dst)) (abs_tree (b_root x))
                 | None, None => True
                 | _, _ => False end) /\
      (* the three public signals - with every observer and every reader subscribed to them - now belong to the destination *)
      (pr_about dn = pr_about s0 /\ pr_changed dn = pr_changed s0 /\ pr_destroyed dn = pr_destroyed s0 /\
       pr_about sn = None /\ pr_changed sn = None /\ pr_destroyed sn = None) /\
      (* every binding reads and updates what it did, with src renamed to dst; the evaluators' registries are untouched *)
      (forall b x x', get_bind w b = Some x -> get_bind w' b = Some x' ->
         b_target x' = option_map (rn src dst) (b_target x) /\ leaves (b_root x') = map (mvl src dst) (leaves (b_root x))) /\
      w_evps w' = w_evps w /\ length (w_binds w') = length (w_binds w).
  Proof.
    intros Hinv HNE H. cbn [step1] in H.
    destruct (lookup (w_props w) src) as [s0|] eqn:Hs; [|discriminate H].
    destruct (lookup (w_props w) dst) as [d0|] eqn:Hd; [discriminate H|].
    assert (Hne : src <> dst) by (intros ->; congruence).
    assert (Pd : pview w dst = None) by (unfold pview; rewrite Hd; reflexivity).
    assert (Ps : pview w src = Some (psigs_of s0)) by (unfold pview; rewrite Hs; reflexivity).
    set (d := {| pr_value := pr_value s0; pr_about := pr_about s0; pr_changed := pr_changed s0; pr_destroyed := pr_destroyed s0; pr_moved := None; pr_updater := pr_updater s0 |}) in *.
    set (w1 := set_props w (bind_key (bind_key (w_props w) src (moved_from s0)) dst d)) in *.
    assert (Hd1 : lookup (w_props w1) dst = Some d) by (unfold w1; cbn [set_props w_props]; apply lookup_bind_same).
    assert (Hs1 : lookup (w_props w1) src = Some (moved_from s0)) by (unfold w1; cbn [set_props w_props]; rewrite lookup_bind_other by exact Hne; apply lookup_bind_same).
    assert (M : MV src dst None (pr_moved s0) (fixtarget w1 d dst)).
    { apply (mv_establish w src dst s0 d None); auto.
      - eapply pinvg_mono; [| | | | | |exact Hinv]; cbv beta; try (intros x Hx; exact Hx); try (intros x Hx; exact (False_ind _ Hx)).
      - exact (pi_slotown _ _ _ _ _ _ _ Hinv).
      - intros b ls E. destruct (pi_tgt _ _ _ _ _ _ _ Hinv _ _ _ E) as (v & Ev & _). congruence.
      - intros t. split; [intros (v & Ev & _); congruence|discriminate].
      - intros t E. discriminate E.
      - intros t pos pos' ser ser' b l [E|E]; [discriminate E|]. apply (pinv_uniq w src KMoved); [exact Hinv|]. exists (psigs_of s0). auto. }
    unfold finish_move in H. rewrite Hd1, Hs1 in H.
    change (match pr_updater d with
            | Some b => match get_bind w1 b with Some x => put_bind w1 b (bind_with_target x (Some dst)) | None => w1 end
            | None => w1 end) with (fixtarget w1 d dst) in H.
    set (wa := fixtarget w1 d dst) in *.
    destruct (mv_walks fn rtl fuel src dst None (pr_moved s0) wa M) as (wb & wc & E1 & P1 & E2 & T & P & O & Hh & Sr & L & N & B).
    rewrite E1 in H. cbn [moved_from pr_moved] in H. rewrite E2 in H. cbn [kill_table] in H.
    assert (Pc : w_props wc = w_props w1) by (rewrite P; unfold wa; apply fixtarget_props).
    unfold ok in H. cbv beta iota in H. rewrite Pc, Hd1, Hs1 in H. inversion H; subst w'; clear H.
    match goal with |- exists _ _ _, _ /\ _ /\ _ /\ _ /\ _ /\ _ /\ _ /\ (forall q, lookup (w_props ?W) q = _) /\ _ => set (w' := W) in * end.
    (* the emissions keep skeletons and evaluators *)
    assert (Ewb : wb = wa) by (cbn [emit] in E1; inversion E1; reflexivity). subst wb.
    assert (Tw : forall t, tview wc t = tview w t) by (intros t; rewrite T; unfold wa, fixtarget; destruct (pr_updater d) as [bu|]; [destruct (get_bind w1 bu)|]; reflexivity).
    assert (SKc' : SKB wa wc /\ w_evps wc = w_evps wa).
    { destruct (emit_moved_skel fn rtl (set_helper fn rtl fuel) wa (pr_moved s0) dst dst wc) as (A1 & _ & _ & A4); [|exact E2|auto].
      intros t pos ser label act Eot Hsl. apply (quiet_moved w src t pos ser label act Hinv); [exists (psigs_of s0); split; [exact Ps|exact Eot]|].
      destruct Hsl as (sl & fr & al & Et & En). exists sl, fr, al. split; [|exact En].
      rewrite <- Et. unfold wa, fixtarget. destruct (pr_updater d) as [bu|]; [destruct (get_bind w1 bu)|]; reflexivity. }
    destruct SKc' as [SKc Evc].
    (* every binding: alive as before, same evaluator, and its tree abstracts to the old abstraction with src renamed to dst *)
    assert (G1 : forall b, get_bind w1 b = get_bind w b) by reflexivity.
    assert (HB : forall b, match get_bind w b, get_bind w' b with
                           | Some x, Some x' => b_evp x' = b_evp x /\ abs_tree (b_root x') = option_map (aren (rn src dst)) (abs_tree (b_root x))
                           | None, None => True
                           | _, _ => False end).
    { intros b. assert (Gw' : get_bind w' b = get_bind wc b) by reflexivity. rewrite Gw'.
      pose proof (SKc b) as Sb. pose proof (B b) as Bb. unfold bmap, bview in Bb. unfold wa in Sb, Bb. rewrite (fixtarget_get w1 d dst b), G1 in Sb, Bb.
      destruct (get_bind w b) as [x|] eqn:Hx; [|destruct (get_bind wc b); [destruct Sb|exact I]].
      destruct (get_bind wc b) as [x'|]; [|destruct Sb]. destruct Sb as [Sk Ev].
      assert (Er : b_root (if opt_eqb Nat.eqb (pr_updater d) (Some b) then bind_with_target x (Some dst) else x) = b_root x) by (destruct (opt_eqb Nat.eqb (pr_updater d) (Some b)); reflexivity).
      assert (Ee : b_evp (if opt_eqb Nat.eqb (pr_updater d) (Some b) then bind_with_target x (Some dst) else x) = b_evp x) by (destruct (opt_eqb Nat.eqb (pr_updater d) (Some b)); reflexivity).
      rewrite Er in Sk, Bb. rewrite Ee in Ev. split; [exact Ev|]. inversion Bb as [[El Etg]].
      apply (abs_of_skel (rn src dst) (mvl src dst)); [exact Sk|exact El|].
      intros lf Hi. rewrite (mvl_tg src dst lf Hne). destruct (lf_tg lf) as [q|] eqn:Etq; [|reflexivity].
      assert (Hl : has_leaf w b lf) by (exists (leaves (b_root x)), (b_target x); split; [unfold bview; rewrite Hx; reflexivity|exact Hi]).
      pose proof (pi_leafx _ _ _ _ _ _ _ Hinv _ _ _ Hl Etq) as Hex. destruct (Nat.eqb_spec q dst) as [->|_]; [contradiction|].
      cbn [option_map]. unfold rn. destruct (Nat.eqb q src); reflexivity. }
    set (dn := prop_set_sig d KMoved (pr_moved (moved_from s0))) in *. set (sn := prop_set_sig (moved_from s0) KMoved None) in *.
    assert (PW : forall q, lookup (w_props w') q = if Nat.eqb q dst then Some dn else if Nat.eqb q src then Some sn else lookup (w_props w) q).
    { intros q. unfold w', w1; cbn [set_props w_props]. rewrite !lookup_bind. destruct (Nat.eqb q dst); [reflexivity|]. destruct (Nat.eqb q src); reflexivity. }
    assert (Sw : forall t pos ser s1, slot_at w' t pos ser s1 <-> slot_at w t pos ser s1).
    { intros t pos ser s1. unfold slot_at. change (tview w' t) with (tview wc t). rewrite Tw. tauto. }
    assert (HT : forall b x x', get_bind w b = Some x -> get_bind w' b = Some x' ->
                 b_target x' = option_map (rn src dst) (b_target x) /\ leaves (b_root x') = map (mvl src dst) (leaves (b_root x))).
    { intros b x x' Hx Hx'. change (get_bind wc b = Some x') in Hx'. pose proof (B b) as Bb. unfold bmap, bview in Bb. unfold wa in Bb.
      rewrite (fixtarget_get w1 d dst b), G1, Hx, Hx' in Bb. change (pr_updater d) with (pr_updater s0) in Bb.
      destruct (opt_eqb Nat.eqb (pr_updater s0) (Some b)) eqn:Eu; inversion Bb as [[El Etg]]; (split; [|reflexivity]).
      - cbn [bind_with_target b_target]. assert (Hub : pr_updater s0 = Some b).
        { destruct (pr_updater s0) as [bu|]; cbn [opt_eqb] in Eu; [apply Nat.eqb_eq in Eu; congruence|discriminate Eu]. }
        destruct (pi_upd _ _ _ _ _ _ _ Hinv _ _ _ Ps Hub (fun z => z)) as (ls & Ebw). unfold bview in Ebw. rewrite Hx in Ebw.
        assert (Et0 : b_target x = Some src) by congruence. rewrite Etg, Et0. cbn [option_map]. unfold rn. rewrite Nat.eqb_refl. reflexivity.
      - rewrite Etg. destruct (b_target x) as [q|] eqn:Et0; [|reflexivity]. cbn [option_map]. unfold rn. destruct (Nat.eqb_spec q src) as [->|]; [|reflexivity]. exfalso.
        assert (Bv : bview w b = Some (leaves (b_root x), Some src)) by (unfold bview; rewrite Hx, Et0; reflexivity).
        destruct (pi_tgt _ _ _ _ _ _ _ Hinv _ _ _ Bv) as (vq & Evq & Euq). rewrite Ps in Evq. inversion Evq; subst vq. cbn in Euq.
        rewrite Euq in Eu. cbn [opt_eqb] in Eu. rewrite Nat.eqb_refl in Eu. discriminate Eu. }
    assert (EV : w_evps w' = w_evps w).
    { change (w_evps w') with (w_evps wc). rewrite Evc. unfold wa, fixtarget. destruct (pr_updater d) as [bu|]; [destruct (get_bind w1 bu)|]; reflexivity. }
    exists s0, dn, sn. split; [reflexivity|]. split; [reflexivity|]. split; [exact Hne|]. split; [reflexivity|]. split; [reflexivity|]. split; [reflexivity|]. split; [reflexivity|].
    split; [exact PW|]. split; [exact Sw|]. split; [exact HB|]. split; [repeat split|]. split; [exact HT|]. split; [exact EV|].
    change (w_binds w') with (w_binds wc). rewrite L. unfold wa, fixtarget. destruct (pr_updater d) as [bu|]; [|reflexivity].
    destruct (get_bind w1 bu); [|reflexivity]. unfold put_bind; cbn [set_binds w_binds]. apply upd_length.
  Qed.

  (* the abstract half, for any operation that leaves the world in this shape: dst now has the value and updater src had, src is
     plain, nobody read dst, every binding that updates a property other than the old dst is as before up to the renaming *)
  Lemma coh_renamed_core w w' s src dst s0 dn sn :
    pinv w -> SIMPLE w -> Rel w s -> AP.Inv F1 F2 F3 (ORD w) s [] -> pinv w' ->
    src <> dst -> lookup (w_props w) src = Some s0 ->
    (forall b lf, has_leaf w b lf -> lf_tg lf <> Some dst) ->
    pr_value dn = pr_value s0 -> pr_updater dn = pr_updater s0 -> pr_value sn = pr_value s0 -> pr_updater sn = None ->
    (forall q, lookup (w_props w') q = if Nat.eqb q dst then Some dn else if Nat.eqb q src then Some sn else lookup (w_props w) q) ->
    (forall t pos ser s1, slot_at w' t pos ser s1 -> slot_at w t pos ser s1) ->
    (forall b, (forall d0, lookup (w_props w) dst = Some d0 -> pr_updater d0 <> Some b) ->
               match get_bind w b, get_bind w' b with
               | Some x, Some x' => b_evp x' = b_evp x /\ abs_tree (b_root x') = option_map (aren (rn src dst)) (abs_tree (b_root x))
               | None, None => True
               | _, _ => False end) ->
    SIMPLE w' /\ COH w'.
  Proof.
    intros Hinv Hsi (R1 & R2 & R3) HInv Hinv' Hne Hs Hnr Vd Ud Vs Us PW Sw HB0.
    (* a binding that updates a property other than dst is not the old updater of dst *)
    assert (HB : forall q pr b, q <> dst -> lookup (w_props w) q = Some pr -> pr_updater pr = Some b ->
                 match get_bind w b, get_bind w' b with
                 | Some x, Some x' => b_evp x' = b_evp x /\ abs_tree (b_root x') = option_map (aren (rn src dst)) (abs_tree (b_root x))
                 | None, None => True
                 | _, _ => False end).
    { intros q pr b Hq Hp Hu. apply HB0. intros d0 Hd0 Hud.
      assert (Pq : pview w q = Some (psigs_of pr)) by (unfold pview; rewrite Hp; reflexivity).
      assert (Pd : pview w dst = Some (psigs_of d0)) by (unfold pview; rewrite Hd0; reflexivity).
      destruct (pi_upd _ _ _ _ _ _ _ Hinv _ _ _ Pq Hu (fun z => z)) as (ls & Eb).
      destruct (pi_upd _ _ _ _ _ _ _ Hinv _ _ _ Pd Hud (fun z => z)) as (ls' & Eb'). rewrite Eb in Eb'. inversion Eb'. contradiction. }
    (* the immediate binding of q in the new world is the one of (q with dst renamed back to src) in the old world *)
    assert (IMM : forall q, match imm_of w' q with
                            | Some x' => q <> src /\ exists x, imm_of w (if Nat.eqb q dst then src else q) = Some x /\
                                           abs_tree (b_root x') = option_map (aren (rn src dst)) (abs_tree (b_root x))
                            | None => q = src \/ imm_of w (if Nat.eqb q dst then src else q) = None end).
    { intros q. unfold imm_of. rewrite PW. destruct (Nat.eqb_spec q dst) as [->|Hqd].
      - rewrite Hs, Ud. destruct (pr_updater s0) as [b|] eqn:Hub; [|right; reflexivity].
        pose proof (HB src s0 b Hne Hs Hub) as Hb. destruct (get_bind w b) as [x|], (get_bind w' b) as [x'|]; try (exfalso; exact Hb); [|right; reflexivity].
        cbv beta iota in Hb. destruct Hb as [Hev Hab]. rewrite Hev. destruct (Nat.eqb (b_evp x) 0); [|right; reflexivity]. split; [intros E; apply Hne; symmetry; exact E|]. exists x. auto.
      - destruct (Nat.eqb_spec q src) as [Eq|Hqs]; [rewrite Us; left; exact Eq|].
        destruct (lookup (w_props w) q) as [pr|] eqn:Hp; [|right; reflexivity]. destruct (pr_updater pr) as [b|] eqn:Hub; [|right; reflexivity].
        pose proof (HB q pr b Hqd Hp Hub) as Hb. destruct (get_bind w b) as [x|], (get_bind w' b) as [x'|]; try (exfalso; exact Hb); [|right; reflexivity].
        cbv beta iota in Hb. destruct Hb as [Hev Hab]. rewrite Hev. destruct (Nat.eqb (b_evp x) 0); [|right; reflexivity]. split; [exact Hqs|]. exists x. auto. }
    (* the renamed abstract state *)
    set (s' := {| A.env := fun x => if Nat.eqb x dst then A.env s src else A.env s x;
                  A.tr := fun q => if Nat.eqb q src then None else option_map (aren (rn src dst)) (A.tr s (if Nat.eqb q dst then src else q));
                  A.oof := false |}).
    assert (Rel' : Rel w' s').
    { split; [|split; [|reflexivity]].
      - intros q prq Hq. rewrite PW in Hq. cbn [s' A.env]. destruct (Nat.eqb_spec q dst) as [->|Hqd].
        + inversion Hq; subst prq. rewrite Vd. exact (R1 _ _ Hs).
        + destruct (Nat.eqb_spec q src) as [->|Hqs]; [inversion Hq; subst prq; rewrite Vs; exact (R1 _ _ Hs)|auto].
      - intros q. cbn [s' A.tr]. pose proof (IMM q) as Hq. destruct (imm_of w' q) as [x'|].
        + destruct Hq as (Hqs & x & Hx & Ea). destruct (Nat.eqb_spec q src); [contradiction|]. rewrite R2, Hx. symmetry. exact Ea.
        + destruct (Nat.eqb_spec q src) as [|Hqs]; [reflexivity|]. destruct Hq as [Hq|Hq]; [contradiction|]. rewrite R2, Hq. reflexivity. }
    split.
    - intros q x' Hx'. pose proof (IMM q) as Hq. rewrite Hx' in Hq. destruct Hq as (_ & x & Hx & Ea). rewrite Ea.
      pose proof (Hsi _ _ Hx) as Hn. destruct (abs_tree (b_root x)); [discriminate|contradiction].
    - exists s'. split; [exact Rel'|]. apply Inv_from_parts; [exact Hinv'|exact Rel'|].
      intros q t' Ht'. cbn [s' A.tr A.env] in Ht' |- *. destruct (Nat.eqb_spec q src) as [|Hqs]; [discriminate Ht'|].
      set (q0 := if Nat.eqb q dst then src else q) in *.
      destruct (A.tr s q0) as [t|] eqn:Ht; [|discriminate Ht']. inversion Ht'; subst t'; clear Ht'.
      destruct (HInv q0 t Ht) as (A1 & A2 & A3 & _).
      (* nothing a tree reads is dst *)
      assert (Hlv : forall p lid, In (p, lid) (A.leaves t) ->
                (if Nat.eqb (rn src dst p) dst then A.env s src else A.env s (rn src dst p)) = A.env s p).
      { intros p lid Hi. rewrite R2 in Ht. destruct (imm_of w q0) as [x|] eqn:Hx; [|discriminate Ht].
        destruct (abs_leaf_in _ _ _ _ Ht Hi) as (lf & Hlf & Htg & _).
        assert (Hb : exists b, has_leaf w b lf).
        { unfold imm_of in Hx. destruct (lookup (w_props w) q0) as [pr|]; [|discriminate Hx]. destruct (pr_updater pr) as [b|]; [|discriminate Hx].
          destruct (get_bind w b) as [x0|] eqn:Hb0; [|discriminate Hx]. destruct (Nat.eqb (b_evp x0) 0); [|discriminate Hx]. inversion Hx; subst x0.
          exists b, (leaves (b_root x)), (b_target x). split; [unfold bview; rewrite Hb0; reflexivity|exact Hlf]. }
        destruct Hb as (b & Hl). pose proof (Hnr _ _ Hl) as Hnd. rewrite Htg in Hnd.
        unfold rn. destruct (Nat.eqb_spec p src) as [->|Hps]; [rewrite Nat.eqb_refl; reflexivity|].
        destruct (Nat.eqb_spec p dst) as [->|]; [exfalso; apply Hnd; reflexivity|reflexivity]. }
      split; [apply aren_clean; exact A1|]. split; [apply (aren_consis fn (rn src dst) (A.env s) _ q0 q t Hlv A2)|].
      intros _. rewrite (aren_den fn (rn src dst) (A.env s) _ t Hlv). rewrite <- A3 by (intros p lid _ []).
      unfold q0. destruct (Nat.eqb_spec q dst); reflexivity.
  Qed.

  Lemma coh_renamed w w' s src dst s0 dn sn :
    pinv w -> NOACT w -> SIMPLE w -> Rel w s -> AP.Inv F1 F2 F3 (ORD w) s [] -> pinv w' ->
    src <> dst -> lookup (w_props w) src = Some s0 ->
    (forall b lf, has_leaf w b lf -> lf_tg lf <> Some dst) ->
    pr_value dn = pr_value s0 -> pr_updater dn = pr_updater s0 -> pr_value sn = pr_value s0 -> pr_updater sn = None ->
    (forall q, lookup (w_props w') q = if Nat.eqb q dst then Some dn else if Nat.eqb q src then Some sn else lookup (w_props w) q) ->
    (forall t pos ser s1, slot_at w' t pos ser s1 -> slot_at w t pos ser s1) ->
    (forall b, (forall d0, lookup (w_props w) dst = Some d0 -> pr_updater d0 <> Some b) ->
               match get_bind w b, get_bind w' b with
               | Some x, Some x' => b_evp x' = b_evp x /\ abs_tree (b_root x') = option_map (aren (rn src dst)) (abs_tree (b_root x))
               | None, None => True
               | _, _ => False end) ->
    SC w' /\ COH w'.
  Proof.
    intros Hinv Hna Hsi HRel HInv Hinv' Hne Hs Hnr Vd Ud Vs Us PW Sw HB0.
    destruct (coh_renamed_core w w' s src dst s0 dn sn Hinv Hsi HRel HInv Hinv' Hne Hs Hnr Vd Ud Vs Us PW Sw HB0) as [Hsi' HC'].
    split; [|exact HC']. split; [exact Hinv'|]. split; [|exact Hsi'].
    intros t pos ser label act Hsl. apply Sw in Hsl. eapply Hna; eauto.
  Qed.

  Lemma grow_movector fuel w src dst w' :
    SC w -> COH w -> NOEMIT w -> step1 fn rtl fuel w (PMoveCtor src dst) = (w', None) -> SC w' /\ COH w'.
  Proof.
    intros (Hinv & Hna & Hsi) (s & HRel & HInv) HNE H.
    pose proof (movector_pinv fn rtl fuel w src dst w' None Hinv HNE H I) as Hinv'.
    destruct (movector_shape fuel w src dst w' Hinv HNE H) as (s0 & dn & sn & Hs & Hd & Hne & Vd & Ud & Vs & Us & PW & Sw & HB & _).
    apply (coh_renamed w w' s src dst s0 dn sn); auto.
    - intros b lf Hl Ht. apply (pi_leafx _ _ _ _ _ _ _ Hinv _ _ _ Hl Ht). unfold pview. rewrite Hd. reflexivity.
    - intros t pos ser s1 Hsl. apply Sw. exact Hsl.
    - intros b _. apply HB.
  Qed.

  Lemma kill_table_evps w ot : w_evps (fst (kill_table w ot)) = w_evps w /\ length (w_binds (fst (kill_table w ot))) = length (w_binds w).
  Proof. unfold kill_table. destruct ot as [t|]; [|auto]. destruct (get_table w t) as [tb|]; [|auto]. destruct (t_emitting tb); auto. Qed.

  (* ---- move ASSIGNMENT over a destination that no binding reads ---- *)
  Lemma moveassign_shape2 fuel w dst src w' :
    pinv w -> NOEMIT w -> (forall b lf, has_leaf w b lf -> lf_tg lf <> Some dst) ->
    step1 fn rtl fuel w (PMoveAssign dst src) = (w', None) ->
    exists s0 d0 dn sn,
      lookup (w_props w) src = Some s0 /\ lookup (w_props w) dst = Some d0 /\ src <> dst /\
      pr_value dn = pr_value s0 /\ pr_updater dn = pr_updater s0 /\ pr_value sn = pr_value s0 /\ pr_updater sn = None /\
      (forall q, lookup (w_props w') q = if Nat.eqb q dst then Some dn else if Nat.eqb q src then Some sn else lookup (w_props w) q) /\
      (forall t pos ser s1, slot_at w' t pos ser s1 -> slot_at w t pos ser s1) /\
      (forall b, pr_updater d0 <> Some b ->
                 match get_bind w b, get_bind w' b with
                 | Some x, Some x' => b_evp x' = b_evp x /\ abs_tree (b_root x') = option_map (aren (rn src dst)) (abs_tree (b_root x))
                 | None, None => True
                 | _, _ => False end) /\
      (* the bindings that survive read and update what they did, with src renamed to dst; the destination's old binding is dead
         and has left its evaluator's registry; no other registry changed *)
      (forall b x x', pr_updater d0 <> Some b -> get_bind w b = Some x -> get_bind w' b = Some x' ->
         b_target x' = option_map (rn src dst) (b_target x) /\ leaves (b_root x') = map (mvl src dst) (leaves (b_root x))) /\
      match pr_updater d0 with
      | Some bd => exists x, get_bind w bd = Some x /\ get_bind w' bd = None /\
                     w_evps w' = match nth_error (w_evps w) (b_evp x) with
                                 | Some ep => upd (w_evps w) (b_evp x)
                                                {| ep_registry := filter (fun q => negb (Nat.eqb (fst q) (b_regid x))) (ep_registry ep); ep_next := ep_next ep |}
                                 | None => w_evps w end
      | None => w_evps w' = w_evps w end /\
      length (w_binds w') = length (w_binds w) /\
      (* the destination now holds the source's public change signals; the tables of its former ones are dead *)
      (pr_about dn = pr_about s0 /\ pr_changed dn = pr_changed s0) /\
      (forall t, (pr_changed d0 = Some t \/ pr_about d0 = Some t) -> deadt w' t).
  Proof.
    intros Hinv HNE Hnr H. cbn [step1] in H.
    destruct (lookup (w_props w) src) as [s0|] eqn:Hs; [|discriminate H].
    destruct (lookup (w_props w) dst) as [d0|] eqn:Hd; [|discriminate H].
    destruct (Nat.eqb_spec src dst) as [|Hne]; [discriminate H|].
    assert (Pd : pview w dst = Some (psigs_of d0)) by (unfold pview; rewrite Hd; reflexivity).
    assert (Ps : pview w src = Some (psigs_of s0)) by (unfold pview; rewrite Hs; reflexivity).
    assert (M0 : MA w dst w).
    { split; [eapply pinvg_mono; [| | | | | |exact Hinv]; cbv beta; try (intros x Hx; exact Hx); try (intros x Hx; exact (False_ind _ Hx))|].
      split; [exact (pi_slotown _ _ _ _ _ _ _ Hinv)|]. split; [exact HNE|]. split; [reflexivity|]. split; [reflexivity|]. split; [auto|].
      intros t Ho. exact (pi_own _ _ _ _ _ _ _ Hinv _ _ _ Ho (fun z => z)). }
    destruct (kill_table w (pr_about d0)) as [w1 [ex|]] eqn:K1; [discriminate H|].
    destruct (ma_kill fn w dst d0 KAbout _ _ _ Hinv Hd ltac:(discriminate) M0 K1 I) as [_ M1].
    destruct (kill_table w1 (pr_changed d0)) as [w2 [ex|]] eqn:K2; [discriminate H|].
    destruct (ma_kill fn w dst d0 KChanged _ _ _ Hinv Hd ltac:(discriminate) M1 K2 I) as [_ M2].
    destruct (kill_table w2 (pr_destroyed d0)) as [w3 [ex|]] eqn:K3; [discriminate H|].
    destruct (ma_kill fn w dst d0 KDestroyed _ _ _ Hinv Hd ltac:(discriminate) M2 K3 I) as [_ (I3 & SO3 & NE3 & P3 & B3 & S3 & A3)].
    assert (E3 : w_evps w3 = w_evps w).
    { pose proof (kill_table_evps w (pr_about d0)) as [A1 _]. rewrite K1 in A1. pose proof (kill_table_evps w1 (pr_changed d0)) as [A2 _]. rewrite K2 in A2.
      pose proof (kill_table_evps w2 (pr_destroyed d0)) as [A3' _]. rewrite K3 in A3'. cbn [fst] in *. congruence. }
    (* the destination's updater dies; every other binding is untouched *)
    destruct (match pr_updater d0 with Some b => destroy_binding w3 b | None => ok w3 end) as [w4 [ex|]] eqn:Hu; [discriminate H|].
    assert (Hupd : pinvg none_of (eq dst) none_of (eq dst) (eq dst) (eq dst) w4 /\ SLOTOWN none_of w4 /\ NOEMIT w4 /\ NOTARGET dst w4 /\
              w_props w4 = w_props w /\ (forall t pos ser x, slot_at w4 t pos ser x -> slot_at w t pos ser x) /\
              (forall t, owns w dst KMoved t -> exists sl fr, tview w4 t = Some (sl, fr, true)) /\
              (forall b, pr_updater d0 <> Some b -> get_bind w4 b = get_bind w b) /\
              length (w_binds w4) = length (w_binds w) /\
              match pr_updater d0 with
              | Some bd => exists x, get_bind w bd = Some x /\ get_bind w4 bd = None /\
                             w_evps w4 = match nth_error (w_evps w) (b_evp x) with
                                         | Some ep => upd (w_evps w) (b_evp x)
                                                        {| ep_registry := filter (fun q => negb (Nat.eqb (fst q) (b_regid x))) (ep_registry ep); ep_next := ep_next ep |}
                                         | None => w_evps w end
              | None => w_evps w4 = w_evps w end).
    { assert (Pd3 : pview w3 dst = Some (psigs_of d0)) by (unfold pview; rewrite P3, Hd; reflexivity).
      assert (G3 : forall b, get_bind w3 b = get_bind w b) by (intros b; unfold get_bind; rewrite B3; reflexivity).
      destruct (pr_updater d0) as [bd|] eqn:Hub.
      - pose proof (destroy_binding_tmono w3 bd) as TM. rewrite Hu in TM. cbn [fst] in TM.
        destruct (destroy_binding_pinvg _ _ _ _ _ _ _ _ _ I3 (fun z => z) Hu) as (J1 & J2 & J3 & J4 & J5 & J6 & J7 & J8 & J9 & J10 & J11).
        destruct (pi_upd _ _ _ _ _ _ _ Hinv _ _ _ Pd Hub (fun z => z)) as (lsb & Eb).
        assert (Eb3 : bview w3 bd = Some (lsb, Some dst)) by (rewrite (bview_binds _ _ B3); exact Eb).
        assert (Hbx : exists x, get_bind w bd = Some x) by (unfold bview in Eb; destruct (get_bind w bd) as [x|]; [eauto|discriminate Eb]).
        destruct Hbx as (x & Hbx). assert (Hbx3 : get_bind w3 bd = Some x) by (rewrite G3; exact Hbx).
        destruct (PropGrowLazyMore.destroy_shape w3 bd x w4 None Hbx3 Hu) as (Ev4 & _ & Gb4).
        split; [|split; [|split; [|split; [|split; [|split; [|split; [|split; [|split]]]]]]]].
        + eapply pinvg_mono; [| | | | | |exact J1]; cbv beta; try (intros z Hz; exact Hz).
          intros z [Hz|(ls0 & E0)]; [exact Hz|]. rewrite Eb3 in E0. inversion E0; reflexivity.
        + intros t pos ser b l lf q k Hsl Hl Hid Ho Hq. apply J10 in Hsl.
          assert (Hl3 : has_leaf w3 b lf).
          { destruct Hl as (ls & tg & E & Hi). destruct (Nat.eq_dec b bd) as [->|Hnb]; [congruence|]. rewrite (J3 _ Hnb) in E. exists ls, tg. auto. }
          assert (Ho3 : owns w3 q k t) by (revert Ho; unfold owns, pview; rewrite J5; tauto).
          eapply SO3; eauto.
        + eapply NOEMIT_tmono; eauto.
        + intros b ls E. destruct (Nat.eq_dec b bd) as [->|Hnb]; [congruence|]. rewrite (J3 _ Hnb) in E.
          destruct (pi_tgt _ _ _ _ _ _ _ I3 _ _ _ E) as (v & Ev & Eu). rewrite Pd3 in Ev. assert (v = psigs_of d0) by congruence. subst v. cbn in Eu. congruence.
        + rewrite J5. exact P3.
        + intros t pos ser x1 Hsl. apply S3. apply J10. exact Hsl.
        + intros t Ho. destruct (A3 _ Ho) as (sl & fr & Et). eapply J11; eauto.
        + intros b Hb. rewrite (destroy_binding_get_bind _ _ _ _ Hu b) by congruence. apply G3.
        + pose proof (PropReg.destroy_binding_rmono w3 bd) as (_ & _ & Lm & _). rewrite Hu in Lm. cbn [fst] in Lm.
          assert (Lle : length (w_binds w4) <= length (w_binds w3)).
          { unfold destroy_binding in Hu. rewrite Hbx3 in Hu.
            match type of Hu with unsubscribe_all ?W ?HS = _ => pose proof (unsubscribe_all_binds HS W) as Eb4; rewrite Hu in Eb4; cbn [fst] in Eb4 end.
            rewrite Eb4. unfold put_bind; cbn [set_binds w_binds]. rewrite upd_length. destruct (nth_error (w_evps w3) (b_evp x)); cbn [set_evps w_binds]; lia. }
          rewrite <- B3. lia.
        + exists x. split; [exact Hbx|]. split; [exact Gb4|]. rewrite Ev4, E3. reflexivity.
      - inversion Hu; subst w4. split; [exact I3|]. split; [exact SO3|]. split; [exact NE3|]. split; [|split; [exact P3|split; [exact S3|split; [exact A3|split; [intros b _; apply G3|split; [rewrite B3; reflexivity|exact E3]]]]]].
        intros b ls E. destruct (pi_tgt _ _ _ _ _ _ _ I3 _ _ _ E) as (v & Ev & Eu). rewrite Pd3 in Ev. assert (v = psigs_of d0) by congruence. subst v. cbn in Eu. congruence. }
    destruct Hupd as (I4 & SO4 & NE4 & NT4 & P4 & S4 & A4 & G4 & L4 & EV4).
    set (d' := {| pr_value := pr_value s0; pr_about := pr_about s0; pr_changed := pr_changed s0; pr_destroyed := pr_destroyed s0; pr_moved := pr_moved d0; pr_updater := pr_updater s0 |}) in *.
    set (w5 := set_props w4 (bind_key (bind_key (w_props w4) src (moved_from s0)) dst d')) in *.
    assert (O4 : forall q k t, owns w4 q k t <-> owns w q k t) by (intros; unfold owns, pview; rewrite P4; tauto).
    assert (Hd5 : lookup (w_props w5) dst = Some d') by (unfold w5; cbn [set_props w_props]; apply lookup_bind_same).
    assert (Hs5 : lookup (w_props w5) src = Some (moved_from s0)) by (unfold w5; cbn [set_props w_props]; rewrite lookup_bind_other by exact Hne; apply lookup_bind_same).
    assert (M : MV src dst (pr_moved d0) (pr_moved s0) (fixtarget w5 d' dst)).
    { apply (mv_establish w4 src dst s0 d' (pr_moved d0)); auto.
      - rewrite P4. exact Hs.
      - intros t. rewrite O4. split; [intros (v & Ev & Es); rewrite Pd in Ev; assert (v = psigs_of d0) by congruence; subst v; exact Es|].
        intros E. exists (psigs_of d0). auto.
      - intros t E. apply A4. exists (psigs_of d0). auto.
      - intros t pos pos' ser ser' b l Ht S1 S2'. apply S4 in S1, S2'. destruct Ht as [E|E].
        + apply (pinv_uniq w dst KMoved t pos pos' ser ser' b l Hinv); auto. exists (psigs_of d0). auto.
        + apply (pinv_uniq w src KMoved t pos pos' ser ser' b l Hinv); auto. exists (psigs_of s0). auto. }
    unfold finish_move in H. rewrite Hd5, Hs5 in H.
    change (match pr_updater d' with
            | Some b => match get_bind w5 b with Some x => put_bind w5 b (bind_with_target x (Some dst)) | None => w5 end
            | None => w5 end) with (fixtarget w5 d' dst) in H.
    set (wa := fixtarget w5 d' dst) in *.
    destruct (mv_walks fn rtl fuel src dst (pr_moved d0) (pr_moved s0) wa M) as (wb & wc & E1 & P1 & E2 & T & P & O & Hh & Sr & L & N & B).
    rewrite E1 in H. cbn [moved_from pr_moved] in H. rewrite E2 in H.
    destruct (kill_table wc (pr_moved d0)) as [wd [ex|]] eqn:K; [discriminate H|].
    destruct (kill_table_keeps fn _ _ _ K) as (Pk & Bk & Sk).
    assert (Pc : w_props wc = w_props w5) by (rewrite P; unfold wa; apply fixtarget_props).
    rewrite Pk, Pc, Hd5, Hs5 in H. inversion H; subst w'; clear H.
    match goal with |- exists _ _ _ _, _ /\ _ /\ _ /\ _ /\ _ /\ _ /\ _ /\ (forall q, lookup (w_props ?W) q = _) /\ _ => set (w' := W) in * end.
    assert (Twa : forall t, tview wa t = tview w4 t) by (intros t; unfold wa, fixtarget; destruct (pr_updater d') as [bu|]; [destruct (get_bind w5 bu)|]; reflexivity).
    assert (NAa : forall q0 pr0 t pos ser label act, lookup (w_props w) q0 = Some pr0 -> pr_moved pr0 = Some t -> slot_at wa t pos ser (SObs label act) -> act = None).
    { intros q0 pr0 t pos ser label act Hq0 Eot (sl & fr & al & Et & En). apply (quiet_moved w q0 t pos ser label act Hinv); [exists (psigs_of pr0); split; [unfold pview; rewrite Hq0; reflexivity|exact Eot]|].
      apply S4. exists sl, fr, al. split; [rewrite <- Twa; exact Et|exact En]. }
    destruct (emit_moved_skel fn rtl (set_helper fn rtl fuel) wa (pr_moved d0) dst dst wb (fun t pos ser label act Eot Hsl => NAa dst d0 t pos ser label act Hd Eot Hsl) E1) as (SKb & Pb & Twb & Evb).
    assert (NAb : forall t pos ser label act, pr_moved s0 = Some t -> slot_at wb t pos ser (SObs label act) -> act = None).
    { intros t pos ser label act Ht (sl & fr & al & Et & En). apply (NAa src s0 t pos ser label act Hs Ht). exists sl, fr, al. split; [rewrite <- Twb; exact Et|exact En]. }
    destruct (emit_moved_skel fn rtl (set_helper fn rtl fuel) wb (pr_moved s0) dst dst wc NAb E2) as (SKc & _ & _ & Evc).
    pose proof (SKB_trans _ _ _ SKb SKc) as SKac.
    set (dn := prop_set_sig d' KMoved (pr_moved (moved_from s0))) in *. set (sn := prop_set_sig (moved_from s0) KMoved None) in *.
    exists s0, d0, dn, sn. split; [reflexivity|]. split; [reflexivity|]. split; [exact Hne|]. split; [reflexivity|]. split; [reflexivity|]. split; [reflexivity|]. split; [reflexivity|].
    assert (Gwc : forall b, get_bind w' b = get_bind wc b) by (intros b; unfold get_bind, w'; cbn [set_props w_binds]; rewrite Bk; reflexivity).
    assert (Evw : w_evps w' = w_evps w4).
    { unfold w'; cbn [set_props w_evps]. pose proof (kill_table_evps wc (pr_moved d0)) as [A _]. rewrite K in A. cbn [fst] in A. rewrite A, Evc, Evb.
      unfold wa, fixtarget. destruct (pr_updater d') as [bu|]; [destruct (get_bind w5 bu)|]; reflexivity. }
    split; [|split; [|split; [|split; [|split; [|split; [|split]]]]]].
    - intros q. unfold w', w5; cbn [set_props w_props]. rewrite !lookup_bind, P4. destruct (Nat.eqb q dst); [reflexivity|]. destruct (Nat.eqb q src); reflexivity.
    - intros t pos ser s1 Hsl. apply S4. change (slot_at wd t pos ser s1) in Hsl. apply Sk in Hsl. destruct Hsl as (sl & fr & al & Et & En).
      exists sl, fr, al. split; [rewrite <- Twa, <- T; exact Et|exact En].
    - intros b Hb. assert (Gw' : get_bind w' b = get_bind wc b) by (unfold get_bind, w'; cbn [set_props w_binds]; rewrite Bk; reflexivity). rewrite Gw'.
      pose proof (SKac b) as Sb. pose proof (B b) as Bb. unfold bmap, bview in Bb. unfold wa in Sb, Bb.
      assert (G5 : get_bind w5 b = get_bind w b) by (rewrite <- (G4 b Hb); reflexivity).
      rewrite (fixtarget_get w5 d' dst b), G5 in Sb, Bb.
      destruct (get_bind w b) as [x|] eqn:Hx; [|destruct (get_bind wc b); [destruct Sb|exact I]].
      destruct (get_bind wc b) as [x'|]; [|destruct Sb]. destruct Sb as [Sk' Ev].
      assert (Er : b_root (if opt_eqb Nat.eqb (pr_updater d') (Some b) then bind_with_target x (Some dst) else x) = b_root x) by (destruct (opt_eqb Nat.eqb (pr_updater d') (Some b)); reflexivity).
      assert (Ee : b_evp (if opt_eqb Nat.eqb (pr_updater d') (Some b) then bind_with_target x (Some dst) else x) = b_evp x) by (destruct (opt_eqb Nat.eqb (pr_updater d') (Some b)); reflexivity).
      rewrite Er in Sk', Bb. rewrite Ee in Ev. split; [exact Ev|]. inversion Bb as [[El Etg]].
      apply (abs_of_skel (rn src dst) (mvl src dst)); [exact Sk'|exact El|].
      intros lf Hi. rewrite (mvl_tg src dst lf Hne). destruct (lf_tg lf) as [q|] eqn:Etq; [|reflexivity].
      assert (Hl : has_leaf w b lf) by (exists (leaves (b_root x)), (b_target x); split; [unfold bview; rewrite Hx; reflexivity|exact Hi]).
      pose proof (Hnr _ _ Hl) as Hnd. rewrite Etq in Hnd. destruct (Nat.eqb_spec q dst) as [->|_]; [exfalso; apply Hnd; reflexivity|].
      cbn [option_map]. unfold rn. destruct (Nat.eqb q src); reflexivity.
    - (* targets and leaves of the surviving bindings *)
      intros b x x' Hb Hx Hx'. rewrite Gwc in Hx'. pose proof (B b) as Bb. unfold bmap, bview in Bb. unfold wa in Bb.
      assert (G5 : get_bind w5 b = get_bind w b) by (rewrite <- (G4 b Hb); reflexivity).
      rewrite (fixtarget_get w5 d' dst b), G5, Hx, Hx' in Bb. change (pr_updater d') with (pr_updater s0) in Bb.
      destruct (opt_eqb Nat.eqb (pr_updater s0) (Some b)) eqn:Eu; inversion Bb as [[El Etg]]; (split; [|reflexivity]).
      + rewrite Etg. cbn [bind_with_target b_target]. assert (Hub : pr_updater s0 = Some b).
        { destruct (pr_updater s0) as [bu|]; cbn [opt_eqb] in Eu; [apply Nat.eqb_eq in Eu; congruence|discriminate Eu]. }
        destruct (pi_upd _ _ _ _ _ _ _ Hinv _ _ _ Ps Hub (fun z => z)) as (ls & Ebw). unfold bview in Ebw. rewrite Hx in Ebw.
        assert (Et0 : b_target x = Some src) by congruence. rewrite Et0. cbn [option_map]. unfold rn. rewrite Nat.eqb_refl. reflexivity.
      + rewrite Etg. destruct (b_target x) as [q|] eqn:Et0; [|reflexivity]. cbn [option_map]. unfold rn. destruct (Nat.eqb_spec q src) as [->|]; [|reflexivity]. exfalso.
        assert (Bv : bview w b = Some (leaves (b_root x), Some src)) by (unfold bview; rewrite Hx, Et0; reflexivity).
        destruct (pi_tgt _ _ _ _ _ _ _ Hinv _ _ _ Bv) as (vq & Evq & Euq). rewrite Ps in Evq. inversion Evq; subst vq. cbn in Euq.
        rewrite Euq in Eu. cbn [opt_eqb] in Eu. rewrite Nat.eqb_refl in Eu. discriminate Eu.
    - (* the registries *)
      destruct (pr_updater d0) as [bd|] eqn:Hud.
      + destruct EV4 as (x & Hbx & Gb4 & Ev4). exists x. split; [exact Hbx|]. split; [|rewrite Evw; exact Ev4].
        rewrite Gwc. pose proof (SKac bd) as Sb. unfold wa in Sb. rewrite (fixtarget_get w5 d' dst bd) in Sb.
        change (get_bind w5 bd) with (get_bind w4 bd) in Sb. rewrite Gb4 in Sb. destruct (get_bind wc bd); [destruct Sb|reflexivity].
      + rewrite Evw. exact EV4.
    - unfold w'; cbn [set_props w_binds]. rewrite Bk, L. unfold wa, fixtarget. rewrite <- L4. destruct (pr_updater d') as [bu|]; [|reflexivity].
      destruct (get_bind w5 bu); [|reflexivity]. unfold put_bind; cbn [set_binds w_binds]. apply upd_length.
    - split; reflexivity.
    - (* killed at the start, and nothing revives a table *)
      intros t Ht.
      assert (D2 : deadt w2 t).
      { destruct Ht as [Hc|Ha].
        - rewrite Hc in K2. apply (kill_table_kills w1 t w2 K2). apply (kill_table_exists w _ w1 t K1).
          destruct (pi_own _ _ _ _ _ _ _ Hinv dst KChanged t) as (sl & fr & E); [exists (psigs_of d0); split; [exact Pd|exact Hc]|exact (fun z => z)|rewrite E; discriminate].
        - apply (kill_table_dead w1 _ w2 t K2). rewrite Ha in K1. apply (kill_table_kills w t w1 K1).
          destruct (pi_own _ _ _ _ _ _ _ Hinv dst KAbout t) as (sl & fr & E); [exists (psigs_of d0); split; [exact Pd|exact Ha]|exact (fun z => z)|rewrite E; discriminate]. }
      pose proof (kill_table_dead w2 _ w3 t K3 D2) as D3.
      assert (D4 : deadt w4 t).
      { destruct (pr_updater d0) as [bd|]; [|inversion Hu; subst w4; exact D3].
        pose proof (destroy_binding_dead w3 bd t D3) as D. rewrite Hu in D. exact D. }
      assert (Dc : deadt wc t) by (destruct D4 as (sl & fr & E); exists sl, fr; rewrite T, Twa; exact E).
      pose proof (kill_table_dead wc _ wd t K Dc) as (sl & fr & E). exists sl, fr. exact E.
  Qed.

  Lemma moveassign_shape fuel w dst src w' :
    pinv w -> NOEMIT w -> (forall b lf, has_leaf w b lf -> lf_tg lf <> Some dst) ->
    step1 fn rtl fuel w (PMoveAssign dst src) = (w', None) ->
    exists s0 d0 dn sn,
      lookup (w_props w) src = Some s0 /\ lookup (w_props w) dst = Some d0 /\ src <> dst /\
      pr_value dn = pr_value s0 /\ pr_updater dn = pr_updater s0 /\ pr_value sn = pr_value s0 /\ pr_updater sn = None /\
      (forall q, lookup (w_props w') q = if Nat.eqb q dst then Some dn else if Nat.eqb q src then Some sn else lookup (w_props w) q) /\
      (forall t pos ser s1, slot_at w' t pos ser s1 -> slot_at w t pos ser s1) /\
      (forall b, pr_updater d0 <> Some b ->
                 match get_bind w b, get_bind w' b with
                 | Some x, Some x' => b_evp x' = b_evp x /\ abs_tree (b_root x') = option_map (aren (rn src dst)) (abs_tree (b_root x))
                 | None, None => True
                 | _, _ => False end) /\
      (forall b x x', pr_updater d0 <> Some b -> get_bind w b = Some x -> get_bind w' b = Some x' ->
         b_target x' = option_map (rn src dst) (b_target x) /\ leaves (b_root x') = map (mvl src dst) (leaves (b_root x))) /\
      match pr_updater d0 with
      | Some bd => exists x, get_bind w bd = Some x /\ get_bind w' bd = None /\
                     w_evps w' = match nth_error (w_evps w) (b_evp x) with
                                 | Some ep => upd (w_evps w) (b_evp x)
                                                {| ep_registry := filter (fun q => negb (Nat.eqb (fst q) (b_regid x))) (ep_registry ep); ep_next := ep_next ep |}
                                 | None => w_evps w end
      | None => w_evps w' = w_evps w end /\
      length (w_binds w') = length (w_binds w).
  Proof.
    intros Hinv HNE Hnr H.
    destruct (moveassign_shape2 fuel w dst src w' Hinv HNE Hnr H) as (s0 & d0 & dn & sn & A1 & A2 & A3 & A4 & A5 & A6 & A7 & A8 & A9 & A10 & A11 & A12 & A13 & _).
    exists s0, d0, dn, sn. repeat (split; [assumption|]). assumption.
  Qed.

  Lemma grow_moveassign fuel w dst src w' :
    SC w -> COH w -> NOEMIT w -> (forall b lf, has_leaf w b lf -> lf_tg lf <> Some dst) ->
    step1 fn rtl fuel w (PMoveAssign dst src) = (w', None) -> SC w' /\ COH w'.
  Proof.
    intros (Hinv & Hna & Hsi) (s & HRel & HInv) HNE Hnr H.
    pose proof (moveassign_pinv fn rtl fuel w dst src w' None Hinv HNE H I) as Hinv'.
    destruct (moveassign_shape fuel w dst src w' Hinv HNE Hnr H) as (s0 & d0 & dn & sn & Hs & Hd & Hne & Vd & Ud & Vs & Us & PW & Sw & HB & _).
    apply (coh_renamed w w' s src dst s0 dn sn); auto.
    intros b Hb. apply HB. apply Hb. exact Hd.
  Qed.

  (* ---- histories: the operations of PropGrowMore.grow_op2, move construction of any property, and move assignment over a
     destination that no live binding reads ---- *)
  Definition grow_op3 (w : world) (o : op) : Prop :=
    match o with
    | PMoveCtor _ _ => True
    | PMoveAssign dst _ => PropGrowMore.no_reader_b w dst = true
    | _ => PropGrowMore.grow_op2 w o end.

  Theorem grow3_step fuel w o w' :
    SC w -> COH w -> NOEMIT w -> grow_op3 w o -> step1 fn rtl fuel w o = (w', None) -> SC w' /\ COH w' /\ NOEMIT w'.
  Proof.
    intros HSC HC HNE Ho H.
    assert (HNE' : NOEMIT w').
    { pose proof (step1_tmono fn rtl fuel w o) as M. rewrite H in M. cbn [fst] in M. eapply NOEMIT_tmono; eauto. }
    destruct o; cbn [grow_op3] in Ho;
      try (destruct (PropGrowMore.grow2_step fn rtl fuel w _ w' HSC HC Ho H) as [A1 A2]; split; [exact A1|split; [exact A2|exact HNE']]).
    - destruct (grow_movector fuel w src dst w' HSC HC HNE H) as [A1 A2]. split; [exact A1|split; [exact A2|exact HNE']].
    - destruct (grow_moveassign fuel w dst src w' HSC HC HNE (PropGrowMore.no_reader_sound w dst Ho) H) as [A1 A2]. split; [exact A1|split; [exact A2|exact HNE']].
  Qed.

  Fixpoint grow3_run_ok (fuel : nat) (w : world) (ops : list op) : Prop :=
    match ops with
    | [] => True
    | o :: r => grow_op3 w o /\ snd (step1 fn rtl fuel w o) = None /\ grow3_run_ok fuel (step fn rtl fuel w o) r
    end.

  Lemma NOEMIT_world0 : NOEMIT world0.
  Proof. intros t (tb & E & _). unfold get_table in E. cbn in E. rewrite nth_nil in E. discriminate E. Qed.

  Theorem grow3_coherent fuel : forall ops w, SC w -> COH w -> NOEMIT w -> grow3_run_ok fuel w ops ->
    SC (fold_left (step fn rtl fuel) ops w) /\ COH (fold_left (step fn rtl fuel) ops w).
  Proof.
    induction ops as [|o r IH]; intros w HSC HC HNE Hok; cbn [fold_left]; [auto|]. destruct Hok as (Ho & Hn & Hr).
    pose proof (step_noemit fn rtl fuel w o HNE) as HNE1.
    unfold step in *. destruct (step1 fn rtl fuel w o) as [w1 e] eqn:E. cbn [snd] in Hn. subst e.
    destruct (grow3_step fuel w o w1 HSC HC HNE Ho E) as (SC1 & COH1 & _).
    apply IH; [apply SC_log; exact SC1|exact COH1|exact HNE1|exact Hr].
  Qed.

  Theorem grow3_reachable_consistent fuel ops q x pr z :
    grow3_run_ok fuel world0 ops ->
    let w := run fn rtl fuel ops in
    imm_of w q = Some x -> lookup (w_props w) q = Some pr ->
    PropCheck.den_node fn (values w) (b_root x) = Some z -> pr_value pr = z.
  Proof.
    intros Hok w Hi Hq Hd. destruct (grow3_coherent fuel ops world0 SC_world0 (COH_world0 fn) NOEMIT_world0 Hok) as [HSC HC].
    eapply (coherent_bound_equals_expression fn); eauto.
  Qed.
End MoveCtor.
