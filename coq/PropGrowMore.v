(* More operations under which coherence (PropSim.COH) is kept: binding an EXISTING unbound property (which may have readers) with
   immediate evaluation, Property::reset(), assigning a new immediate binding to a bound property, and destroying a property
   that no binding reads. *)
From KDB Require Import Util UtilProofs PropDefs PropFlags PropLink PropLinkBasics PropLinkOps PropLinkTheorems PropSim PropGrow PropSimLazy PropGrowLazy.
From KDB Require PropAbs PropAbsProofs PropProofs PropCheck PropReg.
Module A := PropAbs.
Module AP := PropAbsProofs.

Section More.
  Variable fn : nat -> list Z -> option Z.
  Variable rtl : bool.
  Notation F1 := (PropSim.F1 fn).
  Notation F2 := (PropSim.F2 fn).
  Notation F3 := (PropSim.F3 fn).
  Notation COH := (PropSim.COH fn).

  (* the subscription part of the abstract invariant follows from the link invariant *)
  Lemma Inv_from_parts w s :
    pinv w -> Rel w s ->
    (forall q t, A.tr s q = Some t -> A.clean t /\ A.consis F1 F2 F3 (A.env s) [] q t /\ (A.nopend [] q t -> A.env s q = A.den F1 F2 F3 (A.env s) t)) ->
    AP.Inv F1 F2 F3 (ORD w) s [].
  Proof.
    intros Hinv (R1 & R2 & R3) HP q T HT. destruct (HP q T HT) as (A1 & A2 & A3). split; [exact A1|]. split; [exact A2|]. split; [exact A3|].
    intros p lid Hi. rewrite R2 in HT. destruct (imm_of w q) as [x|] eqn:Hx; [|discriminate HT].
    unfold imm_of in Hx. destruct (lookup (w_props w) q) as [pr|] eqn:Hq; [|discriminate Hx]. destruct (pr_updater pr) as [b|] eqn:Hu; [|discriminate Hx].
    destruct (get_bind w b) as [x0|] eqn:Hb; [|discriminate Hx]. destruct (Nat.eqb (b_evp x0) 0) eqn:Hevp; [|discriminate Hx]. inversion Hx; subst x0.
    assert (Pq : pview w q = Some (psigs_of pr)) by (unfold pview; rewrite Hq; reflexivity).
    destruct (pi_upd _ _ _ _ _ _ _ Hinv _ _ _ Pq Hu (fun z => z)) as (ls & Eb).
    assert (Htg : b_target x = Some q) by (unfold bview in Eb; rewrite Hb in Eb; congruence).
    destruct (abs_leaf_in _ _ _ _ HT Hi) as (lf & Hlf & Htg0 & Hid).
    assert (Hl : has_leaf w b lf) by (exists (leaves (b_root x)), (b_target x); split; [unfold bview; rewrite Hb; reflexivity|exact Hlf]).
    destruct (pi_leafc _ _ _ _ _ _ _ Hinv _ _ _ Hl Htg0 (fun z => z)) as [Ho Hv]. apply in_ORD.
    exists (h_table (lf_hc lf)), (h_pos (lf_hc lf)), (h_serial (lf_hc lf)), b. split; [exact Ho|]. split; [rewrite <- Hid; exact Hv|].
    unfold imm. rewrite Hb, Hevp. exact Htg.
  Qed.

  Lemma unsubscribe_binds w h : w_binds (fst (unsubscribe w h)) = w_binds w.
  Proof.
    unfold unsubscribe. destruct (get_table w (h_table h)) as [tb|]; [|reflexivity]. destruct (negb (t_alive tb)); [reflexivity|].
    destruct (nth_error (t_slots tb) (h_pos h)) as [[[ser s]|]|]; try reflexivity. destruct (Nat.eqb ser (h_serial h)); [|reflexivity]. destruct (t_emitting tb); reflexivity.
  Qed.
  Lemma unsubscribe_all_binds hs : forall w, w_binds (fst (unsubscribe_all w hs)) = w_binds w.
  Proof.
    induction hs as [|h r IH]; intros w; cbn [unsubscribe_all]; [reflexivity|]. pose proof (unsubscribe_binds w h) as E.
    destruct (unsubscribe w h) as [w1 [e|]]; cbn [fst] in *; [exact E|]. rewrite IH. exact E.
  Qed.
  Lemma destroy_binding_get_bind w b w' e : destroy_binding w b = (w', e) -> forall b', b' <> b -> get_bind w' b' = get_bind w b'.
  Proof.
    unfold destroy_binding. destruct (get_bind w b) as [x|]; [|intros H; inversion H; reflexivity]. intros H b' Hne.
    match type of H with unsubscribe_all ?W ?HS = _ => pose proof (unsubscribe_all_binds HS W) as E; rewrite H in E; cbn [fst] in E end.
    unfold get_bind. rewrite E. unfold put_bind; cbn [set_binds w_binds]. rewrite nth_upd_other by congruence.
    destruct (nth_error (w_evps w) (b_evp x)); reflexivity.
  Qed.

  (* ---- Property::reset() of an immediately bound property ---- *)
  Lemma grow_reset fuel w p w' :
    SC w -> COH w -> step1 fn rtl fuel w (PReset p) = (w', None) -> SC w' /\ COH w'.
  Proof.
    intros (Hinv & Hna & Hsi) (s & (R1 & R2 & R3) & HInv) H. pose proof H as H0. cbn [step1] in H.
    destruct (lookup (w_props w) p) as [pr|] eqn:Hp; [|discriminate H].
    destruct (pr_updater pr) as [b|] eqn:Hu.
    2:{ inversion H; subst. split; [exact (conj Hinv (conj Hna Hsi))|]. exists s. split; [exact (conj R1 (conj R2 R3))|exact HInv]. }
    destruct (destroy_binding w b) as [w2 [ex|]] eqn:Hd; [discriminate H|].
    destruct (reset_pinv _ _ _ _ _ Hinv Hp Hu Hd) as (Hp2 & Hinv' & Hns & Hb2 & Hbo & Hpr & Hlen). rewrite Hp2 in H. inversion H; subst w'; clear H.
    set (w' := set_props w2 (bind_key (w_props w2) p (prop_set_updater pr None))) in *.
    destruct (destroy_binding_pinvg _ _ _ _ _ _ _ _ _ Hinv (fun z => z) Hd) as (_ & _ & _ & _ & _ & _ & _ & _ & _ & Hsl & _).
    pose proof (destroy_binding_get_bind _ _ _ _ Hd) as Gb.
    assert (Pq : pview w p = Some (psigs_of pr)) by (unfold pview; rewrite Hp; reflexivity).
    destruct (pi_upd _ _ _ _ _ _ _ Hinv _ _ _ Pq Hu (fun z => z)) as (lsb & Ebw).
    assert (IO : forall q, imm_of w' q = if Nat.eqb q p then None else imm_of w q).
    { assert (Gw : forall b', get_bind w' b' = get_bind w2 b') by reflexivity.
      intros q. unfold imm_of. change (w_props w') with (bind_key (w_props w2) p (prop_set_updater pr None)). rewrite lookup_bind. destruct (Nat.eqb_spec q p) as [->|Hne]; [reflexivity|].
      rewrite Hpr. destruct (lookup (w_props w) q) as [pr'|] eqn:Hq; [|reflexivity]. destruct (pr_updater pr') as [b'|] eqn:Hu'; [|reflexivity].
      rewrite Gw, Gb; [reflexivity|]. intros ->.
      assert (Pq' : pview w q = Some (psigs_of pr')) by (unfold pview; rewrite Hq; reflexivity).
      destruct (pi_upd _ _ _ _ _ _ _ Hinv _ _ _ Pq' Hu' (fun z => z)) as (ls & Eb). congruence. }
    set (s' := {| A.env := A.env s; A.tr := fun q => if Nat.eqb q p then None else A.tr s q; A.oof := false |}).
    assert (Rel' : Rel w' s').
    { split; [|split; [|reflexivity]].
      - intros q prq Hq. unfold w' in Hq; cbn [set_props w_props] in Hq. rewrite lookup_bind, Hpr in Hq. cbn [s' A.env].
        destruct (Nat.eqb_spec q p) as [->|]; [inversion Hq; subst prq; exact (R1 _ _ Hp)|auto].
      - intros q. cbn [s' A.tr]. rewrite IO. destruct (Nat.eqb q p); [reflexivity|apply R2]. }
    split.
    - split; [exact Hinv'|]. split.
      + intros t pos ser label act Hs. change (slot_at w2 t pos ser (SObs label act)) in Hs. eapply Hna. apply Hsl. exact Hs.
      + intros q x Hx. rewrite IO in Hx. destruct (Nat.eqb q p); [discriminate Hx|eauto].
    - exists s'. split; [exact Rel'|]. apply Inv_from_parts; [exact Hinv'|exact Rel'|].
      intros q t Ht. cbn [s' A.tr A.env] in *. destruct (Nat.eqb q p); [discriminate Ht|]. destruct (HInv q t Ht) as (A1 & A2 & A3 & _). auto.
  Qed.

  (* ---- binding an existing unbound property (which may have readers) ---- *)
  Lemma make_binding_updaters w e m w1 b :
    pinv w -> make_binding fn rtl w e m = inl (w1, b) -> forall q, option_map ps_updater (pview w1 q) = option_map ps_updater (pview w q).
  Proof.
    intros Hinv H. unfold make_binding in H.
    destruct (match m with MImmediate => Some 0 | MEvaluator ev => lookup (w_bevs w) ev end) as [ep|]; [|discriminate H].
    destruct (nth_error (w_evps w) ep) as [st|]; [|discriminate H].
    set (b0 := length (w_binds w)) in *.
    destruct (build fn rtl w b0 0 e) as [[[[w1' root] n1]|]|ex] eqn:Hb; try discriminate H. inversion H; subst w1 b; clear H.
    assert (H0 : BI (w_serial w) b0 0 [] [] w).
    { constructor.
      - eapply pinvg_mono; [| | | | | |exact Hinv]; cbv beta; try (intros x Hx; exact Hx); try (intros x Hx; exact (False_ind _ Hx)).
      - unfold bview, get_bind. replace (nth_error (w_binds w) b0) with (@None binding); [reflexivity|symmetry; apply nth_error_None; unfold b0; lia].
      - lia.
      - intros t pos ser s Hs Hge. destruct (pi_ser _ _ _ _ _ _ _ Hinv) as (S1 & _). specialize (S1 _ _ _ _ Hs). exfalso; lia.
      - intros t pos ser l Hs. exfalso. destruct (pi_slot _ _ _ _ _ _ _ Hinv _ _ _ _ _ (fun z => z) Hs) as (lf & (ls & tg & Eb & _) & _).
        unfold bview, get_bind in Eb. replace (nth_error (w_binds w) b0) with (@None binding) in Eb; [discriminate Eb|symmetry; apply nth_error_None; unfold b0; lia].
      - intros lf [].
      - intros lf [].
      - constructor.
      - intros lf h []. }
    destruct (build_basic fn rtl _ _ _ _ _ _ _ _ _ H0 Hb) as (_ & _ & _ & _ & B5). exact B5.
  Qed.

  Lemma grow_bind_unbound fuel w p pr e w' :
    SC w -> COH w -> lookup (w_props w) p = Some pr -> pr_updater pr = None ->
    step1 fn rtl fuel w (PBind p e MImmediate) = (w', None) -> SC w' /\ COH w'.
  Proof.
    intros HSC HC Hp Hu H. pose proof HSC as (Hinv & Hna & Hsi). cbn [step1] in H.
    destruct (make_binding fn rtl w e MImmediate) as [[w1 b]|x] eqn:Hm; [|discriminate H].
    destruct (make_binding_grow fn rtl _ _ _ _ Hinv Hm) as (G & Eb & xb & Hxb & Hevp & Htg & Htree).
    destruct (make_binding_pinv _ _ _ _ _ _ _ Hinv Hm) as (Hinv1 & _ & Hheld).
    pose proof (make_binding_updaters _ _ _ _ _ Hinv Hm p) as Eu.
    assert (Pp : pview w p = Some (psigs_of pr)) by (unfold pview; rewrite Hp; reflexivity). rewrite Pp in Eu. cbn in Eu.
    destruct (lookup (w_props w1) p) as [pr1|] eqn:Hp1; [|unfold pview in Eu; rewrite Hp1 in Eu; discriminate Eu].
    assert (Hu1 : pr_updater pr1 = None) by (unfold pview in Eu; rewrite Hp1 in Eu; cbn in Eu; congruence).
    pose proof (GR_SC _ _ G Hinv1 HSC) as SC1. pose proof (GR_COH fn _ _ G HC) as COH1.
    set (env0 := fun p0 => match values w p0 with Some v => v | None => 0%Z end).
    destruct (Htree env0 p) as (T & HT & _); [intros p0 v0 E; unfold env0; rewrite E; reflexivity|].
    apply (assign_fresh fn rtl fuel w1 p pr1 b xb T w' SC1 COH1); auto.
    intros s (R1 & R2 & R3).
    destruct (Htree (A.env s) p) as (T' & HT' & C' & N' & V').
    { intros p0 v0 E. destruct G as (_ & _ & G3 & _). rewrite <- G3 in E. apply values_lookup in E. destruct E as (pr0 & Hp0 & Ev). rewrite <- Ev. apply R1. exact Hp0. }
    assert (T' = T) by congruence. subst T'. auto.
  Qed.

  (* ---- assigning a new binding to a BOUND property = reset(), then the assignment ---- *)
  Lemma remove_key_idem {X} (m : nmap X) k : remove_key (remove_key m k) k = remove_key m k.
  Proof.
    induction m as [|[k' x] t IH]; cbn; [reflexivity|]. destruct (Nat.eqb_spec k k') as [->|Hne]; [exact IH|].
    cbn. destruct (Nat.eqb_spec k k'); [contradiction|]. rewrite IH. reflexivity.
  Qed.
  Lemma bind_key_twice {X} (m : nmap X) k (x y : X) : bind_key (bind_key m k x) k y = bind_key m k y.
  Proof. unfold bind_key. cbn. rewrite Nat.eqb_refl, remove_key_idem. reflexivity. Qed.

  Lemma assign_over_bound fuel w p pr old w1 b x :
    lookup (w_props w) p = Some pr -> pr_updater pr = Some old -> destroy_binding w old = (w1, None) -> w_props w1 = w_props w ->
    get_bind w1 b = Some x ->
    assign_binding fn rtl fuel w p b =
    assign_binding fn rtl fuel (set_props w1 (bind_key (w_props w1) p (prop_set_updater pr None))) p b.
  Proof.
    intros Hp Hu Hd Hpr Hb. unfold assign_binding. rewrite Hp, Hu, Hd. rewrite Hpr, Hp.
    cbn [set_props w_props]. rewrite lookup_bind_same. cbn [prop_set_updater pr_updater ok]. cbn [set_props w_props]. rewrite lookup_bind_same.
    change (get_bind (set_props w1 (bind_key (w_props w) p (prop_set_updater pr None))) b) with (get_bind w1 b).
    rewrite Hb. rewrite bind_key_twice. reflexivity.
  Qed.

  Lemma grow_rebind fuel w p pr old e w' :
    SC w -> COH w -> lookup (w_props w) p = Some pr -> pr_updater pr = Some old ->
    step1 fn rtl fuel w (PBind p e MImmediate) = (w', None) -> SC w' /\ COH w'.
  Proof.
    intros HSC HC Hp Hu H. pose proof HSC as (Hinv & Hna & Hsi). cbn [step1] in H.
    destruct (make_binding fn rtl w e MImmediate) as [[w1 b]|x] eqn:Hm; [|discriminate H].
    destruct (make_binding_grow fn rtl _ _ _ _ Hinv Hm) as (G & Eb & xb & Hxb & Hevp & Htg & Htree).
    destruct (make_binding_pinv _ _ _ _ _ _ _ Hinv Hm) as (Hinv1 & _ & Hheld).
    pose proof (make_binding_updaters _ _ _ _ _ Hinv Hm p) as Eu.
    assert (Pp : pview w p = Some (psigs_of pr)) by (unfold pview; rewrite Hp; reflexivity). rewrite Pp in Eu. cbn in Eu.
    destruct (lookup (w_props w1) p) as [pr1|] eqn:Hp1; [|unfold pview in Eu; rewrite Hp1 in Eu; discriminate Eu].
    assert (Hu1 : pr_updater pr1 = Some old) by (unfold pview in Eu; rewrite Hp1 in Eu; cbn in Eu; congruence).
    pose proof (GR_SC _ _ G Hinv1 HSC) as SC1. pose proof (GR_COH fn _ _ G HC) as COH1.
    (* the replaced binding goes first: exactly what reset() does *)
    destruct (destroy_binding w1 old) as [w2 [ex|]] eqn:Hd.
    { unfold assign_binding in H. rewrite Hp1, Hu1, Hd in H. discriminate H. }
    assert (Hpr2 : w_props w2 = w_props w1) by (pose proof (PropProofs.destroy_binding_props w1 old) as [E _]; rewrite Hd in E; exact E).
    assert (Hne : b <> old).
    { intros ->. assert (P1 : pview w1 p = Some (psigs_of pr1)) by (unfold pview; rewrite Hp1; reflexivity).
      destruct (pi_upd _ _ _ _ _ _ _ Hinv1 _ _ _ P1 Hu1 (fun z => z)) as (ls & E). unfold bview in E. rewrite Hxb, Htg in E. discriminate E. }
    assert (Hb2 : get_bind w2 b = Some xb) by (rewrite (destroy_binding_get_bind _ _ _ _ Hd b Hne); exact Hxb).
    rewrite (assign_over_bound fuel w1 p pr1 old w2 b xb Hp1 Hu1 Hd Hpr2 Hb2) in H.
    set (wr := set_props w2 (bind_key (w_props w2) p (prop_set_updater pr1 None))) in *.
    assert (Hreset : step1 fn rtl fuel w1 (PReset p) = (wr, None)).
    { cbn [step1]. rewrite Hp1, Hu1, Hd. rewrite Hpr2, Hp1. unfold wr. rewrite Hpr2. reflexivity. }
    destruct (grow_reset fuel w1 p wr SC1 COH1 Hreset) as [SCr COHr].
    assert (Hbr : get_bind wr b = Some xb) by exact Hb2.
    assert (Hheldr : forall n, lookup (w_held wr) n <> Some b).
    { pose proof (PropProofs.destroy_binding_props w1 old) as _. intros n. change (w_held wr) with (w_held w2).
      destruct (destroy_binding_pinvg _ _ _ _ _ _ _ _ _ Hinv1 (fun z => z) Hd) as (_ & _ & _ & _ & _ & _ & E & _). rewrite E. apply Hheld. }
    assert (Vr : forall q, values wr q = values w1 q).
    { intros q. unfold values, wr; cbn [set_props w_props]. rewrite lookup_bind, Hpr2. destruct (Nat.eqb_spec q p) as [->|]; [rewrite Hp1; reflexivity|reflexivity]. }
    set (env0 := fun p0 => match values w p0 with Some v => v | None => 0%Z end).
    destruct (Htree env0 p) as (T & HT & _); [intros p0 v0 E; unfold env0; rewrite E; reflexivity|].
    apply (assign_fresh fn rtl fuel wr p (prop_set_updater pr1 None) b xb T w' SCr COHr); auto.
    - unfold wr; cbn [set_props w_props]. apply lookup_bind_same.
    - intros s (R1 & R2 & R3).
      destruct (Htree (A.env s) p) as (T' & HT' & C' & N' & V').
      { intros p0 v0 E. destruct G as (_ & _ & G3 & _). rewrite <- G3, <- Vr in E. apply values_lookup in E. destruct E as (pr0 & Hp0 & Ev). rewrite <- Ev. apply R1. exact Hp0. }
      assert (T' = T) by congruence. subst T'. split; [exact C'|]. split; [exact N'|]. intros p0 lid Hi. rewrite Vr. exact (V' p0 lid Hi).
  Qed.

  (* ---- destroying a property that nobody reads ---- *)
  (* same world up to the trace *)
  Definition sbt (w w' : world) : Prop :=
    w_tables w' = w_tables w /\ w_props w' = w_props w /\ w_binds w' = w_binds w /\ w_evps w' = w_evps w /\ w_bevs w' = w_bevs w /\
    w_obs w' = w_obs w /\ w_held w' = w_held w /\ w_serial w' = w_serial w.
  Lemma sbt_refl w : sbt w w. Proof. repeat split. Qed.
  Lemma sbt_trans a b c : sbt a b -> sbt b c -> sbt a c.
  Proof. intros (A1 & A2 & A3 & A4 & A5 & A6 & A7 & A8) (B1 & B2 & B3 & B4 & B5 & B6 & B7 & B8). repeat split; congruence. Qed.

  Lemma walk_obs_only R t p k payload tb :
    (forall x ser s, nth_error (t_slots tb) x = Some (Some (ser, s)) -> exists label, s = SObs label None) ->
    forall idxs w, get_table w t = Some tb -> exists w', walk fn rtl R w t p k payload idxs = (w', None) /\ sbt w w'.
  Proof.
    intros Hobs. induction idxs as [|x r IH]; intros w Ht; cbn [walk]; [exists w; split; [reflexivity|apply sbt_refl]|]. rewrite Ht.
    destruct (nth_error (t_slots tb) x) as [[[ser s]|]|] eqn:Hn; try exact (IH w Ht).
    destruct (Hobs _ _ _ Hn) as (label & ->). cbn [deliver].
    destruct (IH (log (EvNotify label k payload (values w p)) w) Ht) as (w' & Hw & S). exists w'. split; [exact Hw|].
    eapply sbt_trans; [|exact S]. repeat split.
  Qed.

  Lemma emit_obs_only R w ot p k payload :
    (forall t, ot = Some t -> exists tb, get_table w t = Some tb /\ t_emitting tb = false /\
                 forall x ser s, nth_error (t_slots tb) x = Some (Some (ser, s)) -> exists label, s = SObs label None) ->
    exists w', emit fn rtl R w ot p k payload = (w', None) /\ sbt w w'.
  Proof.
    intros H. destruct ot as [t|]; [|exists w; split; [reflexivity|apply sbt_refl]].
    destruct (H t eq_refl) as (tb & Ht & Hem & Hobs). unfold emit. rewrite Ht, Hem.
    set (tb1 := {| t_slots := t_slots tb; t_free := t_free tb; t_emitting := true; t_alive := t_alive tb |}).
    set (w1 := put_table w t tb1).
    assert (Hlt : t < length (w_tables w)) by (apply nth_error_Some; unfold get_table in Ht; congruence).
    assert (Ht1 : get_table w1 t = Some tb1) by (unfold get_table, w1, put_table; cbn [set_tables w_tables]; apply nth_upd_same; exact Hlt).
    destruct (walk_obs_only R t p k payload tb1 Hobs (seq 0 (length (t_slots tb))) w1 Ht1) as (w2 & Hw & S2). rewrite Hw.
    destruct S2 as (A1 & A2 & A3 & A4 & A5 & A6 & A7 & A8).
    assert (Ht2 : get_table w2 t = Some tb1) by (unfold get_table; rewrite A1; exact Ht1). rewrite Ht2.
    eexists. split; [reflexivity|]. unfold put_table; cbn [set_tables w_tables w_props w_binds w_evps w_bevs w_obs w_held w_serial tb1 t_slots t_free t_alive].
    repeat split; try assumption. rewrite A1. unfold w1, put_table; cbn [set_tables w_tables]. rewrite upd_upd. apply upd_same.
    unfold get_table in Ht. rewrite Ht. destruct tb; cbn in *. subst. reflexivity.
  Qed.

  Lemma kill_table_keeps w ot w1 :
    kill_table w ot = (w1, None) ->
    w_props w1 = w_props w /\ w_binds w1 = w_binds w /\ forall t pos ser s, slot_at w1 t pos ser s -> slot_at w t pos ser s.
  Proof.
    intros H. destruct (kill_table_cases _ _ _ _ H) as [[_ E]|[(-> & _)|(_ & t & _ & K)]]; [discriminate E|auto|].
    split; [exact (ke_props _ _ _ K)|]. split; [exact (ke_binds _ _ _ K)|]. intros t' pos ser s Hs. apply (ke_slot _ _ _ K) in Hs. tauto.
  Qed.

  (* what ~Property of an unread property leaves behind *)
  Lemma del_shape fuel w p w' :
    pinv w -> (forall b lf, has_leaf w b lf -> lf_tg lf <> Some p) ->
    step1 fn rtl fuel w (PDel p) = (w', None) ->
    exists pr, lookup (w_props w) p = Some pr /\ w_props w' = remove_key (w_props w) p /\
      (forall b, pr_updater pr <> Some b -> get_bind w' b = get_bind w b) /\
      (forall t pos ser s0, slot_at w' t pos ser s0 -> slot_at w t pos ser s0) /\
      length (w_binds w') = length (w_binds w) /\
      match pr_updater pr with
      | Some bp => exists w1, w_evps w1 = w_evps w /\ get_bind w1 bp = get_bind w bp /\ w_evps w' = w_evps (fst (destroy_binding w1 bp)) /\
                              get_bind w' bp = get_bind (fst (destroy_binding w1 bp)) bp
      | None => w_evps w' = w_evps w end.
  Proof.
    intros Hinv Hnr H. cbn [step1] in H. unfold destroy_prop in H.
    destruct (lookup (w_props w) p) as [pr|] eqn:Hp; [|discriminate H].
    assert (Pv : pview w p = Some (psigs_of pr)) by (unfold pview; rewrite Hp; reflexivity).
    (* the tables of p hold plain observers only *)
    assert (Hobs : forall k t, k = KDestroyed -> sig_of pr k = Some t -> exists tb, get_table w t = Some tb /\
                     forall x ser s0, nth_error (t_slots tb) x = Some (Some (ser, s0)) -> exists label, s0 = SObs label None).
    { intros k t Hkd Hk. assert (Ow : owns w p k t) by (exists (psigs_of pr); split; [exact Pv|destruct k; exact Hk]).
      destruct (pi_own _ _ _ _ _ _ _ Hinv _ _ _ Ow (fun z => z)) as (sl & fr & Et). apply tview_Some in Et. destruct Et as (tb & Ht & <- & <- & Hal).
      exists tb. split; [exact Ht|]. intros x ser s0 Hn.
      assert (Hs : slot_at w t x ser s0) by (exists (t_slots tb), (t_free tb), (t_alive tb); split; [unfold tview; rewrite Ht; reflexivity|exact Hn]).
      destruct s0 as [label act|b l].
      { (* the subscribers of destroyed() never act: the link invariant says so *)
        destruct (pi_quiet _ _ _ _ _ _ _ Hinv p k t x ser _ Ow (or_introl Hkd) Hs) as [(l' & E)|(b' & l' & E)]; [inversion E; subst; exists l'; reflexivity|discriminate E]. }
      exfalso.
      destruct (pi_slot _ _ _ _ _ _ _ Hinv _ _ _ _ _ (fun z => z) Hs) as (lf & Hl & Hid & _).
      exact (Hnr b lf Hl (pi_slotown _ _ _ _ _ _ _ Hinv _ _ _ _ _ _ _ _ Hs Hl Hid Ow (fun z => z))). }
    destruct (emit_obs_only (set_helper fn rtl fuel) w (pr_destroyed pr) p KDestroyed []) as (w1 & He & S1).
    { intros t Et. destruct (Hobs KDestroyed t eq_refl Et) as (tb & Ht & Ho). exists tb. split; [exact Ht|]. split; [|exact Ho].
      destruct (t_emitting tb) eqn:Hem; [|reflexivity]. exfalso.
      unfold emit in H. rewrite Et, Ht, Hem in H. discriminate H. }
    rewrite He in H. destruct S1 as (T1 & P1 & B1 & E1 & _ & O1 & Hd1 & Sr1).
    destruct (match pr_updater pr with Some b => destroy_binding w1 b | None => ok w1 end) as [w2 [ex|]] eqn:Hu; [discriminate H|].
    destruct (kill_table w2 (pr_destroyed pr)) as [w3 [ex|]] eqn:K3; [discriminate H|].
    destruct (kill_table w3 (pr_moved pr)) as [w4 [ex|]] eqn:K4; [discriminate H|].
    destruct (kill_table w4 (pr_changed pr)) as [w5 [ex|]] eqn:K5; [discriminate H|].
    destruct (kill_table w5 (pr_about pr)) as [w6 [ex|]] eqn:K6; [discriminate H|]. inversion H; subst w'; clear H.
    destruct (kill_table_keeps _ _ _ K3) as (P3 & B3 & S3). destruct (kill_table_keeps _ _ _ K4) as (P4 & B4 & S4).
    destruct (kill_table_keeps _ _ _ K5) as (P5 & B5 & S5). destruct (kill_table_keeps _ _ _ K6) as (P6 & B6 & S6).
    assert (S01 : forall t pos ser s0, slot_at w1 t pos ser s0 -> slot_at w t pos ser s0).
    { intros t pos ser s0 (sl & fr & al & Et & En). exists sl, fr, al. split; [|exact En]. unfold tview, get_table in *. rewrite T1 in Et. exact Et. }
    assert (G01 : forall b, get_bind w1 b = get_bind w b) by (intros b; unfold get_bind; rewrite B1; reflexivity).
    (* the binding of p, if any, dies; every other binding is untouched *)
    assert (H2 : w_props w2 = w_props w /\ (forall t pos ser s0, slot_at w2 t pos ser s0 -> slot_at w t pos ser s0) /\
                 forall b, pr_updater pr <> Some b -> get_bind w2 b = get_bind w b).
    { destruct (pr_updater pr) as [bp|] eqn:Hub.
      - assert (Hinv1 : pinv w1).
        { eapply pinvg_views; [|exact Hinv]. split; [intros b; unfold bview; rewrite G01; reflexivity|]. split; [intros t; unfold tview, get_table; rewrite T1; reflexivity|].
          split; [intros q; unfold pview; rewrite P1; reflexivity|]. split; [exact O1|]. split; [exact Hd1|]. split; [exact Sr1|rewrite B1; reflexivity]. }
        destruct (destroy_binding_pinvg _ _ _ _ _ _ _ _ _ Hinv1 (fun z => z) Hu) as (_ & _ & _ & _ & I5 & _ & _ & _ & _ & Hsl & _).
        split; [rewrite I5; exact P1|]. split; [intros t pos ser s0 Hs; apply S01, Hsl; exact Hs|].
        intros b Hb. rewrite (destroy_binding_get_bind _ _ _ _ Hu b) by congruence. apply G01.
      - inversion Hu; subst w2. split; [exact P1|]. split; [exact S01|]. intros b _. apply G01. }
    destruct H2 as (P2 & S2 & G2).
    set (w' := set_props w6 (remove_key (w_props w6) p)).
    assert (Pw : w_props w' = remove_key (w_props w) p) by (unfold w'; cbn [set_props w_props]; rewrite P6, P5, P4, P3, P2; reflexivity).
    assert (Gw : forall b, pr_updater pr <> Some b -> get_bind w' b = get_bind w b).
    { intros b Hb. rewrite <- (G2 b Hb). unfold get_bind, w'; cbn [set_props w_binds]. rewrite B6, B5, B4, B3. reflexivity. }
    assert (Sw : forall t pos ser s0, slot_at w' t pos ser s0 -> slot_at w t pos ser s0).
    { intros t pos ser s0 Hs. apply S2, S3, S4, S5, S6. exact Hs. }
    assert (Ek : forall wa ot wb, kill_table wa ot = (wb, None) -> w_evps wb = w_evps wa).
    { intros wa ot wb K. destruct (kill_table_cases _ _ _ _ K) as [[_ E]|[(-> & _)|(_ & t & _ & Ke)]]; [discriminate E|reflexivity|exact (ke_evps _ _ _ Ke)]. }
    assert (Ev6 : w_evps w' = w_evps w2) by (unfold w'; cbn [set_props w_evps]; rewrite (Ek _ _ _ K6), (Ek _ _ _ K5), (Ek _ _ _ K4), (Ek _ _ _ K3); reflexivity).
    assert (Gb6 : forall b, get_bind w' b = get_bind w2 b) by (intros b; unfold get_bind, w'; cbn [set_props w_binds]; rewrite B6, B5, B4, B3; reflexivity).
    exists pr. split; [reflexivity|]. split; [exact Pw|]. split; [exact Gw|]. split; [exact Sw|]. split.
    - unfold w'; cbn [set_props w_binds]. rewrite B6, B5, B4, B3.
      destruct (pr_updater pr) as [bp|]; [|inversion Hu; subst w2; rewrite B1; reflexivity].
      pose proof (PropReg.destroy_binding_rmono w1 bp) as _. pose proof (destroy_binding_tmono w1 bp) as _.
      assert (L : length (w_binds (fst (destroy_binding w1 bp))) = length (w_binds w1)).
      { unfold destroy_binding. destruct (get_bind w1 bp) as [x|]; [|reflexivity].
        match goal with |- context [unsubscribe_all ?W ?HS] => rewrite (unsubscribe_all_binds HS W) end.
        unfold put_bind; cbn [set_binds w_binds]. rewrite upd_length. destruct (nth_error (w_evps w1) (b_evp x)); reflexivity. }
      rewrite Hu in L. cbn [fst] in L. rewrite L, B1. reflexivity.
    - destruct (pr_updater pr) as [bp|].
      + exists w1. split; [exact E1|]. split; [apply G01|]. rewrite Hu. cbn [fst]. split; [exact Ev6|apply Gb6].
      + inversion Hu; subst w2. rewrite Ev6. exact E1.
  Qed.

  Lemma grow_del_core fuel w p w' :
    pinv w -> SIMPLE w -> COH w -> (forall b lf, has_leaf w b lf -> lf_tg lf <> Some p) ->
    step1 fn rtl fuel w (PDel p) = (w', None) ->
    SIMPLE w' /\ COH w' /\ (forall t pos ser s0, slot_at w' t pos ser s0 -> slot_at w t pos ser s0) /\ w_props w' = remove_key (w_props w) p.
  Proof.
    intros Hinv Hsi (s & (R1 & R2 & R3) & HInv) Hnr H. cbn [step1] in H.
    pose proof (destroy_prop_pinv fn rtl fuel w p w' None Hinv H I) as Hinv'. unfold destroy_prop in H.
    destruct (lookup (w_props w) p) as [pr|] eqn:Hp; [|discriminate H].
    assert (Pv : pview w p = Some (psigs_of pr)) by (unfold pview; rewrite Hp; reflexivity).
    (* the tables of p hold plain observers only *)
    assert (Hobs : forall k t, k = KDestroyed -> sig_of pr k = Some t -> exists tb, get_table w t = Some tb /\
                     forall x ser s0, nth_error (t_slots tb) x = Some (Some (ser, s0)) -> exists label, s0 = SObs label None).
    { intros k t Hkd Hk. assert (Ow : owns w p k t) by (exists (psigs_of pr); split; [exact Pv|destruct k; exact Hk]).
      destruct (pi_own _ _ _ _ _ _ _ Hinv _ _ _ Ow (fun z => z)) as (sl & fr & Et). apply tview_Some in Et. destruct Et as (tb & Ht & <- & <- & Hal).
      exists tb. split; [exact Ht|]. intros x ser s0 Hn.
      assert (Hs : slot_at w t x ser s0) by (exists (t_slots tb), (t_free tb), (t_alive tb); split; [unfold tview; rewrite Ht; reflexivity|exact Hn]).
      destruct s0 as [label act|b l].
      { (* the subscribers of destroyed() never act: the link invariant says so *)
        destruct (pi_quiet _ _ _ _ _ _ _ Hinv p k t x ser _ Ow (or_introl Hkd) Hs) as [(l' & E)|(b' & l' & E)]; [inversion E; subst; exists l'; reflexivity|discriminate E]. }
      exfalso.
      destruct (pi_slot _ _ _ _ _ _ _ Hinv _ _ _ _ _ (fun z => z) Hs) as (lf & Hl & Hid & _).
      exact (Hnr b lf Hl (pi_slotown _ _ _ _ _ _ _ Hinv _ _ _ _ _ _ _ _ Hs Hl Hid Ow (fun z => z))). }
    destruct (emit_obs_only (set_helper fn rtl fuel) w (pr_destroyed pr) p KDestroyed []) as (w1 & He & S1).
    { intros t Et. destruct (Hobs KDestroyed t eq_refl Et) as (tb & Ht & Ho). exists tb. split; [exact Ht|]. split; [|exact Ho].
      destruct (t_emitting tb) eqn:Hem; [|reflexivity]. exfalso.
      unfold emit in H. rewrite Et, Ht, Hem in H. discriminate H. }
    rewrite He in H. destruct S1 as (T1 & P1 & B1 & _ & _ & O1 & Hd1 & Sr1).
    destruct (match pr_updater pr with Some b => destroy_binding w1 b | None => ok w1 end) as [w2 [ex|]] eqn:Hu; [discriminate H|].
    destruct (kill_table w2 (pr_destroyed pr)) as [w3 [ex|]] eqn:K3; [discriminate H|].
    destruct (kill_table w3 (pr_moved pr)) as [w4 [ex|]] eqn:K4; [discriminate H|].
    destruct (kill_table w4 (pr_changed pr)) as [w5 [ex|]] eqn:K5; [discriminate H|].
    destruct (kill_table w5 (pr_about pr)) as [w6 [ex|]] eqn:K6; [discriminate H|]. inversion H; subst w'; clear H.
    destruct (kill_table_keeps _ _ _ K3) as (P3 & B3 & S3). destruct (kill_table_keeps _ _ _ K4) as (P4 & B4 & S4).
    destruct (kill_table_keeps _ _ _ K5) as (P5 & B5 & S5). destruct (kill_table_keeps _ _ _ K6) as (P6 & B6 & S6).
    assert (S01 : forall t pos ser s0, slot_at w1 t pos ser s0 -> slot_at w t pos ser s0).
    { intros t pos ser s0 (sl & fr & al & Et & En). exists sl, fr, al. split; [|exact En]. unfold tview, get_table in *. rewrite T1 in Et. exact Et. }
    assert (G01 : forall b, get_bind w1 b = get_bind w b) by (intros b; unfold get_bind; rewrite B1; reflexivity).
    (* the binding of p, if any, dies; every other binding is untouched *)
    assert (H2 : w_props w2 = w_props w /\ (forall t pos ser s0, slot_at w2 t pos ser s0 -> slot_at w t pos ser s0) /\
                 forall b, pr_updater pr <> Some b -> get_bind w2 b = get_bind w b).
    { destruct (pr_updater pr) as [bp|] eqn:Hub.
      - assert (Hinv1 : pinv w1).
        { eapply pinvg_views; [|exact Hinv]. split; [intros b; unfold bview; rewrite G01; reflexivity|]. split; [intros t; unfold tview, get_table; rewrite T1; reflexivity|].
          split; [intros q; unfold pview; rewrite P1; reflexivity|]. split; [exact O1|]. split; [exact Hd1|]. split; [exact Sr1|rewrite B1; reflexivity]. }
        destruct (destroy_binding_pinvg _ _ _ _ _ _ _ _ _ Hinv1 (fun z => z) Hu) as (_ & _ & _ & _ & I5 & _ & _ & _ & _ & Hsl & _).
        split; [rewrite I5; exact P1|]. split; [intros t pos ser s0 Hs; apply S01, Hsl; exact Hs|].
        intros b Hb. rewrite (destroy_binding_get_bind _ _ _ _ Hu b) by congruence. apply G01.
      - inversion Hu; subst w2. split; [exact P1|]. split; [exact S01|]. intros b _. apply G01. }
    destruct H2 as (P2 & S2 & G2).
    set (w' := set_props w6 (remove_key (w_props w6) p)).
    assert (Pw : w_props w' = remove_key (w_props w) p) by (unfold w'; cbn [set_props w_props]; rewrite P6, P5, P4, P3, P2; reflexivity).
    assert (Gw : forall b, pr_updater pr <> Some b -> get_bind w' b = get_bind w b).
    { intros b Hb. rewrite <- (G2 b Hb). unfold get_bind, w'; cbn [set_props w_binds]. rewrite B6, B5, B4, B3. reflexivity. }
    assert (Sw : forall t pos ser s0, slot_at w' t pos ser s0 -> slot_at w t pos ser s0).
    { intros t pos ser s0 Hs. apply S2, S3, S4, S5, S6. exact Hs. }
    assert (IO : forall q, imm_of w' q = if Nat.eqb q p then None else imm_of w q).
    { intros q. unfold imm_of. rewrite Pw. destruct (Nat.eqb_spec q p) as [->|Hne]; [rewrite lookup_remove_same; reflexivity|].
      rewrite lookup_remove_other by exact Hne. destruct (lookup (w_props w) q) as [pr'|] eqn:Hq; [|reflexivity]. destruct (pr_updater pr') as [b'|] eqn:Hu'; [|reflexivity].
      rewrite Gw; [reflexivity|]. intros Hb.
      assert (Pq' : pview w q = Some (psigs_of pr')) by (unfold pview; rewrite Hq; reflexivity).
      destruct (pi_upd _ _ _ _ _ _ _ Hinv _ _ _ Pq' Hu' (fun z => z)) as (ls & Eb).
      destruct (pi_upd _ _ _ _ _ _ _ Hinv _ _ _ Pv Hb (fun z => z)) as (ls' & Eb'). rewrite Eb in Eb'. inversion Eb'. contradiction. }
    set (s' := {| A.env := A.env s; A.tr := fun q => if Nat.eqb q p then None else A.tr s q; A.oof := false |}).
    assert (Rel' : Rel w' s').
    { split; [|split; [|reflexivity]].
      - intros q prq Hq. rewrite Pw in Hq. cbn [s' A.env]. destruct (Nat.eq_dec q p) as [->|Hne]; [rewrite lookup_remove_same in Hq; discriminate Hq|].
        rewrite lookup_remove_other in Hq by exact Hne. auto.
      - intros q. cbn [s' A.tr]. rewrite IO. destruct (Nat.eqb q p); [reflexivity|apply R2]. }
    split; [|split; [|split; [exact Sw|exact Pw]]].
    - intros q x Hx. rewrite IO in Hx. destruct (Nat.eqb q p); [discriminate Hx|eauto].
    - exists s'. split; [exact Rel'|]. apply Inv_from_parts; [exact Hinv'|exact Rel'|].
      intros q t Ht. cbn [s' A.tr A.env] in *. destruct (Nat.eqb q p); [discriminate Ht|]. destruct (HInv q t Ht) as (A1 & A2 & A3 & _). auto.
  Qed.

  Lemma grow_del fuel w p w' :
    SC w -> COH w -> (forall b lf, has_leaf w b lf -> lf_tg lf <> Some p) ->
    step1 fn rtl fuel w (PDel p) = (w', None) -> SC w' /\ COH w'.
  Proof.
    intros (Hinv & Hna & Hsi) HC Hnr H.
    destruct (grow_del_core fuel w p w' Hinv Hsi HC Hnr H) as (Hsi' & HC' & Sw & _).
    split; [|exact HC']. split; [exact (destroy_prop_pinv fn rtl fuel w p w' None Hinv H I)|]. split; [|exact Hsi'].
    intros t pos ser label act Hs. eapply Hna. apply Sw. exact Hs.
  Qed.

  (* "nobody reads p", decidably: no leaf of a live binding refers to p *)
  Definition no_reader_b (w : world) (p : nat) : bool :=
    forallb (fun x => negb (b_alive x) || forallb (fun lf => match lf_tg lf with Some q => negb (Nat.eqb q p) | None => true end) (leaves (b_root x)))
            (w_binds w).
  Lemma no_reader_sound w p : no_reader_b w p = true -> forall b lf, has_leaf w b lf -> lf_tg lf <> Some p.
  Proof.
    intros H b lf (ls & tg & E & Hi) Ht. unfold bview, get_bind in E. destruct (nth_error (w_binds w) b) as [x|] eqn:Hn; [|discriminate E].
    destruct (b_alive x) eqn:Ha; [|discriminate E]. inversion E; subst ls tg.
    unfold no_reader_b in H. rewrite forallb_forall in H. specialize (H x (nth_error_In _ _ Hn)). rewrite Ha in H. cbn [negb orb] in H.
    rewrite forallb_forall in H. specialize (H lf Hi). rewrite Ht, Nat.eqb_refl in H. discriminate H.
  Qed.

  (* ---- histories: growing networks whose properties may also be bound later and reset ---- *)
  Definition grow_op2 (w : world) (o : op) : Prop :=
    match o with
    | PNew _ _ | PSet _ _ _ | PGet _ | PHasBinding _ | PReset _ => True
    | PObserve _ _ _ _ None => True
    | PBind _ _ MImmediate => True
    | PDel p => no_reader_b w p = true
    | _ => False
    end.

  Theorem grow2_step fuel w o w' :
    SC w -> COH w -> grow_op2 w o -> step1 fn rtl fuel w o = (w', None) -> SC w' /\ COH w'.
  Proof.
    intros HSC HC Ho H. destruct o; cbn [grow_op2] in Ho; try (exfalso; exact Ho).
    - eapply (grow_step fn rtl); eauto. exact I.
    - eapply grow_del; eauto. apply no_reader_sound. exact Ho.
    - eapply (grow_step fn rtl); eauto. exact I.
    - eapply (grow_step fn rtl); eauto. exact I.
    - eapply (grow_step fn rtl); eauto. exact I.
    - destruct act; [destruct Ho|]. eapply (grow_step fn rtl); eauto. exact I.
    - destruct m; [|destruct Ho]. destruct (lookup (w_props w) p) as [pr|] eqn:Hp.
      + destruct (pr_updater pr) as [old|] eqn:Hu; [eapply grow_rebind; eauto|eapply grow_bind_unbound; eauto].
      + eapply (grow_bind fn rtl); eauto.
    - eapply grow_reset; eauto.
  Qed.

  Fixpoint grow2_run_ok (fuel : nat) (w : world) (ops : list op) : Prop :=
    match ops with
    | [] => True
    | o :: r => grow_op2 w o /\ snd (step1 fn rtl fuel w o) = None /\ grow2_run_ok fuel (step fn rtl fuel w o) r
    end.

  Theorem grow2_coherent fuel : forall ops w, SC w -> COH w -> grow2_run_ok fuel w ops ->
    SC (fold_left (step fn rtl fuel) ops w) /\ COH (fold_left (step fn rtl fuel) ops w).
  Proof.
    induction ops as [|o r IH]; intros w HSC HC Hok; cbn [fold_left]; [auto|]. destruct Hok as (Ho & Hn & Hr).
    unfold step in *. destruct (step1 fn rtl fuel w o) as [w1 e] eqn:E. cbn [snd] in Hn. subst e.
    destruct (grow2_step fuel w o w1 HSC HC Ho E) as [SC1 COH1].
    apply IH; [apply SC_log; exact SC1|exact COH1|exact Hr].
  Qed.

  Theorem grow2_reachable_consistent fuel ops q x pr z :
    grow2_run_ok fuel world0 ops ->
    let w := run fn rtl fuel ops in
    imm_of w q = Some x -> lookup (w_props w) q = Some pr ->
    PropCheck.den_node fn (values w) (b_root x) = Some z -> pr_value pr = z.
  Proof.
    intros Hok w Hi Hq Hd. destruct (grow2_coherent fuel ops world0 SC_world0 (COH_world0 fn) Hok) as [HSC HC].
    eapply (coherent_bound_equals_expression fn); eauto.
  Qed.
End More.
