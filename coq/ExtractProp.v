(* Extraction of the property-layer model (ExtrOcamlBasic only). *)
From KDB Require Import PropDefs PropFn.
Require Import ExtrOcamlBasic.
Extraction Language OCaml.
Extraction "propmodel.ml" step run world0 fn_std values.
