(* Extraction of the property-layer model (ExtrOcamlBasic only). *)
From KDB Require Import PropDefs PropFn PropCheck PropLink PropFragment.
Require Import ExtrOcamlBasic.
Extraction Language OCaml.
Extraction "propmodel.ml" step run world0 fn_std values check_c02 check_c06_after_evalall check_links pinv_b okxb footprint in_c02_fragment in_c06_fragment act2_synb.
