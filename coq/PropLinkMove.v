(* The link invariant across move construction and move assignment of properties. *)
From KDB Require Import Util UtilProofs PropDefs PropFlags PropLink PropLinkBasics PropLinkOps.

Lemma rt_leaf_once f b : forall vis lf, NoDup vis -> In (b, lf_id lf) vis -> rt_leaf f vis b lf = lf_set_tg lf (f (lf_tg lf)).
Proof.
  unfold rt_leaf. induction vis as [|[b' l'] r IH]; intros lf ND Hi; [destruct Hi|]. cbn [fold_left].
  inversion ND as [|? ? Hn ND']; subst. unfold rt_step at 2; cbn [fst snd].
  destruct (pair_eq_dec (b', l') (b, lf_id lf)) as [E|Hne].
  - inversion E; subst. rewrite Nat.eqb_refl. unfold lf_retarget. rewrite Nat.eqb_refl.
    apply (rt_leaf_notin f r b (lf_set_tg lf (f (lf_tg lf)))). exact Hn.
  - destruct Hi as [E|Hi]; [congruence|].
    assert (Hs : (if Nat.eqb b' b then lf_retarget l' f lf else lf) = lf).
    { destruct (Nat.eqb_spec b' b) as [->|]; [|reflexivity]. unfold lf_retarget.
      destruct (Nat.eqb_spec (lf_id lf) l') as [<-|]; [congruence|reflexivity]. }
    rewrite Hs. apply IH; assumption.
Qed.

Lemma NoDup_visited sl :
  (forall x x' ser ser' b l, nth_error sl x = Some (Some (ser, SNode b l)) -> nth_error sl x' = Some (Some (ser', SNode b l)) -> x = x') ->
  NoDup (visited sl (seq 0 (length sl))).
Proof.
  intros H. unfold visited. generalize (seq_NoDup (length sl) 0). generalize (seq 0 (length sl)). intros idxs.
  induction idxs as [|x r IH]; intros ND; cbn [flat_map]; [constructor|]. inversion ND as [|? ? Hn ND']; subst.
  destruct (nth_error sl x) as [[[ser [label act|b l]]|]|] eqn:E; cbn [app]; try (apply IH; exact ND').
  constructor; [|apply IH; exact ND'].
  intros Hi. apply in_flat_map in Hi. destruct Hi as (x' & Hx' & Hi').
  destruct (nth_error sl x') as [[[ser' [label' act'|b' l']]|]|] eqn:E'; try destruct Hi'.
  - inversion H0; subst. rewrite (H _ _ _ _ _ _ E E') in Hn. contradiction.
  - destruct H0.
Qed.

Definition retg (q : nat) (newtg : option nat) (lf : leaf) : leaf :=
  match lf_tg lf with Some q' => if Nat.eqb q' q then lf_set_tg lf newtg else lf | None => lf end.

Lemma retg_id q n lf : lf_id (retg q n lf) = lf_id lf.
Proof. unfold retg. destruct (lf_tg lf) as [q'|]; [destruct (Nat.eqb q' q)|]; reflexivity. Qed.
Lemma retg_handles q n lf : lf_handles (retg q n lf) = lf_handles lf.
Proof. unfold retg. destruct (lf_tg lf) as [q'|]; [destruct (Nat.eqb q' q)|]; reflexivity. Qed.
Lemma retg_h q n lf k : lf_h k (retg q n lf) = lf_h k lf.
Proof. unfold retg. destruct (lf_tg lf) as [q'|]; [destruct (Nat.eqb q' q)|]; destruct k; reflexivity. Qed.
Lemma retg_tg q n lf : lf_tg (retg q n lf) = if opt_eqb Nat.eqb (lf_tg lf) (Some q) then n else lf_tg lf.
Proof. unfold retg, opt_eqb. destruct (lf_tg lf) as [q'|] eqn:E; [destruct (Nat.eqb q' q)|]; cbn; auto. Qed.

Section MovedWalk.
  Variable fn : nat -> list Z -> option Z.
  Variable rtl : bool.
  Variable R : world -> nat -> Z -> res.

  Lemma moved_walk w p q dst t tb :
    get_table w t = Some tb -> t_emitting tb = false ->
    (forall x ser s, nth_error (t_slots tb) x = Some (Some (ser, s)) ->
       (exists label, s = SObs label None) \/ (exists b l, s = SNode b l /\ bview w b <> None)) ->
    (forall b lf, has_leaf w b lf -> lf_tg lf = Some q -> exists x ser, nth_error (t_slots tb) x = Some (Some (ser, SNode b (lf_id lf)))) ->
    (forall x ser b l lf, nth_error (t_slots tb) x = Some (Some (ser, SNode b l)) -> has_leaf w b lf -> lf_id lf = l -> lf_tg lf = Some q) ->
    (forall x x' ser ser' b l, nth_error (t_slots tb) x = Some (Some (ser, SNode b l)) ->
       nth_error (t_slots tb) x' = Some (Some (ser', SNode b l)) -> x = x') ->
    exists w', emit fn rtl R w (Some t) p KMoved [Z.of_nat dst] = (w', None) /\
      (forall t', tview w' t' = tview w t') /\ w_props w' = w_props w /\ w_obs w' = w_obs w /\ w_held w' = w_held w /\
      w_serial w' = w_serial w /\ length (w_binds w') = length (w_binds w) /\
      forall b, bview w' b = bmap (fun _ => retg q (f_moved dst (Some q))) w b.
  Proof.
    intros Ht Hem Hq Hin Hout Hu.
    destruct (emit_quiet_rt fn rtl R p KMoved [Z.of_nat dst] (f_moved dst) w t tb
                (fun w0 => deliver_moved_node fn rtl R w0 p dst) (fun w0 => deliver_moved_obs fn rtl R w0 p dst) Ht Hem Hq)
      as (w' & He & I1 & I2 & I3 & I4 & I5 & I6 & I7).
    exists w'. split; [exact He|]. repeat split; try assumption.
    intros b. rewrite I7. apply bmap_ext. intros lf Hl.
    pose proof (NoDup_visited _ Hu) as ND. unfold retg.
    destruct (in_dec pair_eq_dec (b, lf_id lf) (visited (t_slots tb) (seq 0 (length (t_slots tb))))) as [Hi|Hn].
    - rewrite (rt_leaf_once _ _ _ _ ND Hi). apply in_visited in Hi. destruct Hi as (x & ser & E).
      rewrite (Hout _ _ _ _ _ E Hl eq_refl), Nat.eqb_refl. reflexivity.
    - rewrite (rt_leaf_notin _ _ _ _ Hn). destruct (lf_tg lf) as [q'|] eqn:Etg; [|reflexivity].
      destruct (Nat.eqb_spec q' q) as [->|]; [|reflexivity]. exfalso. apply Hn. apply in_visited. eauto.
  Qed.
End MovedWalk.

(* ------------------------------------------------------------------------------------------------ *)
(* signals change hands between properties (tables, bindings, updater fields untouched) *)
Section PropsChange.
  Variables w w' : world.
  Hypothesis T : forall t, tview w' t = tview w t.
  Hypothesis B : forall b, bview w' b = bview w b.
  Hypothesis O : w_obs w' = w_obs w.
  Hypothesis Hd : w_held w' = w_held w.
  Hypothesis Sr : w_serial w' = w_serial w.
  Hypothesis L : length (w_binds w') = length (w_binds w).
  Hypothesis PN : forall q, pview w' q = None <-> pview w q = None.
  Hypothesis PU : forall q v v', pview w q = Some v -> pview w' q = Some v' -> ps_updater v' = ps_updater v.

  Lemma pc_slot t pos ser s : slot_at w' t pos ser s <-> slot_at w t pos ser s.
  Proof. unfold slot_at. rewrite T. tauto. Qed.
  Lemma pc_leaf b lf : has_leaf w' b lf <-> has_leaf w b lf.
  Proof. unfold has_leaf. rewrite B. tauto. Qed.

  Lemma pinvg_propschange (X Sc Sm Sd So : nat -> Prop) :
    pinvg X Sc Sm Sd So none_of w -> OWN none_of w' -> OWNINJ w' -> QUIET w' ->
    LEAFK KChanged none_of w' -> LEAFK KMoved none_of w' -> LEAFK KDestroyed none_of w' -> SLOTOWN none_of w' ->
    pinvg X none_of none_of none_of none_of none_of w'.
  Proof.
    intros [] HO HI HQ HC HM HD HS. constructor; try assumption.
    - intros t sl fr al Et. rewrite T in Et. eauto.
    - intros t sl fr pos x Et. rewrite T in Et. eauto.
    - intros b lf q Hl Ht Hn. apply pc_leaf in Hl. apply PN in Hn. exact (pi_leafx _ _ _ Hl Ht Hn).
    - intros t pos ser b l Hx Hs. apply pc_slot in Hs. destruct (pi_slot _ _ _ _ _ Hx Hs) as (lf & Ha & Hb). exists lf. split; [apply pc_leaf; exact Ha|exact Hb].
    - intros b ls tg Eb. rewrite B in Eb. eauto.
    - destruct pi_ser as (S1 & S2 & S3). unfold SER. rewrite Sr, O. repeat split.
      + intros t pos ser s Hs. apply pc_slot in Hs. eauto.
      + exact S2.
      + intros b lf h Hl Hi. apply pc_leaf in Hl. eauto.
    - intros n h t pos s Hn Hs. rewrite O in Hn. apply pc_slot in Hs. eauto.
    - intros b lf h t pos s Hl Hi Hs. apply pc_leaf in Hl. apply pc_slot in Hs. eauto.
    - intros q v' b Hq Hu _. destruct (pview w q) as [v|] eqn:Ev; [|apply PN in Ev; congruence].
      rewrite (PU _ _ _ Ev Hq) in Hu. destruct (pi_upd _ _ _ Ev Hu (fun z => z)) as (ls & Eb). exists ls. rewrite B. exact Eb.
    - intros b ls q Eb. rewrite B in Eb. destruct (pi_tgt _ _ _ Eb) as (v & Ev & Eu).
      destruct (pview w' q) as [v'|] eqn:Ev'; [|apply PN in Ev'; congruence]. exists v'. split; [reflexivity|]. rewrite (PU _ _ _ Ev Ev'). exact Eu.
    - intros n b Hn. rewrite Hd in Hn. destruct (pi_held _ _ Hn) as [Ha Hb0]. split; [rewrite L; exact Ha|]. intros ls tg Eb. rewrite B in Eb. eauto.
  Qed.
End PropsChange.

(* ------------------------------------------------------------------------------------------------ *)
(* the common tail of move construction and move assignment *)

Definition S2 (src dst : nat) : nat -> Prop := fun q => q = src \/ q = dst.

Definition fixtarget (w : world) (d : prop) (dst : nat) : world :=
  match pr_updater d with
  | Some b => match get_bind w b with Some x => put_bind w b (bind_with_target x (Some dst)) | None => w end
  | None => w end.

Record MV (src dst : nat) (om ms : option nat) (w : world) : Prop := {
  mv_ne : src <> dst;
  mv_inv : pinvg none_of (S2 src dst) (S2 src dst) (S2 src dst) (S2 src dst) none_of w;
  mv_own : OWN none_of w;
  mv_noemit : NOEMIT w;
  mv_pdst : exists vd, pview w dst = Some vd /\ ps_moved vd = om;
  mv_psrc : pview w src = Some {| ps_about := None; ps_changed := None; ps_destroyed := None; ps_moved := ms; ps_updater := None |};
  mv_srcleaf : forall b lf, has_leaf w b lf -> lf_tg lf = Some src ->
      (owns w dst KChanged (h_table (lf_hc lf)) /\ live w (lf_hc lf) (SNode b (lf_id lf))) /\
      (owns w src KMoved (h_table (lf_hm lf)) /\ live w (lf_hm lf) (SNode b (lf_id lf))) /\
      (owns w dst KDestroyed (h_table (lf_hd lf)) /\ live w (lf_hd lf) (SNode b (lf_id lf)));
  mv_dstleaf : forall b lf, has_leaf w b lf -> lf_tg lf = Some dst ->
      owns w dst KMoved (h_table (lf_hm lf)) /\ live w (lf_hm lf) (SNode b (lf_id lf));
  mv_slots_dst : forall t pos ser b l lf k, slot_at w t pos ser (SNode b l) -> has_leaf w b lf -> lf_id lf = l -> owns w dst k t ->
      lf_tg lf = Some (if kind_eqb k KMoved then dst else src);
  mv_slots_src : forall t pos ser b l lf k, slot_at w t pos ser (SNode b l) -> has_leaf w b lf -> lf_id lf = l -> owns w src k t ->
      lf_tg lf = Some src;
  mv_uniq : forall t pos pos' ser ser' b l, owns w dst KMoved t \/ owns w src KMoved t ->
      slot_at w t pos ser (SNode b l) -> slot_at w t pos' ser' (SNode b l) -> pos = pos' }.

Definition mvl (src dst : nat) (lf : leaf) : leaf := retg src (Some dst) (retg dst None lf).

Lemma mvl_id src dst lf : lf_id (mvl src dst lf) = lf_id lf.
Proof. unfold mvl. rewrite !retg_id. reflexivity. Qed.
Lemma mvl_handles src dst lf : lf_handles (mvl src dst lf) = lf_handles lf.
Proof. unfold mvl. rewrite !retg_handles. reflexivity. Qed.
Lemma mvl_h src dst lf k : lf_h k (mvl src dst lf) = lf_h k lf.
Proof. unfold mvl. rewrite !retg_h. reflexivity. Qed.
Lemma mvl_tg src dst lf : src <> dst ->
  lf_tg (mvl src dst lf) = match lf_tg lf with Some q => if Nat.eqb q dst then None else if Nat.eqb q src then Some dst else Some q | None => None end.
Proof.
  intros Hne. unfold mvl. rewrite retg_tg, retg_tg. destruct (lf_tg lf) as [q|]; cbn [opt_eqb]; [|reflexivity].
  destruct (Nat.eqb_spec q dst) as [->|Hd]; cbn [opt_eqb]; [reflexivity|].
  destruct (Nat.eqb_spec q src); reflexivity.
Qed.

Lemma owns_fun w p k t t' : owns w p k t -> owns w p k t' -> t = t'.
Proof. intros (v & E & Es) (v' & E' & Es'). congruence. Qed.

Lemma bmap_id w b g : (forall lf, has_leaf w b lf -> g b lf = lf) -> bmap g w b = bview w b.
Proof.
  intros H. unfold bmap. destruct (bview w b) as [[ls tg]|] eqn:E; [|reflexivity]. f_equal. f_equal.
  rewrite <- (map_id ls) at 2. apply map_ext_in. intros lf Hi. apply H. exists ls, tg. auto.
Qed.

Lemma bmap_bmap g1 g2 w1 w2 b :
  (forall b, bview w2 b = bmap g1 w1 b) -> bmap g2 w2 b = bmap (fun b lf => g2 b (g1 b lf)) w1 b.
Proof.
  intros H. unfold bmap at 1. rewrite H. unfold bmap. destruct (bview w1 b) as [[ls tg]|]; [|reflexivity]. rewrite map_map. reflexivity.
Qed.

Section MoveWalks.
  Variable fn : nat -> list Z -> option Z.
  Variable rtl : bool.
  Variable R : world -> nat -> Z -> res.
  Hypothesis HF : goodF R.

  (* emission of the moved signal `ot` of property q (none of whose slots acts), announcing the address dst *)
  Lemma moved_emit_opt w q ot p dst :
    pview w q <> None -> (forall t, ot = Some t <-> owns w q KMoved t) -> NOEMIT w -> OWN none_of w -> QUIET w -> SLOTX none_of w ->
    (forall b lf, has_leaf w b lf -> lf_tg lf = Some q -> owns w q KMoved (h_table (lf_hm lf)) /\ live w (lf_hm lf) (SNode b (lf_id lf))) ->
    (forall t pos ser b l lf, slot_at w t pos ser (SNode b l) -> has_leaf w b lf -> lf_id lf = l -> owns w q KMoved t -> lf_tg lf = Some q) ->
    (forall t pos pos' ser ser' b l, owns w q KMoved t -> slot_at w t pos ser (SNode b l) -> slot_at w t pos' ser' (SNode b l) -> pos = pos') ->
    exists w', emit fn rtl R w ot p KMoved [Z.of_nat dst] = (w', None) /\
      (forall t', tview w' t' = tview w t') /\ w_props w' = w_props w /\ w_obs w' = w_obs w /\ w_held w' = w_held w /\
      w_serial w' = w_serial w /\ length (w_binds w') = length (w_binds w) /\ NOEMIT w' /\
      forall b, bview w' b = bmap (fun _ => retg q (f_moved dst (Some q))) w b.
  Proof.
    intros Hex Hot Hne Hown Hquiet Hslot Hin Hout Huniq. destruct ot as [t|].
    - assert (Ow : owns w q KMoved t) by (apply Hot; reflexivity).
      destruct (Hown _ _ _ Ow (fun z => z)) as (sl & fr & Et). apply tview_Some in Et. destruct Et as (tb & Ht & <- & <- & Hal).
      assert (Tv : tview w t = Some (t_slots tb, t_free tb, t_alive tb)) by (unfold tview; rewrite Ht; reflexivity).
      assert (Hem : t_emitting tb = false).
      { destruct (t_emitting tb) eqn:E; [|reflexivity]. exfalso. apply (Hne t). exists tb. auto. }
      destruct (moved_walk fn rtl R w p q dst t tb Ht Hem) as (w' & He & I1 & I2 & I3 & I4 & I5 & I6 & I7).
      + intros x ser s Hn. assert (Hs : slot_at w t x ser s) by (exists (t_slots tb), (t_free tb), (t_alive tb); auto).
        destruct (Hquiet _ _ _ _ _ _ Ow (or_intror eq_refl) Hs) as [Ho|(b & l & ->)]; [left; exact Ho|].
        right. exists b, l. split; [reflexivity|]. destruct (Hslot _ _ _ _ _ (fun z => z) Hs) as (lf & (ls & tg & Eb & _) & _). congruence.
      + intros b lf Hl Htg. destruct (Hin _ _ Hl Htg) as [Ho (sl & fr & al & Et & En)].
        rewrite (owns_fun _ _ _ _ _ Ho Ow), Tv in Et. inversion Et; subst. eauto.
      + intros x ser b l lf Hn Hl Hid. apply (Hout t x ser b l lf); auto. exists (t_slots tb), (t_free tb), (t_alive tb). split; [exact Tv|exact Hn].
      + intros x x' ser ser' b l Hn Hn'. apply (Huniq t x x' ser ser' b l Ow); exists (t_slots tb), (t_free tb), (t_alive tb); split; assumption.
      + exists w'. split; [exact He|]. repeat split; try assumption.
        pose proof (emit_tmono fn rtl R HF w (Some t) p KMoved [Z.of_nat dst]) as M. rewrite He in M. cbn [fst] in M.
        eapply NOEMIT_tmono; eauto.
    - exists w. split; [reflexivity|]. repeat split; try assumption.
      intros b. symmetry. apply bmap_id. intros lf Hl. unfold retg. destruct (lf_tg lf) as [q'|] eqn:Etg; [|reflexivity].
      destruct (Nat.eqb_spec q' q) as [->|]; [|reflexivity]. exfalso. destruct (Hin _ _ Hl Etg) as [Ho _].
      apply Hot in Ho. discriminate Ho.
  Qed.
End MoveWalks.

Section FinishMove.
  Variable fn : nat -> list Z -> option Z.
  Variable rtl : bool.

  Lemma mv_walks fuel src dst om ms wa :
    MV src dst om ms wa ->
    exists wb wc,
      emit fn rtl (set_helper fn rtl fuel) wa om dst KMoved [Z.of_nat dst] = (wb, None) /\ w_props wb = w_props wa /\
      emit fn rtl (set_helper fn rtl fuel) wb ms dst KMoved [Z.of_nat dst] = (wc, None) /\
      (forall t, tview wc t = tview wa t) /\ w_props wc = w_props wa /\ w_obs wc = w_obs wa /\ w_held wc = w_held wa /\
      w_serial wc = w_serial wa /\ length (w_binds wc) = length (w_binds wa) /\ NOEMIT wc /\
      forall b, bview wc b = bmap (fun _ => mvl src dst) wa b.
  Proof.
    intros M. destruct M. destruct mv_pdst0 as (vd & Pd & Emd).
    pose proof (set_helper_tmono fn rtl fuel) as HF.
    (* first emission: the destination's previous moved signal *)
    destruct (moved_emit_opt fn rtl _ HF wa dst om dst dst) as (wb & E1 & T1 & P1 & O1 & H1 & S1 & L1 & N1 & B1); auto.
    - congruence.
    - intros t. split; [intros ->; exists vd; auto|]. intros (v & Ev & Es). rewrite Pd in Ev. inversion Ev; subst v. cbn [psig] in Es. congruence.
    - exact (pi_quiet _ _ _ _ _ _ _ mv_inv0).
    - exact (pi_slot _ _ _ _ _ _ _ mv_inv0).
    - intros t pos ser b l lf Hs Hl Hid Ho. exact (mv_slots_dst0 _ _ _ _ _ _ _ Hs Hl Hid Ho).
    - intros t pos pos' ser ser' b l Ho. apply mv_uniq0. left. exact Ho.
    - assert (B1' : forall b, bview wb b = bmap (fun _ => retg dst None) wa b).
      { intros b. rewrite B1. unfold f_moved. rewrite Nat.eqb_refl. reflexivity. }
      assert (Pv1 : forall q, pview wb q = pview wa q) by (intros q; unfold pview; rewrite P1; reflexivity).
      pose proof (lm_leaf wa wb _ B1') as HL. pose proof (lm_slot wa wb T1) as HS. pose proof (lm_owns wa wb Pv1) as HO.
      (* second emission: the source's moved signal *)
      destruct (moved_emit_opt fn rtl _ HF wb src ms dst dst) as (wc & E2 & T2 & P2 & O2 & H2 & S2' & L2 & N2 & B2); auto.
      + rewrite Pv1. congruence.
      + intros t. split; [intros ->; apply HO; eexists; split; [exact mv_psrc0|reflexivity]|].
        intros Ho. apply HO in Ho. destruct Ho as (v & Ev & Es). rewrite mv_psrc0 in Ev. inversion Ev; subst v. cbn [psig ps_moved] in Es. congruence.
      + intros q k t Ho _. apply HO in Ho. destruct (mv_own0 _ _ _ Ho (fun z => z)) as (sl & fr & Et). exists sl, fr. rewrite T1. exact Et.
      + intros q k t pos ser s Ho Hk Hs. apply HO in Ho. apply HS in Hs. exact (pi_quiet _ _ _ _ _ _ _ mv_inv0 _ _ _ _ _ _ Ho Hk Hs).
      + intros t pos ser b l _ Hs. apply HS in Hs. destruct (pi_slot _ _ _ _ _ _ _ mv_inv0 _ _ _ _ _ (fun z => z) Hs) as (lf & Hl & Hid & Hh).
        exists (retg dst None lf). split; [apply HL; eauto|]. rewrite retg_id, retg_handles. auto.
      + intros b lf' Hl Htg. apply HL in Hl. destruct Hl as (lf & Hl & ->). rewrite retg_tg in Htg.
        assert (Etg : lf_tg lf = Some src).
        { destruct (lf_tg lf) as [q|]; cbn [opt_eqb] in Htg; [|discriminate Htg]. destruct (Nat.eqb_spec q dst); [discriminate Htg|exact Htg]. }
        destruct (mv_srcleaf0 _ _ Hl Etg) as (_ & [Ho Hv] & _). rewrite retg_id. change (lf_hm (retg dst None lf)) with (lf_h KMoved (retg dst None lf)).
        rewrite retg_h. split; [apply HO; exact Ho|apply HS; exact Hv].
      + intros t pos ser b l lf' Hs Hl Hid Ho. apply HL in Hl. destruct Hl as (lf & Hl & ->). rewrite retg_id in Hid. apply HS in Hs. apply HO in Ho.
        rewrite retg_tg, (mv_slots_src0 _ _ _ _ _ _ _ Hs Hl Hid Ho). cbn [opt_eqb]. destruct (Nat.eqb_spec src dst); [contradiction|reflexivity].
      + intros t pos pos' ser ser' b l Ho Hs Hs'. apply HO in Ho. apply HS in Hs, Hs'. eapply mv_uniq0; eauto.
      + exists wb, wc. split; [exact E1|]. split; [exact P1|]. split; [exact E2|].
        split; [intros t; rewrite T2; apply T1|]. split; [congruence|]. split; [congruence|]. split; [congruence|]. split; [congruence|].
        split; [congruence|]. split; [exact N2|].
        intros b. rewrite B2. unfold f_moved. destruct (Nat.eqb_spec src dst) as [|_]; [contradiction|].
        rewrite (bmap_bmap _ _ wa wb b B1'). reflexivity.
  Qed.
End FinishMove.

Lemma mv_final src dst om ms wa wc wd dd ss :
  MV src dst om ms wa ->
  (forall t, tview wc t = tview wa t) -> w_props wc = w_props wa -> w_obs wc = w_obs wa -> w_held wc = w_held wa ->
  w_serial wc = w_serial wa -> length (w_binds wc) = length (w_binds wa) ->
  (forall b, bview wc b = bmap (fun _ => mvl src dst) wa b) ->
  kill_table wc om = (wd, None) ->
  lookup (w_props wd) dst = Some dd -> lookup (w_props wd) src = Some ss ->
  pinv (set_props wd (bind_key (bind_key (w_props wd) src (prop_set_sig ss KMoved None)) dst (prop_set_sig dd KMoved (pr_moved ss)))).
Proof.
  intros M T P O H Sr L B K Hdd Hss. destruct M. destruct mv_pdst0 as (vd & Pd & Emd).
  assert (Pv : forall q, pview wc q = pview wa q) by (intros q; unfold pview; rewrite P; reflexivity).
  pose proof (lm_leaf wa wc _ B) as HL. pose proof (lm_slot wa wc T) as HS. pose proof (lm_owns wa wc Pv) as HO.
  assert (Odm : forall t, om = Some t <-> owns wa dst KMoved t).
  { intros t. split; [intros ->; exists vd; auto|]. intros (v & Ev & Es). rewrite Pd in Ev. inversion Ev; subst v. cbn [psig] in Es. congruence. }
  assert (Osm : forall t, ms = Some t <-> owns wa src KMoved t).
  { intros t. split; [intros ->; eexists; split; [exact mv_psrc0|reflexivity]|]. intros (v & Ev & Es). rewrite mv_psrc0 in Ev. inversion Ev; subst v. cbn [psig ps_moved] in Es. congruence. }
  (* stage A: the leaves *)
  assert (IA : pinvg none_of (S2 src dst) (S2 src dst) (S2 src dst) (S2 src dst) none_of wc).
  { assert (LK : forall k, LEAFK k (S2 src dst) wa -> LEAFK k (S2 src dst) wc).
    { intros k HK b lf' q Hl Htg Hq. apply HL in Hl. destruct Hl as (lf & Hl & ->). rewrite mvl_tg in Htg by exact mv_ne0.
      destruct (lf_tg lf) as [q0|] eqn:E0; [|discriminate Htg]. destruct (Nat.eqb_spec q0 dst) as [->|Hd]; [discriminate Htg|].
      destruct (Nat.eqb_spec q0 src) as [->|Hs]; [inversion Htg; subst q; exfalso; apply Hq; right; reflexivity|].
      inversion Htg; subst q0. rewrite mvl_h, mvl_id. destruct (HK _ _ _ Hl E0 Hq) as [Ha Hb]. split; [apply HO|apply HS]; assumption. }
    eapply (pinvg_leafmap wa wc (fun _ => mvl src dst)); eauto using mvl_id, mvl_handles.
    - intros q k t Ho Hq. apply HO in Ho. destruct (pi_own _ _ _ _ _ _ _ mv_inv0 _ _ _ Ho Hq) as (sl & fr & Et). exists sl, fr. rewrite T. exact Et.
    - intros b lf' q Hl Htg. apply HL in Hl. destruct Hl as (lf & Hl & ->). rewrite mvl_tg in Htg by exact mv_ne0. rewrite Pv.
      destruct (lf_tg lf) as [q0|] eqn:E0; [|discriminate Htg]. destruct (Nat.eqb_spec q0 dst) as [->|Hd]; [discriminate Htg|].
      destruct (Nat.eqb_spec q0 src) as [->|Hs]; inversion Htg; subst; [congruence|]. exact (pi_leafx _ _ _ _ _ _ _ mv_inv0 _ _ _ Hl E0).
    - apply LK. exact (pi_leafc _ _ _ _ _ _ _ mv_inv0).
    - apply LK. exact (pi_leafm _ _ _ _ _ _ _ mv_inv0).
    - apply LK. exact (pi_leafd _ _ _ _ _ _ _ mv_inv0).
    - intros t pos ser b l lf' q k Hs Hl Hid Ho Hq. apply HL in Hl. destruct Hl as (lf & Hl & ->). rewrite mvl_id in Hid. apply HS in Hs. apply HO in Ho.
      rewrite mvl_tg by exact mv_ne0. rewrite (pi_slotown _ _ _ _ _ _ _ mv_inv0 _ _ _ _ _ _ _ _ Hs Hl Hid Ho Hq).
      destruct (Nat.eqb_spec q dst) as [->|]; [exfalso; apply Hq; right; reflexivity|].
      destruct (Nat.eqb_spec q src) as [->|]; [exfalso; apply Hq; left; reflexivity|reflexivity]. }
  (* stage B: the destination's previous moved signal dies *)
  assert (KB : pinvg none_of (S2 src dst) (S2 src dst) (S2 src dst) (S2 src dst) none_of wd /\ w_props wd = w_props wc /\ w_binds wd = w_binds wc /\
               (forall t pos ser s, slot_at wd t pos ser s <-> (slot_at wc t pos ser s /\ om <> Some t)) /\
               (forall t sl fr, tview wc t = Some (sl, fr, true) -> om <> Some t -> exists sl' fr', tview wd t = Some (sl', fr', true)) /\
               (forall t, tview wd t = tview wc t \/ om = Some t) /\
               w_obs wd = w_obs wc /\ w_held wd = w_held wc /\ w_serial wd = w_serial wc).
  { destruct (kill_table_cases _ _ _ _ K) as [(_ & Ex)|[(-> & _ & Hno)|(_ & t & -> & Hk)]]; [discriminate Ex| |].
    - split; [exact IA|]. split; [reflexivity|]. split; [reflexivity|]. split.
      + intros t pos ser s. split; [|tauto]. intros Hs. split; [exact Hs|]. intros E. destruct Hno as [Hn|(t0 & E0 & Et0)]; [congruence|].
        rewrite E in E0. inversion E0; subst t0. destruct Hs as (sl & fr & al & Et & _). congruence.
      + split; [eauto|]. split; [auto|]. auto.
    - split.
      + eapply pinvg_kill; [exact Hk|exact IA|]. intros q k Ho. apply HO in Ho.
        destruct (pi_owninj _ _ _ _ _ _ _ mv_inv0 _ _ _ _ _ Ho (proj1 (Odm t) eq_refl)) as [-> ->].
        unfold S2. repeat split; intros; auto; discriminate.
      + split; [exact (ke_props _ _ _ Hk)|]. split; [exact (ke_binds _ _ _ Hk)|]. split.
        * intros t' pos ser s. rewrite (ke_slot _ _ _ Hk). split; intros [Hs Hne]; (split; [exact Hs|]); congruence.
        * split.
          -- intros t' sl fr Et Hne. rewrite (ke_other _ _ _ Hk); [eauto|congruence].
          -- split; [|split; [exact (ke_obs _ _ _ Hk)|split; [exact (ke_held _ _ _ Hk)|exact (ke_serial _ _ _ Hk)]]].
             intros t'. destruct (Nat.eq_dec t' t) as [->|Hne]; [auto|]. left. apply (ke_other _ _ _ Hk). exact Hne. }
  destruct KB as (IB & Pwd & Bwd & Swd & Awd & Twd & Owd & Hwd & Srwd).
  (* stage C: the signals change hands *)
  set (w' := set_props wd _).
  assert (Pvd : forall q, pview wd q = pview wa q) by (intros q; unfold pview; rewrite Pwd, P; reflexivity).
  assert (Edd : psigs_of dd = vd) by (pose proof (Pvd dst) as E; unfold pview in E at 1; rewrite Hdd, Pd in E; congruence).
  assert (Ess : psigs_of ss = {| ps_about := None; ps_changed := None; ps_destroyed := None; ps_moved := ms; ps_updater := None |})
    by (pose proof (Pvd src) as E; unfold pview in E at 1; rewrite Hss, mv_psrc0 in E; congruence).
  assert (Ems : pr_moved ss = ms) by (change (pr_moved ss) with (ps_moved (psigs_of ss)); rewrite Ess; reflexivity).
  assert (Pv' : forall q, pview w' q = if Nat.eqb q dst then Some (psigs_of (prop_set_sig dd KMoved ms))
                                       else if Nat.eqb q src then Some (psigs_of (prop_set_sig ss KMoved None)) else pview wa q).
  { intros q. unfold pview at 1. unfold w'; cbn [set_props w_props]. rewrite Ems, !lookup_bind.
    destruct (Nat.eqb q dst); [reflexivity|]. destruct (Nat.eqb q src); [reflexivity|]. apply Pvd. }
  assert (OW : forall q k t, owns w' q k t <->
            (q = dst /\ k = KMoved /\ owns wa src KMoved t) \/ (q = dst /\ k <> KMoved /\ owns wa dst k t) \/ (q <> dst /\ q <> src /\ owns wa q k t)).
  { intros q k t. unfold owns at 1. rewrite Pv'. destruct (Nat.eqb_spec q dst) as [->|Hd].
    - split.
      + intros (v & Ev & Es). assert (Hv : v = psigs_of (prop_set_sig dd KMoved ms)) by congruence. subst v. rewrite psig_set_sig in Es. destruct (kind_eqb_spec KMoved k) as [<-|Hk].
        * left. split; [reflexivity|]. split; [reflexivity|]. apply Osm. exact Es.
        * right; left. split; [reflexivity|]. split; [congruence|]. exists vd. split; [exact Pd|]. rewrite <- Edd. exact Es.
      + intros [(_ & -> & Ho)|[(_ & Hk & Ho)|(Hx & _)]]; [| |congruence]; eexists; (split; [reflexivity|]); rewrite psig_set_sig.
        * cbn [kind_eqb]. apply Osm. exact Ho.
        * destruct (kind_eqb_spec KMoved k) as [<-|_]; [congruence|]. destruct Ho as (v & Ev & Es). rewrite Pd in Ev. inversion Ev; subst v. rewrite Edd. exact Es.
    - destruct (Nat.eqb_spec q src) as [->|Hs].
      + split.
        * intros (v & Ev & Es). assert (Hv : v = psigs_of (prop_set_sig ss KMoved None)) by congruence. subst v. rewrite psig_set_sig in Es. destruct (kind_eqb_spec KMoved k) as [<-|Hk]; [discriminate Es|].
          rewrite Ess in Es. destruct k; cbn in Es; try discriminate Es. congruence.
        * intros [(Hx & _)|[(Hx & _)|(_ & Hx & _)]]; congruence.
      + split; [intros Ho; right; right; auto|]. intros [(Hx & _)|[(Hx & _)|(_ & _ & Ho)]]; [congruence|congruence|exact Ho]. }
  assert (Hom : forall q k t, owns w' q k t -> om <> Some t).
  { intros q k t Ho E. apply Odm in E. apply OW in Ho. destruct Ho as [(_ & _ & Ho)|[(_ & Hk & Ho)|(Hq & _ & Ho)]].
    - destruct (pi_owninj _ _ _ _ _ _ _ mv_inv0 _ _ _ _ _ Ho E) as [Hx _]. contradiction.
    - destruct (pi_owninj _ _ _ _ _ _ _ mv_inv0 _ _ _ _ _ Ho E) as [_ Hx]. contradiction.
    - destruct (pi_owninj _ _ _ _ _ _ _ mv_inv0 _ _ _ _ _ Ho E) as [Hx _]. contradiction. }
  assert (SL : forall t pos ser s, slot_at w' t pos ser s -> slot_at wa t pos ser s).
  { intros t pos ser s Hs. change (slot_at wd t pos ser s) in Hs. apply Swd in Hs. destruct Hs as [Hs _]. apply HS. exact Hs. }
  assert (LV : forall h s, live wa h s -> om <> Some (h_table h) -> live w' h s).
  { intros h s Hl Hne. change (slot_at wd (h_table h) (h_pos h) (h_serial h) s). apply Swd. split; [apply HS; exact Hl|exact Hne]. }
  assert (HL' : forall b lf', has_leaf w' b lf' <-> exists lf, has_leaf wa b lf /\ lf' = mvl src dst lf).
  { intros b lf'. rewrite <- HL. unfold has_leaf. change (bview w' b) with (bview wd b). rewrite (bview_binds _ _ Bwd). tauto. }
  eapply (pinvg_propschange wd w'); try reflexivity; try exact IB.
  - intros q. rewrite Pv', Pvd. destruct (Nat.eqb_spec q dst) as [->|]; [split; [discriminate|congruence]|].
    destruct (Nat.eqb_spec q src) as [->|]; [split; [discriminate|congruence]|tauto].
  - intros q v v' Ev Ev'. rewrite Pvd in Ev. rewrite Pv' in Ev'. destruct (Nat.eqb_spec q dst) as [->|].
    + assert (Hv : v' = psigs_of (prop_set_sig dd KMoved ms)) by congruence. subst v'. rewrite upd_set_sig, Edd. congruence.
    + destruct (Nat.eqb_spec q src) as [->|]; [|congruence]. assert (Hv : v' = psigs_of (prop_set_sig ss KMoved None)) by congruence. subst v'.
      rewrite upd_set_sig, Ess. rewrite mv_psrc0 in Ev. assert (Hv : v = {| ps_about := None; ps_changed := None; ps_destroyed := None; ps_moved := ms; ps_updater := None |}) by congruence.
      subst v. reflexivity.
  - (* OWN *) intros q k t Ho _. pose proof (Hom _ _ _ Ho) as Hne. apply OW in Ho.
    assert (Ha : exists sl fr, tview wa t = Some (sl, fr, true)).
    { destruct Ho as [(_ & _ & Ho)|[(_ & _ & Ho)|(_ & _ & Ho)]]; exact (mv_own0 _ _ _ Ho (fun z => z)). }
    destruct Ha as (sl & fr & Et). rewrite <- T in Et. exact (Awd _ _ _ Et Hne).
  - (* OWNINJ *) intros q k q' k' t H1 H2. apply OW in H1, H2.
    destruct H1 as [(-> & -> & O1)|[(-> & K1 & O1)|(Q1 & Q1' & O1)]], H2 as [(-> & -> & O2)|[(-> & K2 & O2)|(Q2 & Q2' & O2)]];
      destruct (pi_owninj _ _ _ _ _ _ _ mv_inv0 _ _ _ _ _ O1 O2) as [Ep Ek]; subst; auto; try contradiction; try congruence.
  - (* QUIET *) intros q k t pos ser s Ho Hk Hs. apply SL in Hs. apply OW in Ho.
    destruct Ho as [(_ & -> & Ho)|[(_ & _ & Ho)|(_ & _ & Ho)]]; exact (pi_quiet _ _ _ _ _ _ _ mv_inv0 _ _ _ _ _ _ Ho Hk Hs).
  - (* LEAFK changed *) intros b lf' q Hl Htg _. apply HL' in Hl. destruct Hl as (lf & Hl & ->). rewrite mvl_tg in Htg by exact mv_ne0. rewrite mvl_h, mvl_id.
    destruct (lf_tg lf) as [q0|] eqn:E0; [|discriminate Htg]. destruct (Nat.eqb_spec q0 dst) as [->|Hd]; [discriminate Htg|].
    destruct (Nat.eqb_spec q0 src) as [->|Hs].
    + inversion Htg; subst q. destruct (mv_srcleaf0 _ _ Hl E0) as ([Ho Hv] & _ & _).
      assert (Ho' : owns w' dst KChanged (h_table (lf_hc lf))) by (apply OW; right; left; split; [reflexivity|split; [discriminate|exact Ho]]).
      split; [exact Ho'|]. apply LV; [exact Hv|exact (Hom _ _ _ Ho')].
    + inversion Htg; subst q0. destruct (pi_leafc _ _ _ _ _ _ _ mv_inv0 _ _ _ Hl E0 (fun X => match X with or_introl a => Hs a | or_intror a => Hd a end)) as [Ho Hv].
      assert (Ho' : owns w' q KChanged (h_table (lf_hc lf))) by (apply OW; right; right; auto).
      split; [exact Ho'|]. apply LV; [exact Hv|exact (Hom _ _ _ Ho')].
  - (* LEAFK moved *) intros b lf' q Hl Htg _. apply HL' in Hl. destruct Hl as (lf & Hl & ->). rewrite mvl_tg in Htg by exact mv_ne0. rewrite mvl_h, mvl_id.
    destruct (lf_tg lf) as [q0|] eqn:E0; [|discriminate Htg]. destruct (Nat.eqb_spec q0 dst) as [->|Hd]; [discriminate Htg|].
    destruct (Nat.eqb_spec q0 src) as [->|Hs].
    + inversion Htg; subst q. destruct (mv_srcleaf0 _ _ Hl E0) as (_ & [Ho Hv] & _).
      assert (Ho' : owns w' dst KMoved (h_table (lf_hm lf))) by (apply OW; left; auto).
      split; [exact Ho'|]. apply LV; [exact Hv|exact (Hom _ _ _ Ho')].
    + inversion Htg; subst q0. destruct (pi_leafm _ _ _ _ _ _ _ mv_inv0 _ _ _ Hl E0 (fun X => match X with or_introl a => Hs a | or_intror a => Hd a end)) as [Ho Hv].
      assert (Ho' : owns w' q KMoved (h_table (lf_hm lf))) by (apply OW; right; right; auto).
      split; [exact Ho'|]. apply LV; [exact Hv|exact (Hom _ _ _ Ho')].
  - (* LEAFK destroyed *) intros b lf' q Hl Htg _. apply HL' in Hl. destruct Hl as (lf & Hl & ->). rewrite mvl_tg in Htg by exact mv_ne0. rewrite mvl_h, mvl_id.
    destruct (lf_tg lf) as [q0|] eqn:E0; [|discriminate Htg]. destruct (Nat.eqb_spec q0 dst) as [->|Hd]; [discriminate Htg|].
    destruct (Nat.eqb_spec q0 src) as [->|Hs].
    + inversion Htg; subst q. destruct (mv_srcleaf0 _ _ Hl E0) as (_ & _ & [Ho Hv]).
      assert (Ho' : owns w' dst KDestroyed (h_table (lf_hd lf))) by (apply OW; right; left; split; [reflexivity|split; [discriminate|exact Ho]]).
      split; [exact Ho'|]. apply LV; [exact Hv|exact (Hom _ _ _ Ho')].
    + inversion Htg; subst q0. destruct (pi_leafd _ _ _ _ _ _ _ mv_inv0 _ _ _ Hl E0 (fun X => match X with or_introl a => Hs a | or_intror a => Hd a end)) as [Ho Hv].
      assert (Ho' : owns w' q KDestroyed (h_table (lf_hd lf))) by (apply OW; right; right; auto).
      split; [exact Ho'|]. apply LV; [exact Hv|exact (Hom _ _ _ Ho')].
  - (* SLOTOWN *) intros t pos ser b l lf' q k Hs Hl Hid Ho _. apply HL' in Hl. destruct Hl as (lf & Hl & ->). rewrite mvl_id in Hid. apply SL in Hs.
    rewrite mvl_tg by exact mv_ne0. apply OW in Ho. destruct Ho as [(-> & -> & Ho)|[(-> & Hk & Ho)|(Hq & Hq' & Ho)]].
    + rewrite (mv_slots_src0 _ _ _ _ _ _ _ Hs Hl Hid Ho). destruct (Nat.eqb_spec src dst); [contradiction|]. rewrite Nat.eqb_refl. reflexivity.
    + rewrite (mv_slots_dst0 _ _ _ _ _ _ _ Hs Hl Hid Ho). destruct (kind_eqb_spec k KMoved); [contradiction|].
      destruct (Nat.eqb_spec src dst); [contradiction|]. rewrite Nat.eqb_refl. reflexivity.
    + rewrite (pi_slotown _ _ _ _ _ _ _ mv_inv0 _ _ _ _ _ _ _ _ Hs Hl Hid Ho (fun X => match X with or_introl a => Hq' a | or_intror a => Hq a end)).
      destruct (Nat.eqb_spec q dst); [contradiction|]. destruct (Nat.eqb_spec q src); [contradiction|reflexivity].
Qed.

Lemma fixtarget_props w d dst : w_props (fixtarget w d dst) = w_props w.
Proof. unfold fixtarget. destruct (pr_updater d) as [b|]; [destruct (get_bind w b)|]; reflexivity. Qed.

Lemma kill_table_props w ot : w_props (fst (kill_table w ot)) = w_props w.
Proof. unfold kill_table. destruct ot as [t|]; [|reflexivity]. destruct (get_table w t) as [tb|]; [|reflexivity]. destruct (t_emitting tb); reflexivity. Qed.

Section FinishMove2.
  Variable fn : nat -> list Z -> option Z.
  Variable rtl : bool.

  Lemma finish_move_pinv fuel w0 dst src om ms d s0 w' e :
    lookup (w_props w0) dst = Some d -> lookup (w_props w0) src = Some s0 -> pr_moved s0 = ms ->
    MV src dst om ms (fixtarget w0 d dst) ->
    finish_move fn rtl fuel w0 dst src om = (w', e) -> okx e -> pinv w'.
  Proof.
    intros Hd Hs Hms M H Hok. unfold finish_move in H. rewrite Hd, Hs in H.
    change (match pr_updater d with
            | Some b => match get_bind w0 b with Some x => put_bind w0 b (bind_with_target x (Some dst)) | None => w0 end
            | None => w0 end) with (fixtarget w0 d dst) in H.
    set (wa := fixtarget w0 d dst) in *.
    destruct (mv_walks fn rtl fuel src dst om ms wa M) as (wb & wc & E1 & P1 & E2 & T & P & O & Hh & Sr & L & N & B).
    rewrite E1 in H. rewrite Hms, E2 in H.
    destruct (kill_table wc om) as [wd [ex|]] eqn:K.
    - inversion H; subst. apply kill_table_exn in K. subst. destruct Hok.
    - pose proof (kill_table_props wc om) as Pk. rewrite K in Pk. cbn [fst] in Pk.
      assert (Hd' : lookup (w_props wd) dst = Some d) by (rewrite Pk, P; unfold wa; rewrite fixtarget_props; exact Hd).
      assert (Hs' : lookup (w_props wd) src = Some s0) by (rewrite Pk, P; unfold wa; rewrite fixtarget_props; exact Hs).
      rewrite Hd', Hs' in H. inversion H; subst.
      eapply (mv_final src dst om (pr_moved s0) wa wc wd d s0); eauto.
  Qed.
End FinishMove2.

(* ------------------------------------------------------------------------------------------------ *)
(* at most one slot per node in a signal that has an owner *)
Lemma slot_uniq_owned (X Sc Sm Sd Sw Su : nat -> Prop) w p k t pos pos' ser ser' b l :
  SLOTX none_of w -> LEAFIDS w -> SLOTOWN none_of w -> OWNINJ w ->
  LEAFK KChanged Sc w -> LEAFK KMoved Sm w -> LEAFK KDestroyed Sd w -> ~ Sc p -> ~ Sm p -> ~ Sd p ->
  owns w p k t -> slot_at w t pos ser (SNode b l) -> slot_at w t pos' ser' (SNode b l) -> pos = pos'.
Proof.
  intros HS HI HSO HOI HC HM HD Nc Nm Nd Ow S1 S2.
  destruct (HS _ _ _ _ _ (fun z => z) S1) as (lf & Hl & Hid & Hh).
  destruct (HS _ _ _ _ _ (fun z => z) S2) as (lf' & Hl' & Hid' & Hh').
  assert (lf' = lf).
  { destruct Hl as (ls & tg & Eb & Hi), Hl' as (ls' & tg' & Eb' & Hi'). rewrite Eb in Eb'. inversion Eb'; subst ls' tg'.
    eapply (NoDup_map_inj lf_id); eauto. congruence. }
  subst lf'.
  assert (Etg : lf_tg lf = Some p) by (eapply HSO; eauto; intros []).
  assert (HK : forall k', node_kind k' -> owns w p k' (h_table (lf_h k' lf))).
  { intros k' [->|[->| ->]]; [apply (HC _ _ _ Hl Etg Nc)|apply (HM _ _ _ Hl Etg Nm)|apply (HD _ _ _ Hl Etg Nd)]. }
  destruct (in_handles_kind _ _ Hh) as (k1 & N1 & E1), (in_handles_kind _ _ Hh') as (k2 & N2 & E2).
  pose proof (HK _ N1) as O1. pose proof (HK _ N2) as O2. rewrite <- E1 in O1. rewrite <- E2 in O2. cbn [h_table] in O1, O2.
  destruct (HOI _ _ _ _ _ O1 Ow) as [_ ->]. destruct (HOI _ _ _ _ _ O2 Ow) as [_ ->].
  rewrite <- E2 in E1. inversion E1. reflexivity.
Qed.

Lemma psigs_moved_from s : psigs_of (moved_from s) = {| ps_about := None; ps_changed := None; ps_destroyed := None; ps_moved := pr_moved s; ps_updater := None |}.
Proof. reflexivity. Qed.

Lemma mv_establish w4 src dst s d' om :
  src <> dst ->
  pinvg none_of (eq dst) none_of (eq dst) (eq dst) (eq dst) w4 ->
  SLOTOWN none_of w4 -> NOEMIT w4 -> NOTARGET dst w4 ->
  lookup (w_props w4) src = Some s ->
  (forall t, owns w4 dst KMoved t <-> om = Some t) ->
  (forall t, om = Some t -> exists sl fr, tview w4 t = Some (sl, fr, true)) ->
  (forall t pos pos' ser ser' b l, om = Some t \/ pr_moved s = Some t ->
     slot_at w4 t pos ser (SNode b l) -> slot_at w4 t pos' ser' (SNode b l) -> pos = pos') ->
  psigs_of d' = {| ps_about := pr_about s; ps_changed := pr_changed s; ps_destroyed := pr_destroyed s; ps_moved := om; ps_updater := pr_updater s |} ->
  MV src dst om (pr_moved s) (fixtarget (set_props w4 (bind_key (bind_key (w_props w4) src (moved_from s)) dst d')) d' dst).
Proof.
  intros Hne Hinv HSO HNE HNT Hs Hom Halive Huniq Hd'.
  set (w5 := set_props w4 (bind_key (bind_key (w_props w4) src (moved_from s)) dst d')).
  set (wa := fixtarget w5 d' dst).
  assert (Ps : pview w4 src = Some (psigs_of s)) by (unfold pview; rewrite Hs; reflexivity).
  assert (Hupd : pr_updater d' = pr_updater s) by (change (ps_updater (psigs_of d') = pr_updater s); rewrite Hd'; reflexivity).
  (* the views of wa *)
  assert (Tb : w_tables wa = w_tables w4).
  { unfold wa, fixtarget. destruct (pr_updater d') as [b|]; [destruct (get_bind w5 b)|]; reflexivity. }
  assert (Fr : w_serial wa = w_serial w4 /\ w_obs wa = w_obs w4 /\ w_held wa = w_held w4 /\ length (w_binds wa) = length (w_binds w4)).
  { unfold wa, fixtarget. destruct (pr_updater d') as [b|]; [destruct (get_bind w5 b)|]; repeat split.
    unfold put_bind; cbn [set_binds w_binds]. rewrite upd_length. reflexivity. }
  destruct Fr as (Ser & Obs & Held & Len).
  assert (TV : forall t, tview wa t = tview w4 t) by (intros t; unfold tview, get_table; rewrite Tb; reflexivity).
  assert (PV : forall q, pview wa q = if Nat.eqb q dst then Some (psigs_of d') else if Nat.eqb q src then Some (psigs_of (moved_from s)) else pview w4 q).
  { intros q. unfold pview at 1. unfold wa. rewrite fixtarget_props. unfold w5; cbn [set_props w_props]. rewrite !lookup_bind.
    destruct (Nat.eqb q dst); [reflexivity|]. destruct (Nat.eqb q src); reflexivity. }
  assert (BV : forall b, bview wa b = match bview w4 b with
                                      | Some (ls, tg) => Some (ls, if opt_eqb Nat.eqb (pr_updater s) (Some b) then Some dst else tg)
                                      | None => None end).
  { intros b. unfold wa, fixtarget. rewrite Hupd. destruct (pr_updater s) as [bs|] eqn:Eu.
    - destruct (pi_upd _ _ _ _ _ _ _ Hinv _ _ _ Ps Eu (fun E => Hne (eq_sym E))) as (lsb & Eb).
      assert (Hgb : exists x, get_bind w4 bs = Some x /\ leaves (b_root x) = lsb /\ b_target x = Some src).
      { unfold bview in Eb. destruct (get_bind w4 bs) as [x|]; [|discriminate Eb]. exists x. inversion Eb; auto. }
      destruct Hgb as (x & Hgb & Hlx & Htx). change (get_bind w5 bs) with (get_bind w4 bs). rewrite Hgb.
      destruct (get_bind_lt _ _ _ Hgb) as [Hlt Hal]. rewrite bview_put_bind. change (length (w_binds w5)) with (length (w_binds w4)).
      apply Nat.ltb_lt in Hlt. rewrite Hlt. cbn [bind_with_target b_alive b_root b_target opt_eqb]. rewrite Hal.
      destruct (Nat.eqb_spec bs b) as [<-|Hnb].
      + rewrite Eb, Hlx. reflexivity.
      + change (bview w5 b) with (bview w4 b). destruct (bview w4 b) as [[ls tg]|]; reflexivity.
    - change (bview w5 b) with (bview w4 b). cbn [opt_eqb]. destruct (bview w4 b) as [[ls tg]|]; reflexivity. }
  assert (HL : forall b lf, has_leaf wa b lf <-> has_leaf w4 b lf).
  { intros b lf. unfold has_leaf. rewrite BV. destruct (bview w4 b) as [[ls tg]|]; split; intros (ls' & tg' & E & Hi); inversion E; subst; eauto. }
  assert (SL : forall t pos ser x, slot_at wa t pos ser x <-> slot_at w4 t pos ser x) by (intros; unfold slot_at; rewrite TV; tauto).
  assert (OW : forall q k t, owns wa q k t <->
            (q = dst /\ k <> KMoved /\ owns w4 src k t) \/ (q = dst /\ k = KMoved /\ om = Some t) \/
            (q = src /\ k = KMoved /\ owns w4 src KMoved t) \/ (q <> src /\ q <> dst /\ owns w4 q k t)).
  { intros q k t. unfold owns at 1. rewrite PV. destruct (Nat.eqb_spec q dst) as [->|Hqd].
    - rewrite Hd'. split.
      + intros (v & Ev & Es). assert (Hv : v = {| ps_about := pr_about s; ps_changed := pr_changed s; ps_destroyed := pr_destroyed s; ps_moved := om; ps_updater := pr_updater s |}) by congruence.
        subst v. destruct k; cbn [psig ps_about ps_changed ps_destroyed ps_moved] in Es.
        * left. split; [reflexivity|]. split; [discriminate|]. exists (psigs_of s). auto.
        * left. split; [reflexivity|]. split; [discriminate|]. exists (psigs_of s). auto.
        * left. split; [reflexivity|]. split; [discriminate|]. exists (psigs_of s). auto.
        * right; left. auto.
      + intros [(_ & Hk & (v & Ev & Es))|[(_ & -> & Eo)|[(Hx & _)|(_ & Hx & _)]]]; try congruence.
        * rewrite Ps in Ev. assert (v = psigs_of s) by congruence. subst v. eexists. split; [reflexivity|]. destruct k; cbn in *; congruence.
        * eexists. split; [reflexivity|]. exact Eo.
    - destruct (Nat.eqb_spec q src) as [->|Hqs].
      + rewrite psigs_moved_from. split.
        * intros (v & Ev & Es). assert (Hv : v = {| ps_about := None; ps_changed := None; ps_destroyed := None; ps_moved := pr_moved s; ps_updater := None |}) by congruence.
          subst v. destruct k; cbn [psig ps_about ps_changed ps_destroyed ps_moved] in Es; try discriminate Es.
          right; right; left. split; [reflexivity|]. split; [reflexivity|]. exists (psigs_of s). auto.
        * intros [(Hx & _)|[(Hx & _)|[(_ & -> & (v & Ev & Es))|(Hx & _)]]]; try congruence.
          rewrite Ps in Ev. assert (v = psigs_of s) by congruence. subst v. eexists. split; [reflexivity|]. exact Es.
      + split; [intros Ho; right; right; right; auto|]. intros [(Hx & _)|[(Hx & _)|[(Hx & _)|(_ & _ & Ho)]]]; try congruence. exact Ho. }
  (* every owner in wa has an owner of the same table and kind in w4 *)
  assert (OU : forall q k t, owns wa q k t -> exists q0, owns w4 q0 k t /\ (q0 = q \/ (q = dst /\ q0 = src /\ k <> KMoved))).
  { intros q k t Ho. apply OW in Ho. destruct Ho as [(-> & Hk & Ho)|[(-> & -> & Eo)|[(-> & -> & Ho)|(_ & _ & Ho)]]].
    - exists src. auto.
    - exists dst. split; [apply Hom; exact Eo|auto].
    - exists src. auto.
    - exists q. auto. }
  destruct Hinv.
  constructor.
  - exact Hne.
  - (* the invariant, with src and dst exempted *)
    constructor.
    + intros t sl fr al Et. rewrite TV in Et. eauto.
    + intros t sl fr pos x Et. rewrite TV in Et. eauto.
    + intros q k t Ho Hq. apply OW in Ho. destruct Ho as [(-> & _)|[(-> & _)|[(-> & _)|(Hqs & Hqd & Ho)]]]; try (exfalso; apply Hq; unfold S2; auto; fail).
      destruct (pi_own _ _ _ Ho (fun E => Hqd (eq_sym E))) as (sl & fr & Et). exists sl, fr. rewrite TV. exact Et.
    + intros q k q' k' t H1 H2. destruct (OU _ _ _ H1) as (q0 & O1 & C1), (OU _ _ _ H2) as (q0' & O2 & C2).
      destruct (pi_owninj _ _ _ _ _ O1 O2) as [Eq Ek]. subst q0' k'. split; [|reflexivity].
      destruct C1 as [E1|(E1 & E1' & K1)], C2 as [E2|(E2 & E2' & K2)].
      * congruence.
      * exfalso. assert (Eq : q = src) by congruence. rewrite Eq in H1. apply OW in H1.
        destruct H1 as [(Hx & _)|[(Hx & _)|[(_ & Hk & _)|(Hx & _)]]]; congruence.
      * exfalso. assert (Eq : q' = src) by congruence. rewrite Eq in H2. apply OW in H2.
        destruct H2 as [(Hx & _)|[(Hx & _)|[(_ & Hk & _)|(Hx & _)]]]; congruence.
      * congruence.
    + intros q k t pos ser x Ho Hk Hsl. apply SL in Hsl. destruct (OU _ _ _ Ho) as (q0 & O0 & _). eauto.
    + intros b lf q Hl Htg. apply HL in Hl. rewrite PV. destruct (Nat.eqb q dst); [discriminate|]. destruct (Nat.eqb q src); [discriminate|]. eauto.
    + intros b lf q Hl Htg Hq. apply HL in Hl. assert (Hqd : q <> dst) by (intros ->; apply Hq; right; reflexivity). assert (Hqs : q <> src) by (intros ->; apply Hq; left; reflexivity).
      destruct (pi_leafc _ _ _ Hl Htg (fun E => Hqd (eq_sym E))) as [Ho Hv]. split; [apply OW; right; right; right; auto|apply SL; exact Hv].
    + intros b lf q Hl Htg Hq. apply HL in Hl. assert (Hqd : q <> dst) by (intros ->; apply Hq; right; reflexivity). assert (Hqs : q <> src) by (intros ->; apply Hq; left; reflexivity).
      destruct (pi_leafm _ _ _ Hl Htg (fun z => z)) as [Ho Hv]. split; [apply OW; right; right; right; auto|apply SL; exact Hv].
    + intros b lf q Hl Htg Hq. apply HL in Hl. assert (Hqd : q <> dst) by (intros ->; apply Hq; right; reflexivity). assert (Hqs : q <> src) by (intros ->; apply Hq; left; reflexivity).
      destruct (pi_leafd _ _ _ Hl Htg (fun E => Hqd (eq_sym E))) as [Ho Hv]. split; [apply OW; right; right; right; auto|apply SL; exact Hv].
    + intros t pos ser b l Hx Hsl. apply SL in Hsl. destruct (pi_slot _ _ _ _ _ Hx Hsl) as (lf & Ha & Hb). exists lf. split; [apply HL; exact Ha|exact Hb].
    + intros t pos ser b l lf q k Hsl Hl Hid Ho Hq. apply SL in Hsl. apply HL in Hl. apply OW in Ho.
      destruct Ho as [(-> & _)|[(-> & _)|[(-> & _)|(Hqs & Hqd & Ho)]]]; try (exfalso; apply Hq; unfold S2; auto; fail).
      eapply HSO; eauto; intros [].
    + intros b ls tg Eb. rewrite BV in Eb. destruct (bview w4 b) as [[ls0 tg0]|] eqn:E0; [|discriminate Eb]. inversion Eb; subst. eauto.
    + destruct pi_ser as (S1 & S2' & S3). unfold SER. rewrite Ser, Obs. repeat split.
      * intros t pos ser x Hsl. apply SL in Hsl. eauto.
      * exact S2'.
      * intros b lf h Hl Hi. apply HL in Hl. eauto.
    + intros n h t pos x Hn Hsl. apply SL in Hsl. rewrite Obs in Hn. eauto.
    + intros b lf h t pos x Hl Hi Hsl. apply HL in Hl. apply SL in Hsl. eauto.
    + (* UPD *) intros q v b Hq Hu _. rewrite PV in Hq. destruct (Nat.eqb_spec q dst) as [->|Hqd].
      * assert (v = psigs_of d') by congruence. subst v. rewrite Hd' in Hu. cbn [ps_updater] in Hu.
        destruct (pi_upd _ _ _ Ps Hu (fun E => Hne (eq_sym E))) as (ls & Eb). exists ls. rewrite BV, Eb, Hu. cbn [opt_eqb]. rewrite Nat.eqb_refl. reflexivity.
      * destruct (Nat.eqb_spec q src) as [->|Hqs]; [assert (v = psigs_of (moved_from s)) by congruence; subst v; discriminate Hu|].
        destruct (pi_upd _ _ _ Hq Hu (fun E => Hqd (eq_sym E))) as (ls & Eb). exists ls. rewrite BV, Eb.
        destruct (opt_eqb Nat.eqb (pr_updater s) (Some b)) eqn:Eo; [|reflexivity]. exfalso.
        destruct (pr_updater s) as [bs|] eqn:Eu; [|discriminate Eo]. cbn [opt_eqb] in Eo. apply Nat.eqb_eq in Eo. subst bs.
        destruct (pi_upd _ _ _ Ps Eu (fun E => Hne (eq_sym E))) as (ls' & Eb'). congruence.
    + (* TGT *) intros b ls q Eb. rewrite BV in Eb. destruct (bview w4 b) as [[ls0 tg0]|] eqn:E0; [|discriminate Eb].
      destruct (opt_eqb Nat.eqb (pr_updater s) (Some b)) eqn:Eo.
      * inversion Eb; subst. rewrite PV, Nat.eqb_refl. eexists. split; [reflexivity|]. rewrite Hd'. cbn [ps_updater].
        destruct (pr_updater s) as [bs|]; [|discriminate Eo]. cbn [opt_eqb] in Eo. apply Nat.eqb_eq in Eo. congruence.
      * inversion Eb; subst. destruct (pi_tgt _ _ _ E0) as (v & Ev & Eu). rewrite PV.
        destruct (Nat.eqb_spec q dst) as [->|Hqd]; [exfalso; exact (HNT _ _ E0)|].
        destruct (Nat.eqb_spec q src) as [->|Hqs]; [|eauto].
        exfalso. rewrite Ps in Ev. assert (v = psigs_of s) by congruence. subst v. cbn in Eu. rewrite Eu in Eo. cbn [opt_eqb] in Eo. rewrite Nat.eqb_refl in Eo. discriminate Eo.
    + (* HELD *) intros n b Hn. rewrite Held in Hn.
      destruct (pi_held _ _ Hn) as [Hlt Hx]. split.
      * rewrite Len. exact Hlt.
      * intros ls tg Eb. rewrite BV in Eb. destruct (bview w4 b) as [[ls0 tg0]|] eqn:E0; [|discriminate Eb]. pose proof (Hx _ _ eq_refl) as Htg0. subst tg0.
        destruct (opt_eqb Nat.eqb (pr_updater s) (Some b)) eqn:Eo; [|congruence]. exfalso.
        destruct (pr_updater s) as [bs|] eqn:Eu; [|discriminate Eo]. cbn [opt_eqb] in Eo. apply Nat.eqb_eq in Eo. subst bs.
        destruct (pi_upd _ _ _ Ps Eu (fun E => Hne (eq_sym E))) as (ls' & Eb'). congruence.
  - (* OWN, no exemption *) intros q k t Ho _. apply OW in Ho. destruct Ho as [(-> & Hk & Ho)|[(-> & -> & Eo)|[(-> & -> & Ho)|(Hqs & Hqd & Ho)]]].
    + destruct (pi_own _ _ _ Ho (fun E => Hne (eq_sym E))) as (sl & fr & Et). exists sl, fr. rewrite TV. exact Et.
    + destruct (Halive _ Eo) as (sl & fr & Et). exists sl, fr. rewrite TV. exact Et.
    + destruct (pi_own _ _ _ Ho (fun E => Hne (eq_sym E))) as (sl & fr & Et). exists sl, fr. rewrite TV. exact Et.
    + destruct (pi_own _ _ _ Ho (fun E => Hqd (eq_sym E))) as (sl & fr & Et). exists sl, fr. rewrite TV. exact Et.
  - intros t He. apply (HNE t). destruct He as (tb & Ht & Hem). exists tb. unfold get_table in *. rewrite <- Tb. auto.
  - exists (psigs_of d'). rewrite PV, Nat.eqb_refl. split; [reflexivity|]. rewrite Hd'. reflexivity.
  - rewrite PV. destruct (Nat.eqb_spec src dst); [contradiction|]. rewrite Nat.eqb_refl. reflexivity.
  - intros b lf Hl Htg. apply HL in Hl.
    destruct (pi_leafc _ _ _ Hl Htg (fun E => Hne (eq_sym E))) as [Oc Vc], (pi_leafm _ _ _ Hl Htg (fun z => z)) as [Om Vm], (pi_leafd _ _ _ Hl Htg (fun E => Hne (eq_sym E))) as [Od Vd].
    repeat split; try (apply SL; assumption).
    + apply OW. left. split; [reflexivity|]. split; [discriminate|exact Oc].
    + apply OW. right; right; left. auto.
    + apply OW. left. split; [reflexivity|]. split; [discriminate|exact Od].
  - intros b lf Hl Htg. apply HL in Hl. destruct (pi_leafm _ _ _ Hl Htg (fun z => z)) as [Om Vm]. split; [|apply SL; exact Vm].
    apply OW. right; left. split; [reflexivity|]. split; [reflexivity|]. apply Hom. exact Om.
  - intros t pos ser b l lf k Hsl Hl Hid Ho. apply SL in Hsl. apply HL in Hl. apply OW in Ho.
    destruct Ho as [(_ & Hk & Ho)|[(_ & -> & Eo)|[(Hx & _)|(_ & Hx & _)]]]; try congruence.
    + destruct (kind_eqb_spec k KMoved); [contradiction|]. eapply HSO; eauto; intros [].
    + cbn [kind_eqb]. eapply (HSO t pos ser b l lf dst KMoved); auto; try (apply Hom; exact Eo); try (intros []).
  - intros t pos ser b l lf k Hsl Hl Hid Ho. apply SL in Hsl. apply HL in Hl. apply OW in Ho.
    destruct Ho as [(Hx & _)|[(Hx & _)|[(_ & -> & Ho)|(Hx & _)]]]; try congruence. eapply HSO; eauto; intros [].
  - intros t pos pos' ser ser' b l Ho S1 S2'. apply SL in S1, S2'. apply (Huniq t pos pos' ser ser' b l); auto.
    destruct Ho as [Ho|Ho]; apply OW in Ho.
    + destruct Ho as [(_ & Hk & _)|[(_ & _ & Eo)|[(Hx & _)|(_ & Hx & _)]]]; try congruence. auto.
    + destruct Ho as [(Hx & _)|[(Hx & _)|[(_ & _ & (v & Ev & Es))|(Hx & _)]]]; try congruence. right.
      rewrite Ps in Ev. assert (v = psigs_of s) by congruence. subst v. exact Es.
Qed.

(* ------------------------------------------------------------------------------------------------ *)
(* the two operations *)
Section Moves.
  Variable fn : nat -> list Z -> option Z.
  Variable rtl : bool.

  Lemma pinv_uniq w p k t pos pos' ser ser' b l :
    pinv w -> owns w p k t -> slot_at w t pos ser (SNode b l) -> slot_at w t pos' ser' (SNode b l) -> pos = pos'.
  Proof.
    intros []. eapply (slot_uniq_owned none_of none_of none_of none_of none_of none_of); eauto; intros [].
  Qed.

  Lemma movector_pinv fuel w src dst w' e :
    pinv w -> NOEMIT w -> step1 fn rtl fuel w (PMoveCtor src dst) = (w', e) -> okx e -> pinv w'.
  Proof.
    intros Hinv HNE H Hok. cbn [step1] in H.
    destruct (lookup (w_props w) src) as [s|] eqn:Hs; [|inversion H; subst; destruct Hok].
    destruct (lookup (w_props w) dst) as [d0|] eqn:Hd; [inversion H; subst; destruct Hok|].
    assert (Hne : src <> dst) by (intros ->; congruence).
    assert (Pd : pview w dst = None) by (unfold pview; rewrite Hd; reflexivity).
    assert (Ps : pview w src = Some (psigs_of s)) by (unfold pview; rewrite Hs; reflexivity).
    set (d := {| pr_value := pr_value s; pr_about := pr_about s; pr_changed := pr_changed s; pr_destroyed := pr_destroyed s; pr_moved := None; pr_updater := pr_updater s |}) in *.
    set (w1 := set_props w (bind_key (bind_key (w_props w) src (moved_from s)) dst d)) in *.
    eapply (finish_move_pinv fn rtl fuel w1 dst src None (pr_moved s) d (moved_from s)); [| |reflexivity| |exact H|exact Hok].
    - unfold w1; cbn [set_props w_props]. apply lookup_bind_same.
    - unfold w1; cbn [set_props w_props]. rewrite lookup_bind_other by exact Hne. apply lookup_bind_same.
    - apply (mv_establish w src dst s d None); auto.
      + eapply pinvg_mono; [| | | | | |exact Hinv]; cbv beta; try (intros x Hx; exact Hx); try (intros x Hx; exact (False_ind _ Hx)).
      + exact (pi_slotown _ _ _ _ _ _ _ Hinv).
      + intros b ls E. destruct (pi_tgt _ _ _ _ _ _ _ Hinv _ _ _ E) as (v & Ev & _). congruence.
      + intros t. split; [intros (v & Ev & _); congruence|discriminate].
      + intros t E. discriminate E.
      + intros t pos pos' ser ser' b l [E|E]; [discriminate E|]. apply (pinv_uniq w src KMoved); [exact Hinv|]. exists (psigs_of s). auto.
  Qed.

  (* move assignment: the state while the destination's own signals are being destroyed *)
  Definition MA (w : world) (dst : nat) (wi : world) : Prop :=
    pinvg none_of (eq dst) none_of (eq dst) (eq dst) (eq dst) wi /\ SLOTOWN none_of wi /\ NOEMIT wi /\
    w_props wi = w_props w /\ w_binds wi = w_binds w /\
    (forall t pos ser s, slot_at wi t pos ser s -> slot_at w t pos ser s) /\
    (forall t, owns w dst KMoved t -> exists sl fr, tview wi t = Some (sl, fr, true)).

  Lemma ma_kill w dst d k wi wj e :
    pinv w -> lookup (w_props w) dst = Some d -> k <> KMoved -> MA w dst wi ->
    kill_table wi (sig_of d k) = (wj, e) -> okx e -> e = None /\ MA w dst wj.
  Proof.
    intros Hinv Hd Hk (I & SO & NE & Pp & Bb & Sl & Al) K Hok.
    pose proof (kill_table_tmono wi (sig_of d k)) as TM. rewrite K in TM. cbn [fst] in TM.
    destruct (kill_table_cases _ _ _ _ K) as [(-> & ->)|[(-> & -> & _)|(-> & t & Et & Hke)]].
    - destruct Hok.
    - split; [reflexivity|]. exact (conj I (conj SO (conj NE (conj Pp (conj Bb (conj Sl Al)))))).
    - split; [reflexivity|].
      assert (Ow : owns w dst k t) by (exists (psigs_of d); split; [unfold pview; rewrite Hd; reflexivity|rewrite psig_sig_of; exact Et]).
      assert (Oi : forall q k' t', owns wi q k' t' <-> owns w q k' t') by (intros; unfold owns, pview; rewrite Pp; tauto).
      split; [|split; [|split; [|split; [|split; [|split]]]]].
      + eapply pinvg_kill; [exact Hke|exact I|]. intros q k' Ho. apply Oi in Ho.
        destruct (pi_owninj _ _ _ _ _ _ _ Hinv _ _ _ _ _ Ho Ow) as [-> ->]. repeat split; auto; intros E; contradiction.
      + eapply SLOTOWN_kill; eauto.
      + eapply NOEMIT_tmono; eauto.
      + rewrite (ke_props _ _ _ Hke). exact Pp.
      + rewrite (ke_binds _ _ _ Hke). exact Bb.
      + intros t' pos ser s Hs. apply (ke_slot _ _ _ Hke) in Hs. destruct Hs. eauto.
      + intros t' Ho. destruct (Al _ Ho) as (sl & fr & Et'). rewrite (ke_other _ _ _ Hke); [eauto|].
        intros ->. destruct (pi_owninj _ _ _ _ _ _ _ Hinv _ _ _ _ _ Ho Ow) as [_ Ek]. congruence.
  Qed.

  Lemma moveassign_pinv fuel w dst src w' e :
    pinv w -> NOEMIT w -> step1 fn rtl fuel w (PMoveAssign dst src) = (w', e) -> okx e -> pinv w'.
  Proof.
    intros Hinv HNE H Hok. cbn [step1] in H.
    destruct (lookup (w_props w) src) as [s|] eqn:Hs; [|inversion H; subst; destruct Hok].
    destruct (lookup (w_props w) dst) as [d|] eqn:Hd; [|inversion H; subst; destruct Hok].
    destruct (Nat.eqb_spec src dst) as [|Hne]; [inversion H; subst; destruct Hok|].
    assert (Pd : pview w dst = Some (psigs_of d)) by (unfold pview; rewrite Hd; reflexivity).
    assert (Ps : pview w src = Some (psigs_of s)) by (unfold pview; rewrite Hs; reflexivity).
    assert (M0 : MA w dst w).
    { split; [eapply pinvg_mono; [| | | | | |exact Hinv]; cbv beta; try (intros x Hx; exact Hx); try (intros x Hx; exact (False_ind _ Hx))|].
      split; [exact (pi_slotown _ _ _ _ _ _ _ Hinv)|]. split; [exact HNE|]. split; [reflexivity|]. split; [reflexivity|]. split; [auto|].
      intros t Ho. exact (pi_own _ _ _ _ _ _ _ Hinv _ _ _ Ho (fun z => z)). }
    destruct (kill_table w (pr_about d)) as [w1 e1] eqn:K1.
    destruct e1 as [ex|]; [inversion H; subst; destruct (ma_kill w dst d KAbout _ _ _ Hinv Hd ltac:(discriminate) M0 K1 Hok); discriminate|].
    destruct (ma_kill w dst d KAbout _ _ _ Hinv Hd ltac:(discriminate) M0 K1 I) as [_ M1].
    destruct (kill_table w1 (pr_changed d)) as [w2 e2] eqn:K2.
    destruct e2 as [ex|]; [inversion H; subst; destruct (ma_kill w dst d KChanged _ _ _ Hinv Hd ltac:(discriminate) M1 K2 Hok); discriminate|].
    destruct (ma_kill w dst d KChanged _ _ _ Hinv Hd ltac:(discriminate) M1 K2 I) as [_ M2].
    destruct (kill_table w2 (pr_destroyed d)) as [w3 e3] eqn:K3.
    destruct e3 as [ex|]; [inversion H; subst; destruct (ma_kill w dst d KDestroyed _ _ _ Hinv Hd ltac:(discriminate) M2 K3 Hok); discriminate|].
    destruct (ma_kill w dst d KDestroyed _ _ _ Hinv Hd ltac:(discriminate) M2 K3 I) as [_ (I3 & SO3 & NE3 & P3 & B3 & S3 & A3)].
    (* the destination's updater *)
    assert (Hupd : forall w4 e4, (match pr_updater d with Some b => destroy_binding w3 b | None => ok w3 end) = (w4, e4) -> okx e4 ->
              e4 = None /\ pinvg none_of (eq dst) none_of (eq dst) (eq dst) (eq dst) w4 /\ SLOTOWN none_of w4 /\ NOEMIT w4 /\ NOTARGET dst w4 /\
              w_props w4 = w_props w /\ (forall t pos ser x, slot_at w4 t pos ser x -> slot_at w t pos ser x) /\
              (forall t, owns w dst KMoved t -> exists sl fr, tview w4 t = Some (sl, fr, true))).
    { intros w4 e4 Hu Hok4. assert (Pd3 : pview w3 dst = Some (psigs_of d)) by (unfold pview; rewrite P3, Hd; reflexivity).
      destruct (pr_updater d) as [bd|] eqn:Hub.
      - destruct e4 as [ex|]; [apply destroy_binding_exn in Hu; subst; destruct Hok4|]. split; [reflexivity|].
        pose proof (destroy_binding_tmono w3 bd) as TM. rewrite Hu in TM. cbn [fst] in TM.
        destruct (destroy_binding_pinvg _ _ _ _ _ _ _ _ _ I3 (fun z => z) Hu) as (J1 & J2 & J3 & J4 & J5 & J6 & J7 & J8 & J9 & J10 & J11).
        destruct (pi_upd _ _ _ _ _ _ _ Hinv _ _ _ Pd Hub (fun z => z)) as (lsb & Eb).
        assert (Eb3 : bview w3 bd = Some (lsb, Some dst)) by (rewrite (bview_binds _ _ B3); exact Eb).
        split; [|split; [|split; [|split; [|split; [|split]]]]].
        + eapply pinvg_mono; [| | | | | |exact J1]; cbv beta; try (intros x Hx; exact Hx).
          intros x [Hx|(ls0 & E0)]; [exact Hx|]. rewrite Eb3 in E0. inversion E0; reflexivity.
        + intros t pos ser b l lf q k Hsl Hl Hid Ho Hq. apply J10 in Hsl.
          assert (Hl3 : has_leaf w3 b lf).
          { destruct Hl as (ls & tg & E & Hi). destruct (Nat.eq_dec b bd) as [->|Hnb]; [congruence|]. rewrite (J3 _ Hnb) in E. exists ls, tg. auto. }
          assert (Ho3 : owns w3 q k t) by (revert Ho; unfold owns, pview; rewrite J5; tauto).
          eapply SO3; eauto.
        + eapply NOEMIT_tmono; eauto.
        + intros b ls E. destruct (Nat.eq_dec b bd) as [->|Hnb]; [congruence|]. rewrite (J3 _ Hnb) in E.
          destruct (pi_tgt _ _ _ _ _ _ _ I3 _ _ _ E) as (v & Ev & Eu). rewrite Pd3 in Ev. assert (v = psigs_of d) by congruence. subst v. cbn in Eu. congruence.
        + rewrite J5. exact P3.
        + intros t pos ser x Hsl. apply S3. apply J10. exact Hsl.
        + intros t Ho. destruct (A3 _ Ho) as (sl & fr & Et). eapply J11; eauto.
      - inversion Hu; subst. split; [reflexivity|]. split; [exact I3|]. split; [exact SO3|]. split; [exact NE3|]. split; [|auto].
        intros b ls E. destruct (pi_tgt _ _ _ _ _ _ _ I3 _ _ _ E) as (v & Ev & Eu). rewrite Pd3 in Ev. assert (v = psigs_of d) by congruence. subst v. cbn in Eu. congruence. }
    destruct (match pr_updater d with Some b => destroy_binding w3 b | None => ok w3 end) as [w4 e4] eqn:Hu.
    destruct e4 as [ex|]; [inversion H; subst; destruct (Hupd _ _ eq_refl Hok); discriminate|].
    destruct (Hupd _ _ eq_refl I) as (_ & I4 & SO4 & NE4 & NT4 & P4 & S4 & A4).
    set (d' := {| pr_value := pr_value s; pr_about := pr_about s; pr_changed := pr_changed s; pr_destroyed := pr_destroyed s; pr_moved := pr_moved d; pr_updater := pr_updater s |}) in *.
    set (w5 := set_props w4 (bind_key (bind_key (w_props w4) src (moved_from s)) dst d')) in *.
    assert (O4 : forall q k t, owns w4 q k t <-> owns w q k t) by (intros; unfold owns, pview; rewrite P4; tauto).
    eapply (finish_move_pinv fn rtl fuel w5 dst src (pr_moved d) (pr_moved s) d' (moved_from s)); [| |reflexivity| |exact H|exact Hok].
    - unfold w5; cbn [set_props w_props]. apply lookup_bind_same.
    - unfold w5; cbn [set_props w_props]. rewrite lookup_bind_other by exact Hne. apply lookup_bind_same.
    - apply (mv_establish w4 src dst s d' (pr_moved d)); auto.
      + rewrite P4. exact Hs.
      + intros t. rewrite O4. split; [intros (v & Ev & Es); rewrite Pd in Ev; assert (v = psigs_of d) by congruence; subst v; exact Es|].
        intros E. exists (psigs_of d). auto.
      + intros t E. apply A4. exists (psigs_of d). auto.
      + intros t pos pos' ser ser' b l Ht S1 S2'. apply S4 in S1, S2'. destruct Ht as [E|E].
        * apply (pinv_uniq w dst KMoved t pos pos' ser ser' b l Hinv); auto. exists (psigs_of d). auto.
        * apply (pinv_uniq w src KMoved t pos pos' ser ser' b l Hinv); auto. exists (psigs_of s). auto.
  Qed.
End Moves.
