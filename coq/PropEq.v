(* C03 for EVERY equality relation: the write protocol of one Property<T> whose equality is an arbitrary boolean relation eqv
   (operator== by default, a user specialisation of KDBindings::equal_to, 'never equal' for types without comparison; eqv need
   be neither reflexive - NaN - nor anything else). Executable; extracted (ExtractEq.v) and run against Property<T> for five
   concrete T by harness/eq_harness.cpp.  Property::setHelper:  if (equal_to<T>{}(value, m_value)) return;
   m_valueAboutToChange.emit(m_value, value); m_value = std::move(value); m_valueChanged.emit(m_value); *)
From Coq Require Import List ZArith Bool.
Import ListNotations.
Local Open Scope Z_scope.

Section Eq.
  Variable V : Type.
  Variable eqv : V -> V -> bool.          (* equal_to<T>{}(new value, current value) *)

  Record est := { e_cur : V; e_na : nat; e_nc : nat }.   (* value, number of about-to-change / changed observers *)

  (* what an observer sees: its index, the arguments of the notification, and what get() returns inside it *)
  Inductive eev :=
  | EAbout (idx : nat) (old new got : V)
  | EChanged (idx : nat) (new got : V).

  Definition ewrite (s : est) (v : V) : est * list eev :=
    if eqv v (e_cur s) then (s, [])
    else ({| e_cur := v; e_na := e_na s; e_nc := e_nc s |},
          map (fun i => EAbout i (e_cur s) v (e_cur s)) (seq 0 (e_na s)) ++
          map (fun j => EChanged j v v) (seq 0 (e_nc s))).

  (* path: 0 set(), 1 operator=, 2 stream extraction; EWCur writes the property's own current value, read through the
     reference returned by get() (p.set(p.get()), p = p.get()) *)
  Inductive eop :=
  | EW (path : nat) (v : V)
  | EWCur (path : nat)
  | EObs (changed : bool).

  Definition estep (s : est) (o : eop) : est * list eev :=
    match o with
    | EW _ v => ewrite s v
    | EWCur _ => ewrite s (e_cur s)
    | EObs false => ({| e_cur := e_cur s; e_na := S (e_na s); e_nc := e_nc s |}, [])
    | EObs true => ({| e_cur := e_cur s; e_na := e_na s; e_nc := S (e_nc s) |}, [])
    end.

  Fixpoint erun (s : est) (ops : list eop) : est * list (list eev) :=
    match ops with
    | [] => (s, [])
    | o :: r => let '(s1, l) := estep s o in let '(s2, ls) := erun s1 r in (s2, l :: ls)
    end.

  (* an observer replaying the changed notifications: it holds the last announced value *)
  Definition replay1 (idx : nat) (held : V) (l : list eev) : V :=
    fold_left (fun h ev => match ev with EChanged j v _ => if Nat.eqb j idx then v else h | _ => h end) l held.
  Definition replay (idx : nat) (held : V) (ls : list (list eev)) : V := fold_left (replay1 idx) ls held.
End Eq.

Arguments e_cur {V}. Arguments e_na {V}. Arguments e_nc {V}.
Arguments EAbout {V}. Arguments EChanged {V}. Arguments EW {V}. Arguments EWCur {V}. Arguments EObs {V}.

(* the equality relations of the seven types the harness instantiates Property<T> with; values are integers,
   a negative value of flavour FNan stands for a NaN *)
Inductive flavour := FInt | FMod | FNan | FNever | FNoEq | FLoose | FText.
Definition eqv_of (f : flavour) (a b : Z) : bool :=
  match f with
  | FInt => Z.eqb a b                                        (* int, operator== *)
  | FMod => Z.eqb (a mod 10) (b mod 10)                      (* equal_to<Mod10> specialised: equal modulo 10 *)
  | FNan => if (a <? 0) || (b <? 0) then false else Z.eqb a b   (* double: NaN != NaN *)
  | FNever => false                                          (* equal_to<Never> specialised: never equal *)
  | FNoEq => false                                           (* no operator==, no specialisation: the library's fallback *)
  | FLoose => Z.eqb a b                                      (* a class whose operator== is NOT declared noexcept (like std::string's
                                                                before C++20, or most user types): still operator== *)
  | FText => Z.eqb a b                                       (* std::string holding a long text (heap storage): a moved-from value is visibly
                                                                different from the value it had *)
  end.

Definition erun_f (f : flavour) (init : Z) (na nc : nat) (ops : list (eop Z)) : est Z * list (list (eev Z)) :=
  erun Z (eqv_of f) {| e_cur := init; e_na := na; e_nc := nc |} ops.
