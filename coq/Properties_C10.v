(* C10 - Any destruction order is safe; dead inputs are reported, never read.
   Proved on the models: handles of a destroyed signal are inactive and its table empty (signal layer); a PropertyNode whose
   input is gone raises PropertyDestroyedError instead of reading it and the evaluation leaves the bound property alone;
   and - the link invariant, coq/PropLink*.v - in EVERY world reached by a legal history of property-layer operations (any
   creation, binding, rebinding, reset, move and destruction order, any expressions, observers that write or reset) no
   expression leaf of a live binding refers to a property that is gone, every such leaf holds live subscriptions on the
   changed / moved / destroyed signals of exactly the property it refers to, evaluation never reads a missing property, and
   no subscription of a destroyed binding is left in any signal.  Real memory is observed (ASan/UBSan on the same orders);
   destroying an object from inside its own notification is outside the quantifier (the model answers "unmodelled").
   See DESIGN.md 6/C10. *)
From KDB Require Import Util GenIdx GenIdxProofs SigDefs SigInv SigTheorems SigEmit SigDisc.
From KDB Require PropDefs PropProofs PropFlags PropLink PropLinkTheorems PropDestroyed.

Theorem C10_destroyed_signal_handles_inactive :
  forall w s i m, winv w -> lookup (w_sigs w) s = Some (Some i) -> get_impl w i = Some m -> i_emitting m = false ->
    exists m', get_impl (sig_disconnect_all w s) i = Some m' /\ i_alive m' = false /\
               (forall k, g_get (i_conns m') k = None) /\
               lookup (w_sigs (sig_disconnect_all w s)) s = Some None.
Proof. exact disconnect_all_empties. Qed.
Print Assumptions C10_destroyed_signal_handles_inactive.

(* a leaf whose property is gone: PropertyDestroyedError, the tree is unchanged, no user function runs *)
Theorem C10_dead_input_reported :
  forall fn rtl val d l hc hm hd,
    PropDefs.eval fn rtl val (PropDefs.NProp None d l hc hm hd) = (PropDefs.NProp None d l hc hm hd, inr PropDefs.PxDestroyed, []).
Proof. exact PropProofs.dead_leaf_reports. Qed.
Print Assumptions C10_dead_input_reported.

(* an evaluation that fails leaves the bound property alone: binding_evaluate raises before calling the update function *)
Theorem C10_failed_evaluation_keeps_value :
  forall fn rtl R w b x t e l,
    PropDefs.get_bind w b = Some x -> PropDefs.eval fn rtl (PropDefs.values w) (PropDefs.b_root x) = (t, inr e, l) ->
    PropDefs.w_props (fst (PropDefs.binding_evaluate fn rtl R w b)) = PropDefs.w_props w /\
    snd (PropDefs.binding_evaluate fn rtl R w b) = Some e.
Proof. exact PropProofs.failed_evaluation_keeps_value. Qed.
Print Assumptions C10_failed_evaluation_keeps_value.

(* ---- the link invariant (coq/PropLink.v: pinv) in every legal history ---- *)
Theorem C10_links_hold_in_every_legal_history :
  forall fn rtl fuel ops, PropLinkTheorems.run_ok fn rtl fuel PropDefs.world0 ops -> PropLink.pinv (PropDefs.run fn rtl fuel ops).
Proof. exact PropLinkTheorems.reachable_pinv. Qed.
Print Assumptions C10_links_hold_in_every_legal_history.

(* one step, from any world that satisfies it (the induction step; every operation, every outcome except "not a legal program") *)
Theorem C10_links_preserved_by_every_operation :
  forall fn rtl fuel w o w' e,
    PropLink.pinv w -> PropFlags.NOEMIT w -> PropDefs.step1 fn rtl fuel w o = (w', e) -> PropLink.okx e -> PropLink.pinv w'.
Proof. exact PropLinkTheorems.step1_pinv. Qed.
Print Assumptions C10_links_preserved_by_every_operation.

(* no leaf of a live binding refers to a property that is gone; it is subscribed to that property's three signals *)
Theorem C10_leaf_target_exists :
  forall w b x lf p,
    PropLink.pinv w -> PropDefs.get_bind w b = Some x -> In lf (PropLink.leaves (PropDefs.b_root x)) -> PropLink.lf_tg lf = Some p ->
    exists pr, lookup (PropDefs.w_props w) p = Some pr /\
      PropDefs.pr_changed pr = Some (PropDefs.h_table (PropLink.lf_hc lf)) /\ PropLink.live w (PropLink.lf_hc lf) (PropDefs.SNode b (PropLink.lf_id lf)) /\
      PropDefs.pr_moved pr = Some (PropDefs.h_table (PropLink.lf_hm lf)) /\ PropLink.live w (PropLink.lf_hm lf) (PropDefs.SNode b (PropLink.lf_id lf)) /\
      PropDefs.pr_destroyed pr = Some (PropDefs.h_table (PropLink.lf_hd lf)) /\ PropLink.live w (PropLink.lf_hd lf) (PropDefs.SNode b (PropLink.lf_id lf)).
Proof. exact PropLinkTheorems.leaf_target_exists. Qed.
Print Assumptions C10_leaf_target_exists.

(* evaluating the tree of a live binding never reads a missing property (the model's "dangling pointer" outcome) *)
Theorem C10_evaluation_never_dangles :
  forall fn rtl w b x,
    PropLink.pinv w -> PropDefs.get_bind w b = Some x ->
    snd (fst (PropDefs.eval fn rtl (PropDefs.values w) (PropDefs.b_root x))) <> inr PropDefs.PxBad.
Proof. exact PropLinkTheorems.evaluation_never_dangles. Qed.
Print Assumptions C10_evaluation_never_dangles.

(* every node subscription in any signal belongs to a leaf of a LIVE binding: nothing is ever called on a destroyed binding *)
Theorem C10_no_orphan_subscription :
  forall w t pos ser b l,
    PropLink.pinv w -> PropLink.slot_at w t pos ser (PropDefs.SNode b l) ->
    exists x lf, PropDefs.get_bind w b = Some x /\ In lf (PropLink.leaves (PropDefs.b_root x)) /\ PropLink.lf_id lf = l /\
                 In {| PropDefs.h_table := t; PropDefs.h_pos := pos; PropDefs.h_serial := ser |} (PropLink.lf_handles lf).
Proof. exact PropLinkTheorems.no_orphan_subscription. Qed.
Print Assumptions C10_no_orphan_subscription.

(* "A destroyed property announces destroyed() exactly once (a moved-from one not at all)" (coq/PropDestroyed.v): in ANY world that
   satisfies the link invariant, ~Property records exactly one call per observer connected to its destroyed() signal, in connection
   order, each seeing the value the property still has - and nothing else; afterwards the property is gone, so it can not be destroyed
   (or announce anything) again, and its tables are dead (C10_destroyed_signal_handles_inactive) *)
Theorem C10_destroyed_announced_exactly_once :
  forall fn rtl fuel w p pr w',
    PropLink.pinv w -> PropFlags.NOEMIT w -> lookup (PropDefs.w_props w) p = Some pr ->
    PropDefs.step1 fn rtl fuel w (PropDefs.PDel p) = (w', None) ->
    PropDefs.w_trace w' =
      rev (map (fun label => PropDefs.EvNotify label PropDefs.KDestroyed [] (Some (PropDefs.pr_value pr)))
               (PropProofs.all_labels w (PropDefs.pr_destroyed pr))) ++ PropDefs.w_trace w /\
    lookup (PropDefs.w_props w') p = None.
Proof. exact PropDestroyed.destroy_announces_once. Qed.
Print Assumptions C10_destroyed_announced_exactly_once.

(* a moved-from property (no destroyed signal any more: C11_property_move_construction_transfers) records nothing when it dies *)
Theorem C10_moved_from_announces_nothing :
  forall fn rtl fuel w p pr w',
    PropLink.pinv w -> PropFlags.NOEMIT w -> lookup (PropDefs.w_props w) p = Some pr -> PropDefs.pr_destroyed pr = None ->
    PropDefs.step1 fn rtl fuel w (PropDefs.PDel p) = (w', None) ->
    PropDefs.w_trace w' = PropDefs.w_trace w /\ lookup (PropDefs.w_props w') p = None.
Proof. exact PropDestroyed.moved_from_announces_nothing. Qed.
Print Assumptions C10_moved_from_announces_nothing.

(* non-vacuity: property 0 with two destroyed() observers and a reader is moved to 5; destroying the moved-from 0 calls nobody, destroying
   5 calls both observers once, in connection order *)
Example C10_destroyed_example :
  let fn := fun (f : nat) (l : list Z) => Some (fold_right Z.add 0%Z l) in
  let ops := [PropDefs.PNew 0 4%Z; PropDefs.PObserve 0 PropDefs.KDestroyed 70 0 None; PropDefs.PObserve 0 PropDefs.KDestroyed 71 1 None;
              PropDefs.PBind 1 (PropDefs.EOp1 0 (PropDefs.EProp 0)) PropDefs.MImmediate; PropDefs.PMoveCtor 0 5] in
  let notes := fun w => filter (fun e => match e with PropDefs.EvNotify _ _ _ _ => true | _ => false end) (PropDefs.w_trace w) in
  PropLinkTheorems.run_okb fn true 6 PropDefs.world0 (ops ++ [PropDefs.PDel 0; PropDefs.PDel 5]) = true /\
  notes (PropDefs.run fn true 6 (ops ++ [PropDefs.PDel 0])) = [] /\
  notes (PropDefs.run fn true 6 (ops ++ [PropDefs.PDel 0; PropDefs.PDel 5])) =
    [PropDefs.EvNotify 71 PropDefs.KDestroyed [] (Some 4%Z); PropDefs.EvNotify 70 PropDefs.KDestroyed [] (Some 4%Z)].
Proof. vm_compute. repeat split; reflexivity. Qed.

(* non-vacuity: a legal history with bindings over shared inputs, an observer that resets, a user-held binding, destruction of an
   input, of a bound property and of an evaluator in "wrong" orders: legal (run_okb), the invariant's executable form holds at
   the end, and the binding whose input died reports PropertyDestroyedError on its next evaluation *)
Example C10_example :
  let fn := fun (f : nat) (l : list Z) => Some (fold_right Z.add 0%Z l) in
  let ops := [PropDefs.PNew 0 1%Z; PropDefs.PNew 1 2%Z; PropDefs.BevNew 0;
              PropDefs.PBind 2 (PropDefs.EOp2 0 (PropDefs.EProp 0) (PropDefs.EProp 1)) PropDefs.MImmediate;
              PropDefs.PBind 3 (PropDefs.EOp1 1 (PropDefs.EProp 2)) (PropDefs.MEvaluator 0);
              PropDefs.BHold 0 (PropDefs.EOp2 2 (PropDefs.EProp 0) (PropDefs.EProp 3)) PropDefs.MImmediate;
              PropDefs.PObserve 0 PropDefs.KChanged 7 0 (Some (true, 3));
              PropDefs.PSet 0 5%Z PropDefs.WSet; PropDefs.PDel 1; PropDefs.PSet 0 6%Z PropDefs.WSet; PropDefs.PDel 2; PropDefs.BevDel 0;
              PropDefs.PDel 0; PropDefs.BHoldDel 0; PropDefs.PGet 3] in
  (PropLinkTheorems.run_okb fn true 6 PropDefs.world0 ops, forallb (fun b => b) (PropLink.pinv_b (PropDefs.run fn true 6 ops)),
   existsb (fun e => match e with PropDefs.EvDone (Some PropDefs.PxDestroyed) => true | _ => false end) (PropDefs.w_trace (PropDefs.run fn true 6 ops)))
  = (true, true, true).
Proof. vm_compute. reflexivity. Qed.
