(* C10 - Any destruction order is safe; dead inputs are reported, never read.
   PARTIAL.  Proved: handles of a destroyed signal are inactive and its table empty (signal layer); a PropertyNode whose
   input is gone raises PropertyDestroyedError instead of reading it and the evaluation leaves the bound property alone
   (eval on a leaf without target).  The link invariant of the model ("no leaf refers to a property that is gone")
   is evaluated by PropCheck.check_links on every world reached by the generated destruction orders and the real
   library runs the same orders under ASan/UBSan: both are tests.  See DESIGN.md 6/C10. *)
From KDB Require Import Util GenIdx GenIdxProofs SigDefs SigInv SigTheorems SigEmit SigDisc.
From KDB Require PropDefs PropProofs.

Theorem C10_destroyed_signal_handles_inactive :
  forall w s i m, winv w -> lookup (w_sigs w) s = Some (Some i) -> get_impl w i = Some m -> i_emitting m = false ->
    exists m', get_impl (sig_disconnect_all w s) i = Some m' /\ i_alive m' = false /\
               (forall k, g_get (i_conns m') k = None) /\
               lookup (w_sigs (sig_disconnect_all w s)) s = Some None.
Proof. exact disconnect_all_empties. Qed.
Print Assumptions C10_destroyed_signal_handles_inactive.

(* a leaf whose property is gone: PropertyDestroyedError, the tree is unchanged, no user function runs *)
Theorem C10_dead_input_reported :
  forall fn rtl val d l hc hm hd,
    PropDefs.eval fn rtl val (PropDefs.NProp None d l hc hm hd) = (PropDefs.NProp None d l hc hm hd, inr PropDefs.PxDestroyed, []).
Proof. exact PropProofs.dead_leaf_reports. Qed.
Print Assumptions C10_dead_input_reported.

(* an evaluation that fails leaves the bound property alone: binding_evaluate raises before calling the update function *)
Theorem C10_failed_evaluation_keeps_value :
  forall fn rtl R w b x t e l,
    PropDefs.get_bind w b = Some x -> PropDefs.eval fn rtl (PropDefs.values w) (PropDefs.b_root x) = (t, inr e, l) ->
    PropDefs.w_props (fst (PropDefs.binding_evaluate fn rtl R w b)) = PropDefs.w_props w /\
    snd (PropDefs.binding_evaluate fn rtl R w b) = Some e.
Proof. exact PropProofs.failed_evaluation_keeps_value. Qed.
Print Assumptions C10_failed_evaluation_keeps_value.
