(* Concurrency model for ConnectionEvaluator (C08).
   Part A - locks: threads execute calls whose lock skeletons are those of the methods (EvalIR.method_skeleton): an
            evaluation pass, optionally wrapped in a user lock L; an emission (enqueue, then the hook, which takes L);
            a disconnect (dequeue).  M is the evaluator's mutex.  Every interleaving; no deadlock.
   Part B - atomic sections: since every access to queue and flag happens while M is held (EvalIR.disciplined), the
            critical sections of different threads do not overlap and the concurrent behaviour is an interleaving of
            atomic operations Enqueue / Dequeue / Pass.  Every history; exactly-once, cancellation, barrier.
   (That lock-protected regions are atomic with respect to one another is the standard reduction for data-race-free
   programs and is assumed, not proved: see DESIGN.md, trusted base.) *)
From KDB Require Import EvalIR.
From Coq Require Import Lia.

(* ================================================================================================ *)
(* Part A *)

Inductive call := CEmit | CDisc | CEval | CEvalLocked.

Definition shape (c : call) : list lact :=
  match c with
  | CEmit => [AcqM; RelM; AcqL; RelL]       (* enqueue under M, then the hook takes the user lock *)
  | CDisc => [AcqM; RelM]
  | CEval => [AcqM; RelM]
  | CEvalLocked => [AcqL; AcqM; RelM; RelL] (* the consumer runs the pass while holding the user lock *)
  end.

(* a thread: position inside the current call, remaining calls *)
Record thread := { pc : nat; todo : list call }.

Definition next_act (t : thread) : option lact :=
  match todo t with
  | [] => None
  | c :: _ => nth_error (shape c) (pc t)
  end.

Definition advance (t : thread) : thread :=
  match todo t with
  | [] => t
  | c :: r => if Nat.eqb (S (pc t)) (List.length (shape c)) then {| pc := 0; todo := r |} else {| pc := S (pc t); todo := todo t |}
  end.

Record lstate := { ths : list thread; mown : option nat; lown : option nat }.

Fixpoint upd_th (l : list thread) (i : nat) (t : thread) : list thread :=
  match l, i with
  | [], _ => []
  | _ :: r, O => t :: r
  | h :: r, S j => h :: upd_th r j t
  end.

Definition enabled (s : lstate) (i : nat) : bool :=
  match nth_error (ths s) i with
  | None => false
  | Some t =>
      match next_act t with
      | None => false
      | Some AcqM => match mown s with None => true | Some o => Nat.eqb o i end
      | Some AcqL => match lown s with None => true | Some _ => false end
      | Some RelM | Some RelL => true
      end
  end.

Definition lstep (s : lstate) (i : nat) : lstate :=
  if negb (enabled s i) then s else
  match nth_error (ths s) i with
  | None => s
  | Some t =>
      let ths' := upd_th (ths s) i (advance t) in
      match next_act t with
      | Some AcqM => {| ths := ths'; mown := Some i; lown := lown s |}
      | Some RelM => {| ths := ths'; mown := None; lown := lown s |}
      | Some AcqL => {| ths := ths'; mown := mown s; lown := Some i |}
      | Some RelL => {| ths := ths'; mown := mown s; lown := None |}
      | None => s
      end
  end.

Definition finished (t : thread) : bool := match todo t with [] => true | _ => false end.

(* which locks a thread holds, read off its position *)
Definition holdsM (t : thread) : bool :=
  match todo t with
  | CEmit :: _ | CDisc :: _ | CEval :: _ => Nat.eqb (pc t) 1
  | CEvalLocked :: _ => Nat.eqb (pc t) 2
  | [] => false
  end.
Definition holdsL (t : thread) : bool :=
  match todo t with
  | CEmit :: _ => Nat.eqb (pc t) 3
  | CEvalLocked :: _ => Nat.eqb (pc t) 1 || Nat.eqb (pc t) 2 || Nat.eqb (pc t) 3
  | _ => false
  end.

Definition pc_ok (t : thread) : Prop :=
  match todo t with [] => pc t = 0 | c :: _ => pc t < List.length (shape c) end.

Definition linv (s : lstate) : Prop :=
  (forall i t, nth_error (ths s) i = Some t -> pc_ok t /\
               (holdsM t = true <-> mown s = Some i) /\ (holdsL t = true <-> lown s = Some i)).

Definition linit (progs : list (list call)) : lstate :=
  {| ths := map (fun p => {| pc := 0; todo := p |}) progs; mown := None; lown := None |}.

(* ================================================================================================ *)
(* Part B *)

(* one queued invocation: unique id (its position in the history), connection *)
Record qitem := { q_id : nat; q_conn : nat }.
Inductive aop := AEnq (c : nat) | ADeq (c : nat) | APass.

Record astate := { aq : list qitem; alog : list (nat * nat * nat) (* thread, id, connection: newest first *); anext : nat }.
Definition ainit : astate := {| aq := []; alog := []; anext := 0 |}.

Definition astep (s : astate) (ev : nat * aop) : astate :=
  let '(t, o) := ev in
  match o with
  | AEnq c => {| aq := aq s ++ [{| q_id := anext s; q_conn := c |}]; alog := alog s; anext := S (anext s) |}
  | ADeq c => {| aq := filter (fun x => negb (Nat.eqb (q_conn x) c)) (aq s); alog := alog s; anext := S (anext s) |}
  | APass => {| aq := []; alog := rev (map (fun x => (t, q_id x, q_conn x)) (aq s)) ++ alog s; anext := S (anext s) |}
  end.

Definition arun (h : list (nat * aop)) : astate := fold_left astep h ainit.
Definition runs_of (id : nat) (s : astate) : nat := List.length (filter (fun e => Nat.eqb (snd (fst e)) id) (alog s)).
