(* Shapes of the facts the translators extract from the headers (translate/*.py -> coq/generated/*.v). *)
From Coq Require Export List String Bool Arith.
Export ListNotations.

Inductive okind := KP | KN | KV.          (* operand: Property, expression Node, plain value *)
Inductive oacc := AGet | AEval | APlain.  (* how the trailing return type reads the operand *)

Record opentry := {
  oe_op : string;              (* the operator the overload is declared for *)
  oe_kinds : list okind;       (* operand kinds, in parameter order *)
  oe_body_op : string;         (* the operator applied inside the lambda *)
  oe_body_args : list nat;     (* the lambda parameters it is applied to, in order *)
  oe_node_args : list nat;     (* the function parameters handed to makeNode after the lambda, in order *)
  oe_ret_op : string;          (* operator in decltype(...) of the declared result type *)
  oe_ret_args : list nat;      (* the function parameters it mentions, in order *)
  oe_ret_acc : list oacc }.    (* how each is read there *)

Definition okind_eqb (a b : okind) : bool :=
  match a, b with KP, KP | KN, KN | KV, KV => true | _, _ => false end.
Definition oacc_eqb (a b : oacc) : bool :=
  match a, b with AGet, AGet | AEval, AEval | APlain, APlain => true | _, _ => false end.
Definition acc_of (k : okind) : oacc := match k with KP => AGet | KN => AEval | KV => APlain end.

Fixpoint list_eqb {A} (eqb : A -> A -> bool) (l1 l2 : list A) : bool :=
  match l1, l2 with
  | [], [] => true
  | x :: r, y :: s => eqb x y && list_eqb eqb r s
  | _, _ => false
  end.

(* a predeclared binding function (node_functions.h) *)
Record fnentry := {
  fe_name : string;            (* the exported function *)
  fe_functor : string;         (* functor object handed to makeNode *)
  fe_decl_functor : string;    (* functor named in the declared result type *)
  fe_callee : string;          (* function called inside the functor *)
  fe_qual : string;            (* its namespace qualifier *)
  fe_forwards_all : bool }.    (* variadic perfect forwarding in both layers, deduced (auto) result type *)

Local Open Scope string_scope.
Definition fn_entry_ok (e : fnentry) : bool :=
  String.eqb (fe_callee e) (fe_name e) && String.eqb (fe_functor e) (fe_decl_functor e) &&
  String.eqb (fe_qual e) "std" && fe_forwards_all e.
Definition fn_names (t : list fnentry) : list string := map fe_name t.
Definition expected_fn_names : list string := ["abs"; "floor"; "ceil"; "sin"; "cos"; "tan"; "asin"; "acos"; "atan"].

(* get_arity overloads (utils.h) *)
Inductive aform := FN | FN1 | FCallOpMinus1 | FUnknown.   (* sizeof...(Arguments) | ... + 1 | arity(&T::operator()) - 1 *)
Record arity_entry := { ar_kind : string; ar_quals : string; ar_formula : aform }.
Definition aform_eqb (a b : aform) : bool :=
  match a, b with FN, FN | FN1, FN1 | FCallOpMinus1, FCallOpMinus1 => true | _, _ => false end.

(* std::move / std::forward applied to a reference parameter of a library function *)
Inductive pkind := PForwarding | PLvalueRef | PConstRef | PRvalueRef.
Inductive fhow := HMove | HForward.
Inductive fsink := SNone | SConstRef | SByValue | SRvalueRef | SUnknown.
Record fwd_site := { fs_fn : string; fs_param : string; fs_pkind : pkind; fs_how : fhow; fs_sink : fsink }.

(* a variable with static or thread storage duration declared by the library *)
Record static_var := { sv_name : string; sv_where : string; sv_thread_local : bool; sv_const : bool }.
