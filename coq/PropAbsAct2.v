(* coq/PropAbsAct.v extended by observers of valueAboutToChange that write: before the new value of an UNBOUND property p is stored, each such
   observer assigns the current (old) value of p to another property - a complete nested assignment, like the writing observers of
   valueChanged.  (On a BOUND property such an observer would run between the re-evaluation of the binding and the store; a cycle through it is
   not detected by the library - DESIGN.md 7 - and is excluded here.)  A nested assignment is now the recursive knot `setR` (equality test,
   about-to-change phase, store, valueChanged phase), next to the emission knot `notR` used by the leaves of bindings. *)
From Coq Require Import List Arith ZArith Lia Bool.
From KDB Require Import PropAbs PropAbsProofs PropAbsAct.
Import ListNotations.

Section Act2.
Variable F1 : nat -> Z -> Z.
Variable F2 : nat -> Z -> Z -> Z.
Variable F3 : nat -> Z -> Z -> Z -> Z.
Variable order' : nat -> list sub.       (* subscribers of p.valueChanged in delivery order *)
Variable orderA : nat -> list nat.       (* targets of the writing observers of p.valueAboutToChange in delivery order *)

Section Step.
  Variable setR : state -> nat -> Z -> state.
  Variable notR : state -> nat -> Z -> state.

  Definition act2 (s : state) (v0 : Z) (tgt : nat) : state :=
    if oof s then s else
    match tr s tgt with
    | Some _ => {| env := env s; tr := tr s; oof := true |}      (* ReadOnlyProperty leaves the emission *)
    | None => setR s tgt v0
    end.
  Definition deliver2 (v0 : Z) (s : state) (x : sub) : state :=
    match x with
    | SLeaf q lid => PropAbs.deliver F1 F2 F3 (nrec2 notR) s (q, lid)
    | SAct tgt => act2 s v0 tgt
    end.
  Definition notify_body2 (s : state) (p : nat) (v0 : Z) : state := fold_left (deliver2 v0) (order' p) s.
  Definition about_body2 (s : state) (p : nat) (old : Z) : state := fold_left (fun s tgt => act2 s old tgt) (orderA p) s.
  Definition set_body2 (s : state) (p : nat) (v : Z) : state :=
    if Z.eqb v (env s p) then s else
    let s1 := about_body2 s p (env s p) in
    if oof s1 then s1 else notify_body2 {| env := set_env (env s1) p v; tr := tr s1; oof := false |} p v.
End Step.

Definition dead (s : state) : state := {| env := env s; tr := tr s; oof := true |}.

Fixpoint set2 (fuel : nat) (s : state) (p : nat) (v : Z) : state :=
  match fuel with
  | O => dead s
  | S f => set_body2 (set2 f) (notify2 f) s p v
  end
with notify2 (fuel : nat) (s : state) (p : nat) (v0 : Z) : state :=
  match fuel with
  | O => dead s
  | S f => notify_body2 (set2 f) (notify2 f) s p v0
  end.

(* ---------------------------------------------------------------------------------------------------------------------------- *)
Notation lord := (lorder order').
Notation Inv := (Inv F1 F2 F3 lord).
Notation rec_ok := (rec_ok F1 F2 F3 lord).
Notation rec_ok3 := (rec_ok3 F1 F2 F3 order').

Definition trdom (R : state -> nat -> Z -> state) : Prop := forall s r v q, tr (R s r v) q = None <-> tr s q = None.
(* the contract of a nested assignment: whatever leaves are pending, an unbound target *)
Definition set_ok (R : state -> nat -> Z -> state) : Prop :=
  (forall s r v, oof s = true -> oof (R s r v) = true) /\
  (forall s r v P, tr s r = None -> Inv s P -> oof (R s r v) = false -> Inv (R s r v) P) /\
  trdom R.

Section StepProofs.
  Variable setR notR : state -> nat -> Z -> state.
  Hypothesis HS : set_ok setR.
  Hypothesis HN : rec_ok3 notR.
  Hypothesis HNd : trdom notR.

  Lemma act2_oof s v0 tgt : oof s = true -> act2 setR s v0 tgt = s.
  Proof. intros H; unfold act2; rewrite H; reflexivity. Qed.
  Lemma act2_ok s v0 tgt P : Inv s P -> oof (act2 setR s v0 tgt) = false -> Inv (act2 setR s v0 tgt) P.
  Proof.
    intros HI. unfold act2. destruct (oof s) eqn:Ho; [congruence|]. destruct (tr s tgt) as [t|] eqn:Ht; [cbn; congruence|].
    intros Hf. apply (proj1 (proj2 HS)); assumption.
  Qed.
  Lemma act2_trdom s v0 tgt q : tr (act2 setR s v0 tgt) q = None <-> tr s q = None.
  Proof. unfold act2. destruct (oof s); [tauto|]. destruct (tr s tgt); [cbn; tauto|]. apply (proj2 (proj2 HS)). Qed.

  Lemma deliver2_oof v0 s x : oof s = true -> deliver2 setR notR v0 s x = s.
  Proof. intros H. destruct x as [q lid|tgt]; cbn [deliver2]; [apply deliver_oof; exact H|apply act2_oof; exact H]. Qed.
  Lemma loop2_oof v0 L : forall s, oof s = true -> fold_left (deliver2 setR notR v0) L s = s.
  Proof. induction L as [|x L IH]; cbn; auto. intros s H. rewrite deliver2_oof by exact H. apply IH; exact H. Qed.

  Lemma HR2 : rec_ok (nrec2 notR).
  Proof. split; [intros s r H; apply (proj1 HN); exact H|intros s r P HI Ho; apply (proj2 HN); assumption]. Qed.

  Lemma loop2_ok v0 L : forall s P,
    Inv s (leafsubs L ++ P) -> oof (fold_left (deliver2 setR notR v0) L s) = false -> Inv (fold_left (deliver2 setR notR v0) L s) P.
  Proof.
    induction L as [|x L IH]; cbn [fold_left]; intros s P HI Ho; [exact HI|].
    assert (Hd : oof (deliver2 setR notR v0 s x) = false).
    { destruct (oof (deliver2 setR notR v0 s x)) eqn:Hd; [|reflexivity]. rewrite loop2_oof in Ho by exact Hd. congruence. }
    apply IH; [|exact Ho]. destruct x as [q lid|tgt]; cbn [deliver2] in *.
    - apply (deliver_ok F1 F2 F3 lord (nrec2 notR) HR2); [exact HI|exact Hd].
    - apply act2_ok; [exact HI|exact Hd].
  Qed.

  Lemma deliver2_trdom v0 s x q : tr (deliver2 setR notR v0 s x) q = None <-> tr s q = None.
  Proof.
    pose proof HNd as HNd'. unfold trdom in HNd'.
    destruct x as [q0 lid|tgt]; cbn [deliver2]; [|apply act2_trdom].
    unfold deliver. destruct (oof s); [tauto|]. destruct (tr s q0) as [t|] eqn:Ht; [|tauto].
    destruct (mark t lid) as [t1 up]. destruct up.
    - destruct (PropAbs.eval F1 F2 F3 (env s) t1) as [t2 v1].
      destruct (Z.eqb v1 (env s q0)); cbn [tr]; [|unfold nrec2; rewrite HNd'; cbn [tr]];
        unfold PropAbs.set_tr; destruct (Nat.eqb_spec q q0) as [->|]; try tauto; rewrite Ht; split; discriminate.
    - cbn [tr]. unfold PropAbs.set_tr. destruct (Nat.eqb_spec q q0) as [->|]; try tauto. rewrite Ht; split; discriminate.
  Qed.
  Lemma loop2_trdom v0 L : forall s q, tr (fold_left (deliver2 setR notR v0) L s) q = None <-> tr s q = None.
  Proof. induction L as [|x L IH]; intros s q; cbn [fold_left]; [tauto|]. rewrite IH. apply deliver2_trdom. Qed.

  Lemma about2_oof old L : forall s, oof s = true -> fold_left (fun s tgt => act2 setR s old tgt) L s = s.
  Proof. induction L as [|x L IH]; cbn; auto. intros s H. rewrite act2_oof by exact H. apply IH; exact H. Qed.
  Lemma about2_ok old L : forall s P, Inv s P -> oof (fold_left (fun s tgt => act2 setR s old tgt) L s) = false ->
    Inv (fold_left (fun s tgt => act2 setR s old tgt) L s) P.
  Proof.
    induction L as [|x L IH]; cbn [fold_left]; intros s P HI Ho; [exact HI|].
    assert (Hd : oof (act2 setR s old x) = false).
    { destruct (oof (act2 setR s old x)) eqn:Hd; [|reflexivity]. rewrite about2_oof in Ho by exact Hd. congruence. }
    apply IH; [apply act2_ok; assumption|exact Ho].
  Qed.
  Lemma about2_trdom old L : forall s q, tr (fold_left (fun s tgt => act2 setR s old tgt) L s) q = None <-> tr s q = None.
  Proof. induction L as [|x L IH]; intros s q; cbn [fold_left]; [tauto|]. rewrite IH. apply act2_trdom. Qed.

  Lemma notify_body2_ok : rec_ok3 (notify_body2 setR notR) /\ trdom (notify_body2 setR notR).
  Proof.
    split; [split|].
    - intros s r v H. unfold notify_body2. rewrite loop2_oof by exact H. exact H.
    - intros s r v P HI Ho. unfold notify_body2 in *. apply loop2_ok; assumption.
    - intros s r v q. unfold notify_body2. apply loop2_trdom.
  Qed.

  Lemma set_body2_ok : set_ok (set_body2 setR notR).
  Proof.
    split; [|split].
    - intros s r v H. unfold set_body2. destruct (Z.eqb v (env s r)); [exact H|]. unfold about_body2. rewrite about2_oof by exact H. rewrite H. exact H.
    - intros s r v P Hr HI. unfold set_body2. destruct (Z.eqb v (env s r)); [intros _; exact HI|].
      set (s1 := about_body2 setR s r (env s r)). destruct (oof s1) eqn:Ho1; [intros Hf; congruence|]. intros Hf.
      assert (HI1 : Inv s1 P) by (apply about2_ok; assumption).
      assert (Hr1 : tr s1 r = None) by (apply about2_trdom; exact Hr).
      unfold notify_body2. apply loop2_ok; [|exact Hf].
      apply (Inv_env_change F1 F2 F3 lord s1 P r v).
      + intros q t Hq. destruct (HI1 q t Hq) as (A & B & C & D). repeat split; auto.
      + intros t Hq; congruence.
    - intros s r v q. unfold set_body2. destruct (Z.eqb v (env s r)); [tauto|].
      set (s1 := about_body2 setR s r (env s r)). destruct (oof s1); [apply about2_trdom|].
      unfold notify_body2. rewrite loop2_trdom. cbn [tr]. apply about2_trdom.
  Qed.
End StepProofs.

Lemma both_ok fuel : set_ok (set2 fuel) /\ rec_ok3 (notify2 fuel) /\ trdom (notify2 fuel).
Proof.
  induction fuel as [|f (IS & IN & ID)]; cbn [set2 notify2].
  - split; [split; [intros; reflexivity|split; [intros s r v P _ _ H; cbn in H; discriminate|intros s r v q; cbn; tauto]]|].
    split; [split; [intros; reflexivity|intros s r v P _ H; cbn in H; discriminate]|intros s r v q; cbn; tauto].
  - split; [apply set_body2_ok; assumption|]. apply notify_body2_ok; assumption.
Qed.

(* C02 on the abstract layer with writing observers of BOTH signals: an assignment to an unbound property that returns normally *)
Theorem set2_consistent fuel s p v :
  tr s p = None -> oof s = false -> Inv s [] -> oof (set2 fuel s p v) = false -> Inv (set2 fuel s p v) [].
Proof. intros Hp Ho HI Hf. exact (proj1 (proj2 (proj1 (both_ok fuel))) s p v [] Hp HI Hf). Qed.

Definition sets2 (fuel : nat) (s : state) (ws : list (nat * Z)) : state :=
  fold_left (fun s pv => set2 fuel s (fst pv) (snd pv)) ws s.

Theorem sets2_consistent fuel : forall ws s,
  (forall p v, In (p, v) ws -> tr s p = None) -> oof s = false -> Inv s [] ->
  oof (sets2 fuel s ws) = false -> Inv (sets2 fuel s ws) [].
Proof.
  induction ws as [|[p v] r IH]; intros s Hin Ho HI Hf; unfold sets2 in *; cbn [fold_left fst snd] in *; [exact HI|].
  set (s1 := set2 fuel s p v) in *.
  assert (Ho1 : oof s1 = false).
  { destruct (oof s1) eqn:E; [|reflexivity]. exfalso.
    assert (Hmono : forall l s0, oof s0 = true -> oof (fold_left (fun s pv => set2 fuel s (fst pv) (snd pv)) l s0) = true).
    { induction l as [|[p0 v0] l IHl]; intros s0 H0; cbn [fold_left]; [exact H0|]. apply IHl. apply (proj1 (proj1 (both_ok fuel))). exact H0. }
    rewrite (Hmono r s1 E) in Hf. discriminate. }
  apply IH.
  - intros q u Hq. apply (proj2 (proj2 (proj1 (both_ok fuel)))). apply (Hin q u). right; exact Hq.
  - exact Ho1.
  - apply set2_consistent; [apply (Hin p v); left; reflexivity|exact Ho|exact HI|exact Ho1].
  - exact Hf.
Qed.
End Act2.
