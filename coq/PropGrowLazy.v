(* Worlds of evaluator-driven bindings: the state conditions of the one-pass theorem (PropSimLazy.LSC, LCOH) are established and kept
   by every history that creates properties, attaches plain observers, binds FRESH properties through the evaluator, assigns to
   inputs and calls evaluateAll. *)
From KDB Require Import Util UtilProofs PropDefs PropFlags PropLink PropLinkBasics PropLinkOps PropLinkTheorems PropSim PropGrow PropSimLazy.
From KDB Require PropAbs PropAbsProofs PropAbsLazy PropProofs PropCheck.
Module A := PropAbs.
Module AP := PropAbsProofs.
Module L := PropAbsLazy.

Lemma flat_map_ext_in' {X Y} (f g : X -> list Y) (l : list X) : (forall x, In x l -> f x = g x) -> flat_map f l = flat_map g l.
Proof. induction l as [|a r IH]; cbn; intros H; [reflexivity|]. rewrite (H a (or_introl eq_refl)), IH; [reflexivity|]. intros x Hx. apply H. right. exact Hx. Qed.

Section GrowLazy.
  Variable fn : nat -> list Z -> option Z.
  Variable rtl : bool.
  Variable ev : nat.
  Hypothesis ev_pos : ev <> 0.
  Notation F1 := (PropSim.F1 fn).
  Notation F2 := (PropSim.F2 fn).
  Notation F3 := (PropSim.F3 fn).
  Notation LSC := (PropSimLazy.LSC ev).
  Notation LCOH := (PropSimLazy.LCOH fn).

  (* ---- the structural parts of the abstract invariant follow from the link invariant ---- *)
  Lemma in_LORD w p q l :
    In (q, l) (LORD w p) <-> exists t pos ser b, owns w p KChanged t /\ slot_at w t pos ser (SNode b l) /\ lz w b = Some q.
  Proof.
    unfold LORD, owns, slot_at. destruct (pview w p) as [v|]; [|split; [intros []|intros (t & pos & ser & b & (v & E & _) & _); discriminate E]].
    destruct (ps_changed v) as [t|] eqn:Ec.
    2:{ split; [intros []|]. intros (t & pos & ser & b & (v' & E & Es) & _). inversion E; subst v'. cbn in Es. congruence. }
    destruct (tview w t) as [[[sl fr] al]|] eqn:Et.
    2:{ split; [intros []|]. intros (t' & pos & ser & b & (v' & E & Es) & (sl & fr & al & Et' & _) & _). inversion E; subst v'. cbn in Es.
        assert (t' = t) by congruence. subst t'. congruence. }
    unfold lord_slots. rewrite in_flat_map. split.
    - intros (x & Hx & Hi). destruct (nth_error sl x) as [[[ser [label act|b l']]|]|] eqn:En; try destruct Hi.
      destruct (lz w b) as [q'|] eqn:Ei; [|destruct Hi]. destruct Hi as [E|[]]. inversion E; subst.
      exists t, x, ser, b. split; [exists v; auto|]. split; [exists sl, fr, al; auto|exact Ei].
    - intros (t' & pos & ser & b & (v' & E & Es) & (sl' & fr' & al' & Et' & En) & Ei). inversion E; subst v'. cbn in Es.
      assert (t' = t) by congruence. subst t'. rewrite Et in Et'. inversion Et'; subst. exists pos. split.
      + apply in_seq. split; [lia|]. cbn. apply nth_error_Some. congruence.
      + rewrite En, Ei. left. reflexivity.
  Qed.

  Lemma lz_of_bind w q x : lz_of w q = Some x -> exists b pr, lookup (w_props w) q = Some pr /\ pr_updater pr = Some b /\ get_bind w b = Some x.
  Proof.
    unfold lz_of. destruct (lookup (w_props w) q) as [pr|]; [|discriminate]. destruct (pr_updater pr) as [b|] eqn:Hu; [|discriminate]. intros H. exists b, pr. auto.
  Qed.

  Lemma LInv_from_sound w s :
    pinv w -> LRel w s -> (forall q t, L.ltr s q = Some t -> L.sound F1 F2 F3 (L.lenv s) t) -> L.LInv F1 F2 F3 (LORD w) s.
  Proof.
    intros Hinv (R1 & R2) HS q T HT. split; [apply (HS q); exact HT|].
    rewrite R2 in HT. destruct (lz_of w q) as [x|] eqn:Hx; [|discriminate HT]. destruct (lz_of_bind _ _ _ Hx) as (b & pr & Hq & Hu & Hb).
    assert (Pq : pview w q = Some (psigs_of pr)) by (unfold pview; rewrite Hq; reflexivity).
    destruct (pi_upd _ _ _ _ _ _ _ Hinv _ _ _ Pq Hu (fun z => z)) as (ls & Eb).
    assert (Htg : b_target x = Some q) by (unfold bview in Eb; rewrite Hb in Eb; congruence).
    split; [exact (abs_nodup _ _ _ _ Hinv Hb HT)|]. split.
    - intros p lid Hi. destruct (abs_leaf_in _ _ _ _ HT Hi) as (lf & Hlf & Htg0 & Hid).
      assert (Hl : has_leaf w b lf) by (exists (leaves (b_root x)), (b_target x); split; [unfold bview; rewrite Hb; reflexivity|exact Hlf]).
      destruct (pi_leafc _ _ _ _ _ _ _ Hinv _ _ _ Hl Htg0 (fun z => z)) as [Ho Hv]. apply in_LORD.
      exists (h_table (lf_hc lf)), (h_pos (lf_hc lf)), (h_serial (lf_hc lf)), b. split; [exact Ho|]. split; [rewrite <- Hid; exact Hv|].
      unfold lz. rewrite Hb. exact Htg.
    - intros p p' lid Hi Hl'. apply in_LORD in Hi. destruct Hi as (t & pos & ser & b' & Ho & Hs & Hz).
      assert (b' = b).
      { unfold lz in Hz. destruct (get_bind w b') as [x'|] eqn:Hb'; [|discriminate Hz].
        assert (Bv' : bview w b' = Some (leaves (b_root x'), Some q)) by (unfold bview; rewrite Hb', Hz; reflexivity).
        destruct (pi_tgt _ _ _ _ _ _ _ Hinv _ _ _ Bv') as (v' & Ev' & Eu'). rewrite Pq in Ev'. assert (v' = psigs_of pr) by congruence. subst v'. cbn in Eu'. congruence. }
      subst b'. destruct (abs_leaf_in _ _ _ _ HT Hl') as (lf & Hlf & Htg0 & Hid).
      assert (Hl : has_leaf w b lf) by (exists (leaves (b_root x)), (b_target x); split; [unfold bview; rewrite Hb; reflexivity|exact Hlf]).
      assert (E : lf_tg lf = Some p) by (eapply (pi_slotown _ _ _ _ _ _ _ Hinv); eauto; intros []). congruence.
  Qed.

  (* dirty flags sound in the abstraction of w *)
  Definition LSND (w : world) : Prop := exists s, LRel w s /\ forall q t, L.ltr s q = Some t -> L.sound F1 F2 F3 (L.lenv s) t.
  Lemma LCOH_of_LSND w : pinv w -> LSND w -> LCOH w.
  Proof. intros Hinv (s & HRel & HS). exists s. split; [exact HRel|apply LInv_from_sound; assumption]. Qed.
  Lemma LSND_of_LCOH w : LCOH w -> LSND w.
  Proof. intros (s & HRel & HI). exists s. split; [exact HRel|]. intros q t Ht. exact (proj1 (HI q t Ht)). Qed.

  (* ---- what building a tree leaves alone ---- *)
  Definition BGR (w w1 : world) : Prop :=
    w_binds w1 = w_binds w /\ w_evps w1 = w_evps w /\ w_bevs w1 = w_bevs w /\ w_held w1 = w_held w /\
    (forall q, option_map ps_updater (pview w1 q) = option_map ps_updater (pview w q)).
  Lemma BGR_refl w : BGR w w.
  Proof. repeat split. Qed.
  Lemma BGR_trans a b c : BGR a b -> BGR b c -> BGR a c.
  Proof. intros (A1 & A2 & A3 & A4 & A5) (B1 & B2 & B3 & B4 & B5). repeat split; intros; congruence. Qed.
  Lemma BGR_sub w p k sub h w1 : sub_ext w p k sub h w1 -> BGR w w1.
  Proof.
    intros E. split; [exact (se_binds _ _ _ _ _ _ E)|]. split; [exact (se_evps _ _ _ _ _ _ E)|]. split; [exact (se_bevs _ _ _ _ _ _ E)|].
    split; [exact (se_held _ _ _ _ _ _ E)|]. intros q. destruct (pview w q) as [v|] eqn:Ev.
    - destruct (se_pview_fwd _ _ _ _ _ _ E _ _ Ev) as (v1 & Ev1 & Eu). rewrite Ev1. cbn. congruence.
    - apply (se_pdom _ _ _ _ _ _ E) in Ev. rewrite Ev. reflexivity.
  Qed.
  Lemma BGR_log_fns l : forall w, BGR w (log_fns l w).
  Proof. induction l as [|g r IH]; intros w; cbn [log_fns]; [apply BGR_refl|]. eapply BGR_trans; [|apply IH]. repeat split. Qed.

  Lemma build_basic s0 bnew : forall e w next acc w1 nd n1,
    BI s0 bnew next acc [] w -> build fn rtl w bnew next e = inl (Some (w1, nd, n1)) -> BGR w w1.
  Proof.
    induction e as [v|p|f a IHa|f a IHa c IHc|f a IHa c IHc d IHd]; intros w next acc w' nd n' H0 H; cbn [build] in H.
    - inversion H; subst. apply BGR_refl.
    - destruct (subscribe w p KChanged (SNode bnew next)) as [[w1 hc]|] eqn:S1; [|discriminate H].
      destruct (subscribe w1 p KMoved (SNode bnew next)) as [[w2 hm]|] eqn:S2; [|discriminate H].
      destruct (subscribe w2 p KDestroyed (SNode bnew next)) as [[w3 hd]|] eqn:S3; [|discriminate H].
      inversion H; subst; clear H.
      pose proof (subscribe_ext _ _ _ _ _ _ S1 (pi_twf _ _ _ _ _ _ _ (bi_inv _ _ _ _ _ _ H0)) (pi_own _ _ _ _ _ _ _ (bi_inv _ _ _ _ _ _ H0))) as E1.
      pose proof (BI_sub _ _ _ _ _ _ _ _ _ _ _ H0 E1) as H1.
      pose proof (subscribe_ext _ _ _ _ _ _ S2 (pi_twf _ _ _ _ _ _ _ (bi_inv _ _ _ _ _ _ H1)) (pi_own _ _ _ _ _ _ _ (bi_inv _ _ _ _ _ _ H1))) as E2.
      pose proof (BI_sub _ _ _ _ _ _ _ _ _ _ _ H1 E2) as H2.
      pose proof (subscribe_ext _ _ _ _ _ _ S3 (pi_twf _ _ _ _ _ _ _ (bi_inv _ _ _ _ _ _ H2)) (pi_own _ _ _ _ _ _ _ (bi_inv _ _ _ _ _ _ H2))) as E3.
      eapply BGR_trans; [eapply BGR_sub; exact E1|eapply BGR_trans; eapply BGR_sub; eauto].
    - destruct (build fn rtl w bnew next a) as [[[[w1 na] n1]|]|ex] eqn:Ha; try discriminate H.
      destruct (eval fn rtl (values w1) (NOp1 f true 0%Z na)) as [[t r] l]. destruct r; [|discriminate H]. inversion H; subst.
      eapply BGR_trans; [eapply IHa; eauto|apply BGR_log_fns].
    - destruct (build fn rtl w bnew next a) as [[[[w1 na] n1]|]|ex] eqn:Ha; try discriminate H.
      destruct (build_BI fn rtl _ _ _ _ _ _ _ _ _ H0 Ha) as (H1 & _).
      destruct (build fn rtl w1 bnew n1 c) as [[[[w2 nc] n2]|]|ex] eqn:Hc; try discriminate H.
      destruct (eval fn rtl (values w2) (NOp2 f true 0%Z na nc)) as [[t r] l]. destruct r; [|discriminate H]. inversion H; subst.
      eapply BGR_trans; [eapply IHa; eauto|]. eapply BGR_trans; [eapply IHc; eauto|apply BGR_log_fns].
    - destruct (build fn rtl w bnew next a) as [[[[w1 na] n1]|]|ex] eqn:Ha; try discriminate H.
      destruct (build_BI fn rtl _ _ _ _ _ _ _ _ _ H0 Ha) as (H1 & _).
      destruct (build fn rtl w1 bnew n1 c) as [[[[w2 nc] n2]|]|ex] eqn:Hc; try discriminate H.
      destruct (build_BI fn rtl _ _ _ _ _ _ _ _ _ H1 Hc) as (H2 & _).
      destruct (build fn rtl w2 bnew n2 d) as [[[[w3 ndd] n3]|]|ex] eqn:Hd; try discriminate H.
      destruct (eval fn rtl (values w3) (NOp3 f true 0%Z na nc ndd)) as [[t r] l]. destruct r; [|discriminate H]. inversion H; subst.
      eapply BGR_trans; [eapply IHa; eauto|]. eapply BGR_trans; [eapply IHc; eauto|]. eapply BGR_trans; [eapply IHd; eauto|apply BGR_log_fns].
  Qed.

  Lemma lz_of_pview w q :
    lz_of w q = match pview w q with Some v => match ps_updater v with Some b => get_bind w b | None => None end | None => None end.
  Proof. unfold lz_of, pview. destruct (lookup (w_props w) q) as [pr|]; reflexivity. Qed.

  Lemma BGR_lz_of w w1 : BGR w w1 -> forall q, lz_of w1 q = lz_of w q.
  Proof.
    intros (B1 & _ & _ & _ & B5) q. rewrite !lz_of_pview. specialize (B5 q).
    destruct (pview w1 q) as [v1|], (pview w q) as [v|]; cbn in B5; try discriminate B5; [|reflexivity].
    inversion B5 as [E]. rewrite E. destruct (ps_updater v) as [b|]; [|reflexivity]. unfold get_bind. rewrite B1. reflexivity.
  Qed.

  (* ---- growth ---- *)
  Lemma consis_clean_sound e q : forall t, A.clean t -> A.consis F1 F2 F3 e [] q t -> L.sound F1 F2 F3 e t.
  Proof.
    assert (NP : forall t, A.nopend [] q t) by (intros t p lid _ []).
    induction t as [z|p i d|f d c k IH|f d c k1 IH1 k2 IH2|f d c k1 IH1 k2 IH2 k3 IH3]; cbn [A.clean A.consis L.sound]; auto.
    - intros (-> & Ck) (Nk & Hc). split; [auto|]. intros _. split; [exact Ck|]. rewrite (Hc (NP _)). cbn [A.den].
      rewrite (AP.val_den F1 F2 F3 e [] q k Ck Nk (NP _)). reflexivity.
    - intros (-> & C1 & C2) (N1 & N2 & Hc). split; [auto|split; [auto|]]. intros _. split; [exact C1|split; [exact C2|]]. rewrite (Hc (NP _)). cbn [A.den].
      rewrite (AP.val_den F1 F2 F3 e [] q k1 C1 N1 (NP _)), (AP.val_den F1 F2 F3 e [] q k2 C2 N2 (NP _)). reflexivity.
    - intros (-> & C1 & C2 & C3) (N1 & N2 & N3 & Hc). split; [auto|split; [auto|split; [auto|]]]. intros _. split; [exact C1|split; [exact C2|split; [exact C3|]]].
      rewrite (Hc (NP _)). cbn [A.den].
      rewrite (AP.val_den F1 F2 F3 e [] q k1 C1 N1 (NP _)), (AP.val_den F1 F2 F3 e [] q k2 C2 N2 (NP _)), (AP.val_den F1 F2 F3 e [] q k3 C3 N3 (NP _)). reflexivity.
  Qed.

  Lemma no_leaf_pdirty p : forall t, (forall lid, ~ In (p, lid) (A.leaves t)) -> L.pdirty p t.
  Proof.
    intros t H. apply L.pdirty_flags. intros lid d Hi. exfalso. apply (H lid). apply L.in_leaves_flags. eauto.
  Qed.

  Lemma grow_new_lazy w p v :
    LSC w -> LSND w -> lookup (w_props w) p = None ->
    let w' := set_props w (bind_key (w_props w) p (prop_new v)) in LSC w' /\ LSND w'.
  Proof.
    intros (Hinv & Hna & Hsi & Hal) (s & (R1 & R2) & HS) Hp w'.
    assert (IO : forall q, lz_of w' q = lz_of w q).
    { intros q. unfold lz_of, w'; cbn [set_props w_props]. rewrite lookup_bind. destruct (Nat.eqb_spec q p) as [->|]; [rewrite Hp; reflexivity|reflexivity]. }
    split.
    - split; [apply pinv_new_prop; assumption|]. split; [exact Hna|]. split; [intros q x Hx; rewrite IO in Hx; eauto|exact Hal].
    - exists {| L.lenv := A.set_env (L.lenv s) p v; L.ltr := L.ltr s |}. split.
      + split; [|intros q; rewrite IO; apply R2].
        intros p0 pr0 Hp0. unfold w' in Hp0; cbn [set_props w_props] in Hp0. rewrite lookup_bind in Hp0. cbn [L.lenv]. unfold A.set_env.
        destruct (Nat.eqb_spec p0 p) as [->|]; [inversion Hp0; reflexivity|auto].
      + intros q T HT. cbn [L.ltr L.lenv] in *. apply L.sound_env_change; [eauto|]. apply no_leaf_pdirty. intros lid Hi.
        rewrite R2 in HT. destruct (lz_of w q) as [x|] eqn:Hx; [|discriminate HT]. destruct (lz_of_bind _ _ _ Hx) as (b & pr & Hq & Hu & Hb).
        destruct (abs_leaf_in _ _ _ _ HT Hi) as (lf & Hlf & Htg & _).
        destruct (leaf_target_exists w b x lf p Hinv Hb Hlf Htg) as (pr0 & Hp0 & _). congruence.
  Qed.

  Lemma sub_lz_of w p k sub h w1 : sub_ext w p k sub h w1 -> forall q, lz_of w1 q = lz_of w q.
  Proof. intros E. apply BGR_lz_of. eapply BGR_sub; eauto. Qed.

  Lemma sub_LRel w p k sub h w1 s : sub_ext w p k sub h w1 -> LRel w s -> LRel w1 s.
  Proof.
    intros E (R1 & R2). split; [|intros q; rewrite (sub_lz_of _ _ _ _ _ _ E); apply R2].
    intros p0 pr1 Hp1. pose proof (se_vals _ _ _ _ _ _ E p0) as Hv. unfold values in Hv. rewrite Hp1 in Hv. cbn in Hv.
    destruct (lookup (w_props w) p0) as [pr0|] eqn:Hp0; [|discriminate Hv]. cbn in Hv. rewrite (R1 _ _ Hp0). congruence.
  Qed.

  Lemma grow_observe_lazy fuel w p k label h w' :
    LSC w -> LSND w -> step1 fn rtl fuel w (PObserve p k label h None) = (w', None) -> LSC w' /\ LSND w'.
  Proof.
    intros (Hinv & Hna & Hsi & Hal) (s & HRel & HS) H.
    assert (Hinv' : pinv w') by (eapply (observe_pinv fn rtl fuel); eauto; exact I).
    cbn [step1] in H. destruct (match k with KMoved => true | _ => false end) eqn:Hk; [destruct k; discriminate|].
    replace (match k, @None (bool * nat) with KMoved, _ => true | KDestroyed, Some _ => true | _, _ => false end) with false in H by (destruct k; reflexivity).
    destruct (subscribe w p k (SObs label None)) as [[w1 hd]|] eqn:Hs; [|discriminate H]. inversion H; subst w'.
    pose proof (subscribe_ext _ _ _ _ _ _ Hs (pi_twf _ _ _ _ _ _ _ Hinv) (pi_own _ _ _ _ _ _ _ Hinv)) as E.
    split.
    - split; [exact Hinv'|]. split; [|split].
      + intros t pos ser label0 act Hsl. destruct (se_new _ _ _ _ _ _ E _ _ _ _ Hsl) as [Hold|(_ & _ & _ & Es)]; [eauto|]. inversion Es; reflexivity.
      + intros q x Hx. change (lz_of w1 q = Some x) in Hx. rewrite (sub_lz_of _ _ _ _ _ _ E) in Hx. eauto.
      + split; [exact (proj1 Hal)|]. intros b x Hx. change (get_bind w1 b = Some x) in Hx. unfold get_bind in Hx. rewrite (se_binds _ _ _ _ _ _ E) in Hx. exact (proj2 Hal b x Hx).
    - exists s. split; [exact (sub_LRel _ _ _ _ _ _ _ E HRel)|exact HS].
  Qed.

  Lemma grow_set_lazy f w p v path w' :
    LSC w -> LSND w -> step1 fn rtl (S f) w (PSet p v path) = (w', None) -> LSC w' /\ LSND w'.
  Proof.
    intros HSC HS H. cbn [step1] in H. destruct (lookup (w_props w) p) as [pr|] eqn:Hp; [|discriminate H].
    destruct (pr_updater pr) eqn:Hu; [discriminate H|].
    destruct (lazy_assignment fn rtl ev f w p v w' HSC (LCOH_of_LSND w (proj1 HSC) HS) H) as (A1 & A2 & _). split; [exact A1|apply LSND_of_LCOH; exact A2].
  Qed.

  Lemma grow_evalall_lazy fuel w e st w' :
    LSC w -> LSND w -> lookup (w_bevs w) e = Some ev -> nth_error (w_evps w) ev = Some st ->
    step1 fn rtl fuel w (BevEvalAll e) = (w', None) -> LSC w' /\ LSND w'.
  Proof.
    intros HSC HS He Hst H.
    destruct (lazy_evalall_keeps fn rtl ev fuel w e st w' HSC (LCOH_of_LSND w (proj1 HSC) HS) He Hst H) as (A1 & A2 & _).
    split; [exact A1|apply LSND_of_LCOH; exact A2].
  Qed.

  (* ---- the registry of the evaluator: in a growing network registration order is dependency order ---- *)
  Definition LREG (w : world) : Prop :=
    match nth_error (w_evps w) ev with
    | None => True
    | Some st =>
        NoDup (regs_of w (ep_registry st)) /\ lchain w (regs_of w (ep_registry st)) /\
        (forall rb, In rb (ep_registry st) -> snd rb < length (w_binds w)) /\
        (forall q, In q (regs_of w (ep_registry st)) -> lookup (w_props w) q <> None)
    end.

  (* what LREG looks at *)
  Definition REQ (w w' : world) : Prop :=
    w_evps w' = w_evps w /\ length (w_binds w') = length (w_binds w) /\ (forall b, lz w' b = lz w b) /\
    (forall q x', lz_of w' q = Some x' -> exists x, lz_of w q = Some x /\ leaves (b_root x') = leaves (b_root x)) /\
    (forall q, lookup (w_props w) q <> None -> lookup (w_props w') q <> None).

  Lemma lchain_REQ w w' : REQ w w' -> forall regs, lchain w regs -> lchain w' regs.
  Proof.
    intros (_ & _ & _ & R4 & _). induction regs as [|q r IH]; cbn [lchain]; [auto|]. intros [HA HC]. split; [|auto].
    intros x' lf p Hx' Hi Ht. destruct (R4 _ _ Hx') as (x & Hx & El). rewrite El in Hi. eauto.
  Qed.
  Lemma LREG_REQ w w' : REQ w w' -> LREG w -> LREG w'.
  Proof.
    intros R H. pose proof R as (R1 & R2 & R3 & R4 & R5). unfold LREG in *. rewrite R1. destruct (nth_error (w_evps w) ev) as [st|]; [|exact I].
    destruct H as (ND & HC & HB & HE).
    assert (Er : regs_of w' (ep_registry st) = regs_of w (ep_registry st)) by (unfold regs_of; apply flat_map_ext; intros rb; rewrite R3; reflexivity).
    rewrite Er. split; [exact ND|]. split; [apply (lchain_REQ w w' R); exact HC|]. split; [intros rb Hi; rewrite R2; auto|auto].
  Qed.

  Lemma REQ_LFR w w' : LFR w w' -> (forall q, lookup (w_props w) q <> None -> lookup (w_props w') q <> None) -> REQ w w'.
  Proof.
    intros (F1' & F2' & F3' & F4' & _ & _ & _ & F8 & F9 & _ & _) HP. split; [exact F9|]. split; [exact F8|]. split; [exact F1'|]. split; [|exact HP].
    intros q x' Hx'. rewrite lz_of_pview in Hx'. rewrite lz_of_pview. rewrite F3' in Hx'. destruct (pview w q) as [v|]; [|discriminate Hx'].
    destruct (ps_updater v) as [b|]; [|discriminate Hx']. pose proof (F4' b) as E. unfold bview in E. rewrite Hx' in E.
    destruct (get_bind w b) as [x|]; [|discriminate E]. exists x. split; [reflexivity|]. congruence.
  Qed.

  Lemma LFR_props_dom w w' : LFR w w' -> forall q, lookup (w_props w) q <> None -> lookup (w_props w') q <> None.
  Proof.
    intros (_ & _ & F3' & _) q Hq. pose proof (F3' q) as E. unfold pview in E. destruct (lookup (w_props w') q); [discriminate|].
    destruct (lookup (w_props w) q); [discriminate E|contradiction].
  Qed.

  (* p = makeBoundProperty(evaluator, expression): a fresh property bound through the evaluator *)
  (* the evaluator may be ev or ANY other explicit evaluator ev' *)
  Lemma grow_bind_lazy fuel w p e e0 ev' w' :
    LSC w -> LSND w -> LREG w -> lookup (w_props w) p = None -> lookup (w_bevs w) e0 = Some ev' -> ev' <> 0 ->
    step1 fn rtl fuel w (PBind p e (MEvaluator e0)) = (w', None) -> LSC w' /\ LSND w' /\ LREG w'.
  Proof.
    intros HSC HS HREG Hp He0 Hev' H. pose proof HSC as (Hinv & Hna & Hsi & Hal). cbn [step1] in H.
    destruct (make_binding fn rtl w e (MEvaluator e0)) as [[w3 b]|ex] eqn:Hm; [|discriminate H].
    destruct (make_binding_pinv _ _ _ _ _ _ _ Hinv Hm) as (Hinv3 & _ & Hheld3).
    (* open the constructor of the binding *)
    unfold make_binding in Hm. rewrite He0 in Hm. destruct (nth_error (w_evps w) ev') as [st|] eqn:Hst; [|discriminate Hm].
    set (b0 := length (w_binds w)) in *.
    destruct (build fn rtl w b0 0 e) as [[[[w1 root] n1]|]|ex] eqn:Hb; try discriminate Hm. inversion Hm; subst w3 b; clear Hm.
    assert (H0 : BI (w_serial w) b0 0 [] [] w).
    { constructor.
      - eapply pinvg_mono; [| | | | | |exact Hinv]; cbv beta; try (intros x Hx; exact Hx); try (intros x Hx; exact (False_ind _ Hx)).
      - unfold bview, get_bind. replace (nth_error (w_binds w) b0) with (@None binding); [reflexivity|symmetry; apply nth_error_None; unfold b0; lia].
      - lia.
      - intros t pos ser s Hs Hge. destruct (pi_ser _ _ _ _ _ _ _ Hinv) as (S1 & _). specialize (S1 _ _ _ _ Hs). exfalso; lia.
      - intros t pos ser l Hs. exfalso. destruct (pi_slot _ _ _ _ _ _ _ Hinv _ _ _ _ _ (fun z => z) Hs) as (lf & (ls & tg & Eb & _) & _).
        unfold bview, get_bind in Eb. replace (nth_error (w_binds w) b0) with (@None binding) in Eb; [discriminate Eb|symmetry; apply nth_error_None; unfold b0; lia].
      - intros lf [].
      - intros lf [].
      - constructor.
      - intros lf h []. }
    destruct (build_grow fn rtl _ _ _ _ _ _ _ _ _ H0 Hb) as [(_ & _ & Gv & _ & Gobs & _) Ttree].
    pose proof (build_basic _ _ _ _ _ _ _ _ _ H0 Hb) as BG. pose proof BG as (B1 & B2 & B3 & B4 & B5).
    set (nb := {| b_root := root; b_evp := ev'; b_regid := S (ep_next st); b_target := None; b_alive := true |}) in *.
    match type of Hinv3 with pinv ?W => set (w3 := W) in * end.
    assert (Gb : forall b', b' < b0 -> get_bind w3 b' = get_bind w b').
    { intros b' Hlt. unfold get_bind, w3; cbn [set_binds set_evps w_binds]. rewrite nth_error_app1 by (rewrite B1; exact Hlt). rewrite B1. reflexivity. }
    assert (Gn : get_bind w3 b0 = Some nb).
    { unfold get_bind, w3; cbn [set_binds set_evps w_binds]. rewrite nth_error_app2 by (rewrite B1; unfold b0; lia).
      replace (b0 - length (w_binds w1)) with 0 by (rewrite B1; unfold b0; lia). reflexivity. }
    assert (Glt : forall b' x', get_bind w b' = Some x' -> b' < b0) by (intros b' x' E; exact (proj1 (get_bind_lt _ _ _ E))).
    assert (IO3 : forall q, lz_of w3 q = lz_of w q).
    { intros q. rewrite !lz_of_pview. change (pview w3 q) with (pview w1 q). specialize (B5 q).
      destruct (pview w1 q) as [v1|], (pview w q) as [v|] eqn:Ev; cbn in B5; try discriminate B5; [|reflexivity].
      inversion B5 as [E]. rewrite E. destruct (ps_updater v) as [b'|] eqn:Eu; [|reflexivity].
      destruct (pi_upd _ _ _ _ _ _ _ Hinv _ _ _ Ev Eu (fun z => z)) as (ls & Eb). unfold bview in Eb. destruct (get_bind w b') as [x'|] eqn:Eg; [|discriminate Eb].
      rewrite (Gb b' (Glt _ _ Eg)). exact Eg. }
    assert (V3 : forall q, values w3 q = values w q) by (intros q; change (values w3 q) with (values w1 q); apply Gv).
    assert (SC3 : LSC w3).
    { split; [exact Hinv3|]. split; [intros t pos ser label act Hs; eapply Hna; eapply Gobs; exact Hs|]. split; [intros q x Hx; rewrite IO3 in Hx; eauto|].
      split; [exact ev_pos|]. intros b' x' Hx'. destruct (Nat.lt_ge_cases b' b0) as [Hlt|Hge]; [rewrite (Gb _ Hlt) in Hx'; exact (proj2 Hal _ _ Hx')|].
      destruct (Nat.eq_dec b' b0) as [->|Hne]; [rewrite Gn in Hx'; inversion Hx'; exact Hev'|].
      exfalso. unfold get_bind, w3 in Hx'; cbn [set_binds set_evps w_binds] in Hx'.
      replace (nth_error (w_binds w1 ++ [nb]) b') with (@None binding) in Hx'; [discriminate Hx'|]. symmetry. apply nth_error_None. rewrite app_length, B1. cbn. unfold b0 in *. lia. }
    assert (SND3 : LSND w3).
    { destruct HS as (s & (R1 & R2) & HSs). exists s. split; [|exact HSs]. split; [|intros q; rewrite IO3; apply R2].
      intros p0 pr1 Hp1. assert (Hv : values w3 p0 = Some (pr_value pr1)) by (apply values_lookup; eauto). rewrite V3 in Hv. apply values_lookup in Hv.
      destruct Hv as (pr0 & Hp0 & Ev). rewrite (R1 _ _ Hp0). exact Ev. }
    assert (Hp3 : lookup (w_props w3) p = None).
    { pose proof (V3 p) as E. unfold values in E. rewrite Hp in E. destruct (lookup (w_props w3) p); [discriminate E|reflexivity]. }
    rewrite Hp3 in H.
    destruct (grow_new_lazy w3 p 0%Z SC3 SND3 Hp3) as (SCn & SNDn).
    set (wn := set_props w3 (bind_key (w_props w3) p (prop_new 0%Z))) in *.
    destruct SCn as (Hinvn & Hnan & Hsin & Haln). destruct SNDn as (sn & (Rn1 & Rn2) & HSn).
    (* Property::operator=(updater) *)
    unfold assign_binding in H.
    assert (Hpn : lookup (w_props wn) p = Some (prop_new 0%Z)) by (unfold wn; cbn [set_props w_props]; apply lookup_bind_same).
    rewrite Hpn in H. cbn [prop_new pr_updater ok] in H. rewrite Hpn in H.
    assert (Hbn : get_bind wn b0 = Some nb) by exact Gn. rewrite Hbn in H.
    set (w5 := set_props wn (bind_key (w_props wn) p (prop_set_updater (prop_new 0%Z) (Some b0)))) in *.
    set (xb3 := bind_with_target nb (Some p)) in *.
    set (w6 := put_bind w5 b0 xb3) in *.
    destruct (get_bind_lt _ _ _ Hbn) as [Hlt Hal0].
    assert (Bvb : bview wn b0 = Some (leaves root, None)) by (unfold bview; rewrite Hbn; reflexivity).
    assert (HNT : NOTARGET p wn).
    { intros b' ls E. destruct (pi_tgt _ _ _ _ _ _ _ Hinvn _ _ _ E) as (vv & Ev & Eu). unfold pview in Ev. rewrite Hpn in Ev. assert (vv = psigs_of (prop_new 0%Z)) by congruence. subst vv. discriminate Eu. }
    assert (Hinv6 : pinv w6).
    { apply (install_updater wn p (prop_new 0%Z) b0 nb (leaves root)); auto.
      eapply pinvg_mono; [| | | | | |exact Hinvn]; cbv beta; try (intros x Hx; exact Hx); try (intros x Hx; exact (False_ind _ Hx)). }
    assert (V6 : forall q, values w6 q = values wn q).
    { intros q. unfold values. change (w_props w6) with (w_props w5). unfold w5; cbn [set_props w_props]. rewrite lookup_bind.
      destruct (Nat.eqb_spec q p) as [->|]; [rewrite Hpn; reflexivity|reflexivity]. }
    destruct (eval fn rtl (values w6) root) as [[t r] lg] eqn:Hev. change (b_root nb) with root in H. rewrite Hev in H. destruct r as [v|ex]; [|discriminate H].
    (* the tree: clean, caches right *)
    destruct (Ttree (L.lenv sn) p) as (T & HT & HC & HN & HV).
    { intros p0 v0 E. rewrite <- V3 in E. apply values_lookup in E. destruct E as (pr0 & Hp0 & Ev0). assert (Hne : p0 <> p) by (intros ->; congruence).
      rewrite <- Ev0. apply Rn1. unfold wn; cbn [set_props w_props]. rewrite lookup_bind_other by exact Hne. exact Hp0. }
    assert (HV6 : forall p0 lid, In (p0, lid) (A.leaves T) -> values w6 p0 = Some (L.lenv sn p0)).
    { intros p0 lid Hi. rewrite V6. specialize (HV p0 lid Hi). change (values w1 p0) with (values w3 p0) in HV.
      assert (Hne : p0 <> p) by (intros ->; unfold values in HV; rewrite Hp3 in HV; discriminate HV).
      unfold values, wn; cbn [set_props w_props]. rewrite lookup_bind_other by exact Hne. exact HV. }
    destruct (sim_eval fn rtl (values w6) (L.lenv sn) _ _ _ _ _ HT HV6 Hev) as [Et Ev]. rewrite (AP.eval_clean F1 F2 F3 (L.lenv sn) T HC) in Et, Ev. cbn [fst snd] in Et, Ev.
    pose proof (leaves_eval fn rtl (values w6) root) as Hl. rewrite Hev in Hl. cbn [fst] in Hl.
    assert (Hb6 : get_bind w6 b0 = Some xb3).
    { unfold get_bind, w6, put_bind; cbn [set_binds w_binds]. change (w_binds w5) with (w_binds wn). rewrite nth_upd_same by exact Hlt. reflexivity. }
    set (w7 := log_fns lg (put_bind w6 b0 (bind_with_root xb3 t))) in *.
    assert (V67 : views_eq w6 w7) by (eapply views_eq_trans; [apply (views_put_root w6 b0 xb3 t Hb6); exact Hl|apply views_log_fns]).
    assert (Hinv7 : pinv w7) by (eapply pinv_views; eauto).
    assert (G7 : forall b', get_bind w7 b' = if Nat.eqb b0 b' then Some (bind_with_root xb3 t) else get_bind wn b').
    { intros b'. unfold w7. assert (E : forall w0, get_bind (log_fns lg w0) b' = get_bind w0 b') by (clear; induction lg as [|g r IH]; intros w0; cbn [log_fns]; [reflexivity|rewrite IH; reflexivity]).
      rewrite E. rewrite (get_bind_put_root _ _ _ _ _ Hb6). destruct (Nat.eqb_spec b0 b') as [<-|Hne]; [reflexivity|].
      unfold get_bind, w6, put_bind; cbn [set_binds w_binds]. change (w_binds w5) with (w_binds wn). rewrite nth_upd_other by exact Hne. reflexivity. }
    assert (L7 : forall q, lookup (w_props w7) q = if Nat.eqb q p then Some (prop_set_updater (prop_new 0%Z) (Some b0)) else lookup (w_props wn) q).
    { intros q. unfold w7. rewrite PropProofs.log_fns_props. change (w_props (put_bind w6 b0 (bind_with_root xb3 t))) with (w_props w5). unfold w5; cbn [set_props w_props]. apply lookup_bind. }
    assert (T7 : forall t0, tview w7 t0 = tview wn t0) by (intros t0; destruct V67 as (_ & T67 & _); rewrite T67; reflexivity).
    assert (IO7 : forall q, lz_of w7 q = if Nat.eqb q p then Some (bind_with_root xb3 t) else lz_of wn q).
    { intros q. unfold lz_of. rewrite L7. destruct (Nat.eqb_spec q p) as [->|Hne].
      - cbn [prop_set_updater pr_updater]. rewrite G7, Nat.eqb_refl. reflexivity.
      - destruct (lookup (w_props wn) q) as [pr'|] eqn:Hq; [|reflexivity]. destruct (pr_updater pr') as [b'|] eqn:Hu'; [|reflexivity]. rewrite G7.
        destruct (Nat.eqb_spec b0 b') as [<-|]; [|reflexivity]. exfalso.
        assert (Pv' : pview wn q = Some (psigs_of pr')) by (unfold pview; rewrite Hq; reflexivity).
        destruct (pi_upd _ _ _ _ _ _ _ Hinvn _ _ _ Pv' Hu' (fun z => z)) as (ls & Eb). congruence. }
    assert (SC7 : LSC w7).
    { split; [exact Hinv7|]. split; [intros t0 pos ser label act Hs; unfold slot_at in Hs; rewrite T7 in Hs; eapply Hnan; eauto|]. split.
      - intros q x Hx. rewrite IO7 in Hx. destruct (Nat.eqb_spec q p) as [->|]; [|eauto]. inversion Hx; subst x. cbn [bind_with_root b_root]. congruence.
      - split; [exact ev_pos|]. intros b' x' Hx'. rewrite G7 in Hx'. destruct (Nat.eqb_spec b0 b') as [<-|]; [inversion Hx'; exact Hev'|exact (proj2 Haln _ _ Hx')]. }
    assert (SND7 : LSND w7).
    { exists {| L.lenv := L.lenv sn; L.ltr := A.set_tr (L.ltr sn) p T |}. split; [split|].
      - intros q prq Hq. rewrite L7 in Hq. cbn [L.lenv]. destruct (Nat.eqb_spec q p) as [->|]; [|auto]. inversion Hq; subst prq. exact (Rn1 _ _ Hpn).
      - intros q. cbn [L.ltr]. unfold A.set_tr. rewrite IO7. destruct (Nat.eqb_spec q p) as [->|]; [|apply Rn2]. cbn [bind_with_root b_root]. symmetry. exact Et.
      - intros q T0 HT0. cbn [L.ltr L.lenv] in *. unfold A.set_tr in HT0. destruct (Nat.eqb_spec q p) as [->|]; [|eauto].
        inversion HT0; subst T0. apply (consis_clean_sound (L.lenv sn) p T HC HN). }
    (* the registry of ev: one more entry at the end, for the fresh property, if the binding went to ev; unchanged if it went to ev' <> ev *)
    assert (Lz7 : forall b', b' < b0 -> lz w7 b' = lz w b').
    { intros b' Hlt'. unfold lz. rewrite G7. destruct (Nat.eqb_spec b0 b'); [lia|]. change (get_bind wn b') with (get_bind w3 b'). rewrite (Gb b' Hlt'). reflexivity. }
    assert (IOq : forall q, q <> p -> lz_of w7 q = lz_of w q).
    { intros q Hne. rewrite IO7. destruct (Nat.eqb_spec q p); [contradiction|]. unfold lz_of, wn; cbn [set_props w_props]. rewrite lookup_bind_other by exact Hne.
      change (lz_of w3 q = lz_of w q). apply IO3. }
    assert (Leafx : forall q x lf p', lz_of w q = Some x -> In lf (leaves (b_root x)) -> lf_tg lf = Some p' -> p' <> p).
    { intros q x lf p' Hx Hi Ht ->. destruct (lz_of_bind _ _ _ Hx) as (b' & pr' & _ & _ & Hb').
      destruct (leaf_target_exists w b' x lf p Hinv Hb' Hi Ht) as (pr0 & Hp0 & _). congruence. }
    assert (Len7 : length (w_binds w7) = S b0).
    { destruct V67 as (_ & _ & _ & _ & _ & _ & Ln). rewrite Ln. unfold w6, put_bind; cbn [set_binds w_binds]. rewrite upd_length.
      change (w_binds w5) with (w_binds w3). unfold w3; cbn [set_binds set_evps w_binds]. rewrite app_length, B1. cbn. unfold b0. lia. }
    assert (Ev7 : w_evps w7 = upd (w_evps w) ev' {| ep_registry := ep_registry st ++ [(S (ep_next st), b0)]; ep_next := S (ep_next st) |}).
    { destruct (LFR_log_fns lg (put_bind w6 b0 (bind_with_root xb3 t))) as (_ & _ & _ & _ & _ & _ & _ & _ & E9 & _). fold w7 in E9. rewrite E9.
      change (w_evps (put_bind w6 b0 (bind_with_root xb3 t))) with (w_evps w3). unfold w3; cbn [set_binds set_evps w_evps]. rewrite B2. reflexivity. }
    assert (REG7 : LREG w7).
    { destruct (Nat.eq_dec ev' ev) as [Eev|Nev].
      { subst ev'.
        unfold LREG in HREG |- *. rewrite Hst in HREG. destruct HREG as (ND & HCr & HB & HE).
        assert (Hev7 : nth_error (w_evps w7) ev = Some {| ep_registry := ep_registry st ++ [(S (ep_next st), b0)]; ep_next := S (ep_next st) |}).
        { rewrite Ev7. apply nth_upd_same. apply nth_error_Some. congruence. }
        rewrite Hev7. cbn [ep_registry].
        assert (Er : regs_of w7 (ep_registry st) = regs_of w (ep_registry st)).
        { unfold regs_of. apply flat_map_ext_in'. intros rb Hi. rewrite (Lz7 _ (HB rb Hi)). reflexivity. }
        assert (Erp : regs_of w7 (ep_registry st ++ [(S (ep_next st), b0)]) = regs_of w (ep_registry st) ++ [p]).
        { unfold regs_of at 1. rewrite flat_map_app. fold (regs_of w7 (ep_registry st)). rewrite Er. f_equal. cbn [flat_map snd]. unfold lz. rewrite G7, Nat.eqb_refl. reflexivity. }
        rewrite Erp.
        assert (Hpn7 : forall q, In q (regs_of w (ep_registry st)) -> q <> p) by (intros q Hq ->; exact (HE p Hq Hp)).
        split; [|split; [|split]].
        - apply NoDup_snoc; [exact ND|]. intros Hi. exact (Hpn7 p Hi eq_refl).
        - (* dependency order *)
          assert (App : forall regs, (forall q, In q regs -> q <> p) -> lchain w regs -> lchain w7 (regs ++ [p])).
          { induction regs as [|q r IHr]; cbn [lchain app]; intros Hne HCr'.
            - split; [|exact I]. intros x lf p' Hx Hi Ht [<-|[]]. rewrite IO7, Nat.eqb_refl in Hx. inversion Hx; subst x. cbn [bind_with_root b_root] in Hi. rewrite Hl in Hi.
              assert (Hlf : has_leaf w3 b0 lf) by (exists (leaves root), None; split; [unfold bview; rewrite Gn; reflexivity|exact Hi]).
              apply (pi_leafx _ _ _ _ _ _ _ Hinv3 _ _ _ Hlf Ht). unfold pview. rewrite Hp3. reflexivity.
            - destruct HCr' as [HA HCr']. split; [|apply IHr; [intros q' Hq'; apply Hne; right; exact Hq'|exact HCr']].
              intros x lf p' Hx Hi Ht. rewrite (IOq q (Hne q (or_introl eq_refl))) in Hx. rewrite app_comm_cons, in_app_iff. intros [Hin|[E|[]]].
              + exact (HA x lf p' Hx Hi Ht Hin).
              + exact (Leafx q x lf p' Hx Hi Ht (eq_sym E)). }
          apply App; [exact Hpn7|exact HCr].
        - intros rb Hi. apply in_app_iff in Hi. rewrite Len7. destruct Hi as [Hi|[<-|[]]]; [specialize (HB rb Hi); unfold b0 in *; lia|cbn; lia].
        - intros q Hi. rewrite L7. destruct (Nat.eqb_spec q p); [discriminate|]. apply in_app_iff in Hi. destruct Hi as [Hi|[<-|[]]]; [|congruence].
          unfold wn; cbn [set_props w_props]. rewrite lookup_bind_other by assumption. specialize (HE q Hi).
          pose proof (V3 q) as Evq. unfold values in Evq. destruct (lookup (w_props w3) q); [discriminate|]. destruct (lookup (w_props w) q); [discriminate Evq|contradiction]. }
      (* another evaluator: the registry of ev is as it was, and nobody registered with ev reads the fresh property *)
      unfold LREG in HREG |- *. rewrite Ev7, nth_upd_other by exact Nev.
      destruct (nth_error (w_evps w) ev) as [st0|] eqn:Hst0; [|exact I]. destruct HREG as (ND & HCr & HB & HE).
      assert (Er : regs_of w7 (ep_registry st0) = regs_of w (ep_registry st0)).
      { unfold regs_of. apply flat_map_ext_in'. intros rb Hi. rewrite (Lz7 _ (HB rb Hi)). reflexivity. }
      rewrite Er.
      assert (Hpn7 : forall q, In q (regs_of w (ep_registry st0)) -> q <> p) by (intros q Hq ->; exact (HE p Hq Hp)).
      split; [exact ND|]. split; [|split].
      + assert (Same : forall regs, (forall q, In q regs -> q <> p) -> lchain w regs -> lchain w7 regs).
        { induction regs as [|q r IHr]; cbn [lchain]; intros Hne HCr'; [exact I|]. destruct HCr' as [HA HCr'].
          split; [|apply IHr; [intros q' Hq'; apply Hne; right; exact Hq'|exact HCr']].
          intros x lf p' Hx Hi Ht. rewrite (IOq q (Hne q (or_introl eq_refl))) in Hx. exact (HA x lf p' Hx Hi Ht). }
        apply Same; [exact Hpn7|exact HCr].
      + intros rb Hi. rewrite Len7. specialize (HB rb Hi). unfold b0 in *. lia.
      + intros q Hi. rewrite L7. destruct (Nat.eqb_spec q p) as [->|Hqp]; [exfalso; exact (Hpn7 p Hi eq_refl)|].
        unfold wn; cbn [set_props w_props]. rewrite lookup_bind_other by exact Hqp. specialize (HE q Hi).
        pose proof (V3 q) as Evq. unfold values in Evq. destruct (lookup (w_props w3) q); [discriminate|]. destruct (lookup (w_props w) q); [discriminate Evq|contradiction]. }
    destruct fuel as [|f]; [cbn [set_helper] in H; discriminate H|].
    destruct (lazy_assignment fn rtl ev f w7 p v w' SC7 (LCOH_of_LSND w7 Hinv7 SND7) H) as (A1 & A2 & A3 & _).
    split; [exact A1|]. split; [apply LSND_of_LCOH; exact A2|]. exact (LREG_REQ w7 w' (REQ_LFR w7 w' A3 (LFR_props_dom w7 w' A3)) REG7).
  Qed.

  (* ---- histories ---- *)
  Definition grow_op_lazy (w : world) (o : op) : Prop :=
    match o with
    | PNew _ _ | PSet _ _ _ | PGet _ | PHasBinding _ | BevCopy _ _ => True
    | PObserve _ _ _ _ None => True
    | BevNew _ => True
    (* through ev or through any other explicit evaluator (index 0 is the immediate one) *)
    | PBind p _ (MEvaluator e0) => lookup (w_props w) p = None /\ match lookup (w_bevs w) e0 with Some ev' => Nat.eqb ev' 0 = false | None => False end
    | BevEvalAll e0 => match lookup (w_bevs w) e0 with Some ev' => Nat.eqb ev' 0 = false | None => False end
    | _ => False
    end.

  Lemma LSC_views w w' : views_eq w w' -> (forall b, get_bind w' b = get_bind w b) -> w_props w' = w_props w -> LSC w -> LSC w'.
  Proof.
    intros V G P (Hinv & Hna & Hsi & Hal). split; [eapply pinv_views; eauto|]. split; [|split].
    - intros t pos ser label act Hs. destruct V as (_ & T & _). unfold slot_at in Hs. rewrite T in Hs. eapply Hna; eauto.
    - intros q x Hx. unfold lz_of in Hx. rewrite P in Hx. destruct (lookup (w_props w) q) as [pr|] eqn:Hq; [|discriminate Hx].
      destruct (pr_updater pr) as [b|] eqn:Hu; [|discriminate Hx]. rewrite G in Hx. apply (Hsi q x). unfold lz_of. rewrite Hq, Hu. exact Hx.
    - split; [exact (proj1 Hal)|]. intros b x Hx. rewrite G in Hx. exact (proj2 Hal _ _ Hx).
  Qed.
  Lemma LSND_views w w' : (forall b, get_bind w' b = get_bind w b) -> w_props w' = w_props w -> LSND w -> LSND w'.
  Proof.
    intros G P (s & (R1 & R2) & HS). exists s. split; [split|exact HS].
    - intros p pr Hp. rewrite P in Hp. auto.
    - intros q. rewrite R2. unfold lz_of. rewrite P. destruct (lookup (w_props w) q) as [pr|]; [|reflexivity]. destruct (pr_updater pr) as [b|]; [|reflexivity]. rewrite G. reflexivity.
  Qed.

  Lemma lchain_ext w w' : (forall q, lz_of w' q = lz_of w q) -> forall regs, lchain w regs -> lchain w' regs.
  Proof.
    intros E. induction regs as [|q r IH]; cbn [lchain]; [auto|]. intros [HA HC]. split; [|auto]. intros x lf p Hx. rewrite E in Hx. eauto.
  Qed.
  Lemma regs_of_ext w w' l : (forall b, lz w' b = lz w b) -> regs_of w' l = regs_of w l.
  Proof. intros E. unfold regs_of. apply flat_map_ext. intros rb. rewrite E. reflexivity. Qed.

  Lemma REQ_same w w' :
    w_evps w' = w_evps w -> w_binds w' = w_binds w -> (forall q, lz_of w' q = lz_of w q) ->
    (forall q, lookup (w_props w) q <> None -> lookup (w_props w') q <> None) -> REQ w w'.
  Proof.
    intros E1 E2 E3 E4. split; [exact E1|]. split; [rewrite E2; reflexivity|]. split; [intros b; unfold lz, get_bind; rewrite E2; reflexivity|]. split; [|exact E4].
    intros q x' Hx'. rewrite E3 in Hx'. eauto.
  Qed.

  Theorem lazy_grow_step f w o w' :
    LSC w -> LSND w -> LREG w -> grow_op_lazy w o -> step1 fn rtl (S f) w o = (w', None) -> LSC w' /\ LSND w' /\ LREG w'.
  Proof.
    intros HSC HS HR Ho H. destruct o; cbn [grow_op_lazy] in Ho; try (exfalso; exact Ho).
    - cbn [step1] in H. destruct (lookup (w_props w) p) eqn:Hp; [discriminate H|]. inversion H; subst.
      destruct (grow_new_lazy w p v HSC HS Hp) as [A1 A2]. split; [exact A1|]. split; [exact A2|].
      apply (LREG_REQ w); [|exact HR]. apply REQ_same; try reflexivity.
      + intros q. unfold lz_of; cbn [set_props w_props]. rewrite lookup_bind. destruct (Nat.eqb_spec q p) as [->|]; [rewrite Hp; reflexivity|reflexivity].
      + intros q Hq. cbn [set_props w_props]. rewrite lookup_bind. destruct (Nat.eqb q p); [discriminate|exact Hq].
    - pose proof H as H'. cbn [step1] in H'. destruct (lookup (w_props w) p) as [pr|] eqn:Hp; [|discriminate H']. destruct (pr_updater pr) eqn:Hu; [discriminate H'|].
      destruct (lazy_assignment fn rtl ev f w p v w' HSC (LCOH_of_LSND w (proj1 HSC) HS) H') as (A1 & A2 & A3 & _).
      split; [exact A1|]. split; [apply LSND_of_LCOH; exact A2|]. exact (LREG_REQ w w' (REQ_LFR w w' A3 (LFR_props_dom w w' A3)) HR).
    - cbn [step1] in H. destruct (lookup (w_props w) p); [|discriminate H]. inversion H; subst.
      split; [eapply (LSC_views w); eauto; apply views_log|]. split; [eapply (LSND_views w); eauto|]. apply (LREG_REQ w); [|exact HR]. apply REQ_same; auto.
    - cbn [step1] in H. destruct (lookup (w_props w) p); [|discriminate H]. inversion H; subst.
      split; [eapply (LSC_views w); eauto; apply views_log|]. split; [eapply (LSND_views w); eauto|]. apply (LREG_REQ w); [|exact HR]. apply REQ_same; auto.
    - destruct act; [destruct Ho|]. destruct (grow_observe_lazy (S f) w p k label h w' HSC HS H) as [A1 A2]. split; [exact A1|]. split; [exact A2|].
      cbn [step1] in H. destruct (match k with KMoved => true | _ => false end) eqn:Hk; [destruct k; discriminate|].
      replace (match k, @None (bool * nat) with KMoved, _ => true | KDestroyed, Some _ => true | _, _ => false end) with false in H by (destruct k; reflexivity).
      destruct (subscribe w p k (SObs label None)) as [[w1 hd]|] eqn:Hs; [|discriminate H]. inversion H; subst w'.
      pose proof (subscribe_ext _ _ _ _ _ _ Hs (pi_twf _ _ _ _ _ _ _ (proj1 HSC)) (pi_own _ _ _ _ _ _ _ (proj1 HSC))) as E.
      apply (LREG_REQ w); [|exact HR]. apply REQ_same.
      + exact (se_evps _ _ _ _ _ _ E).
      + exact (se_binds _ _ _ _ _ _ E).
      + intros q. exact (sub_lz_of _ _ _ _ _ _ E q).
      + intros q Hq Hn. apply Hq. assert (Pn : pview w1 q = None) by (unfold pview; cbn [set_obs w_props] in Hn; rewrite Hn; reflexivity).
        apply (se_pdom _ _ _ _ _ _ E) in Pn. unfold pview in Pn. destruct (lookup (w_props w) q); [discriminate Pn|reflexivity].
    - destruct m; [destruct Ho|]. destruct Ho as [Hp He]. destruct (lookup (w_bevs w) e0) as [ev'|] eqn:He0; [|destruct He].
      apply Nat.eqb_neq in He. eapply (grow_bind_lazy (S f) w p e e0 ev'); eauto.
    - cbn [step1] in H. destruct (lookup (w_bevs w) e) eqn:Hb; [discriminate H|]. inversion H; subst.
      split; [eapply (LSC_views w); eauto; repeat split|]. split; [eapply (LSND_views w); eauto|].
      (* a new evaluator: its registry is empty *)
      unfold LREG in *. cbn [set_bevs set_evps w_evps w_binds w_props].
      destruct (Nat.lt_ge_cases ev (length (w_evps w))) as [Hlt|Hge].
      + rewrite nth_error_app1 by exact Hlt. destruct (nth_error (w_evps w) ev) as [st|]; [|exact I]. destruct HR as (R1 & R2 & R3 & R4).
        match goal with |- NoDup (regs_of ?W _) /\ _ => set (W' := W) end.
        rewrite (regs_of_ext w W' (ep_registry st) (fun b => eq_refl)). split; [exact R1|]. split; [apply (lchain_ext w W' (fun q => eq_refl)); exact R2|]. split; [exact R3|exact R4].
      + destruct (Nat.eq_dec ev (length (w_evps w))) as [E|Hne].
        * rewrite nth_error_app2 by lia. rewrite E, Nat.sub_diag. cbn. split; [constructor|]. split; [exact I|]. split; [intros rb []|intros q []].
        * replace (nth_error (w_evps w ++ [{| ep_registry := []; ep_next := 0 |}]) ev) with (@None evpriv); [exact I|]. symmetry. apply nth_error_None. rewrite app_length. cbn. lia.
    - cbn [step1] in H. destruct (lookup (w_bevs w) src), (lookup (w_bevs w) dst); try discriminate H. inversion H; subst.
      split; [eapply (LSC_views w); eauto; repeat split|]. split; [eapply (LSND_views w); eauto|]. apply (LREG_REQ w); [|exact HR]. apply REQ_same; auto.
    - destruct (lookup (w_bevs w) e) as [ev'|] eqn:He0; [|destruct Ho]. apply Nat.eqb_neq in Ho.
      pose proof H as H'. cbn [step1] in H'. rewrite He0 in H'. destruct (nth_error (w_evps w) ev') as [st|] eqn:Hst; [|discriminate H'].
      assert (HSC' : PropSimLazy.LSC ev' w) by (destruct HSC as (B1 & B2 & B3 & B4 & B5); exact (conj B1 (conj B2 (conj B3 (conj Ho B5))))).
      destruct (lazy_evalall_keeps fn rtl ev' (S f) w e st w' HSC' (LCOH_of_LSND w (proj1 HSC) HS) He0 Hst H) as (A1 & A2 & A3).
      split; [destruct A1 as (B1 & B2 & B3 & _ & B5); exact (conj B1 (conj B2 (conj B3 (conj ev_pos B5))))|].
      split; [apply LSND_of_LCOH; exact A2|]. exact (LREG_REQ w w' (REQ_LFR w w' A3 (LFR_props_dom w w' A3)) HR).
  Qed.

  Fixpoint lazy_run_ok (f : nat) (w : world) (ops : list op) : Prop :=
    match ops with
    | [] => True
    | o :: r => grow_op_lazy w o /\ snd (step1 fn rtl (S f) w o) = None /\ lazy_run_ok f (step fn rtl (S f) w o) r
    end.

  Lemma LSC_world0 : LSC world0.
  Proof.
    destruct SC_world0 as (A1 & A2 & _). split; [exact A1|]. split; [exact A2|]. split; [intros q x E; discriminate E|].
    split; [exact ev_pos|]. intros b x E. unfold get_bind in E. cbn in E. rewrite nth_nil in E. discriminate E.
  Qed.
  Lemma LSND_world0 : LSND world0.
  Proof.
    exists {| L.lenv := fun _ => 0%Z; L.ltr := fun _ => None |}. split; [split; [intros p pr E; discriminate E|intros q; reflexivity]|intros q t E; discriminate E].
  Qed.
  Lemma LREG_world0 : LREG world0.
  Proof.
    unfold LREG. cbn [world0 w_evps]. destruct ev as [|[|n]]; cbn; [contradiction|exact I|exact I].
  Qed.

  Theorem lazy_grow_coherent f : forall ops w, LSC w -> LSND w -> LREG w -> lazy_run_ok f w ops ->
    LSC (fold_left (step fn rtl (S f)) ops w) /\ LSND (fold_left (step fn rtl (S f)) ops w) /\ LREG (fold_left (step fn rtl (S f)) ops w).
  Proof.
    induction ops as [|o r IH]; intros w HSC HS HR Hok; cbn [fold_left]; [auto|]. destruct Hok as (Ho & Hn & Hr).
    unfold step in *. destruct (step1 fn rtl (S f) w o) as [w1 e] eqn:E. cbn [snd] in Hn. subst e.
    destruct (lazy_grow_step f w o w1 HSC HS HR Ho E) as (SC1 & S1 & R1).
    apply IH; [| | |exact Hr].
    - eapply (LSC_views w1); eauto. apply views_log.
    - exact S1.
    - apply (LREG_REQ w1); [|exact R1]. apply REQ_same; auto.
  Qed.

  (* C06 end to end: after any history of a growing network of evaluator-driven bindings, ONE evaluateAll makes every registered bound
     property equal to its expression recomputed from scratch (in such a network registration order is dependency order) *)
  Theorem lazy_reachable_one_pass f ops e w' :
    lazy_run_ok f world0 ops ->
    let w := run fn rtl (S f) ops in
    lookup (w_bevs w) e = Some ev ->
    step1 fn rtl (S f) w (BevEvalAll e) = (w', None) ->
    forall st, nth_error (w_evps w) ev = Some st ->
    forall q x pr z, In q (regs_of w (ep_registry st)) -> lz_of w' q = Some x -> lookup (w_props w') q = Some pr ->
      PropCheck.den_node fn (values w') (b_root x) = Some z -> pr_value pr = z.
  Proof.
    intros Hok w He H st Hst. destruct (lazy_grow_coherent f ops world0 LSC_world0 LSND_world0 LREG_world0 Hok) as (HSC & HS & HR).
    change (LSC w) in HSC. change (LSND w) in HS. change (LREG w) in HR. unfold LREG in HR. rewrite Hst in HR. destruct HR as (ND & HC & _ & _).
    destruct (lazy_evalall_consistent fn rtl ev (S f) w e st w' HSC (LCOH_of_LSND w (proj1 HSC) HS) He Hst ND HC H) as (_ & _ & R). exact R.
  Qed.
End GrowLazy.
