(* C05 - Deferred connections: queued at emit, run once in order when evaluated. *)
From KDB Require Import Util GenIdx GenIdxProofs SigDefs SigInv SigTheorems SigEmit SigDisc.

(* emit only queues: what an unblocked deferred connection (not disconnected earlier in the same emission) contributes to an emission is the evaluator's
   "invocation added" notification and no slot call (C01_emit_exact gives the whole emission) *)
Theorem C05_emit_only_queues :
  forall i args k c e, c_kind c = KDeferred e -> c_blocked c = false -> c_tbd c = false -> fire_events i args (k, c) = [EvAdded e].
Proof. intros i args k c e Hk Hb Ht. unfold fire_events. rewrite Hb, Ht, Hk. reflexivity. Qed.
Print Assumptions C05_emit_only_queues.

(* a pass runs every queued invocation exactly once, in queue (= emission) order, with the argument values stored
   at emit time, and leaves the queue empty *)
Theorem C05_pass_runs_queue_fifo_once :
  forall pf w e s,
    lookup (w_evs w) e = Some s -> e_alive s = true -> e_evaluating s = false -> length (e_queue s) < pf ->
    exists w', eval_pass pf quietR w e = (w', None) /\
               w_trace w' = rev (map pass_event (e_queue s)) ++ w_trace w /\
               lookup (w_evs w') e = Some {| e_alive := true; e_queue := []; e_evaluating := false |} /\
               w_impls w' = w_impls w.
Proof. exact pass_runs_queue_once. Qed.
Print Assumptions C05_pass_runs_queue_fifo_once.

Theorem C05_second_pass_runs_nothing :
  forall pf w e, 0 < pf ->
    lookup (w_evs w) e = Some {| e_alive := true; e_queue := []; e_evaluating := false |} ->
    exists w', eval_pass pf quietR w e = (w', None) /\ w_trace w' = w_trace w.
Proof. exact second_pass_runs_nothing. Qed.
Print Assumptions C05_second_pass_runs_nothing.

(* disconnect (any route, outside a pass) cancels the queued invocations of that connection and no other *)
Theorem C05_cancel :
  forall w e i k s m,
    lookup (w_evs w) e = Some s -> e_alive s = true -> e_evaluating s = false ->
    get_impl w i = Some m -> i_alive m = true ->
    exists s', lookup (w_evs (ev_dequeue w e {| h_impl := Some i; h_id := Some k |})) e = Some s' /\
               (forall v, ~ In ({| h_impl := Some i; h_id := Some k |}, v) (e_queue s')) /\
               (forall p, In p (e_queue s') -> In p (e_queue s)).
Proof. exact dequeue_removes. Qed.
Print Assumptions C05_cancel.

Theorem C05_nested_evaluate_noop :
  forall pf R w e s, lookup (w_evs w) e = Some s -> e_alive s = true -> e_evaluating s = true ->
    eval_pass pf R w e = (w, None).
Proof. exact nested_evaluate_noop. Qed.
Print Assumptions C05_nested_evaluate_noop.

(* a pass whose slots are ARBITRARY scripts (they may emit deferred signals of the same evaluator, disconnect, destroy or move
   signals, ask for nested passes ...), started in any reachable world: if it returns normally, what it wrote to the trace is
   [runs (queue at the start ++ extra)]: its own invocation of every element of the queue as it stood at the start AND of
   everything the slots queued meanwhile (extra), each once, in queue order, each followed by what its body wrote; the pass ends
   with the queue empty and the flag down, so none of them can run again (SigDisc.runs, SigDisc.pass_reentrant) *)
Theorem C05_pass_with_reentrant_slots :
  forall tbl pf fuel ops d e s w',
    let w := run tbl pf fuel ops in
    lookup (w_evs w) e = Some s -> e_alive s = true -> e_evaluating s = false ->
    eval_pass pf (script tbl pf d) w e = (w', None) ->
    exists extra l, w_trace w' = l ++ w_trace w /\ runs (e_queue s ++ extra) l /\
                    lookup (w_evs w') e = Some {| e_alive := true; e_queue := []; e_evaluating := false |}.
Proof. intros tbl pf fuel ops d e s w' w. exact (pass_reentrant pf _ w e s w' (script_good tbl pf d) (run_winv tbl pf fuel ops)). Qed.
Print Assumptions C05_pass_with_reentrant_slots.

(* for slots that write nothing this is the FIFO statement above *)
Theorem C05_runs_of_quiet_slots : forall q, runs q (rev (map pass_event q)).
Proof. exact runs_quiet. Qed.
Print Assumptions C05_runs_of_quiet_slots.

(* with ARBITRARY re-entrant slot bodies: after every top-level call no evaluator is left evaluating, and (because the
   queue is cleared when the outermost pass ends) whatever was disconnected inside a pass is gone with it *)
Theorem C05_no_pass_left_open :
  forall tbl pf fuel ops e s, lookup (w_evs (run tbl pf fuel ops)) e = Some s -> e_evaluating s = false.
Proof. intros tbl pf fuel ops e s H. exact (proj2 (run_healthy tbl pf fuel ops) e s H). Qed.
Print Assumptions C05_no_pass_left_open.

(* non-vacuity, re-entrant: a deferred slot emits a deferred signal of the same evaluator: runs in the same pass, once *)
Example C05_example :
  let tbl := fun sid => match sid with 1 => [OEmit 1 [9%Z]] | _ => [] end in
  let w := run tbl 50 4 [OSigNew 0 1; OSigNew 1 1; OEvNew 0; OConnectD 1 0 100 0 0; OConnectD 0 1 101 1 0;
                         OEmit 0 [7%Z]; OEval 0; OEval 0] in
  firstn 6 (w_trace w) = [EvDone None; EvDone None;
                          EvSlot (Some (0, {| gi_index := 0; gi_gen := 0 |})) false 100 [9%Z]; EvAdded 0;
                          EvSlot (Some (1, {| gi_index := 0; gi_gen := 0 |})) false 101 [7%Z]; EvDone None].
Proof. vm_compute. reflexivity. Qed.
