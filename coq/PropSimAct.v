(* Refinement with ACTING OBSERVERS: the executable Property::setHelper is the abstract assignment of coq/PropAbsAct.v on worlds whose
   acting observers are subscribers of valueChanged that assign the announced value to another property (`pobsset ... 1 ...` of the
   scripts: q.set(v) from inside the slot).  Everything else is as in coq/PropSim.v (whose lemmas are reused; the leaf case of the
   delivery lemma is the same proof).  Consequence: coherence (PropSim.COH - the very same notion: the leaf subscribers of ORD' are ORD)
   is kept by every assignment that returns normally, so C02 holds for networks WITH such observers on the executable model.
   Not covered: observers of valueAboutToChange that write, observers that reset() bindings. *)
From Coq Require Import List Arith ZArith Lia Bool.
Import ListNotations.
From KDB Require Import Util UtilProofs PropDefs PropFlags PropLink PropLinkBasics PropLinkOps PropLinkTheorems PropSim.
From KDB Require PropAbs PropAbsProofs PropAbsAct PropProofs.
Module C := PropAbsAct.

Section SimAct.
  Variable fn : nat -> list Z -> option Z.
  Variable rtl : bool.
  Notation F1 := (PropSim.F1 fn).
  Notation F2 := (PropSim.F2 fn).
  Notation F3 := (PropSim.F3 fn).
  Notation abs_tree := PropSim.abs_tree.
  Notation Rel := PropSim.Rel.
  Notation FR := PropSim.FR.
  Notation SIMPLE := PropSim.SIMPLE.
  Notation imm := PropSim.imm.
  Notation imm_of := PropSim.imm_of.

  (* every acting observer assigns (does not reset) and sits in the valueChanged table of some property *)
  Definition ACTC (w : world) : Prop :=
    forall t pos ser label a, slot_at w t pos ser (SObs label (Some a)) -> exists tgt p, a = (false, tgt) /\ owns w p KChanged t.
  Definition SCA (w : world) : Prop := pinv w /\ ACTC w /\ SIMPLE w.

  (* the abstract subscriber a slot stands for *)
  Definition sub_of (w : world) (x : option (option (nat * subscriber))) : list C.sub :=
    match x with
    | Some (Some (_, SNode b l)) => match imm w b with Some q => [C.SLeaf q l] | None => [] end
    | Some (Some (_, SObs _ (Some (false, tgt)))) => match pview w tgt with Some _ => [C.SAct tgt] | None => [] end
    | _ => []
    end.
  Definition ord_slots' (w : world) (sl : list (option (nat * subscriber))) (idxs : list nat) : list C.sub :=
    flat_map (fun x => sub_of w (nth_error sl x)) idxs.
  Definition ORD' (w : world) (p : nat) : list C.sub :=
    match pview w p with
    | Some v => match ps_changed v with
                | Some t => match tview w t with Some (sl, _, _) => ord_slots' w sl (seq 0 (length sl)) | None => [] end
                | None => [] end
    | None => [] end.

  Lemma leafsubs_app a b : C.leafsubs (a ++ b) = C.leafsubs a ++ C.leafsubs b.
  Proof. unfold C.leafsubs. apply flat_map_app. Qed.

  Lemma leafsubs_ord_slots w sl : forall idxs, C.leafsubs (ord_slots' w sl idxs) = PropSim.ord_slots w sl idxs.
  Proof.
    induction idxs as [|x r IH]; cbn [ord_slots' PropSim.ord_slots flat_map]; [reflexivity|]. rewrite leafsubs_app. fold (ord_slots' w sl r). rewrite IH. f_equal.
    unfold sub_of. destruct (nth_error sl x) as [[[ser [label [[[|] tgt]|]|b l]]|]|]; cbn; try reflexivity.
    - destruct (pview w tgt); reflexivity.
    - destruct (imm w b); reflexivity.
  Qed.

  (* the leaf subscribers of ORD' are exactly ORD: coherence is the same notion as in PropSim.v *)
  Lemma lorder_ORD' w p : C.lorder (ORD' w) p = PropSim.ORD w p.
  Proof.
    unfold C.lorder, ORD', PropSim.ORD. destruct (pview w p) as [v|]; [|reflexivity]. destruct (ps_changed v) as [t|]; [|reflexivity].
    destruct (tview w t) as [[[sl fr] al]|]; [|reflexivity]. apply leafsubs_ord_slots.
  Qed.

  Lemma ord_slots'_FR w w' sl idxs : FR w w' -> ord_slots' w' sl idxs = ord_slots' w sl idxs.
  Proof.
    intros (A1 & _ & A3 & _). unfold ord_slots'. apply flat_map_ext. intros x. unfold sub_of.
    destruct (nth_error sl x) as [[[ser [label [[[|] tgt]|]|b l]]|]|]; try reflexivity; [rewrite A3|rewrite A1]; reflexivity.
  Qed.
  Lemma FR_ORD' w w' p : FR w w' -> ORD' w' p = ORD' w p.
  Proof.
    intros F. pose proof F as (A1 & A2 & A3 & _). unfold ORD'. rewrite A3. destruct (pview w p) as [v|]; [|reflexivity]. destruct (ps_changed v) as [t|]; [|reflexivity].
    rewrite A2. destruct (tview w t) as [[[sl fr] al]|]; [|reflexivity]. apply ord_slots'_FR. exact F.
  Qed.

  Lemma SCA_FR w w' : FR w w' -> pinv w -> ACTC w -> pinv w' /\ ACTC w'.
  Proof.
    intros F Hinv Hn. split; [eapply pinv_views; [apply PropSim.FR_views; exact F|exact Hinv]|].
    intros t pos ser label a Hs. destruct F as (_ & T & P & _). unfold slot_at in Hs. rewrite T in Hs.
    destruct (Hn t pos ser label a Hs) as (tgt & p & E & (v & Pv & Sv)). exists tgt, p. split; [exact E|]. exists v. rewrite P. auto.
  Qed.

  Section DeliverA.
    Variable order' : nat -> list C.sub.
    Variable f : nat.
    Variable R : world -> nat -> Z -> res.
    Notation N := (C.notify' F1 F2 F3 order' f).
    Definition ORDOK' (w : world) : Prop := forall p, order' p = ORD' w p.
    Lemma ORDOK'_FR w w' : FR w w' -> ORDOK' w -> ORDOK' w'.
    Proof. intros F H p. rewrite (FR_ORD' _ _ p F). apply H. Qed.
    Hypothesis HR : forall w q v w' s, SCA w -> ORDOK' w -> Rel w s -> R w q v = (w', None) ->
                      SCA w' /\ FR w w' /\ Rel w' (C.set' F1 F2 F3 order' f s q v).

    Definition adeliver' (w : world) (s : A.state) (v0 : Z) (sub : subscriber) : A.state :=
      match sub with
      | SNode b l => match imm w b with Some q => A.deliver F1 F2 F3 (C.nrec2 N) s (q, l) | None => s end
      | SObs _ (Some (false, tgt)) => match pview w tgt with Some _ => C.act N s v0 tgt | None => s end
      | SObs _ _ => s
      end.

    Lemma Rel_log w s ev : Rel w s -> Rel (log ev w) s.
    Proof. intros H. exact H. Qed.

    Lemma sim_deliver' w s p v0 sub w' :
      SCA w -> ORDOK' w -> Rel w s ->
      (forall label a, sub = SObs label (Some a) -> exists tgt, a = (false, tgt)) ->
      deliver fn rtl R w p KChanged [v0] sub = (w', None) ->
      SCA w' /\ FR w w' /\ Rel w' (adeliver' w s v0 sub).
    Proof.
      intros (Hinv & Hna & Hsi) Hord HRel Hact H. destruct sub as [label act|b l]; cbn [deliver adeliver'] in *.
      - assert (SCl : SCA (log (EvNotify label KChanged [v0] (values w p)) w)).
        { split; [exact (pinv_views _ _ (views_log _ w) Hinv)|split; [exact Hna|exact Hsi]]. }
        assert (FRl : FR w (log (EvNotify label KChanged [v0] (values w p)) w)) by (repeat split).
        destruct act as [[[|] tgt]|].
        + destruct (Hact _ _ eq_refl) as (tgt' & E). discriminate E.
        + (* the observer assigns the announced value to tgt *)
          change (lookup (w_props (log (EvNotify label KChanged [v0] (values w p)) w)) tgt) with (lookup (w_props w) tgt) in H.
          unfold pview. destruct (lookup (w_props w) tgt) as [pr|] eqn:Hp.
          * destruct (pr_updater pr) as [bu|] eqn:Hu; [discriminate H|].
            destruct (HR _ _ _ _ _ SCl (ORDOK'_FR _ _ FRl Hord) (Rel_log w s _ HRel) H) as (SC' & FR' & Rel').
            split; [exact SC'|]. split; [eapply PropSim.FR_trans; [exact FRl|exact FR']|].
            destruct HRel as (R1 & R2 & R3). unfold C.act. rewrite R3, R2. unfold imm_of. rewrite Hp, Hu.
            unfold C.set' in Rel'. rewrite R3 in Rel'. exact Rel'.
          * inversion H; subst w'. split; [exact SCl|]. split; [exact FRl|exact HRel].
        + inversion H; subst w'. split; [exact SCl|]. split; [exact FRl|exact HRel].
      - destruct (get_bind w b) as [x|] eqn:Hb; [|discriminate H].
        destruct (mark (b_root x) l) as [[t1 up]|] eqn:Hm; [|discriminate H].
        pose proof (leaves_mark _ _ _ _ Hm) as Hl1.
        set (w1 := put_bind w b (bind_with_root x t1)) in *.
        pose proof (PropSim.put_root_FR w b x t1 Hb Hl1) as FR1.
        destruct (SCA_FR _ _ FR1 Hinv Hna) as [Hinv1 Hna1].
        destruct (imm w b) as [q|] eqn:Hi.
        + (* an immediate-mode binding that updates q *)
          assert (Hevp : Nat.eqb (b_evp x) 0 = true /\ b_target x = Some q).
          { unfold imm in Hi. rewrite Hb in Hi. destruct (Nat.eqb (b_evp x) 0); [auto|discriminate Hi]. }
          destruct Hevp as [Hevp Htg].
          assert (Bv : bview w b = Some (leaves (b_root x), Some q)) by (unfold bview; rewrite Hb, Htg; reflexivity).
          destruct (pi_tgt _ _ _ _ _ _ _ Hinv _ _ _ Bv) as (vq & Evq & Euq).
          assert (Himm : imm_of w q = Some x).
          { unfold imm_of. unfold pview in Evq. destruct (lookup (w_props w) q) as [pr|]; [|discriminate Evq]. assert (vq = psigs_of pr) by congruence. subst vq.
            cbn in Euq. rewrite Euq, Hb, Hevp. reflexivity. }
          destruct HRel as (R1 & R2 & R3).
          destruct (abs_tree (b_root x)) as [T|] eqn:HT; [|exfalso; exact (Hsi _ _ Himm HT)].
          assert (Htr : A.tr s q = Some T) by (rewrite R2, Himm; exact HT).
          destruct (PropSim.sim_mark fn _ _ _ _ _ HT (PropSim.abs_nodup _ _ _ _ Hinv Hb HT) Hm) as [Et1 Eup].
          unfold A.deliver. rewrite R3, Htr. destruct (A.mark T l) as [T1 up'] eqn:HmT. cbn [fst snd] in *. subst up'.
          assert (Hsi1 : forall t T', abs_tree t = Some T' -> leaves t = leaves (b_root x) -> SIMPLE (put_bind w b (bind_with_root x t))).
          { intros t T' Ht _ q' x' Hx'. unfold imm_of in Hx'. change (w_props (put_bind w b (bind_with_root x t))) with (w_props w) in Hx'.
            destruct (lookup (w_props w) q') as [pr'|] eqn:Hp'; [|discriminate Hx']. destruct (pr_updater pr') as [b'|] eqn:Hu'; [|discriminate Hx'].
            rewrite (PropSim.get_bind_put_root _ _ _ _ _ Hb) in Hx'. destruct (Nat.eqb_spec b b') as [<-|Hne].
            - cbn [bind_with_root b_evp] in Hx'. rewrite Hevp in Hx'. inversion Hx'; subst. cbn [bind_with_root b_root]. congruence.
            - apply (Hsi q' x'). unfold imm_of. rewrite Hp', Hu'. exact Hx'. }
          destruct up.
          * (* the walk reached the root: Binding::markDirty evaluates at once *)
            rewrite Hevp in H. unfold binding_evaluate in H.
            assert (Hb1 : get_bind w1 b = Some (bind_with_root x t1)) by (unfold w1; rewrite (PropSim.get_bind_put_root _ _ _ _ _ Hb), Nat.eqb_refl; reflexivity).
            rewrite Hb1 in H. cbn [bind_with_root b_root b_target] in H.
            destruct (eval fn rtl (values w1) t1) as [[t2 r] lg] eqn:He. destruct r as [v'|ex]; [|discriminate H].
            rewrite Htg in H.
            assert (Rel1 : Rel w1 {| A.env := A.env s; A.tr := A.set_tr (A.tr s) q T1; A.oof := false |}).
            { apply (PropSim.put_root_Rel_imm w s b x t1 T1 q Hinv (conj R1 (conj R2 R3)) Hb Hi Et1). }
            assert (Hval : forall p0 lid, In (p0, lid) (A.leaves T1) -> values w1 p0 = Some (A.env s p0)).
            { intros p0 lid Hin. change (values w1 p0) with (values w p0). eapply (PropSim.values_env w s p0 lid T b x Hinv (conj R1 (conj R2 R3)) Hb HT).
              pose proof (PropAbsProofs.mark_leaves T l) as ML. rewrite HmT in ML. cbn [fst] in ML. rewrite <- ML. exact Hin. }
            destruct (PropSim.sim_eval fn rtl (values w1) (A.env s) t1 T1 t2 v' lg Et1 Hval He) as [Et2 Ev'].
            destruct (A.eval F1 F2 F3 (A.env s) T1) as [T2 vT] eqn:HeT. cbn [fst snd] in *. subst vT.
            pose proof (leaves_eval fn rtl (values w1) t1) as Hl2. rewrite He in Hl2. cbn [fst] in Hl2.
            set (w2 := log_fns lg (put_bind w1 b (bind_with_root (bind_with_root x t1) t2))) in *.
            assert (Eq2 : put_bind w1 b (bind_with_root (bind_with_root x t1) t2) = put_bind w b (bind_with_root x t2)).
            { unfold w1, put_bind; cbn [set_binds w_binds w_tables w_props w_evps w_bevs w_obs w_held w_serial w_trace bind_with_root b_root b_evp b_regid b_target b_alive].
              rewrite upd_upd. reflexivity. }
            assert (Hl2' : leaves t2 = leaves (b_root x)) by congruence.
            pose proof (PropSim.put_root_FR w b x t2 Hb Hl2') as FR2.
            assert (FR2' : FR w w2) by (eapply PropSim.FR_trans; [exact FR2|]; unfold w2; rewrite Eq2; apply PropSim.FR_log_fns).
            destruct (SCA_FR _ _ FR2' Hinv Hna) as [Hinv2 Hna2].
            assert (Rel2 : Rel w2 {| A.env := A.env s; A.tr := A.set_tr (A.tr s) q T2; A.oof := false |}).
            { unfold w2. rewrite Eq2. apply PropSim.Rel_log_fns. apply (PropSim.put_root_Rel_imm w s b x t2 T2 q Hinv (conj R1 (conj R2 R3)) Hb Hi Et2). }
            assert (Hsi2 : SIMPLE w2) by (unfold w2; rewrite Eq2; apply PropSim.SIMPLE_log_fns; exact (Hsi1 t2 T2 Et2 Hl2')).
            destruct (HR _ _ _ _ _ (conj Hinv2 (conj Hna2 Hsi2)) (ORDOK'_FR _ _ FR2' Hord) Rel2 H) as (SC' & FR' & Rel').
            split; [exact SC'|]. split; [eapply PropSim.FR_trans; eauto|].
            unfold C.set' in Rel'. cbn [A.env A.tr A.oof] in Rel'.
            destruct (Z.eqb v' (A.env s q)); [exact Rel'|]. unfold C.nrec2. cbn [A.env]. unfold A.set_env at 2. rewrite Nat.eqb_refl. exact Rel'.
          * (* the walk stopped at a node that was dirty already *)
            inversion H; subst w'. split; [exact (conj Hinv1 (conj Hna1 (Hsi1 t1 T1 Et1 Hl1)))|]. split; [exact FR1|].
            apply (PropSim.put_root_Rel_imm w s b x t1 T1 q Hinv (conj R1 (conj R2 R3)) Hb Hi Et1).
        + (* an evaluator-driven binding, or a binding that updates nothing *)
          assert (Hsi1 : forall t, SIMPLE (put_bind w b (bind_with_root x t))).
          { intros t q' x' Hx'. unfold imm_of in Hx'. change (w_props (put_bind w b (bind_with_root x t))) with (w_props w) in Hx'.
            destruct (lookup (w_props w) q') as [pr'|] eqn:Hp'; [|discriminate Hx']. destruct (pr_updater pr') as [b'|] eqn:Hu'; [|discriminate Hx'].
            rewrite (PropSim.get_bind_put_root _ _ _ _ _ Hb) in Hx'. destruct (Nat.eqb_spec b b') as [<-|Hne].
            - exfalso. cbn [bind_with_root b_evp] in Hx'. destruct (Nat.eqb (b_evp x) 0) eqn:Eevp; [|discriminate Hx'].
              assert (Pv' : pview w q' = Some (psigs_of pr')) by (unfold pview; rewrite Hp'; reflexivity).
              destruct (pi_upd _ _ _ _ _ _ _ Hinv _ _ _ Pv' Hu' (fun z => z)) as (ls & Eb). unfold bview in Eb. rewrite Hb in Eb.
              unfold imm in Hi. rewrite Hb, Eevp in Hi. congruence.
            - apply (Hsi q' x'). unfold imm_of. rewrite Hp', Hu'. exact Hx'. }
          destruct up.
          * destruct (Nat.eqb (b_evp x) 0) eqn:Eevp.
            -- (* immediate, but the update function is the default one: evaluate, nothing else *)
               unfold binding_evaluate in H.
               assert (Hb1 : get_bind w1 b = Some (bind_with_root x t1)) by (unfold w1; rewrite (PropSim.get_bind_put_root _ _ _ _ _ Hb), Nat.eqb_refl; reflexivity).
               rewrite Hb1 in H. cbn [bind_with_root b_root b_target] in H.
               destruct (eval fn rtl (values w1) t1) as [[t2 r] lg] eqn:He. destruct r as [v'|ex]; [|discriminate H].
               assert (Htg : b_target x = None) by (unfold imm in Hi; rewrite Hb, Eevp in Hi; exact Hi). rewrite Htg in H. inversion H; subst w'.
               pose proof (leaves_eval fn rtl (values w1) t1) as Hl2. rewrite He in Hl2. cbn [fst] in Hl2.
               assert (Eq2 : put_bind w1 b (bind_with_root (bind_with_root x t1) t2) = put_bind w b (bind_with_root x t2)).
               { unfold w1, put_bind; cbn [set_binds w_binds w_tables w_props w_evps w_bevs w_obs w_held w_serial w_trace bind_with_root b_root b_evp b_regid b_target b_alive].
                 rewrite upd_upd. reflexivity. }
               rewrite Eq2. assert (Hl2' : leaves t2 = leaves (b_root x)) by congruence.
               pose proof (PropSim.put_root_FR w b x t2 Hb Hl2') as FR2.
               assert (FR2' : FR w (log_fns lg (put_bind w b (bind_with_root x t2)))) by (eapply PropSim.FR_trans; [exact FR2|apply PropSim.FR_log_fns]).
               destruct (SCA_FR _ _ FR2' Hinv Hna) as [Hinv2 Hna2].
               split; [split; [exact Hinv2|split; [exact Hna2|apply PropSim.SIMPLE_log_fns; apply Hsi1]]|split; [exact FR2'|]].
               apply PropSim.Rel_log_fns. apply (PropSim.put_root_Rel_other w s b x t2 Hinv HRel Hb Hi).
            -- inversion H; subst w'. split; [exact (conj Hinv1 (conj Hna1 (Hsi1 t1)))|]. split; [exact FR1|].
               apply (PropSim.put_root_Rel_other w s b x t1 Hinv HRel Hb Hi).
          * inversion H; subst w'. split; [exact (conj Hinv1 (conj Hna1 (Hsi1 t1)))|]. split; [exact FR1|].
            apply (PropSim.put_root_Rel_other w s b x t1 Hinv HRel Hb Hi).
    Qed.

    Lemma sim_walk' t p v0 sl fr al : forall idxs w s w',
      SCA w -> ORDOK' w -> Rel w s -> tview w t = Some (sl, fr, al) ->
      walk fn rtl R w t p KChanged [v0] idxs = (w', None) ->
      SCA w' /\ FR w w' /\ Rel w' (fold_left (C.deliver' F1 F2 F3 N v0) (ord_slots' w sl idxs) s).
    Proof.
      induction idxs as [|x r IH]; intros w s w' HSC Hord HRel Ht H; cbn [walk ord_slots' flat_map] in *.
      - inversion H; subst. split; [exact HSC|]. split; [apply PropSim.FR_refl|exact HRel].
      - apply tview_Some in Ht. destruct Ht as (tb & Hgt & Esl & Efr & Eal). rewrite Hgt, Esl in H.
        assert (Tv : tview w t = Some (sl, fr, al)) by (unfold tview; rewrite Hgt; congruence).
        fold (ord_slots' w sl r).
        destruct (nth_error sl x) as [[[ser sub]|]|] eqn:Hx.
        + destruct (deliver fn rtl R w p KChanged [v0] sub) as [w1 [ex|]] eqn:Hd; [discriminate H|].
          destruct (sim_deliver' w s p v0 sub w1 HSC Hord HRel) as (SC1 & FR1 & Rel1); [|exact Hd|].
          { intros label a ->. destruct HSC as (_ & Hna & _). destruct (Hna t x ser label a) as (tgt & p' & E & _); [exists sl, fr, al; auto|]. exists tgt. exact E. }
          assert (Tv1 : tview w1 t = Some (sl, fr, al)) by (destruct FR1 as (_ & T1 & _); rewrite T1; exact Tv).
          destruct (IH w1 _ w' SC1 (ORDOK'_FR _ _ FR1 Hord) Rel1 Tv1 H) as (SC' & FR' & Rel').
          split; [exact SC'|]. split; [eapply PropSim.FR_trans; eauto|].
          rewrite (ord_slots'_FR _ _ sl r FR1) in Rel'. rewrite fold_left_app.
          replace (fold_left (C.deliver' F1 F2 F3 N v0) (sub_of w (Some (Some (ser, sub)))) s) with (adeliver' w s v0 sub); [exact Rel'|].
          unfold sub_of, adeliver'. destruct sub as [label [[[|] tgt]|]|b l]; try reflexivity.
          * destruct (pview w tgt); reflexivity.
          * destruct (imm w b); reflexivity.
        + cbn [sub_of app]. apply IH; auto.
        + cbn [sub_of app]. apply IH; auto.
    Qed.

    Lemma sim_emit_changed' w s p v0 ot w' :
      SCA w -> ORDOK' w -> Rel w s -> (exists vp, pview w p = Some vp /\ ps_changed vp = ot) ->
      emit fn rtl R w ot p KChanged [v0] = (w', None) ->
      SCA w' /\ FR w w' /\ Rel w' (C.notify_body' F1 F2 F3 order' N s p v0).
    Proof.
      intros HSC Hord HRel (vp & Hvp & Hch) H. unfold C.notify_body'. rewrite (Hord p). unfold ORD'. rewrite Hvp, Hch.
      unfold emit in H. destruct ot as [t|]; [|inversion H; subst; split; [exact HSC|split; [apply PropSim.FR_refl|exact HRel]]].
      destruct (get_table w t) as [tb|] eqn:Hgt; [|discriminate H]. destruct (t_emitting tb) eqn:Hem; [discriminate H|].
      assert (Tv : tview w t = Some (t_slots tb, t_free tb, t_alive tb)) by (unfold tview; rewrite Hgt; reflexivity). rewrite Tv.
      set (w1 := put_table w t _) in *.
      pose proof (views_put_flag w t tb true Hgt) as (V1 & V2 & V3 & V4 & V5 & V6 & V7).
      assert (F1' : FR w w1) by (split; [intros b; reflexivity|repeat split; auto]).
      destruct HSC as (Hinv & Hna & Hsi). destruct (SCA_FR _ _ F1' Hinv Hna) as [Hinv1 Hna1].
      assert (Rel1 : Rel w1 s) by exact HRel.
      assert (Tv1 : tview w1 t = Some (t_slots tb, t_free tb, t_alive tb)) by (rewrite V2; exact Tv).
      destruct (walk fn rtl R w1 t p KChanged [v0] (seq 0 (length (t_slots tb)))) as [w2 e2] eqn:Hw.
      destruct e2 as [ex|]; [destruct (get_table w2 t); inversion H|].
      destruct (sim_walk' t p v0 _ _ _ _ w1 s w2 (conj Hinv1 (conj Hna1 Hsi)) (ORDOK'_FR _ _ F1' Hord) Rel1 Tv1 Hw) as (SC2 & FR2 & Rel2).
      rewrite (ord_slots'_FR _ _ _ _ F1') in Rel2.
      destruct (get_table w2 t) as [tb2|] eqn:Hgt2; inversion H; subst w'.
      - pose proof (views_put_flag w2 t tb2 false Hgt2) as (U1 & U2 & U3 & U4 & U5 & U6 & U7).
        assert (F3' : FR w2 (put_table w2 t {| t_slots := t_slots tb2; t_free := t_free tb2; t_emitting := false; t_alive := t_alive tb2 |}))
          by (split; [intros b; reflexivity|repeat split; auto]).
        destruct SC2 as (Hinv2 & Hna2 & Hsi2). destruct (SCA_FR _ _ F3' Hinv2 Hna2) as [Hinv3 Hna3].
        split; [exact (conj Hinv3 (conj Hna3 Hsi2))|]. split; [eapply PropSim.FR_trans; [exact F1'|eapply PropSim.FR_trans; eauto]|exact Rel2].
      - split; [exact SC2|]. split; [eapply PropSim.FR_trans; eauto|exact Rel2].
    Qed.
  End DeliverA.

  (* the about-to-change emission: under ACTC only plain observers hear it (an acting observer sits in a valueChanged table, and no two
     signals share a table) *)
  Lemma about_walk' R t p q0 payload : forall idxs w s w',
    SCA w -> Rel w s -> owns w q0 KAbout t -> walk fn rtl R w t p KAbout payload idxs = (w', None) ->
    SCA w' /\ FR w w' /\ Rel w' s /\ w_props w' = w_props w.
  Proof.
    induction idxs as [|x r IH]; intros w s w' HSC HRel Ho H; cbn [walk] in H.
    - inversion H; subst. split; [exact HSC|split; [apply PropSim.FR_refl|split; [exact HRel|reflexivity]]].
    - destruct (get_table w t) as [tb|] eqn:Hgt; [|discriminate H].
      destruct (nth_error (t_slots tb) x) as [[[ser sub]|]|] eqn:Hx; try (eapply IH; eauto; fail).
      destruct sub as [label act|b l].
      + assert (act = None).
        { destruct act as [a|]; [|reflexivity]. exfalso. destruct HSC as (Hinv & Hna & _).
          destruct (Hna t x ser label a) as (tgt & p' & _ & Ho').
          { exists (t_slots tb), (t_free tb), (t_alive tb). split; [unfold tview; rewrite Hgt; reflexivity|exact Hx]. }
          destruct (pi_owninj _ _ _ _ _ _ _ Hinv _ _ _ _ _ Ho Ho') as (_ & E). discriminate E. }
        subst act. cbn [deliver] in H. destruct payload as [|v0 pl]; cbn in H.
        * destruct HSC as (Hinv & Hna & Hsi).
          destruct (IH _ s w' (conj (pinv_views _ _ (views_log _ w) Hinv) (conj Hna Hsi)) HRel Ho H) as (A1 & A2 & A3 & A4).
          split; [exact A1|]. split; [eapply PropSim.FR_trans; [|exact A2]; repeat split|split; [exact A3|exact A4]].
        * destruct HSC as (Hinv & Hna & Hsi).
          destruct (IH _ s w' (conj (pinv_views _ _ (views_log _ w) Hinv) (conj Hna Hsi)) HRel Ho H) as (A1 & A2 & A3 & A4).
          split; [exact A1|]. split; [eapply PropSim.FR_trans; [|exact A2]; repeat split|split; [exact A3|exact A4]].
      + cbn [deliver] in H. destruct (get_bind w b); discriminate H.
  Qed.

  Lemma about_emit' R w s p payload ot w' :
    SCA w -> Rel w s -> (forall t, ot = Some t -> exists q0, owns w q0 KAbout t) ->
    emit fn rtl R w ot p KAbout payload = (w', None) -> SCA w' /\ FR w w' /\ Rel w' s /\ w_props w' = w_props w.
  Proof.
    intros HSC HRel Hown H. unfold emit in H. destruct ot as [t|]; [|inversion H; subst; split; [exact HSC|split; [apply PropSim.FR_refl|split; [exact HRel|reflexivity]]]].
    destruct (Hown t eq_refl) as (q0 & Ho).
    destruct (get_table w t) as [tb|] eqn:Hgt; [|discriminate H]. destruct (t_emitting tb); [discriminate H|].
    set (w1 := put_table w t _) in *.
    pose proof (views_put_flag w t tb true Hgt) as (V1 & V2 & V3 & V4 & V5 & V6 & V7).
    assert (F1' : FR w w1) by (split; [intros b; reflexivity|repeat split; auto]).
    destruct HSC as (Hinv & Hna & Hsi). destruct (SCA_FR _ _ F1' Hinv Hna) as [Hinv1 Hna1].
    assert (Ho1 : owns w1 q0 KAbout t) by (destruct Ho as (v & Pv & Sv); exists v; rewrite V3; auto).
    destruct (walk fn rtl R w1 t p KAbout payload (seq 0 (length (t_slots tb)))) as [w2 e2] eqn:Hw.
    destruct e2 as [ex|]; [destruct (get_table w2 t); inversion H|].
    destruct (about_walk' R t p q0 payload _ w1 s w2 (conj Hinv1 (conj Hna1 Hsi)) HRel Ho1 Hw) as (SC2 & FR2 & Rel2 & P2).
    destruct (get_table w2 t) as [tb2|] eqn:Hgt2; inversion H; subst w'.
    - pose proof (views_put_flag w2 t tb2 false Hgt2) as (U1 & U2 & U3 & U4 & U5 & U6 & U7).
      assert (F3' : FR w2 (put_table w2 t {| t_slots := t_slots tb2; t_free := t_free tb2; t_emitting := false; t_alive := t_alive tb2 |}))
        by (split; [intros b; reflexivity|repeat split; auto]).
      destruct SC2 as (Hinv2 & Hna2 & Hsi2). destruct (SCA_FR _ _ F3' Hinv2 Hna2) as [Hinv3 Hna3].
      split; [exact (conj Hinv3 (conj Hna3 Hsi2))|]. split; [eapply PropSim.FR_trans; [exact F1'|eapply PropSim.FR_trans; eauto]|split; [exact Rel2|exact P2]].
    - split; [exact SC2|]. split; [eapply PropSim.FR_trans; eauto|split; [exact Rel2|exact P2]].
  Qed.

  (* Property::setHelper is the abstract assignment WITH acting observers *)
  Theorem sim_set' order' : forall f w q v w' s,
    SCA w -> ORDOK' order' w -> Rel w s -> set_helper fn rtl f w q v = (w', None) ->
    SCA w' /\ FR w w' /\ Rel w' (C.set' F1 F2 F3 order' f s q v).
  Proof.
    induction f as [|f IH]; intros w q v w' s HSC Hord HRel H; cbn [set_helper] in H; [discriminate H|].
    destruct (lookup (w_props w) q) as [pr|] eqn:Hq; [|discriminate H].
    destruct HRel as (R1 & R2 & R3). unfold C.set'. rewrite (R1 _ _ Hq).
    destruct (Z.eqb v (pr_value pr)) eqn:Ev.
    - inversion H; subst. split; [exact HSC|split; [apply PropSim.FR_refl|exact (conj R1 (conj R2 R3))]].
    - destruct (emit fn rtl (set_helper fn rtl f) w (pr_about pr) q KAbout [pr_value pr; v]) as [w1 [ex|]] eqn:He1; [discriminate H|].
      assert (Hown : forall t, pr_about pr = Some t -> exists q0, owns w q0 KAbout t).
      { intros t Et. exists q, (psigs_of pr). split; [unfold pview; rewrite Hq; reflexivity|exact Et]. }
      destruct (about_emit' _ _ _ _ _ _ _ HSC (conj R1 (conj R2 R3)) Hown He1) as (SC1 & FR1 & Rel1 & P1).
      assert (Hq1 : lookup (w_props w1) q = Some pr) by (rewrite P1; exact Hq).
      rewrite Hq1 in H.
      set (w2 := set_props w1 (bind_key (w_props w1) q (prop_set_value pr v))) in *.
      assert (F2' : FR w1 w2).
      { pose proof (views_set_value w1 q pr v Hq1) as (V1 & V2 & V3 & V4 & V5 & V6 & V7). split; [intros b; reflexivity|repeat split; auto]. }
      destruct SC1 as (Hinv1 & Hna1 & Hsi1). destruct (SCA_FR _ _ F2' Hinv1 Hna1) as [Hinv2 Hna2].
      assert (IO : forall q', imm_of w2 q' = imm_of w1 q').
      { intros q'. unfold PropSim.imm_of, w2; cbn [set_props w_props]. rewrite lookup_bind. destruct (Nat.eqb_spec q' q) as [->|]; [|reflexivity].
        rewrite Hq1. reflexivity. }
      assert (Hsi2 : SIMPLE w2) by (intros q' x' Hx'; rewrite IO in Hx'; eauto).
      set (s2 := {| A.env := A.set_env (A.env s) q v; A.tr := A.tr s; A.oof := A.oof s |}).
      assert (Rel2 : Rel w2 s2).
      { destruct Rel1 as (Q1 & Q2 & Q3). split; [|split; [|exact Q3]].
        - intros p0 pr0 Hp0. unfold w2 in Hp0; cbn [set_props w_props] in Hp0. rewrite lookup_bind in Hp0. cbn [s2 A.env]. unfold A.set_env.
          destruct (Nat.eqb_spec p0 q) as [->|]; [inversion Hp0; reflexivity|auto].
        - intros q'. rewrite IO. apply Q2. }
      assert (Hord2 : ORDOK' order' w2) by (eapply ORDOK'_FR; [|exact Hord]; eapply PropSim.FR_trans; eauto).
      destruct (sim_emit_changed' order' f (set_helper fn rtl f) IH w2 s2 q v (pr_changed pr) w' (conj Hinv2 (conj Hna2 Hsi2)) Hord2 Rel2) as (SC' & FR' & Rel').
      { exists (psigs_of (prop_set_value pr v)). split; [|reflexivity]. unfold pview, w2; cbn [set_props w_props]. rewrite lookup_bind_same. reflexivity. }
      { exact H. }
      split; [exact SC'|]. split; [eapply PropSim.FR_trans; [exact FR1|eapply PropSim.FR_trans; eauto]|].
      destruct f as [|f']; exact Rel'.
  Qed.

  (* C02 with observers that write, one assignment that returns normally: coherence - the notion of PropSim.v - is kept *)
  Theorem assignment_coherent_act f w p pr v w' :
    SCA w -> PropSim.COH fn w -> lookup (w_props w) p = Some pr -> pr_updater pr = None ->
    set_helper fn rtl f w p v = (w', None) -> SCA w' /\ PropSim.COH fn w' /\ FR w w'.
  Proof.
    intros HSC (s & HRel & HInv) Hp Hu H.
    destruct (sim_set' (ORD' w) f w p v w' s HSC (fun _ => eq_refl) HRel H) as (SC' & FR' & Rel').
    split; [exact SC'|]. split; [|exact FR'].
    exists (C.set' F1 F2 F3 (ORD' w) f s p v). split; [exact Rel'|].
    apply (PropSim.Inv_order_ext fn (C.lorder (ORD' w))); [intros p0; rewrite (PropSim.FR_ORD _ _ p0 FR'); symmetry; apply lorder_ORD'|].
    destruct HRel as (R1 & R2 & R3). apply C.set'_consistent; auto.
    - rewrite R2. unfold PropSim.imm_of. rewrite Hp, Hu. reflexivity.
    - apply (PropSim.Inv_order_ext fn (PropSim.ORD w)); [intros p0; apply lorder_ORD'|exact HInv].
    - destruct Rel' as (_ & _ & Q3). exact Q3.
  Qed.

  (* a world without acting observers is a special case *)
  Lemma SC_SCA w : PropSim.SC w -> SCA w.
  Proof. intros (Hinv & Hna & Hsi). split; [exact Hinv|split; [|exact Hsi]]. intros t pos ser label a Hs. pose proof (Hna t pos ser label (Some a) Hs) as E. discriminate E. Qed.
End SimAct.
