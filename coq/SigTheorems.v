(* User-facing theorems about the signal-layer model, derived from SigInv.v.
   Everything is stated for `run tbl pass_fuel fuel ops`: every history of top-level calls, every table of
   (re-entrant) slot bodies, every fuel.  *)
From KDB Require Import Util UtilProofs GenIdx GenIdxProofs SigDefs SigInv.

Section Reach.
  Variable tbl : nat -> list op.
  Variable pass_fuel fuel : nat.

  Notation stepf := (step tbl pass_fuel fuel).
  Notation runf := (run tbl pass_fuel fuel).

  (* ------------------------------------------------------------------------------------------ *)
  (* between top-level calls nothing is emitting / evaluating / marked  (C16, C09) *)

  Definition healthy (w : world) : Prop :=
    (forall i m, get_impl w i = Some m -> i_emitting m = false /\ i_dde m = false) /\
    (forall e s, lookup (w_evs w) e = Some s -> e_evaluating s = false).

  Lemma healthy_wle w w' : healthy w -> wle w w' -> healthy w'.
  Proof.
    intros [Hi He] L. split.
    - intros i m' H'. destruct (get_impl w i) as [m|] eqn:Hm.
      + destruct (Hi _ _ Hm) as [E D]. destruct (wle_impls _ _ _ _ _ L _ _ Hm) as (m2 & H2 & _ & K).
        rewrite H' in H2; inversion H2; subst m2. destruct (K I) as (E' & _ & D').
        split; [congruence|apply D'; assumption].
      + eapply (wle_new_impls _ _ _ _ _ L); [eassumption|assumption|exact I].
    - intros e s' H'. destruct (lookup (w_evs w) e) as [s|] eqn:Hs.
      + pose proof (He _ _ Hs) as E. destruct (wle_evs _ _ _ _ _ L _ _ Hs) as (s2 & H2 & K).
        rewrite H' in H2; inversion H2; subst s2. destruct (K I) as (E' & _). congruence.
      + eapply (wle_new_evs _ _ _ _ _ L); [eassumption|assumption|exact I].
  Qed.

  Lemma healthy_world0 : healthy world0.
  Proof. split; [intros i m H; destruct i; discriminate|intros e s H; discriminate]. Qed.

  Lemma fold_inv (I : world -> Prop) ops :
    (forall w o, winv w -> I w -> I (stepf w o)) -> forall w, winv w -> I w -> I (fold_left stepf ops w).
  Proof.
    intros Hstep. induction ops as [|o r IH]; intros w Hw HI; cbn [fold_left]; [assumption|].
    apply IH; [apply step_ok; assumption|apply Hstep; assumption].
  Qed.

  Theorem run_healthy ops : healthy (runf ops).
  Proof.
    unfold run. apply fold_inv; [|apply winv_world0|apply healthy_world0].
    intros w o Hw Hh. eapply healthy_wle; [exact Hh|]. apply step_ok; assumption.
  Qed.

  (* ... whatever happened in the call: also when it ended with a library exception *)
  Theorem healthy_after_any_step w o : winv w -> healthy w -> healthy (stepf w o).
  Proof. intros Hw Hh. eapply healthy_wle; [exact Hh|]. apply step_ok; assumption. Qed.

  (* no connection stays marked "to be disconnected" once the outermost call has returned *)
  Theorem no_pending_disconnects ops i m k c :
    get_impl (runf ops) i = Some m -> g_get (i_conns m) k = Some c -> c_tbd c = false.
  Proof.
    intros Hm Hc. destruct (c_tbd c) eqn:Ht; [|reflexivity].
    pose proof (run_winv tbl pass_fuel fuel ops _ _ Hm) as (_ & _ & Hmk & _).
    pose proof (run_healthy ops) as [Hh _]. destruct (Hh _ _ Hm) as [_ Hd].
    specialize (Hmk _ _ Hc Ht). congruence.
  Qed.

  (* ------------------------------------------------------------------------------------------ *)
  (* identity of connections (C12) *)

  Theorem issued_ids_distinct ops i m : get_impl (runf ops) i = Some m -> NoDup (i_issued m).
  Proof. intros Hm. pose proof (run_winv tbl pass_fuel fuel ops _ _ Hm) as (_ & (Hnd & _) & _). exact Hnd. Qed.

  Definition stale_in (w : world) (i : nat) (k : gidx) : Prop :=
    exists m, get_impl w i = Some m /\ stale (g_alloc (i_conns m)) k.

  Lemma stale_in_wle w w' i k : stale_in w i k -> wle w w' -> stale_in w' i k.
  Proof.
    intros (m & Hm & Hs) L. destruct (wle_impls _ _ _ _ _ L _ _ Hm) as (m' & Hm' & [_ Hst] & _).
    exists m'; split; [assumption|apply Hst; assumption].
  Qed.

  (* once stale, stale after every further history *)
  Theorem stale_forever ops w i k : winv w -> stale_in w i k -> stale_in (fold_left stepf ops w) i k.
  Proof.
    intros Hw Hs. apply fold_inv; [|assumption|assumption].
    intros w0 o Hw0 Hs0. eapply stale_in_wle; [exact Hs0|]. apply step_ok; assumption.
  Qed.

  (* a stale id is not in the table: every use of a handle carrying it is rejected or has no effect *)
  Lemma stale_in_not_active w i k : winv w -> stale_in w i k -> checked_lock w {| h_impl := Some i; h_id := Some k |} = None.
  Proof.
    intros Hw (m & Hm & Hs). unfold checked_lock, lock; cbn. rewrite Hm.
    destruct (i_alive m); [|reflexivity]. rewrite Hm.
    rewrite (stale_get_none _ _ (proj1 (Hw _ _ Hm)) Hs). reflexivity.
  Qed.

  Lemma stale_disconnect_noop w i k : winv w -> stale_in w i k -> impl_disconnect w i k = put_impl w i match get_impl w i with Some m => m | None => impl_new end.
  Proof.
    intros Hw (m & Hm & Hs). unfold impl_disconnect. rewrite Hm.
    pose proof (Hw _ _ Hm) as (Hwf & _).
    rewrite (stale_get_none _ _ Hwf Hs).
    destruct (erase_spec _ k Hwf) as (_ & _ & _ & Hnoop & _).
    rewrite (Hnoop (stale_get_none _ _ Hwf Hs)). destruct m; reflexivity.
  Qed.

  (* an id that was issued is either still in the table or stale: never "from the future" *)
  Theorem issued_live_or_stale_in ops i m k :
    get_impl (runf ops) i = Some m -> In k (i_issued m) ->
    g_get (i_conns m) k <> None \/ stale_in (runf ops) i k.
  Proof.
    intros Hm Hin. pose proof (run_winv tbl pass_fuel fuel ops _ _ Hm) as (Hwf & Hfr & _).
    destruct (issued_live_or_stale _ _ _ Hfr Hin) as [Hl|Hs].
    - left. destruct (isLive_get _ _ Hwf Hl) as (v & Hv). congruence.
    - right. exists m; auto.
  Qed.

  (* everything that is in a table was issued by that Impl *)
  Theorem live_was_issued ops i m k c :
    get_impl (runf ops) i = Some m -> g_get (i_conns m) k = Some c -> In k (i_issued m).
  Proof.
    intros Hm Hc. pose proof (run_winv tbl pass_fuel fuel ops _ _ Hm) as (Hwf & (_ & _ & _ & Hlive) & _).
    pose proof (get_slot (i_conns m) k c) as [Hs _]. specialize (Hs Hc).
    pose proof (wf_slot_alloc _ _ _ _ Hwf Hs) as Ha.
    specialize (Hlive _ _ Ha eq_refl). cbn in Hlive. rewrite gidx_eta in Hlive. exact Hlive.
  Qed.
End Reach.

(* ConnectionHandle::operator== is identity of (Impl, id), or "both empty" *)
Theorem handle_eqb_spec w a b :
  handle_eqb w a b = true ->
  (exists i, lock w (h_impl a) = Some i /\ lock w (h_impl b) = Some i /\ h_id a = h_id b) \/
  (lock w (h_impl a) = None /\ lock w (h_impl b) = None /\ h_id a = None /\ h_id b = None).
Proof.
  unfold handle_eqb. destruct (lock w (h_impl a)) as [x|], (lock w (h_impl b)) as [y|]; try discriminate.
  - rewrite andb_true_iff, Nat.eqb_eq. intros [-> H]. left. exists y. repeat split.
    destruct (h_id a) as [ka|], (h_id b) as [kb|]; cbn in H; try discriminate; [|reflexivity].
    apply gidx_eqb_eq in H; subst; reflexivity.
  - destruct (h_id a), (h_id b); try discriminate. intros _. right; auto.
Qed.

(* ---------------------------------------------------------------------------------------------- *)
(* effect of the table-changing calls on the set of connections (C01, C04, C15): the table is a finite map
   keyed by ids; each call changes exactly the entry it names *)

Definition conn_of (w : world) (i : nat) (k : gidx) : option conn :=
  match get_impl w i with Some m => g_get (i_conns m) k | None => None end.

(* connect: a fresh id, the new connection under it, everything else as before *)
Theorem connect_effect w s h c i m w' :
  winv w -> lookup (w_sigs w) s = Some (Some i) -> get_impl w i = Some m -> c_tbd c = false ->
  do_connect w s h c = (w', None) ->
  exists k, lookup (w_handles w') h = Some {| h_impl := Some i; h_id := Some k |} /\
            conn_of w i k = None /\ ~ In k (i_issued m) /\
            (forall k', conn_of w' i k' = if gidx_eqb k k' then Some c else conn_of w i k') /\
            (forall j, j <> i -> get_impl w' j = get_impl w j).
Proof.
  intros Hw Hs Hm Ht. unfold do_connect, ensure_impl. rewrite Hs, Hm.
  destruct (i_emitting m); [discriminate|].
  destruct (N.ltb_spec (N.of_nat (length (i_issued m)) + 1) W) as [Hlt|Hge]; cbn [negb]; [|discriminate].
  destruct (g_insert (i_conns m) c) as [g k] eqn:Hins. intros H; inversion H; subst w'; clear H.
  destruct (Hw _ _ Hm) as (Hwf & Hfr & _).
  destruct (insert_spec _ _ _ _ Hwf Hins) as (_ & Hnone & _ & Hget & _).
  assert (Hal' : ga_allocate (g_alloc (i_conns m)) = (g_alloc g, k)).
  { unfold g_insert in Hins. destruct (ga_allocate (g_alloc (i_conns m))) as [al k0] eqn:E. inversion Hins; subst. reflexivity. }
  destruct (fresh_inv_allocate _ _ _ _ (proj1 Hwf) Hfr Hlt Hal') as [_ Hfresh].
  exists k. split; [cbn [set_handles w_handles]; apply lookup_bind_same|].
  split; [unfold conn_of; rewrite Hm; exact Hnone|]. split; [exact Hfresh|]. split.
  - intros k'. unfold conn_of.
    change (get_impl (set_handles (put_impl w i (impl_issue m g k)) _) i) with (get_impl (put_impl w i (impl_issue m g k)) i).
    rewrite (get_put_same _ _ _ _ Hm), Hm. cbn [impl_issue i_conns]. apply Hget.
  - intros j Hj. change (get_impl (set_handles (put_impl w i (impl_issue m g k)) _) j) with (get_impl (put_impl w i (impl_issue m g k)) j).
    apply get_put_other; auto.
Qed.

(* disconnect of a non-emitting Impl: exactly that entry goes *)
Theorem disconnect_effect w i k m :
  winv w -> get_impl w i = Some m -> i_emitting m = false ->
  (forall k', conn_of (impl_disconnect w i k) i k' = if gidx_eqb k k' then None else conn_of w i k') /\
  (forall j, j <> i -> get_impl (impl_disconnect w i k) j = get_impl w j).
Proof.
  intros Hw Hm Hem. pose proof (Hw _ _ Hm) as (Hwf & _).
  destruct (erase_spec _ k Hwf) as (_ & Hget & _ & Hnoop & _).
  destruct (g_get (i_conns m) k) as [c|] eqn:Hc.
  - pose proof (impl_disconnect_nonemitting w i k m c Hm Hem Hc) as Hd. split.
    + intros k'. unfold conn_of. rewrite Hd, Hm. cbn [impl_with_conns i_conns]. apply Hget.
    + intros j Hj. unfold impl_disconnect. rewrite Hm, Hc, Hem. rewrite get_put_other by auto.
      destruct (c_kind c); try reflexivity. destruct (ev_alive w ev); [|reflexivity].
      unfold ev_dequeue. destruct (lookup (w_evs w) ev) as [s|]; [|reflexivity].
      destruct (negb (e_alive s)); [reflexivity|]. destruct (e_evaluating s); reflexivity.
  - unfold impl_disconnect. rewrite Hm, Hc, (Hnoop eq_refl).
    assert (E : impl_with_conns m (i_conns m) = m) by (destruct m; reflexivity). rewrite E. split.
    + intros k'. unfold conn_of. rewrite (get_put_same _ _ _ _ Hm), Hm.
      destruct (gidx_eqb k k') eqn:Ek; [apply gidx_eqb_eq in Ek; subst; assumption|reflexivity].
    + intros j Hj. apply get_put_other; auto.
Qed.

(* block: returns the previous setting, sets exactly that entry's flag *)
Theorem block_effect w i k b m c :
  winv w -> get_impl w i = Some m -> g_get (i_conns m) k = Some c ->
  snd (impl_block w i k b) = Some (c_blocked c) /\
  (forall k', conn_of (fst (impl_block w i k b)) i k' = if gidx_eqb k k' then Some (conn_set_blocked c b) else conn_of w i k') /\
  (forall j, j <> i -> get_impl (fst (impl_block w i k b)) j = get_impl w j).
Proof.
  intros Hw Hm Hc. pose proof (Hw _ _ Hm) as (Hwf & _).
  destruct (update_spec _ k (conn_set_blocked c b) Hwf) as (_ & Hget & _).
  unfold impl_block. rewrite Hm, Hc. cbn [fst snd]. split; [reflexivity|]. split.
  - intros k'. unfold conn_of. rewrite (get_put_same _ _ _ _ Hm), Hm. cbn [impl_with_conns i_conns].
    rewrite Hget, Hc. reflexivity.
  - intros j Hj. apply get_put_other; auto.
Qed.

Theorem block_rejects_unknown w i k b :
  conn_of w i k = None -> impl_block w i k b = (w, None).
Proof.
  unfold conn_of, impl_block. destruct (get_impl w i) as [m|]; [|reflexivity]. intros ->. reflexivity.
Qed.
