(* User-facing theorems about the signal-layer model, derived from SigInv.v.
   Everything is stated for `run tbl pass_fuel fuel ops`: every history of top-level calls, every table of
   (re-entrant) slot bodies, every fuel.  *)
From KDB Require Import Util UtilProofs GenIdx GenIdxProofs SigDefs SigInv.

Section Reach.
  Variable tbl : nat -> list op.
  Variable pass_fuel fuel : nat.

  Notation stepf := (step tbl pass_fuel fuel).
  Notation runf := (run tbl pass_fuel fuel).

  (* ------------------------------------------------------------------------------------------ *)
  (* between top-level calls nothing is emitting / evaluating / marked  (C16, C09) *)

  Definition healthy (w : world) : Prop :=
    (forall i m, get_impl w i = Some m -> i_emitting m = false /\ i_dde m = false) /\
    (forall e s, lookup (w_evs w) e = Some s -> e_evaluating s = false).

  Lemma healthy_wle w w' : healthy w -> wle w w' -> healthy w'.
  Proof.
    intros [Hi He] L. split.
    - intros i m' H'. destruct (get_impl w i) as [m|] eqn:Hm.
      + destruct (Hi _ _ Hm) as [E D]. destruct (wle_impls _ _ _ _ _ L _ _ Hm) as (m2 & H2 & _ & K).
        rewrite H' in H2; inversion H2; subst m2. destruct (K I) as (E' & _ & D').
        split; [congruence|apply D'; assumption].
      + eapply (wle_new_impls _ _ _ _ _ L); [eassumption|assumption|exact I].
    - intros e s' H'. destruct (lookup (w_evs w) e) as [s|] eqn:Hs.
      + pose proof (He _ _ Hs) as E. destruct (wle_evs _ _ _ _ _ L _ _ Hs) as (s2 & H2 & K).
        rewrite H' in H2; inversion H2; subst s2. destruct (K I) as (E' & _). congruence.
      + eapply (wle_new_evs _ _ _ _ _ L); [eassumption|assumption|exact I].
  Qed.

  Lemma healthy_world0 : healthy world0.
  Proof. split; [intros i m H; destruct i; discriminate|intros e s H; discriminate]. Qed.

  Lemma fold_inv (I : world -> Prop) ops :
    (forall w o, winv w -> I w -> I (stepf w o)) -> forall w, winv w -> I w -> I (fold_left stepf ops w).
  Proof.
    intros Hstep. induction ops as [|o r IH]; intros w Hw HI; cbn [fold_left]; [assumption|].
    apply IH; [apply step_ok; assumption|apply Hstep; assumption].
  Qed.

  Theorem run_healthy ops : healthy (runf ops).
  Proof.
    unfold run. apply fold_inv; [|apply winv_world0|apply healthy_world0].
    intros w o Hw Hh. eapply healthy_wle; [exact Hh|]. apply step_ok; assumption.
  Qed.

  (* ... whatever happened in the call: also when it ended with a library exception *)
  Theorem healthy_after_any_step w o : winv w -> healthy w -> healthy (stepf w o).
  Proof. intros Hw Hh. eapply healthy_wle; [exact Hh|]. apply step_ok; assumption. Qed.

  (* no connection stays marked "to be disconnected" once the outermost call has returned *)
  Theorem no_pending_disconnects ops i m k c :
    get_impl (runf ops) i = Some m -> g_get (i_conns m) k = Some c -> c_tbd c = false.
  Proof.
    intros Hm Hc. destruct (c_tbd c) eqn:Ht; [|reflexivity].
    pose proof (run_winv tbl pass_fuel fuel ops _ _ Hm) as (_ & _ & Hmk & _).
    pose proof (run_healthy ops) as [Hh _]. destruct (Hh _ _ Hm) as [_ Hd].
    specialize (Hmk _ _ Hc Ht). congruence.
  Qed.

  (* ------------------------------------------------------------------------------------------ *)
  (* identity of connections (C12) *)

  Theorem issued_ids_distinct ops i m : get_impl (runf ops) i = Some m -> NoDup (i_issued m).
  Proof. intros Hm. pose proof (run_winv tbl pass_fuel fuel ops _ _ Hm) as (_ & (Hnd & _) & _). exact Hnd. Qed.

  Definition stale_in (w : world) (i : nat) (k : gidx) : Prop :=
    exists m, get_impl w i = Some m /\ stale (g_alloc (i_conns m)) k.

  Lemma stale_in_wle w w' i k : stale_in w i k -> wle w w' -> stale_in w' i k.
  Proof.
    intros (m & Hm & Hs) L. destruct (wle_impls _ _ _ _ _ L _ _ Hm) as (m' & Hm' & [_ Hst] & _).
    exists m'; split; [assumption|apply Hst; assumption].
  Qed.

  (* once stale, stale after every further history *)
  Theorem stale_forever ops w i k : winv w -> stale_in w i k -> stale_in (fold_left stepf ops w) i k.
  Proof.
    intros Hw Hs. apply fold_inv; [|assumption|assumption].
    intros w0 o Hw0 Hs0. eapply stale_in_wle; [exact Hs0|]. apply step_ok; assumption.
  Qed.

  (* a stale id is not in the table: every use of a handle carrying it is rejected or has no effect *)
  Lemma stale_in_not_active w i k : winv w -> stale_in w i k -> checked_lock w {| h_impl := Some i; h_id := Some k |} = None.
  Proof.
    intros Hw (m & Hm & Hs). unfold checked_lock, lock; cbn. rewrite Hm.
    destruct (i_alive m); [|reflexivity]. rewrite Hm.
    rewrite (stale_get_none _ _ (proj1 (Hw _ _ Hm)) Hs). reflexivity.
  Qed.

  Lemma stale_disconnect_noop w i k : winv w -> stale_in w i k -> impl_disconnect w i k = put_impl w i match get_impl w i with Some m => m | None => impl_new end.
  Proof.
    intros Hw (m & Hm & Hs). unfold impl_disconnect. rewrite Hm.
    pose proof (Hw _ _ Hm) as (Hwf & _).
    rewrite (stale_get_none _ _ Hwf Hs).
    destruct (erase_spec _ k Hwf) as (_ & _ & _ & Hnoop & _).
    rewrite (Hnoop (stale_get_none _ _ Hwf Hs)). destruct m; reflexivity.
  Qed.

  (* an id that was issued is either still in the table or stale: never "from the future" *)
  Theorem issued_live_or_stale_in ops i m k :
    get_impl (runf ops) i = Some m -> In k (i_issued m) ->
    g_get (i_conns m) k <> None \/ stale_in (runf ops) i k.
  Proof.
    intros Hm Hin. pose proof (run_winv tbl pass_fuel fuel ops _ _ Hm) as (Hwf & Hfr & _).
    destruct (issued_live_or_stale _ _ _ Hfr Hin) as [Hl|Hs].
    - left. destruct (isLive_get _ _ Hwf Hl) as (v & Hv). congruence.
    - right. exists m; auto.
  Qed.

  (* everything that is in a table was issued by that Impl *)
  Theorem live_was_issued ops i m k c :
    get_impl (runf ops) i = Some m -> g_get (i_conns m) k = Some c -> In k (i_issued m).
  Proof.
    intros Hm Hc. pose proof (run_winv tbl pass_fuel fuel ops _ _ Hm) as (Hwf & (_ & _ & _ & Hlive) & _).
    pose proof (get_slot (i_conns m) k c) as [Hs _]. specialize (Hs Hc).
    pose proof (wf_slot_alloc _ _ _ _ Hwf Hs) as Ha.
    specialize (Hlive _ _ Ha eq_refl). cbn in Hlive. rewrite gidx_eta in Hlive. exact Hlive.
  Qed.
End Reach.

(* ConnectionHandle::operator== is identity of (Impl, id), or "both empty" *)
Theorem handle_eqb_spec w a b :
  handle_eqb w a b = true ->
  (exists i, lock w (h_impl a) = Some i /\ lock w (h_impl b) = Some i /\ h_id a = h_id b) \/
  (lock w (h_impl a) = None /\ lock w (h_impl b) = None /\ h_id a = None /\ h_id b = None).
Proof.
  unfold handle_eqb. destruct (lock w (h_impl a)) as [x|], (lock w (h_impl b)) as [y|]; try discriminate.
  - rewrite andb_true_iff, Nat.eqb_eq. intros [-> H]. left. exists y. repeat split.
    destruct (h_id a) as [ka|], (h_id b) as [kb|]; cbn in H; try discriminate; [|reflexivity].
    apply gidx_eqb_eq in H; subst; reflexivity.
  - destruct (h_id a), (h_id b); try discriminate. intros _. right; auto.
Qed.
