(* C01 - Emit invokes exactly the connected, unblocked slots, once, with the given values.
   Model: coq/SigDefs.v.  `fire_events` is the specification of what one connection contributes to an emission;
   `g_live` is the table as a list (id, connection) in storage order.  The history part of the property is the
   finite-map refinement: connect / disconnect / block change exactly the entry they name (C01_connect_adds etc.),
   moves do not touch the table, and every reachable world satisfies the invariant the theorems assume (winv). *)
From KDB Require Import Util GenIdx GenIdxProofs SigDefs SigInv SigTheorems SigEmit SigDisc.

Theorem C01_emit_exact :
  forall tbl pass_fuel fuel w s args i m,
    (forall sid, tbl sid = []) ->
    winv w -> lookup (w_sigs w) s = Some (Some i) -> get_impl w i = Some m -> i_emitting m = false ->
    deferred_ok w (g_slots (i_conns m)) (seq 0 (g_size (i_conns m))) ->
    snd (sig_emit (script tbl pass_fuel (S fuel)) w s args) = None /\
    w_trace (fst (sig_emit (script tbl pass_fuel (S fuel)) w s args)) =
      rev (flat_map (fire_events i args) (g_live (i_conns m))) ++ w_trace w.
Proof. exact script_emit_exact. Qed.
Print Assumptions C01_emit_exact.

(* with arbitrary (re-entrant) slot bodies: never twice *)
Theorem C01_at_most_once :
  forall tbl pass_fuel fuel w s args i,
    winv w -> lookup (w_sigs w) s = Some (Some i) ->
    exists l, w_trace (fst (sig_emit (script tbl pass_fuel fuel) w s args)) = l ++ w_trace w /\ NoDup (dkeys i l).
Proof. exact script_emit_at_most_once. Qed.
Print Assumptions C01_at_most_once.

Theorem C01_connect_adds :
  forall w s h c i m w',
    winv w -> lookup (w_sigs w) s = Some (Some i) -> get_impl w i = Some m -> c_tbd c = false ->
    do_connect w s h c = (w', None) ->
    exists k, lookup (w_handles w') h = Some {| h_impl := Some i; h_id := Some k |} /\
              conn_of w i k = None /\ ~ In k (i_issued m) /\
              (forall k', conn_of w' i k' = if gidx_eqb k k' then Some c else conn_of w i k') /\
              (forall j, j <> i -> get_impl w' j = get_impl w j).
Proof. exact connect_effect. Qed.
Print Assumptions C01_connect_adds.

Theorem C01_disconnect_removes :
  forall w i k m,
    winv w -> get_impl w i = Some m -> i_emitting m = false ->
    (forall k', conn_of (impl_disconnect w i k) i k' = if gidx_eqb k k' then None else conn_of w i k') /\
    (forall j, j <> i -> get_impl (impl_disconnect w i k) j = get_impl w j).
Proof. exact disconnect_effect. Qed.
Print Assumptions C01_disconnect_removes.

Theorem C01_block_sets :
  forall w i k b m c,
    winv w -> get_impl w i = Some m -> g_get (i_conns m) k = Some c ->
    snd (impl_block w i k b) = Some (c_blocked c) /\
    (forall k', conn_of (fst (impl_block w i k b)) i k' = if gidx_eqb k k' then Some (conn_set_blocked c b) else conn_of w i k') /\
    (forall j, j <> i -> get_impl (fst (impl_block w i k b)) j = get_impl w j).
Proof. exact block_effect. Qed.
Print Assumptions C01_block_sets.

(* single-shot: "reached by exactly one emission in its life". For ARBITRARY slot bodies (any script table, any nesting): the
   emission whose trace contains the direct invocation of a single-shot connection k leaves the id k stale when it returns -
   normally or by an exception ... *)
Theorem C01_single_shot_stale_after_its_emission :
  forall tbl pass_fuel fuel w s args i k m c l,
    winv w -> lookup (w_sigs w) s = Some (Some i) -> get_impl w i = Some m -> i_emitting m = false ->
    g_get (i_conns m) k = Some c -> c_kind c = KSingle ->
    w_trace (fst (sig_emit (script tbl pass_fuel fuel) w s args)) = l ++ w_trace w -> In k (dkeys i l) ->
    stale_in (fst (sig_emit (script tbl pass_fuel fuel) w s args)) i k.
Proof. intros tbl pf fuel w s args i k m c l. exact (single_shot_stale_after _ w s args i k m c l (script_good tbl pf fuel)). Qed.
Print Assumptions C01_single_shot_stale_after_its_emission.

(* ... and a stale id stays stale through every later history: it is in no table (so no emission can invoke it, C01_emit_exact /
   C01_at_most_once speak about table entries only) and every handle carrying it is inactive *)
Theorem C01_single_shot_never_again :
  forall tbl pass_fuel fuel ops w i k,
    winv w -> stale_in w i k ->
    stale_in (fold_left (step tbl pass_fuel fuel) ops w) i k /\
    checked_lock (fold_left (step tbl pass_fuel fuel) ops w) {| h_impl := Some i; h_id := Some k |} = None /\
    (forall m, get_impl (fold_left (step tbl pass_fuel fuel) ops w) i = Some m -> g_get (i_conns m) k = None).
Proof.
  intros tbl pf fuel ops w i k Hw Hs. destruct (stale_final tbl pf fuel ops w i k Hw Hs) as [H1 H2]. split; [exact H1|]. split; [exact H2|].
  intros m Hm. destruct H1 as (m1 & Hm1 & Hst). assert (m1 = m) by congruence. subst m1.
  exact (stale_not_in_table _ i k m (fold_winv tbl pf fuel ops w Hw) Hm Hst).
Qed.
Print Assumptions C01_single_shot_never_again.

(* the hypotheses of the theorems above hold in every reachable world *)
Theorem C01_invariant_reachable : forall tbl pass_fuel fuel ops, winv (run tbl pass_fuel fuel ops).
Proof. exact run_winv. Qed.
Print Assumptions C01_invariant_reachable.

(* non-vacuity: three flavours, a bound argument, a blocked connection, a recycled position *)
Example C01_example :
  let ops := [OSigNew 0 3; OEvNew 0; OConnect 0 0 100 3 [] 0; OConnect 0 1 101 2 [9%Z] 0; OConnectD 0 2 102 0 0;
              ODiscH 0; OConnect1 0 3 103 0; OBlockH 1 true; OEmit 0 [1%Z; 2%Z; 3%Z]] in
  firstn 4 (w_trace (run (fun _ => []) 8 4 ops)) =
    [EvDone None; EvAdded 0; EvSlot (Some (0, {| gi_index := 0; gi_gen := 1 |})) true 103 [1%Z; 2%Z; 3%Z]; EvDone None].
Proof. vm_compute. reflexivity. Qed.

(* non-vacuity: a single-shot connection and a plain one, two emissions: 103 runs in the first only; its body (script 1) even
   re-connects nothing and disconnects the other connection - the single-shot is still gone afterwards *)
Example C01_single_shot_example :
  let tbl := fun sid => match sid with 1 => [ODiscH 0] | _ => [] end in
  let ops := [OSigNew 0 1; OConnect 0 0 100 1 [] 0; OConnect1 0 1 103 1; OEmit 0 [5%Z]; OEmit 0 [6%Z]; OActive 1] in
  filter (fun e => match e with EvSlot _ _ _ _ => true | _ => false end) (w_trace (run tbl 8 4 ops)) =
    [EvSlot (Some (0, {| gi_index := 1; gi_gen := 0 |})) true 103 [5%Z]; EvSlot (Some (0, {| gi_index := 0; gi_gen := 0 |})) true 100 [5%Z]]
  /\ nth_error (w_trace (run tbl 8 4 ops)) 1 = Some (EvBool false).
Proof. vm_compute. split; reflexivity. Qed.
