(* Executable model of the signal layer of KDBindings:
     signal.h (Signal, Signal::Impl, ConnectionBlocker), connection_handle.h (ConnectionHandle,
     ScopedConnection), connection_evaluator.h (single-threaded behaviour), utils.h (bind_first).
   It mirrors the algorithms of the code as they are after the fix: commits recorded in
   known_findings.json.  Objects of a script are named by naturals; Impl objects live in a heap
   (w_impls) whose positions are never reused, which is exactly what a weak_ptr can observe.
   No proofs in this file: it must keep extracting and running when a proof breaks. *)
From KDB Require Export GenIdx.

Inductive exn :=
| ExOutOfRange          (* std::out_of_range *)
| ExAlreadyEmitting     (* std::runtime_error "Signal is already emitting" *)
| ExEvaluatorGone       (* std::runtime_error "ConnectionEvaluator is no longer alive" *)
| ExBadScript           (* the script names an object that does not exist: harness error, not library behaviour *)
| ExUB                  (* the script does something the library documents as undefined *)
| ExOutOfFuel           (* model recursion bound hit: never a normal-looking value *)
| ExWrap.               (* an Impl issued 2^gen_bits - 1 ids: the next generation could wrap; the model stops here *)

Inductive ckind :=
| KPlain                       (* connect(std::function) / connect(Func, bound...) via bind_first *)
| KReflective (selfvar : nat)  (* connectReflective: the slot receives its own handle, stored in handle variable selfvar *)
| KSingle                      (* connectSingleShot *)
| KDeferred (ev : nat).        (* connectDeferred(evaluator) *)

Record conn := {
  c_label : nat;          (* identity of the user callable, for the trace *)
  c_kind : ckind;
  c_arity : nat;          (* number of parameters of the user callable *)
  c_bound : list Z;       (* arguments bound at connect time *)
  c_script : nat;         (* what the slot body does (index into the script table) *)
  c_blocked : bool;
  c_tbd : bool }.         (* toBeDisconnected *)

Definition conn_set_blocked (c : conn) (b : bool) : conn :=
  {| c_label := c_label c; c_kind := c_kind c; c_arity := c_arity c; c_bound := c_bound c;
     c_script := c_script c; c_blocked := b; c_tbd := c_tbd c |}.
Definition conn_set_tbd (c : conn) : conn :=
  {| c_label := c_label c; c_kind := c_kind c; c_arity := c_arity c; c_bound := c_bound c;
     c_script := c_script c; c_blocked := c_blocked c; c_tbd := true |}.

Record impl := {
  i_conns : garray conn;
  i_emitting : bool;      (* m_isEmitting *)
  i_dde : bool;           (* m_disconnectedDuringEmit *)
  i_owned : bool;         (* some Signal's m_impl points here *)
  i_alive : bool;         (* at least one shared_ptr owner exists (a Signal, or an emission in progress) *)
  i_issued : list gidx }. (* GHOST: every id this Impl ever issued, newest first; no counterpart in the code *)

Definition impl_with_conns (m : impl) (g : garray conn) : impl :=
  {| i_conns := g; i_emitting := i_emitting m; i_dde := i_dde m; i_owned := i_owned m; i_alive := i_alive m;
     i_issued := i_issued m |}.
Definition impl_with_flags (m : impl) (emitting dde : bool) : impl :=
  {| i_conns := i_conns m; i_emitting := emitting; i_dde := dde; i_owned := i_owned m; i_alive := i_alive m;
     i_issued := i_issued m |}.
Definition impl_with_owner (m : impl) (owned alive : bool) : impl :=
  {| i_conns := i_conns m; i_emitting := i_emitting m; i_dde := i_dde m; i_owned := owned; i_alive := alive;
     i_issued := i_issued m |}.
Definition impl_issue (m : impl) (g : garray conn) (k : gidx) : impl :=
  {| i_conns := g; i_emitting := i_emitting m; i_dde := i_dde m; i_owned := i_owned m; i_alive := i_alive m;
     i_issued := k :: i_issued m |}.
Definition impl_new : impl :=
  {| i_conns := g_empty; i_emitting := false; i_dde := false; i_owned := true; i_alive := true; i_issued := [] |}.

Record handle := { h_impl : option nat; h_id : option gidx }.
Definition handle_default : handle := {| h_impl := None; h_id := None |}.
(* what a moved-from ConnectionHandle looks like: the weak_ptr is emptied, the optional id stays *)
Definition handle_moved_from (h : handle) : handle := {| h_impl := None; h_id := h_id h |}.

Definition handle_src (h : handle) : option (nat * gidx) :=
  match h_impl h, h_id h with Some i, Some k => Some (i, k) | _, _ => None end.

Record invocation := { v_label : nat; v_args : list Z; v_script : nat }.
Record evst := { e_alive : bool; e_queue : list (handle * invocation); e_evaluating : bool }.

Inductive event :=
| EvSlot (src : option (nat * gidx)) (direct : bool) (label : nat) (args : list Z)
      (* a user callable ran with these values.  GHOST (not observable in the code): src = the (Impl, id) of the
         connection it belongs to; direct = called from Impl::emit (true) or from an evaluation pass (false) *)
| EvAdded (ev : nat)                        (* ConnectionEvaluator::onInvocationAdded hook *)
| EvBool (b : bool)                         (* value returned by a query / block call *)
| EvDone (r : option exn).                  (* a top-level operation finished *)

Inductive op :=
| OSigNew (s kind : nat) | OSigDel (s : nat)
| OSigMoveCtor (src dst : nat) | OSigMoveAssign (dst src : nat)
| OConnect (s h label arity : nat) (bound : list Z) (script : nat)
| OConnectR (s h label script selfvar : nat)
| OConnect1 (s h label script : nat)
| OConnectD (s h label script ev : nat)
| OEmit (s : nat) (args : list Z)
| ODiscH (h : nat) | ODiscS (s h : nat) | ODiscAll (s : nat)
| OBlockH (h : nat) (b : bool) | OBlockS (s h : nat) (b : bool)
| OIsBlockedH (h : nat) | OIsBlockedS (s h : nat)
| OActive (h : nat) | OBelongs (h s : nat) | OHEq (h1 h2 : nat)
| OHCopy (src dst : nat) | OHNew (h : nat)
| OScNew (c h : nat) | OScAssign (c h : nat) | OScMove (src dst : nat) | OScMoveCtor (src dst : nat) | OScDrop (c : nat)
| OBlNew (b h : nat) | OBlDrop (b : nat)
| OEvNew (e : nat) | OEvDrop (e : nat) | OEval (e : nat)
(* composite calls of the harness: "if (h.isActive()) ..." / "if (h.belongsTo(s)) ..." around the plain call *)
| OTryBlockH (h : nat) (b : bool) | OTryIsBlockedH (h : nat) | ODiscSSafe (s h : nat) | OTryBlNew (b h : nat).

Record world := {
  w_impls : list impl;
  w_sigs : nmap (option nat);          (* Signal object -> m_impl *)
  w_handles : nmap handle;
  w_scoped : nmap handle;              (* ScopedConnection -> m_connection *)
  w_blockers : nmap (handle * bool);   (* ConnectionBlocker -> (m_handle, m_wasBlocked) *)
  w_evs : nmap evst;
  w_trace : list event }.              (* newest first *)

Definition world0 : world :=
  {| w_impls := []; w_sigs := []; w_handles := []; w_scoped := []; w_blockers := []; w_evs := []; w_trace := [] |}.

Definition set_impls (w : world) (x : list impl) : world :=
  {| w_impls := x; w_sigs := w_sigs w; w_handles := w_handles w; w_scoped := w_scoped w;
     w_blockers := w_blockers w; w_evs := w_evs w; w_trace := w_trace w |}.
Definition set_sigs (w : world) (x : nmap (option nat)) : world :=
  {| w_impls := w_impls w; w_sigs := x; w_handles := w_handles w; w_scoped := w_scoped w;
     w_blockers := w_blockers w; w_evs := w_evs w; w_trace := w_trace w |}.
Definition set_handles (w : world) (x : nmap handle) : world :=
  {| w_impls := w_impls w; w_sigs := w_sigs w; w_handles := x; w_scoped := w_scoped w;
     w_blockers := w_blockers w; w_evs := w_evs w; w_trace := w_trace w |}.
Definition set_scoped (w : world) (x : nmap handle) : world :=
  {| w_impls := w_impls w; w_sigs := w_sigs w; w_handles := w_handles w; w_scoped := x;
     w_blockers := w_blockers w; w_evs := w_evs w; w_trace := w_trace w |}.
Definition set_blockers (w : world) (x : nmap (handle * bool)) : world :=
  {| w_impls := w_impls w; w_sigs := w_sigs w; w_handles := w_handles w; w_scoped := w_scoped w;
     w_blockers := x; w_evs := w_evs w; w_trace := w_trace w |}.
Definition set_evs (w : world) (x : nmap evst) : world :=
  {| w_impls := w_impls w; w_sigs := w_sigs w; w_handles := w_handles w; w_scoped := w_scoped w;
     w_blockers := w_blockers w; w_evs := x; w_trace := w_trace w |}.
Definition log (e : event) (w : world) : world :=
  {| w_impls := w_impls w; w_sigs := w_sigs w; w_handles := w_handles w; w_scoped := w_scoped w;
     w_blockers := w_blockers w; w_evs := w_evs w; w_trace := e :: w_trace w |}.

Definition res : Type := world * option exn.
Definition ok (w : world) : res := (w, None).
Definition throw (w : world) (e : exn) : res := (w, Some e).

(* ---------- heap of Impl objects ---------- *)
Definition get_impl (w : world) (i : nat) : option impl := nth_error (w_impls w) i.
Definition put_impl (w : world) (i : nat) (m : impl) : world := set_impls w (upd (w_impls w) i m).
(* weak_ptr<SignalImplBase>::lock() *)
Definition lock (w : world) (oi : option nat) : option nat :=
  match oi with
  | Some i => match get_impl w i with
              | Some m => if i_alive m then Some i else None
              | None => None end
  | None => None
  end.

(* ConnectionHandle::operator== *)
Definition handle_eqb (w : world) (a b : handle) : bool :=
  match lock w (h_impl a), lock w (h_impl b) with
  | Some x, Some y => Nat.eqb x y && opt_eqb gidx_eqb (h_id a) (h_id b)
  | None, None => match h_id a, h_id b with None, None => true | _, _ => false end
  | _, _ => false
  end.

(* ConnectionHandle::checkedLock *)
Definition checked_lock (w : world) (h : handle) : option (nat * gidx) :=
  match h_id h with
  | Some k => match lock w (h_impl h) with
              | Some i => match get_impl w i with
                          | Some m => match g_get (i_conns m) k with Some _ => Some (i, k) | None => None end
                          | None => None end
              | None => None end
  | None => None
  end.

(* ---------- ConnectionEvaluator (sequential behaviour) ---------- *)
Definition ev_alive (w : world) (e : nat) : bool :=
  match lookup (w_evs w) e with Some s => e_alive s | None => false end.

(* dequeueSlotInvocation(handle) for handle = (impl i, id k) *)
Definition ev_dequeue (w : world) (e : nat) (h : handle) : world :=
  match lookup (w_evs w) e with
  | Some s =>
      if negb (e_alive s) then w else
      if e_evaluating s then w else
      set_evs w (bind_key (w_evs w) e
        {| e_alive := true;
           e_queue := filter (fun p => negb (handle_eqb w (fst p) h)) (e_queue s);
           e_evaluating := false |})
  | None => w
  end.

(* enqueueSlotInvocation + onInvocationAdded *)
Definition ev_enqueue (w : world) (e : nat) (h : handle) (v : invocation) : world :=
  match lookup (w_evs w) e with
  | Some s => log (EvAdded e)
               (set_evs w (bind_key (w_evs w) e
                  {| e_alive := e_alive s; e_queue := e_queue s ++ [(h, v)]; e_evaluating := e_evaluating s |}))
  | None => w
  end.

(* ---------- Signal::Impl ---------- *)
(* Impl::disconnect(handle) where handle.m_id = Some k, executed on impl i *)
Definition impl_disconnect (w : world) (i : nat) (k : gidx) : world :=
  match get_impl w i with
  | None => w
  | Some m =>
      match g_get (i_conns m) k with
      | Some c =>
          if i_emitting m then
            put_impl w i (impl_with_flags (impl_with_conns m (g_update (i_conns m) k (conn_set_tbd c))) true true)
          else
            let w1 := match c_kind c with
                      | KDeferred e => if ev_alive w e
                                       then ev_dequeue w e {| h_impl := Some i; h_id := Some k |} else w
                      | _ => w end in
            put_impl w1 i (impl_with_conns m (g_erase (i_conns m) k))
      | None => put_impl w i (impl_with_conns m (g_erase (i_conns m) k))
      end
  end.

(* visit the entry positions [idxs]; at each live entry satisfying [p], disconnect it *)
Fixpoint disconnect_where (p : conn -> bool) (w : world) (i : nat) (idxs : list nat) : world :=
  match idxs with
  | [] => w
  | x :: r =>
      let w' := match get_impl w i with
                | Some m => match g_indexAt (i_conns m) x with
                            | Some k => match g_get (i_conns m) k with
                                        | Some c => if p c then impl_disconnect w i k else w
                                        | None => w end
                            | None => w end
                | None => w end in
      disconnect_where p w' i r
  end.

(* Impl::disconnectAll *)
Definition impl_disconnect_all (w : world) (i : nat) : world :=
  match get_impl w i with
  | Some m => disconnect_where (fun _ => true) w i (seq 0 (g_size (i_conns m)))
  | None => w
  end.

(* a Signal lets go of its Impl (m_impl.reset()): the Impl dies unless an emission still owns it *)
Definition release_owner (w : world) (i : nat) : world :=
  match get_impl w i with
  | Some m => put_impl w i (impl_with_owner m false (i_emitting m))
  | None => w
  end.

(* Signal::disconnectAll *)
Definition sig_disconnect_all (w : world) (s : nat) : world :=
  match lookup (w_sigs w) s with
  | Some (Some i) =>
      let w1 := impl_disconnect_all w i in
      let w2 := release_owner w1 i in
      set_sigs w2 (bind_key (w_sigs w2) s None)
  | _ => w
  end.

(* Impl::finishEmit(numEntries), followed by the release of Signal::emit's local owner.
   (The code clears m_disconnectedDuringEmit before the sweep, the model after it: nothing reads the flag
   in between, and this way "a marked entry implies the flag" holds in every intermediate state.) *)
Definition finish_emit (w : world) (i : nat) (n : nat) : world :=
  match get_impl w i with
  | None => w
  | Some m =>
      let w1 := put_impl w i (impl_with_flags m false (i_dde m)) in
      let w2 := if i_dde m then disconnect_where c_tbd w1 i (seq 0 n) else w1 in
      match get_impl w2 i with
      | Some m2 => put_impl w2 i (impl_with_owner (impl_with_flags m2 false false) (i_owned m2) (i_owned m2))
      | None => w2
      end
  end.

(* ConnectionHandle::disconnect on a handle value (the caller then empties its weak_ptr) *)
Definition handle_disconnect (w : world) (h : handle) : world :=
  match checked_lock w h with
  | Some (i, k) => impl_disconnect w i k
  | None => w
  end.

(* Impl::blockConnection *)
Definition impl_block (w : world) (i : nat) (k : gidx) (b : bool) : world * option bool :=
  match get_impl w i with
  | Some m => match g_get (i_conns m) k with
              | Some c => (put_impl w i (impl_with_conns m (g_update (i_conns m) k (conn_set_blocked c b))),
                           Some (c_blocked c))
              | None => (w, None) end
  | None => (w, None)
  end.
Definition impl_is_blocked (w : world) (i : nat) (k : gidx) : option bool :=
  match get_impl w i with
  | Some m => match g_get (i_conns m) k with Some c => Some (c_blocked c) | None => None end
  | None => None
  end.

(* ConnectionHandle::belongsTo(signal) *)
Definition belongs (w : world) (h : handle) (s : nat) : bool :=
  match lock w (h_impl h), lookup (w_sigs w) s with
  | Some i, Some (Some j) => Nat.eqb i j
  | _, _ => false
  end.

(* values handed to the user callable: bound values, then as many leading emitted values as it still needs *)
Definition adapt (arity : nat) (bound : list Z) (args : list Z) : list Z :=
  bound ++ firstn (arity - length bound) args.

Section Exec.
  Variable tbl : nat -> list op.       (* slot bodies *)
  Variable pass_fuel : nat.            (* bound on the number of invocations one evaluation pass may run *)

  Section Body.
    (* run the body of a slot: the same interpreter with one unit of depth fuel less *)
    Variable rec_script : world -> nat -> res.

    Definition invoke_slot (w : world) (src : option (nat * gidx)) (direct : bool) (label : nat) (args : list Z) (sid : nat) : res :=
      rec_script (log (EvSlot src direct label args) w) sid.

    (* the call made by Impl::emit for one unblocked connection *)
    Definition fire (w : world) (i : nat) (k : gidx) (c : conn) (args : list Z) : res :=
      match c_kind c with
      | KPlain => invoke_slot w (Some (i, k)) true (c_label c) (adapt (c_arity c) (c_bound c) args) (c_script c)
      | KReflective v =>
          let w1 := set_handles w (bind_key (w_handles w) v {| h_impl := Some i; h_id := Some k |}) in
          invoke_slot w1 (Some (i, k)) true (c_label c) args (c_script c)
      | KSingle =>
          let w1 := handle_disconnect w {| h_impl := Some i; h_id := Some k |} in
          invoke_slot w1 (Some (i, k)) true (c_label c) args (c_script c)
      | KDeferred e =>
          if ev_alive w e
          then ok (ev_enqueue w e {| h_impl := Some i; h_id := Some k |}
                     {| v_label := c_label c; v_args := args; v_script := c_script c |})
          else throw w ExEvaluatorGone
      end.

    (* the loop of Impl::emit over the entry positions captured before the loop *)
    Fixpoint walk (w : world) (i : nat) (args : list Z) (idxs : list nat) : res :=
      match idxs with
      | [] => ok w
      | x :: r =>
          match get_impl w i with
          | None => throw w ExUB
          | Some m =>
              match g_indexAt (i_conns m) x with
              | None => walk w i args r
              | Some k =>
                  match g_get (i_conns m) k with
                  | None => walk w i args r
                  | Some c =>
                      (* blocked, or disconnected earlier in this very emission (only marked: the entry goes when the emission ends) *)
                      if c_blocked c || c_tbd c then walk w i args r else
                      match fire w i k c args with
                      | (w', None) => walk w' i args r
                      | (w', Some e) => (w', Some e)
                      end
                  end
              end
          end
      end.

    (* Signal::emit -> Impl::emit, with the scope guard calling finishEmit *)
    Definition sig_emit (w : world) (s : nat) (args : list Z) : res :=
      match lookup (w_sigs w) s with
      | None => throw w ExBadScript
      | Some None => ok w
      | Some (Some i) =>
          match get_impl w i with
          | None => throw w ExBadScript
          | Some m =>
              if i_emitting m then throw w ExAlreadyEmitting else
              let n := g_size (i_conns m) in
              (* Signal::emit's local shared_ptr: the Impl is alive for the duration of the call *)
              let w1 := put_impl w i (impl_with_owner (impl_with_flags m true (i_dde m)) (i_owned m) true) in
              let '(w2, e) := walk w1 i args (seq 0 n) in
              (finish_emit w2 i n, e)
          end
      end.

    (* the index loop of evaluateDeferredConnections *)
    Fixpoint pass_loop (fuel : nat) (w : world) (e : nat) (pos : nat) : res :=
      match fuel with
      | O => throw w ExOutOfFuel
      | S f =>
          match lookup (w_evs w) e with
          | None => throw w ExBadScript
          | Some s =>
              match nth_error (e_queue s) pos with
              | None => ok w
              | Some (h, v) =>
                  match invoke_slot w (handle_src h) false (v_label v) (v_args v) (v_script v) with
                  | (w', None) => pass_loop f w' e (S pos)
                  | (w', Some x) => (w', Some x)
                  end
              end
          end
      end.

    Definition ev_finish (w : world) (e : nat) : world :=
      match lookup (w_evs w) e with
      | Some s => set_evs w (bind_key (w_evs w) e {| e_alive := e_alive s; e_queue := []; e_evaluating := false |})
      | None => w
      end.

    (* ConnectionEvaluator::evaluateDeferredConnections *)
    Definition eval_pass (w : world) (e : nat) : res :=
      match lookup (w_evs w) e with
      | None => throw w ExBadScript
      | Some s =>
          if negb (e_alive s) then throw w ExBadScript else
          if e_evaluating s then ok w else
          let w1 := set_evs w (bind_key (w_evs w) e
                      {| e_alive := true; e_queue := e_queue s; e_evaluating := true |}) in
          let '(w2, x) := pass_loop pass_fuel w1 e 0 in
          (ev_finish w2 e, x)
      end.

    (* Signal::ensureImpl *)
    Definition ensure_impl (w : world) (s : nat) : option (world * nat) :=
      match lookup (w_sigs w) s with
      | None => None
      | Some (Some i) => Some (w, i)
      | Some None =>
          let i := length (w_impls w) in
          let w1 := set_impls w (w_impls w ++ [impl_new]) in
          Some (set_sigs w1 (bind_key (w_sigs w1) s (Some i)), i)
      end.

    Definition do_connect (w : world) (s h : nat) (c : conn) : res :=
      match ensure_impl w s with
      | None => throw w ExBadScript
      | Some (w1, i) =>
          match get_impl w1 i with
          | None => throw w ExBadScript
          | Some m =>
              (* connecting to a signal from one of its own slots is documented as undefined *)
              if i_emitting m then throw w ExUB else
              (* the 32-bit generation counter wraps after 2^32 ids: outside every theorem (known finding KF-C12-wrap) *)
              if negb (N.ltb (N.of_nat (length (i_issued m)) + 1) W) then throw w ExWrap else
              let '(g, k) := g_insert (i_conns m) c in
              let w2 := put_impl w1 i (impl_issue m g k) in
              ok (set_handles w2 (bind_key (w_handles w2) h {| h_impl := Some i; h_id := Some k |}))
          end
      end.

    Definition mkconn (label : nat) (kind : ckind) (arity : nat) (bound : list Z) (script : nat) : conn :=
      {| c_label := label; c_kind := kind; c_arity := arity; c_bound := bound; c_script := script;
         c_blocked := false; c_tbd := false |}.

    Definition with_handle (w : world) (h : nat) (f : handle -> res) : res :=
      match lookup (w_handles w) h with Some hd => f hd | None => throw w ExBadScript end.

    Definition logb (w : world) (b : bool) : res := ok (log (EvBool b) w).

    (* one library call *)
    Definition step1 (w : world) (o : op) : res :=
      match o with
      | OSigNew s _ =>
          (* a script names each signal variable once while it lives (the generator re-creates a variable only after `sigdel`);
             re-creating a live variable - which delta debugging can produce - is not a legal script *)
          match lookup (w_sigs w) s with
          | Some _ => throw w ExBadScript
          | None => ok (set_sigs w (bind_key (w_sigs w) s None))
          end
      | OSigDel s =>
          match lookup (w_sigs w) s with
          | None => throw w ExBadScript
          | Some _ => let w1 := sig_disconnect_all w s in ok (set_sigs w1 (remove_key (w_sigs w1) s))
          end
      | OSigMoveCtor src dst =>
          match lookup (w_sigs w) src with
          | None => throw w ExBadScript
          | Some x => ok (set_sigs w (bind_key (bind_key (w_sigs w) src None) dst x))
          end
      | OSigMoveAssign dst src =>
          match lookup (w_sigs w) dst, lookup (w_sigs w) src with
          | Some _, Some _ =>
              if Nat.eqb dst src then ok w else
              let w1 := sig_disconnect_all w dst in
              match lookup (w_sigs w1) src with
              | Some x => ok (set_sigs w1 (bind_key (bind_key (w_sigs w1) src None) dst x))
              | None => throw w1 ExBadScript
              end
          | _, _ => throw w ExBadScript
          end
      | OConnect s h label arity bound script => do_connect w s h (mkconn label KPlain arity bound script)
      | OConnectR s h label script v => do_connect w s h (mkconn label (KReflective v) 0 [] script)
      | OConnect1 s h label script => do_connect w s h (mkconn label KSingle 0 [] script)
      | OConnectD s h label script e => do_connect w s h (mkconn label (KDeferred e) 0 [] script)
      | OEmit s args => sig_emit w s args
      | ODiscH h =>
          with_handle w h (fun hd =>
            let w1 := handle_disconnect w hd in
            ok (set_handles w1 (bind_key (w_handles w1) h (handle_moved_from hd))))
      | ODiscS s h =>
          with_handle w h (fun hd =>
            match lookup (w_sigs w) s with
            | None => throw w ExBadScript
            | Some oi =>
                match oi, h_id hd with
                | Some i, Some k => if belongs w hd s then ok (impl_disconnect w i k) else throw w ExOutOfRange
                | _, _ => throw w ExOutOfRange
                end
            end)
      | ODiscAll s =>
          match lookup (w_sigs w) s with
          | None => throw w ExBadScript
          | Some _ => ok (sig_disconnect_all w s)
          end
      | OBlockH h b =>
          with_handle w h (fun hd =>
            match checked_lock w hd with
            | Some (i, k) => match impl_block w i k b with
                             | (w1, Some was) => logb w1 was
                             | (w1, None) => throw w1 ExOutOfRange end
            | None => throw w ExOutOfRange
            end)
      | OBlockS s h b =>
          with_handle w h (fun hd =>
            match lookup (w_sigs w) s with
            | None => throw w ExBadScript
            | Some oi =>
                match oi, h_id hd with
                | Some i, Some k =>
                    if belongs w hd s then
                      match impl_block w i k b with
                      | (w1, Some was) => logb w1 was
                      | (w1, None) => throw w1 ExOutOfRange end
                    else throw w ExOutOfRange
                | _, _ => throw w ExOutOfRange
                end
            end)
      | OIsBlockedH h =>
          with_handle w h (fun hd =>
            match checked_lock w hd with
            | Some (i, k) => match impl_is_blocked w i k with Some b => logb w b | None => throw w ExOutOfRange end
            | None => throw w ExOutOfRange
            end)
      | OIsBlockedS s h =>
          with_handle w h (fun hd =>
            match lookup (w_sigs w) s with
            | None => throw w ExBadScript
            | Some oi =>
                match oi with
                | Some i =>
                    if belongs w hd s then
                      match h_id hd with
                      | Some k => match impl_is_blocked w i k with Some b => logb w b | None => throw w ExOutOfRange end
                      | None => logb w false
                      end
                    else throw w ExOutOfRange
                | None => throw w ExOutOfRange
                end
            end)
      | OActive h =>
          with_handle w h (fun hd => logb w (match checked_lock w hd with Some _ => true | None => false end))
      | OBelongs h s =>
          with_handle w h (fun hd =>
            match lookup (w_sigs w) s with
            | None => throw w ExBadScript
            | Some _ => logb w (belongs w hd s)
            end)
      | OHEq h1 h2 =>
          with_handle w h1 (fun a => with_handle w h2 (fun b => logb w (handle_eqb w a b)))
      | OHCopy src dst =>
          with_handle w src (fun hd => ok (set_handles w (bind_key (w_handles w) dst hd)))
      | OHNew h => ok (set_handles w (bind_key (w_handles w) h handle_default))
      | OScNew c h =>
          (* a live scoped-connection variable is re-used through `scassign` only: constructing over it is not a legal script *)
          with_handle w h (fun hd =>
            match lookup (w_scoped w) c with
            | Some _ => throw w ExBadScript
            | None =>
                let w1 := set_scoped w (bind_key (w_scoped w) c hd) in
                ok (set_handles w1 (bind_key (w_handles w1) h (handle_moved_from hd)))
            end)
      | OScAssign c h =>
          with_handle w h (fun hd =>
            match lookup (w_scoped w) c with
            | None => ok w      (* the harness skips operations on scoped connections that do not exist *)
            | Some old =>
                let w1 := handle_disconnect w old in
                let w2 := set_scoped w1 (bind_key (w_scoped w1) c hd) in
                ok (set_handles w2 (bind_key (w_handles w2) h (handle_moved_from hd)))
            end)
      | OScMove src dst =>
          match lookup (w_scoped w) src, lookup (w_scoped w) dst with
          | Some a, Some old =>
              if Nat.eqb src dst then ok w else
              let w1 := handle_disconnect w old in
              ok (set_scoped w1 (bind_key (bind_key (w_scoped w1) src (handle_moved_from a)) dst a))
          | _, _ => ok w
          end
      | OScMoveCtor src dst =>
          match lookup (w_scoped w) src, lookup (w_scoped w) dst with
          | Some a, None => ok (set_scoped w (bind_key (bind_key (w_scoped w) src (handle_moved_from a)) dst a))
          | Some _, Some _ => throw w ExBadScript      (* move CONSTRUCTION needs a new variable *)
          | None, _ => ok w
          end
      | OScDrop c =>
          match lookup (w_scoped w) c with
          | Some a => let w1 := handle_disconnect w a in ok (set_scoped w1 (remove_key (w_scoped w1) c))
          | None => ok w   (* the harness ignores the expiry of a scoped connection that does not exist *)
          end
      | OBlNew b h =>
          with_handle w h (fun hd =>
            match checked_lock w hd with
            | Some (i, k) => match impl_block w i k true with
                             | (w1, Some was) => ok (set_blockers w1 (bind_key (w_blockers w1) b (hd, was)))
                             | (w1, None) => throw w1 ExOutOfRange end
            | None => throw w ExOutOfRange
            end)
      | OBlDrop b =>
          match lookup (w_blockers w) b with
          | Some (hd, was) =>
              let w1 := match checked_lock w hd with
                        | Some (i, k) => fst (impl_block w i k was)
                        | None => w end in
              ok (set_blockers w1 (remove_key (w_blockers w1) b))
          | None => ok w
          end
      | OEvNew e =>
          match lookup (w_evs w) e with
          | Some _ => throw w ExBadScript      (* evaluator names are never reused *)
          | None => ok (set_evs w (bind_key (w_evs w) e {| e_alive := true; e_queue := []; e_evaluating := false |}))
          end
      | OEvDrop e =>
          match lookup (w_evs w) e with
          | Some s => if e_evaluating s then throw w ExUB
                      else ok (set_evs w (bind_key (w_evs w) e {| e_alive := false; e_queue := []; e_evaluating := false |}))
          | None => throw w ExBadScript
          end
      | OEval e => eval_pass w e
      | OTryBlockH h b =>
          with_handle w h (fun hd =>
            match checked_lock w hd with
            | Some (i, k) => match impl_block w i k b with
                             | (w1, Some was) => logb w1 was
                             | (w1, None) => throw w1 ExOutOfRange end
            | None => ok w
            end)
      | OTryIsBlockedH h =>
          with_handle w h (fun hd =>
            match checked_lock w hd with
            | Some (i, k) => match impl_is_blocked w i k with Some b => logb w b | None => throw w ExOutOfRange end
            | None => ok w
            end)
      | ODiscSSafe s h =>
          with_handle w h (fun hd =>
            match lookup (w_sigs w) s with
            | None => throw w ExBadScript
            | Some oi =>
                if belongs w hd s then
                  match oi, h_id hd with
                  | Some i, Some k => ok (impl_disconnect w i k)
                  | _, _ => throw w ExOutOfRange
                  end
                else ok w
            end)
      | OTryBlNew b h =>
          with_handle w h (fun hd =>
            match checked_lock w hd with
            | Some (i, k) => match impl_block w i k true with
                             | (w1, Some was) => ok (set_blockers w1 (bind_key (w_blockers w1) b (hd, was)))
                             | (w1, None) => throw w1 ExOutOfRange end
            | None => ok w
            end)
      end.

    Fixpoint run_ops (w : world) (ops : list op) : res :=
      match ops with
      | [] => ok w
      | o :: r => match step1 w o with
                  | (w', None) => run_ops w' r
                  | (w', Some e) => (w', Some e)
                  end
      end.
  End Body.

  (* slot bodies: depth fuel decreases each time a slot is entered *)
  Fixpoint script (fuel : nat) (w : world) (sid : nat) : res :=
    match fuel with
    | O => throw w ExOutOfFuel
    | S f => run_ops (script f) w (tbl sid)
    end.

  (* one top-level call of the user program *)
  Definition step (fuel : nat) (w : world) (o : op) : world :=
    let '(w', r) := step1 (script fuel) w o in log (EvDone r) w'.

  Definition run (fuel : nat) (ops : list op) : world := fold_left (step fuel) ops world0.
End Exec.

(* labels of user callables the library still holds a copy of (connection tables and evaluator queues) *)
Definition held_labels (w : world) : list nat :=
  flat_map (fun m => if i_alive m then map (fun p => c_label (snd p)) (g_live (i_conns m)) else []) (w_impls w)
  ++ flat_map (fun p => if e_alive (snd p) then map (fun q => v_label (snd q)) (e_queue (snd p)) else []) (w_evs w).
